"""C14 - priors: proof obligations + correspondence of coq/C14/Model.v with holopy.core.prior
(constructors, guess, scale, lnprob/prob, ComplexPrior, operator/ufunc expression trees, samplers on
recorded base draws, updated/generate_guess) + direct exploration (exp(lnprob)=prob, support,
quadrature, seeded sampler/density agreement).

Numbers: every float the implementation received or returned enters Coq as its exact rational.
ln / exp / sqrt(2 pi) / pow / sqrt are ORACLE leaves: the model computes the ARGUMENT exactly in Q, a
keyed table (built here with Python's math, independent of holopy/numpy) returns the value iff the
argument is the expected one (relative 1e-9), otherwise a sentinel -> mismatch.  A second, oracle-free
stage states enclosure goals on the R model itself and discharges them with Coq-Interval."""
import math
import operator
import re
from fractions import Fraction

from harness.lib import boot
from harness.lib.coqrun import qlit, zlit, blit, listlit, run_mismatch_cases, eval_files
from harness.lib.ctx import guarded

REQ = "From HV Require Import Common.Generic Common.Cmp C14.Model.\nOpen Scope Q_scope.\n"
DEFS = """
Definition SENT : Q := (-424242 # 1).
Definition keyclose (x k : Q) : bool := Qle_bool (Qabs' (x - k)) ((1 # 1000000000) * Qabs' k).
Definition tab (l : list (Q * Q)) (x : Q) : Q :=
  match find (fun p => keyclose x (fst p)) l with Some p => snd p | None => SENT end.
Definition tab2 (l : list (Q * Q * Q)) (x y : Q) : Q :=
  match find (fun p => keyclose x (fst (fst p)) && keyclose y (snd (fst p))) l with
  | Some p => snd p | None => SENT end.
Definition u1_eqb (a b : ufunc1) : bool :=
  match a, b with UNeg, UNeg | USquare, USquare | UAbs, UAbs | URecip, URecip | USqrt, USqrt
  | UExp, UExp | ULog, ULog => true | _, _ => false end.
Definition trtab (l : list (ufunc1 * Q * Q)) (u : ufunc1) (x : Q) : Q :=
  match find (fun p => u1_eqb u (fst (fst p)) && keyclose x (snd (fst p))) l with
  | Some p => snd p | None => SENT end.
Definition qrel (tol a b : Q) : bool := Qle_bool (Qabs' (a - b)) (tol * Qabs' b).
Definition T9 : Q := 1 # 1000000000.
Definition T12 : Q := 1 # 1000000000000.
Definition oclose (tol : Q) := option_eqb (qclose tol).
Definition olist_close (tol : Q) := list_eqb (oclose tol).
Definition rlist_close (tol : Q) := list_eqb (qrel tol).
Definition nopw (x y : Q) : Q := SENT.
Definition notr (u : ufunc1) (x : Q) : Q := SENT.
Definition envof (l : list Q) (i : Z) : Q := nth (Z.to_nat i) l SENT.
Definition is_paramspec {A} (r : res A) : bool := match r with Err ParamSpec => true | _ => false end.
"""

INF = float("inf")
S2PI = math.sqrt(2 * math.pi)
KNOWN_OOB = "boundedgaussian:sample-oob"


# --- literals -----------------------------------------------------------------------------------
def eb(x):
    if x == INF:
        return "PosInf"
    if x == -INF:
        return "NegInf"
    return "(Fin %s)" % qlit(x)


def optq(x):
    return "None" if x is None else "(Some %s)" % qlit(x)


def lnp_lit(v):
    v = float(v)
    return "None" if v == -INF else "(Some %s)" % qlit(v)


def qlist(xs):
    return listlit([qlit(float(x)) for x in xs])


def tablit(entries):
    return listlit(["(%s, %s)" % (qlit(k), qlit(v)) for k, v in entries])


def fr(x):
    return Fraction(x) if isinstance(x, int) else Fraction(*float(x).as_integer_ratio())


def errkind(e):
    n = type(e).__name__
    return {"ParameterSpecificationError": "ParamSpec", "TypeError": "TypeErr",
            "ZeroDivisionError": "ZeroDiv", "NotImplementedError": "NotImpl"}.get(n, "Other:" + n)


# --- generators ---------------------------------------------------------------------------------
def dyd(rng, kmin=-24, kmax=24, signed=True):
    """small-mantissa dyadic spread over many decades"""
    v = rng.randint(1, 127) * 2.0 ** rng.randint(kmin, kmax)
    return -v if signed and rng.random() < 0.4 else v


def gen_bounds(rng):
    mode = rng.random()
    if mode < 0.55:
        lo = rng.choice([0.0, dyd(rng), dyd(rng, -6, 6), float(rng.randint(-5, 5))])
        hi = lo + dyd(rng, -20, 20, signed=False)
        if rng.random() < 0.15:
            lo, hi = int(rng.randint(-4, 4)), None
            hi = lo + rng.randint(1, 9)
        return lo, hi
    if mode < 0.67:
        return dyd(rng, -8, 8), INF
    if mode < 0.79:
        return -INF, dyd(rng, -8, 8)
    if mode < 0.84:
        return -INF, INF
    # malformed: lower >= upper
    x = dyd(rng, -8, 8)
    return rng.choice([(x, x), (x, x - dyd(rng, -8, 8, signed=False)), (INF, INF), (-INF, -INF),
                       (INF, -INF), (x, -INF), (INF, x), (x, math.nextafter(x, -INF))])


def inside(rng, lo, hi):
    if lo > -INF and hi < INF:
        t = rng.randint(1, 63) / 64.0
        v = lo + (hi - lo) * t
        return min(max(v, lo), hi)
    if lo > -INF:
        return lo + dyd(rng, -6, 10, signed=False)
    if hi < INF:
        return hi - dyd(rng, -6, 10, signed=False)
    return dyd(rng, -6, 10)


def probe_points(rng, lo, hi, extra=()):
    pts = list(extra)
    if lo > -INF:
        pts += [lo, math.nextafter(lo, -INF), lo - abs(lo) - 1.0]
    if hi < INF:
        pts += [hi, math.nextafter(hi, INF), hi + abs(hi) + 1.0]
    if lo < hi:
        pts += [inside(rng, lo, hi) for _ in range(3)]
    pts += [0.0, dyd(rng, -10, 10)]
    return [float(p) for p in pts]


# --- stage: Uniform -----------------------------------------------------------------------------
def stage_uniform(ctx):
    from holopy.core.prior import Uniform
    rng = ctx.subrng("uniform")
    exprs, metas = [], []
    for k in range(ctx.n(150, 2500)):
        lo, hi = gen_bounds(rng)
        gm = rng.random()
        ok_bounds = lo < hi
        if gm < 0.4:
            guess = None
        elif gm < 0.6 and ok_bounds:
            guess = inside(rng, lo, hi)
        elif gm < 0.72 and ok_bounds:
            guess = rng.choice([b for b in (lo, hi) if abs(b) < INF] or [0.0])
        elif gm < 0.8 and ok_bounds and lo <= 0 <= hi:
            guess = rng.choice([0.0, 5e-13, -5e-13 if lo < 0 else 0.0, 2e-12])
        else:
            fin = [b for b in (lo, hi) if abs(b) < INF] or [0.0]
            guess = rng.choice([math.nextafter(fin[0], -INF), math.nextafter(fin[-1], INF),
                                fin[-1] + dyd(rng, -4, 8, signed=False), fin[0] - dyd(rng, -4, 8, signed=False)])
        meta = dict(kind="uniform", lo=lo, hi=hi, guess=guess)
        try:
            u = Uniform(lo, hi, guess)
            got = "Ok"
        except Exception as e:  # noqa
            got = errkind(e)
        ctx.count("uniform:ctor:" + got)
        ctx.count("uniform:bounds:%s" % ("malformed" if not ok_bounds else "finite" if abs(lo) < INF and abs(hi) < INF
                                         else "improper"))
        finite = abs(lo) < INF and abs(hi) < INF and ok_bounds
        lntab = []
        if finite:
            key = 1 / (fr(hi) - fr(lo))
            lntab = [(key, math.log(float(key)))]
        ctor = "(uniform_ctor QO (tab %s) %s %s %s)" % (tablit(lntab), eb(lo), eb(hi), optq(guess))
        if got != "Ok":
            if got != "ParamSpec":
                ctx.disagree("corr:uniform:ctor", "Uniform(%r, %r, %r) raised %s" % (lo, hi, guess, got),
                             dict(meta, impl=got))
                continue
            exprs.append("is_paramspec %s" % ctor)
            metas.append(dict(meta, what="ctor", impl=got))
            ctx.nontriv(("u-rej", lo >= hi if lo == lo else None, guess is None))
            continue
        pts = probe_points(rng, lo, hi, extra=[u.guess])
        lnp = [float(u.lnprob(p)) for p in pts]
        pr = [float(u.prob(p)) for p in pts]
        x = dyd(rng, -10, 10)
        sc, usc = float(u.scale(x)), float(u.unscale(x))
        exprs.append("match %s with Ok u => qclose T12 (u_guess u) %s && qclose T12 (u_scale u) %s && "
                     "qclose T12 (scale QO (u_scale u) %s) %s && qclose T12 (unscale QO (u_scale u) %s) %s "
                     "| Err _ => false end" % (ctor, qlit(float(u.guess)), qlit(float(u.scale_factor)),
                                               qlit(x), qlit(sc), qlit(x), qlit(usc)))
        metas.append(dict(meta, what="ctor", impl=dict(guess=float(u.guess), scale_factor=float(u.scale_factor),
                                                        x=x, scale=sc, unscale=usc)))
        exprs.append("match %s with Ok u => olist_close T9 (map (uniform_lnprob QO u) %s) %s | Err _ => false end"
                     % (ctor, qlist(pts), listlit([lnp_lit(v) for v in lnp])))
        metas.append(dict(meta, what="lnprob", points=pts, impl=lnp))
        exprs.append("match %s with Ok u => rlist_close T9 (map (uniform_prob QO u) %s) %s | Err _ => false end"
                     % (ctor, qlist(pts), qlist(pr)))
        metas.append(dict(meta, what="prob", points=pts, impl=pr))
        ctx.nontriv(("u", finite, guess is None, abs(u.guess) > 1e-12, lo > -INF, hi < INF))
        # direct: exp(lnprob) = prob for proper priors, zero outside, guess inside, scale inverse
        for p, l, q in zip(pts, lnp, pr):
            ctx.explored += 1
            out = p < lo or p > hi
            if out and (q != 0 or l != -INF):
                ctx.violation("uniform:outside-support", "Uniform density not zero outside the support",
                              dict(kind="direct", prior=meta, p=p, prob=q, lnprob=l))
            if finite and not out and abs(math.exp(l) - q) > 1e-12 * q:
                ctx.violation("uniform:exp-lnprob", "exp(lnprob) != prob for a proper Uniform",
                              dict(kind="direct", prior=meta, p=p, prob=q, lnprob=l))
        if not (lo <= u.guess <= hi):
            ctx.violation("uniform:guess-support", "Uniform guess outside its support", dict(kind="direct", prior=meta, guess=float(u.guess)))
        if abs(u.unscale(u.scale(x)) - x) > 1e-12 * abs(x):
            ctx.violation("uniform:scale-inverse", "unscale(scale(x)) != x", dict(kind="direct", prior=meta, x=x))
        if k < 2:
            ctx.sample(dict(uniform=[lo, hi, guess], guess=float(u.guess), scale_factor=float(u.scale_factor),
                            points=pts[:4], lnprob=lnp[:4], prob=pr[:4]))
    _run(ctx, "C14u", exprs, metas, "uniform")


def _run(ctx, tag, exprs, metas, keyroot, keyfn=None):
    if not exprs:
        return []
    mism, errors, _ = run_mismatch_cases(tag, REQ, exprs, defs=DEFS)
    ctx.corr_cases += len(exprs)
    for e in errors:
        ctx.violation("corr-eval-error", "model evaluation failed: " + e[:300], dict(kind="coq-error", log=e), nofail=True)
    for i in mism:
        m = metas[i]
        key = keyfn(m) if keyfn else "corr:%s:%s" % (keyroot, m.get("what", ""))
        ctx.disagree(key, "model and implementation disagree on %s %s" % (keyroot, m.get("what", "")),
                     dict(m, expr=exprs[i][:4000]))
    return mism


# --- stage: Gaussian / BoundedGaussian / ComplexPrior ----------------------------------------------
def gauss_tabs(mu, sd, pts):
    lnkey = fr(sd) * fr(S2PI)
    lntab = [(lnkey, math.log(float(lnkey)))] if sd > 0 else []
    etab = []
    if sd > 0:
        for p in pts:
            z = (fr(p) - fr(mu)) / fr(sd)
            key = -(z * z) / 2
            try:
                etab.append((key, math.exp(float(key))))
            except OverflowError:
                etab.append((key, 0.0))
    return lntab, etab


def gauss_points(rng, mu, sd):
    pts = [mu, mu + sd, mu - 2 * sd, mu + rng.randint(-512, 512) / 64.0 * sd, mu + 30 * sd, 0.0]
    return [float(p) for p in pts]


def gen_gauss(rng):
    mu = rng.choice([0.0, 0.0, 5e-13, dyd(rng), dyd(rng, -6, 6), float(rng.randint(-5, 5)), rng.randint(-3, 3)])
    if rng.random() < 0.15:
        sd = rng.choice([0.0, 0, -dyd(rng, -6, 6, signed=False), -1])
    else:
        sd = rng.choice([dyd(rng, -20, 20, signed=False), dyd(rng, -4, 4, signed=False), 1, 0.5])
    return mu, sd


def stage_gaussian(ctx):
    from holopy.core.prior import Gaussian, BoundedGaussian
    rng = ctx.subrng("gauss")
    exprs, metas = [], []
    for k in range(ctx.n(150, 2500)):
        mu, sd = gen_gauss(rng)
        bounded = rng.random() < 0.55
        if bounded:
            bm = rng.random()
            w = abs(sd) if sd else 1.0
            if bm < 0.5:
                lo, hi = mu - rng.randint(0, 6) / 2.0 * w, mu + rng.randint(0, 6) / 2.0 * w
            elif bm < 0.65:
                lo, hi = rng.choice([(-INF, INF), (mu - w, INF), (-INF, mu + w), (mu, INF), (-INF, mu)])
            elif bm < 0.8:
                lo, hi = rng.choice([(mu + w, mu + 2 * w), (mu - 2 * w, mu - w), (math.nextafter(mu, INF), INF),
                                     (-INF, math.nextafter(mu, -INF))])
            else:
                lo, hi = rng.choice([(mu, mu), (INF, INF), (-INF, -INF), (mu + w, mu - w)])
            lo, hi = float(lo), float(hi)
        meta = dict(kind="bgaussian" if bounded else "gaussian", mu=mu, sd=sd)
        if bounded:
            meta.update(lo=lo, hi=hi)
        try:
            g = BoundedGaussian(mu, sd, lo, hi) if bounded else Gaussian(mu, sd)
            got = "Ok"
        except Exception as e:  # noqa
            got = errkind(e)
        ctx.count("%s:ctor:%s" % (meta["kind"], got))
        pts = gauss_points(rng, mu, sd) if sd > 0 else []
        if bounded and sd > 0:
            pts += [p for p in (lo, hi) if abs(p) < INF]
            pts += [math.nextafter(p, d) for p, d in ((lo, -INF), (hi, INF)) if abs(p) < INF]
        lntab, etab = gauss_tabs(mu, sd, pts)
        if bounded:
            ctor = "(bgaussian_ctor QO (tab %s) %s %s %s %s %s)" % (tablit(lntab), qlit(S2PI), qlit(mu), qlit(sd), eb(lo), eb(hi))
        else:
            ctor = "(gaussian_ctor QO (tab %s) %s %s %s)" % (tablit(lntab), qlit(S2PI), qlit(mu), qlit(sd))
        root = meta["kind"]
        if got != "Ok":
            if got != "ParamSpec":
                ctx.disagree("corr:%s:ctor" % root, "%s constructor raised %s" % (root, got), dict(meta, impl=got))
                continue
            exprs.append("is_paramspec %s" % ctor)
            metas.append(dict(meta, what="ctor", impl=got, root=root))
            ctx.nontriv((root, "rej", sd <= 0, bounded and (mu < lo or mu > hi), bounded and lo == hi))
            continue
        lnp = [float(g.lnprob(p)) for p in pts]
        pr = [float(g.prob(p)) for p in pts]
        x = dyd(rng, -10, 10)
        sc, usc = float(g.scale(x)), float(g.unscale(x))
        gg = "(bg_g b)" if bounded else "b"
        exprs.append("match %s with Ok b => qclose T12 (g_mu %s) %s && qclose T12 (g_scale %s) %s && "
                     "qclose T12 (scale QO (g_scale %s) %s) %s && qclose T12 (unscale QO (g_scale %s) %s) %s "
                     "| Err _ => false end" % (ctor, gg, qlit(float(g.guess)), gg, qlit(float(g.scale_factor)),
                                               gg, qlit(x), qlit(sc), gg, qlit(x), qlit(usc)))
        metas.append(dict(meta, what="ctor", root=root, impl=dict(guess=float(g.guess), scale_factor=float(g.scale_factor),
                                                                   x=x, scale=sc, unscale=usc)))
        if bounded:
            e_ln = "olist_close T9 (map (bgaussian_lnprob QO b) %s) %s" % (qlist(pts), listlit([lnp_lit(v) for v in lnp]))
            e_pr = "rlist_close T9 (map (bgaussian_prob QO (tab %s) %s b) %s) %s" % (tablit(etab), qlit(S2PI), qlist(pts), qlist(pr))
        else:
            e_ln = "qlist_close T9 (map (gaussian_lnprob QO b) %s) %s" % (qlist(pts), qlist(lnp))
            e_pr = "rlist_close T9 (map (gaussian_prob QO (tab %s) %s b) %s) %s" % (tablit(etab), qlit(S2PI), qlist(pts), qlist(pr))
        exprs.append("match %s with Ok b => %s | Err _ => false end" % (ctor, e_ln))
        metas.append(dict(meta, what="lnprob", root=root, points=pts, impl=lnp))
        exprs.append("match %s with Ok b => %s | Err _ => false end" % (ctor, e_pr))
        metas.append(dict(meta, what="prob", root=root, points=pts, impl=pr))
        ctx.nontriv((root, abs(mu) > 1e-12, bounded and lo > -INF, bounded and hi < INF))
        for p, l, q in zip(pts, lnp, pr):
            ctx.explored += 1
            out = bounded and (p < lo or p > hi)
            if out and (q != 0 or l != -INF):
                ctx.violation("%s:outside-support" % root, "density not zero outside the support",
                              dict(kind="direct", prior=meta, p=p, prob=q, lnprob=l))
            if not out and abs(math.exp(l) - q) > 1e-9 * max(q, 1e-300) and q > 1e-290:
                ctx.violation("%s:exp-lnprob" % root, "exp(lnprob) != prob",
                              dict(kind="direct", prior=meta, p=p, prob=q, lnprob=l))
        if bounded and not (lo <= g.guess <= hi):
            ctx.violation("bgaussian:guess-support", "guess outside the support", dict(kind="direct", prior=meta))
        if abs(g.unscale(g.scale(x)) - x) > 1e-12 * abs(x):
            ctx.violation("%s:scale-inverse" % root, "unscale(scale(x)) != x", dict(kind="direct", prior=meta, x=x))
        if k < 2:
            ctx.sample(dict(prior=meta, points=pts[:3], lnprob=lnp[:3], prob=pr[:3]))
    _run(ctx, "C14g", exprs, metas, "gauss", keyfn=lambda m: "corr:%s:%s" % (m["root"], m["what"]))


def stage_complex(ctx):
    """ComplexPrior(real, imag) with fixed or free parts: lnprob = sum of the parts', prob = exp of it"""
    import numpy as np
    from holopy.core.prior import Uniform, Gaussian, BoundedGaussian, ComplexPrior
    rng = ctx.subrng("complex")
    exprs, metas = [], []

    def part():
        m = rng.random()
        if m < 0.3:
            v = dyd(rng, -4, 4)
            return v, "None", dict(fixed=v), v, None
        if m < 0.6:
            lo = dyd(rng, -4, 4)
            hi = lo + dyd(rng, -4, 6, signed=False)
            key = 1 / (fr(hi) - fr(lo))
            fn = ("(Some (fun p => match uniform_ctor QO (tab %s) %s %s None with Ok u => uniform_lnprob QO u p "
                  "| Err _ => Some SENT end))" % (tablit([(key, math.log(float(key)))]), eb(lo), eb(hi)))
            return Uniform(lo, hi), fn, dict(uniform=[lo, hi]), (lo + hi) / 2, (lo, hi)
        mu, sd = dyd(rng, -4, 4), dyd(rng, -6, 4, signed=False)
        lntab, _ = gauss_tabs(mu, sd, [])
        if m < 0.8:
            fn = ("(Some (fun p => match gaussian_ctor QO (tab %s) %s %s %s with Ok g => Some (gaussian_lnprob QO g p) "
                  "| Err _ => Some SENT end))" % (tablit(lntab), qlit(S2PI), qlit(mu), qlit(sd)))
            return Gaussian(mu, sd), fn, dict(gaussian=[mu, sd]), mu, None
        lo, hi = mu - sd, mu + 2 * sd
        fn = ("(Some (fun p => match bgaussian_ctor QO (tab %s) %s %s %s %s %s with Ok b => bgaussian_lnprob QO b p "
              "| Err _ => Some SENT end))" % (tablit(lntab), qlit(S2PI), qlit(mu), qlit(sd), eb(lo), eb(hi)))
        return BoundedGaussian(mu, sd, lo, hi), fn, dict(bgaussian=[mu, sd, lo, hi]), mu, (lo, hi)

    for k in range(ctx.n(60, 800)):
        re_, refn, red, reg, resup = part()
        im_, imfn, imd, img, imsup = part()
        c = ComplexPrior(re_, im_)
        pts = []
        for _ in range(4):
            pre = reg + rng.choice([0, 0, 0.25, -0.5, 3, -7]) * (1.0 if resup is None else (resup[1] - resup[0]))
            pim = img + rng.choice([0, 0, 0.25, -0.5, 3, -7]) * (1.0 if imsup is None else (imsup[1] - imsup[0]))
            pts.append((float(pre), float(pim)))
        lnp = [float(c.lnprob(complex(a, b))) for a, b in pts]
        pr = [float(c.prob(complex(a, b))) for a, b in pts]
        g = complex(c.guess)
        meta = dict(kind="complex", real=red, imag=imd, points=pts)
        exprs.append("olist_close T9 (map (fun p => complex_lnprob QO %s %s (fst p) (snd p)) %s) %s" % (
            refn, imfn, listlit(["(%s, %s)" % (qlit(a), qlit(b)) for a, b in pts]), listlit([lnp_lit(v) for v in lnp])))
        metas.append(dict(meta, what="lnprob", impl=lnp))
        ctx.nontriv(("cx", "fixed" in red, "fixed" in imd, any(v == -INF for v in lnp)))
        ctx.count("complex:%s/%s" % (list(red)[0], list(imd)[0]))
        for l, q in zip(lnp, pr):
            ctx.explored += 1
            if abs((math.exp(l) if l > -INF else 0.0) - q) > 1e-12 * max(q, 1e-300):
                ctx.violation("complex:exp-lnprob", "ComplexPrior prob != exp(lnprob)", dict(kind="direct", prior=meta, lnprob=l, prob=q))
        if abs(g.real - reg) > 1e-12 * abs(reg) or abs(g.imag - img) > 1e-12 * abs(img):
            ctx.violation("complex:guess", "ComplexPrior guess != complex(guess_re, guess_im)", dict(kind="direct", prior=meta, guess=g))
        # samples: complex(sample_re, sample_im) under the same seed, sizes None / n
        seed = rng.randint(0, 2 ** 31 - 1)
        for size in (None, 3):
            np.random.seed(seed)
            v = c.sample(size)
            np.random.seed(seed)
            a = re_.sample(size) if hasattr(re_, "sample") else (re_ if size is None else np.repeat(re_, size))
            b = im_.sample(size) if hasattr(im_, "sample") else (im_ if size is None else np.repeat(im_, size))
            ctx.explored += 1
            if not np.allclose(np.atleast_1d(v), np.atleast_1d(a) + 1j * np.atleast_1d(b), rtol=1e-12, atol=0):
                ctx.violation("complex:sample", "ComplexPrior sample != complex(sample_re, sample_im) on the same draws",
                              dict(kind="direct", prior=meta, seed=seed, size=size))
    _run(ctx, "C14c", exprs, metas, "complex")


# --- stage: operator / ufunc expression trees --------------------------------------------------------
NUMS = [0, 1, -1, 2, 0.5, 3, -2.5, 0.0, 1.0, 4, 0.75, -0.125, 10, 3.0, -3, 0.25,
        # small but non-zero, and close to but not equal to one (lengths in metres, scale factors): only EXACT 0 and 1 are
        # special in Prior.__add__ / __mul__
        2.0 ** -21, -2.0 ** -22, 1 + 2.0 ** -21, 1 - 2.0 ** -22, 2.0 ** 21]
U1N = ["UNeg", "USquare", "UAbs", "URecip", "USqrt", "UExp", "ULog"]
U2N = ["UAdd", "USub", "UMul", "UDiv", "UMax", "UMin"]
BIN = ["add", "sub", "mul", "div", "pow", "u2"]


def has_prior(s):
    if s[0] == "p":
        return True
    if s[0] == "num":
        return False
    return any(has_prior(c) for c in s[1:] if isinstance(c, tuple))


def gen_tree(rng, depth, nb, need_prior=False):
    if depth == 0 or rng.random() < (0.15 if depth == 3 else 0.3):
        if need_prior or rng.random() < 0.6:
            return ("p", rng.randrange(nb))
        return ("num", rng.choice(NUMS))
    op = rng.choice(["add", "sub", "mul", "div", "add", "sub", "mul", "div", "pow", "neg", "u1", "u2"])
    if op == "neg":
        return ("neg", gen_tree(rng, depth - 1, nb, need_prior))
    if op == "u1":
        return ("u1", rng.choice(U1N), gen_tree(rng, depth - 1, nb, True))
    a = gen_tree(rng, depth - 1, nb)
    b = gen_tree(rng, depth - 1, nb)
    if (need_prior or op in ("pow", "u2")) and not (has_prior(a) or has_prior(b)):
        if rng.random() < 0.5:
            a = gen_tree(rng, depth - 1, nb, True)
        else:
            b = gen_tree(rng, depth - 1, nb, True)
    if op == "u2":
        return ("u2", rng.choice(U2N), a, b)
    return (op, a, b)


def slit(s):
    k = s[0]
    if k == "num":
        return "(SNum %s)" % qlit(s[1])
    if k == "p":
        return "(SP %s)" % zlit(s[1])
    if k == "neg":
        return "(SNeg %s)" % slit(s[1])
    if k == "u1":
        return "(SU1 %s %s)" % (s[1], slit(s[2]))
    if k == "u2":
        return "(SU2 %s %s %s)" % (s[1], slit(s[2]), slit(s[3]))
    return "(%s %s %s)" % ({"add": "SAdd", "sub": "SSub", "mul": "SMul", "div": "SDiv", "pow": "SPow"}[k], slit(s[1]), slit(s[2]))


def leaves(s):
    if s[0] == "p":
        return [s[1]]
    if s[0] == "num":
        return []
    out = []
    for c in s[1:]:
        if isinstance(c, tuple):
            out += leaves(c)
    return out


class Undef(Exception):
    pass


class Rec:
    def __init__(self):
        self.pw, self.tr, self.ill = [], [], False


def _pow2(y):
    m, _ = math.frexp(abs(y))
    return y != 0 and m == 0.5


def py_eval(s, nxt, rec, base_exact):
    """the meaning of the surface expression on plain floats (independent of holopy and numpy);
    returns (value, exact-flag); records oracle calls and ill-conditioning"""
    k = s[0]
    if k == "num":
        return float(s[1]), True
    if k == "p":
        return float(nxt(s[1])), base_exact

    def chk(r, ex):
        if isinstance(r, complex) or r != r or abs(r) == INF:
            raise Undef()
        return float(r), ex

    def addsub(x, y, ex, ey, sign):
        r = x + sign * y
        if not (ex and ey) and abs(r) < 1e-6 * max(abs(x), abs(y)):
            rec.ill = True
        return chk(r, ex and ey)
    if k == "neg":
        x, ex = py_eval(s[1], nxt, rec, base_exact)
        return -x, ex
    if k == "u1":
        x, ex = py_eval(s[2], nxt, rec, base_exact)
        u = s[1]
        try:
            if u == "UNeg":
                return -x, ex
            if u == "USquare":
                return chk(x * x, ex)
            if u == "UAbs":
                return abs(x), ex
            if u == "URecip":
                if abs(x) < 1e-300:
                    raise Undef()
                return chk(1 / x, ex and _pow2(x))
            if u == "USqrt":
                if x < 0:
                    raise Undef()
                r = math.sqrt(x)
            elif u == "UExp":
                r = math.exp(x)
            else:
                if x <= 0:
                    raise Undef()
                r = math.log(x)
        except (OverflowError, ValueError, ZeroDivisionError):
            raise Undef()
        rec.tr.append((u, x, r))
        return chk(r, False)
    x, ex = py_eval(s[-2], nxt, rec, base_exact)
    y, ey = py_eval(s[-1], nxt, rec, base_exact)
    if k == "u2":
        k = {"UAdd": "add", "USub": "sub", "UMul": "mul", "UDiv": "div", "UMax": "max", "UMin": "min"}[s[1]]
    if k == "add":
        return addsub(x, y, ex, ey, 1)
    if k == "sub":
        return addsub(x, y, ex, ey, -1)
    if k == "mul":
        return chk(x * y, ex and ey)
    if k == "div":
        if abs(y) < 1e-300:
            raise Undef()
        return chk(x / y, ex and ey and _pow2(y))
    if k == "max":
        return (y, ey) if x < y else (x, ex)
    if k == "min":
        return (y, ey) if y < x else (x, ex)
    try:
        r = operator.pow(x, y)
    except (OverflowError, ValueError, ZeroDivisionError):
        raise Undef()
    r, _ = chk(r, False)
    rec.pw.append((x, y, r))
    return r, False


def pwlit(rec):
    return listlit(["(%s, %s, %s)" % (qlit(x), qlit(y), qlit(r)) for x, y, r in rec.pw])


def trlit(rec):
    return listlit(["(%s, %s, %s)" % (u, qlit(x), qlit(r)) for u, x, r in rec.tr])


def stage_trees(ctx):
    import numpy as np
    from holopy.core import prior as P
    from holopy.core.prior import Uniform, Gaussian, BoundedGaussian, TransformedPrior, Prior
    UF1 = {"UNeg": np.negative, "USquare": np.square, "UAbs": np.abs, "URecip": np.reciprocal,
           "USqrt": np.sqrt, "UExp": np.exp, "ULog": np.log}
    UF2 = {"UAdd": np.add, "USub": np.subtract, "UMul": np.multiply, "UDiv": np.divide,
           "UMax": np.maximum, "UMin": np.minimum}
    FN = {operator.add: "OpAdd", operator.mul: "OpMul", operator.pow: "OpPow", P._reciprocal: "Recip"}
    for n_, f_ in UF1.items():
        FN[f_] = "(U1 %s)" % n_
    for n_, f_ in UF2.items():
        FN[f_] = "(U2 %s)" % n_

    def build(s, bases):
        k = s[0]
        if k == "num":
            return s[1]
        if k == "p":
            return bases[s[1]]
        if k == "neg":
            return -build(s[1], bases)
        if k == "u1":
            return UF1[s[1]](build(s[2], bases))
        a, b = build(s[-2], bases), build(s[-1], bases)
        if k == "u2":
            return UF2[s[1]](a, b)
        return {"add": operator.add, "sub": operator.sub, "mul": operator.mul, "div": operator.truediv,
                "pow": operator.pow}[k](a, b)

    def to_pexpr(obj, bases):
        if isinstance(obj, TransformedPrior):
            f = None
            for cand, name in FN.items():
                if obj.transformation is cand:
                    f = name
            args = obj.base_prior
            if f is None or len(args) not in (1, 2):
                return "(PBase (-99)%Z)"
            return "(PT%d %s %s)" % (len(args), f, " ".join(to_pexpr(a, bases) for a in args))
        if isinstance(obj, Prior):
            idx = [i for i, b in enumerate(bases) if b is obj]   # identity: "+0 returns the prior ITSELF"
            return "(PBase %s)" % zlit(idx[0] if idx else -1)
        return "(PNum %s)" % qlit(float(obj))

    rng = ctx.subrng("trees")
    exprs, metas = [], []
    nskip_guess = nskip_samp = 0
    for k in range(ctx.n(220, 4000)):
        # three base priors with positive supports so that most expressions have a defined value
        ulo = rng.randint(1, 8) / 4.0
        uhi = ulo + rng.randint(1, 16) / 4.0
        bases = [Uniform(ulo, uhi) if rng.random() < 0.6 else Uniform(ulo, uhi, ulo + (uhi - ulo) * rng.choice([0.25, 0.75])),
                 Gaussian(rng.randint(2, 12) / 4.0, rng.choice([0.125, 0.25, 0.0625])),
                 BoundedGaussian(rng.randint(4, 12) / 4.0, 0.5, 0.25, rng.choice([INF, 8.0]))]
        if k % 3 == 0:
            # the same kind of priors written with whole numbers as python ints (Uniform(1, 4, guess=3), Gaussian(5, ...)): the
            # guess of a derived prior is then an int, its samples are not
            ilo = rng.randint(1, 3)
            ihi = ilo + rng.randint(2, 5)
            bases = [Uniform(ilo, ihi, rng.randint(ilo, ihi)), Gaussian(rng.randint(1, 4), rng.choice([0.125, 0.25, 0.0625])),
                     BoundedGaussian(rng.randint(1, 3), 0.5, 0.25, rng.choice([INF, 8.0]))]
            ulo, uhi = float(ilo), float(ihi)
            ctx.count("tree:integer-typed-bases")
        bdesc = [dict(uniform=[ulo, uhi, float(bases[0].guess)]), dict(gaussian=[bases[1].mu, bases[1].sd]),
                 dict(bgaussian=[bases[2].mu, bases[2].sd, bases[2].lower_bound, bases[2].upper_bound])]
        depth = rng.choice([1, 2, 2, 3, 3, 3])
        s = gen_tree(rng, depth, 3, need_prior=rng.random() < 0.95)
        while k % 3 == 0 and "URecip" in repr(s):
            # np.reciprocal of a python / numpy INTEGER is integer division (np.reciprocal(3) == 0): "the same operation applied to
            # the base guess" is then that integer result, which the real-number reference here does not model - not generated
            s = gen_tree(rng, depth, 3, need_prior=True)
        meta = dict(kind="tree", tree=s, bases=bdesc)
        try:
            obj = build(s, bases)
            impl = "(Ok %s)" % to_pexpr(obj, bases)
            got = "Ok"
        except Exception as e:  # noqa
            got = errkind(e)
            if got.startswith("Other"):
                ctx.disagree("corr:tree:exception", "building an expression raised %s" % got, dict(meta, error=str(e)))
                continue
            impl = "(Err %s)" % got
        ctx.count("tree:depth%d:%s" % (depth, got))
        ctx.nontriv(("tree", _shape(s), got))
        sl = slit(s)
        exprs.append("res_pexpr_eqb (qclose T12) (elab QO nopw notr %s) %s" % (sl, impl))
        metas.append(dict(meta, what="shape", impl=impl))
        if got != "Ok" or not isinstance(obj, Prior):
            continue
        # guess
        genv = [float(b.guess) for b in bases]
        rec = Rec()
        try:
            gpy, _ = py_eval(s, lambda i: genv[i], rec, True)
        except Undef:
            gpy = None
        if gpy is None or rec.ill:
            nskip_guess += 1
        else:
            try:
                gi = float(obj.guess)
            except (ValueError, ZeroDivisionError, OverflowError):
                if k % 3 != 0:
                    raise
                # integer-typed bases: numpy's INTEGER arithmetic refuses some operations the real-number reference defines
                # (np.int64(4) ** -1 raises "Integers to negative integer powers are not allowed"): the operation applied to
                # the base guess is itself undefined there - no demand
                nskip_guess += 1
                ctx.count("tree:integer-typed:guess-undefined-in-integer-arithmetic")
                continue
            ctx.explored += 1
            if abs(gi - gpy) > 1e-9 * max(abs(gpy), 1e-300):
                ctx.violation("tree:guess", "guess of a derived prior != the expression applied to the base guesses",
                              dict(meta, kind="direct-tree-guess", impl=gi, expected=gpy))
            exprs.append("match elab QO (tab2 %s) (trtab %s) %s with Ok e => qclose T9 (guess QO (tab2 %s) (trtab %s) (envof %s) e) %s "
                         "| Err _ => false end" % (pwlit(rec), trlit(rec), sl, pwlit(rec), trlit(rec), qlist(genv), qlit(gi)))
            metas.append(dict(meta, what="guess", impl=gi))
        # samples under a fixed seed vs the model on the recorded base draws; sizes None / 1 / n
        occ = leaves(s)
        seed = rng.randint(0, 2 ** 31 - 1)
        for size in (None, 1, rng.choice([2, 3, 5])):
            np.random.seed(seed)
            try:
                v = obj.sample(size)
            except Exception as e:  # noqa
                # e.g. pow of a negative draw to a fractional power inside np.array -> fine, undefined
                nskip_samp += 1
                continue
            np.random.seed(seed)
            draws = [bases[i].sample(size) for i in occ]
            n = 1 if size is None else size
            cols = [[float(np.atleast_1d(d)[j]) for d in draws] for j in range(n)]
            rec = Rec()
            exp = []
            try:
                for j in range(n):
                    it = iter(cols[j])
                    exp.append(py_eval(s, lambda i: next(it), rec, False)[0])
            except Undef:
                exp = None
            vi = [complex(x) for x in np.atleast_1d(v)]
            if exp is None or rec.ill or any(x.imag != 0 or x != x for x in vi):
                nskip_samp += 1
                continue
            vi = [x.real for x in vi]
            ctx.explored += 1
            shape_ok = (np.ndim(v) == 0) if size is None else (np.shape(v) == (size,))
            if not shape_ok or any(abs(a - b) > 1e-9 * max(abs(b), 1e-300) for a, b in zip(vi, exp)):
                ctx.violation("tree:sample", "sample of a derived prior != the expression applied to the base samples",
                              dict(meta, kind="direct-tree-sample", seed=seed, size=size, impl=vi, expected=exp))
            if size is None:
                e_s = "qclose T9 (fst (sample1 QO (tab2 %s) (trtab %s) e %s)) %s" % (pwlit(rec), trlit(rec), qlist(cols[0]), qlit(vi[0]))
            else:
                dl = listlit([qlist(np.atleast_1d(d)) for d in draws])
                e_s = "qlist_close T9 (fst (samplen QO (tab2 %s) (trtab %s) %d e %s)) %s" % (pwlit(rec), trlit(rec), n, dl, qlist(vi))
            exprs.append("match elab QO nopw notr %s with Ok e => %s | Err _ => false end" % (sl, e_s))
            metas.append(dict(meta, what="sample", seed=seed, size=size, impl=vi))
            ctx.count("tree:sample:size=%s" % ("None" if size is None else "1" if size == 1 else "n"))
        if k < 3:
            ctx.sample(dict(tree=s, built=impl[:300]))
    ctx.count("tree:guess-skipped-undefined-or-ill-conditioned", nskip_guess)
    ctx.count("tree:sample-skipped-undefined-or-ill-conditioned", nskip_samp)

    # unsupported operand types at the top level, either side
    bads = ["a", None, [1, 2], (1.0,), {}, 1 + 2j]
    ops = [("add", "p_add", lambda p, v: p + v), ("radd", "p_add", lambda p, v: v + p),
           ("mul", "p_mul", lambda p, v: p * v), ("rmul", "p_mul", lambda p, v: v * p),
           ("sub", "p_sub", lambda p, v: p - v), ("rsub", "p_rsub", lambda p, v: v - p),
           ("div", "p_div", lambda p, v: p / v), ("rdiv", "p_rdiv", lambda p, v: v / p)]
    base = Uniform(1.0, 3.0)
    derived = base * 2 + 1
    for self_, selfl in ((base, "(PBase 0%Z)"), (derived, "(PT2 OpAdd (PT2 OpMul (PBase 0%Z) (PNum 2)) (PNum 1))")):
        for bad in bads:
            for name, mname, fn in ops:
                if isinstance(bad, complex) and name not in ("mul", "rmul"):
                    continue   # complex is a Number: accepted by +, refused by * (Real)
                try:
                    fn(self_, bad)
                    got = "Ok"
                except Exception as e:  # noqa
                    got = errkind(e)
                exprs.append("match %s QO %s OBad with Err TypeErr => %s | _ => false end" % (mname, selfl, blit(got == "TypeErr")))
                metas.append(dict(kind="badtype", what="badtype", op=name, operand=repr(bad), impl=got))
                ctx.count("badtype:" + got)
                ctx.explored += 1
                if got != "TypeErr":
                    ctx.violation("tree:badtype:%s" % name, "combining a prior with %r via %s did not raise TypeError (%s)" % (bad, name, got),
                                  dict(kind="direct-badtype", op=name, operand=repr(bad), got=got))
    # identities by object identity, on base and derived priors (direct; the model side is in the trees above)
    for p in (base, derived, Gaussian(0.0, 1.0), BoundedGaussian(1.0, 1.0, 0.0, 2.0)):
        for name, r in (("p+0", lambda: p + 0), ("0+p", lambda: 0 + p), ("p*1", lambda: p * 1), ("1*p", lambda: 1 * p),
                        ("p-0", lambda: p - 0), ("p/1", lambda: p / 1), ("p+0.0", lambda: p + 0.0), ("p*1.0", lambda: p * 1.0)):
            ctx.explored += 1
            if r() is not p:
                ctx.violation("tree:identity", "%s does not return the prior itself" % name, dict(kind="direct-identity", expr=name, prior=repr(p)))
        for name, r in (("p*0", lambda: p * 0), ("0*p", lambda: 0 * p), ("0/p", lambda: 0 / p), ("p*0.0", lambda: p * 0.0)):
            ctx.explored += 1
            try:
                r()
                ctx.violation("tree:mul0", "%s does not raise" % name, dict(kind="direct-mul0", expr=name, prior=repr(p)))
            except TypeError:
                pass
    _run(ctx, "C14t", exprs, metas, "tree")


def _shape(s):
    if s[0] in ("num", "p"):
        return s[0] if s[0] == "p" else ("n0" if s[1] == 0 else "n1" if s[1] == 1 else "n")
    return (s[0],) + tuple(_shape(c) if isinstance(c, tuple) else c for c in s[1:])


# --- stage: samplers on recorded base draws -------------------------------------------------------
def py_bg_consumed(stream, n, lo, hi):
    """how many draws the resampling loop (go on while any entry is out of bounds) consumes"""
    val, pos = list(stream[:n]), n
    while any(v < lo or v > hi for v in val):
        for i, v in enumerate(val):
            if v < lo or v > hi:
                if pos >= len(stream):
                    return None
                val[i] = stream[pos]
                pos += 1
    return pos


def stage_samplers(ctx):
    import numpy as np
    from holopy.core.prior import Uniform, Gaussian, BoundedGaussian
    rng = ctx.subrng("samplers")
    exprs, metas = [], []
    # Uniform / Gaussian: sample = lo + (hi-lo) u, mu + sd z on the generator's standard draws
    for k in range(ctx.n(60, 800)):
        seed = rng.randint(0, 2 ** 31 - 1)
        size = rng.choice([None, 1, 2, 7])
        n = 1 if size is None else size
        if rng.random() < 0.5:
            lo = dyd(rng, -10, 10)
            hi = lo + dyd(rng, -10, 10, signed=False)
            if not lo < hi:
                continue
            p = Uniform(lo, hi)
            np.random.seed(seed)
            v = p.sample(size)
            np.random.seed(seed)
            u = np.atleast_1d(np.random.random_sample(size))
            e = "qlist_close T12 (map (uniform_sample QO %s %s) %s) %s" % (qlit(lo), qlit(hi), qlist(u), qlist(np.atleast_1d(v)))
            meta = dict(kind="base-sampler", what="uniform", lo=lo, hi=hi)
            okk = all(lo <= x <= hi for x in np.atleast_1d(v))
        else:
            mu, sd = dyd(rng, -10, 10), dyd(rng, -10, 10, signed=False)
            p = Gaussian(mu, sd)
            np.random.seed(seed)
            v = p.sample(size)
            np.random.seed(seed)
            z = np.atleast_1d(np.random.standard_normal(size))
            e = "list_eqb (fun a b => Qle_bool (Qabs' (a - b)) (T12 * (Qabs' %s + Qabs' b))) (map (gaussian_sample QO %s %s) %s) %s" % (
                qlit(mu), qlit(mu), qlit(sd), qlist(z), qlist(np.atleast_1d(v)))
            meta = dict(kind="base-sampler", what="gaussian", mu=mu, sd=sd)
            okk = True
        ctx.explored += 1
        shape_ok = (np.ndim(v) == 0) if size is None else (np.shape(v) == (size,))
        if not shape_ok:
            ctx.violation("sampler:shape", "sample(size) has the wrong shape", dict(meta, seed=seed, size=size, shape=list(np.shape(v))))
        if not okk:
            ctx.violation("sampler:uniform-support", "Uniform sample outside the support", dict(meta, seed=seed, size=size))
        exprs.append(e)
        metas.append(dict(meta, seed=seed, size=size, impl=[float(x) for x in np.atleast_1d(v)]))
        ctx.count("sampler:%s:size=%s" % (meta["what"], size))
    _run(ctx, "C14s", exprs, metas, "base-sampler")

    # BoundedGaussian: the resampling loop on the recorded stream of normal draws
    exprs, metas = [], []
    first_oob = None
    for k in range(ctx.n(120, 2000)):
        seed = rng.randint(0, 2 ** 31 - 1)
        size = rng.choice([None, None, 1, 1, 2, 3, 8, 20])
        n = 1 if size is None else size
        mu = rng.choice([0.0, dyd(rng, -4, 4)])
        sd = dyd(rng, -6, 6, signed=False)
        a, b = rng.choice([(0.25, 0.5), (1, 1), (0, 0.5), (0.5, 0), (0.125, 0.125), (2, 2), (3, INF), (INF, 0.25), (INF, INF), (0, INF)])
        lo, hi = mu - a * sd, mu + b * sd
        p = BoundedGaussian(mu, sd, lo, hi)
        np.random.seed(seed)
        v = p.sample(size)
        np.random.seed(seed)
        stream = [float(x) for x in Gaussian(mu, sd).sample(60 * n + 400)]
        used = py_bg_consumed(stream, n, lo, hi)
        if used is None:
            ctx.count("bg:stream-too-short")
            continue
        st = stream[:used + 3]
        vi = [float(x) for x in np.atleast_1d(v)]
        meta = dict(kind="bg-sample", mu=mu, sd=sd, lo=lo, hi=hi, seed=seed, size=size, impl=vi, draws=st[:12])
        ctx.explored += 1
        shape_ok = (np.ndim(v) == 0) if size is None else (np.shape(v) == (size,))
        if not shape_ok:
            ctx.violation("sampler:shape", "BoundedGaussian.sample(size) has the wrong shape", dict(meta, shape=list(np.shape(v))))
        oob = [x for x in vi if x < lo or x > hi]
        if oob:
            ctx.count("bg:out-of-bounds-results")
            if first_oob is None:
                first_oob = meta
            ctx.violation(KNOWN_OOB, "BoundedGaussian(%r, %r, %r, %r).sample(%r) under np.random.seed(%d) returned %r, outside "
                          "the bounds (the loop tests np.any on the INDEX tuple of np.where, so an offender at index 0 is "
                          "replaced once and never re-checked)" % (mu, sd, lo, hi, size, seed, oob[0]), meta)
        exprs.append("option_eqb qlist_eqb (bg_sample QO %s %s false %d %s) (Some %s)" % (eb(lo), eb(hi), n, qlist(st), qlist(vi)))
        metas.append(dict(meta, what="intended", stream=st))
        ctx.count("bg:size=%s" % size)
        ctx.nontriv(("bg", size, used > n, a == INF, b == INF))
    mism, errors, _ = run_mismatch_cases("C14b", REQ, exprs, defs=DEFS)
    ctx.corr_cases += len(exprs)
    for e in errors:
        ctx.violation("corr-eval-error", "model evaluation failed: " + e[:300], dict(kind="coq-error", log=e), nofail=True)
    if mism:
        # classify: does the implementation follow the model of the defective loop (Findings.v)?
        ex2 = []
        for i in mism:
            m = metas[i]
            ex2.append("option_eqb qlist_eqb (bg_sample QO %s %s true %d %s) (Some %s)" % (
                eb(m["lo"]), eb(m["hi"]), 1 if m["size"] is None else m["size"], qlist(m["stream"]), qlist(m["impl"])))
        mism2, errors2, _ = run_mismatch_cases("C14b2", REQ, ex2, defs=DEFS)
        ctx.corr_cases += len(ex2)
        for j, i in enumerate(mism):
            m = dict(metas[i])
            m.pop("stream", None)
            if j in mism2 or errors2:
                ctx.disagree("corr:bg_sample", "BoundedGaussian.sample disagrees with the resampling-loop model on the recorded draws "
                             "(and with the model of the known index-0 defect)", m)
            else:
                ctx.disagree(KNOWN_OOB + ":corr", "BoundedGaussian.sample follows the defective loop of Findings.v "
                             "(bounded_sample_asis_refuted), not the loop of theorem bounded_sample_in_support", m)


# --- stage: updated() and generate_guess() ------------------------------------------------------------
def stage_updated(ctx):
    import numpy as np
    from holopy.core.prior import Uniform, Gaussian, BoundedGaussian, updated, generate_guess
    from holopy.inference.result import UncertainValue
    rng = ctx.subrng("updated")
    exprs, metas = [], []
    for k in range(ctx.n(60, 600)):
        kind = rng.choice(["uniform", "gaussian", "bgaussian"])
        lo = dyd(rng, -4, 4)
        hi = lo + dyd(rng, -2, 6, signed=False)
        if kind == "uniform":
            pr = Uniform(lo, hi)
        elif kind == "gaussian":
            pr = Gaussian(lo, hi - lo)
        else:
            pr = BoundedGaussian((lo + hi) / 2, hi - lo, lo, rng.choice([hi, INF]))
        vg = rng.choice([inside(rng, lo, hi), inside(rng, lo, hi), lo, hi + 1.0, lo - 1.0])
        plus, minus = dyd(rng, -6, 2, signed=False), rng.choice([None, dyd(rng, -6, 2, signed=False), 0.0])
        extra = rng.choice([0, 0, dyd(rng, -6, 2, signed=False)])
        if rng.random() < 0.1:
            plus, minus, extra = 0.0, 0.0, 0
        v = UncertainValue(vg, plus, minus)
        meta = dict(kind="updated", what=kind, v=[vg, plus, minus], extra=extra)
        try:
            r = updated(pr, v, extra)
            got = "Ok"
        except Exception as e:  # noqa
            got = errkind(e)
        mn = plus if minus is None else minus
        bnds = "None" if kind == "gaussian" else "(Some (%s, %s))" % (eb(pr.lower_bound), eb(pr.upper_bound))
        call = "(updated QO (fun _ => 0) 1 %s %s %s %s %s)" % (bnds, qlit(vg), qlit(plus), qlit(mn), qlit(extra))
        if got != "Ok":
            exprs.append("match %s with Err ParamSpec => %s | _ => false end" % (call, blit(got == "ParamSpec")))
        elif kind == "gaussian":
            exprs.append("match %s with Ok (inl g) => Qeq_bool (g_mu g) %s && Qeq_bool (g_sd g) %s && %s | _ => false end" % (
                call, qlit(float(r.mu)), qlit(float(r.sd)), blit(type(r).__name__ == "Gaussian")))
        else:
            exprs.append("match %s with Ok (inr b) => Qeq_bool (g_mu (bg_g b)) %s && Qeq_bool (g_sd (bg_g b)) %s && "
                         "ebound_eqb QO (bg_lo b) %s && ebound_eqb QO (bg_hi b) %s && %s | _ => false end" % (
                             call, qlit(float(r.mu)), qlit(float(r.sd)), eb(r.lower_bound), eb(r.upper_bound),
                             blit(type(r).__name__ == "BoundedGaussian")))
        metas.append(dict(meta, impl=got))
        ctx.count("updated:%s:%s" % (kind, got))
        ctx.nontriv(("upd", kind, got, minus is None))
    # generate_guess: guess + scaling * (raw - guess) on the same draws
    for k in range(ctx.n(30, 300)):
        seed = rng.randint(0, 2 ** 31 - 1)
        pri = [Uniform(1.0, 3.0), Gaussian(0.5, 0.25), BoundedGaussian(1.0, 0.5, 0.5, 2.0)][: rng.randint(1, 3)]
        nguess = rng.choice([1, 2, 5])
        scaling = rng.choice([1, 0, 0.5, 2, 0.25])
        out = generate_guess(pri, nguess, scaling, seed)
        np.random.seed(seed)
        raws = [p.sample(size=nguess) for p in pri]
        ctx.explored += 1
        if np.shape(out) != (nguess, len(pri)):
            ctx.violation("generate_guess:shape", "generate_guess has the wrong shape", dict(kind="direct", shape=list(np.shape(out))))
            continue
        for j, p in enumerate(pri):
            exprs.append("qlist_close T12 (map (scaled_sample QO %s %s) %s) %s" % (qlit(float(p.guess)), qlit(scaling), qlist(raws[j]), qlist(out[:, j])))
            metas.append(dict(kind="generate_guess", what="generate_guess", seed=seed, nguess=nguess, scaling=scaling, column=j))
    _run(ctx, "C14d", exprs, metas, "updated", keyfn=lambda m: "corr:%s" % m["kind"])


# --- stage: oracle-free enclosures of the R model with Coq-Interval ------------------------------------
def rlit(x):
    f = fr(x)
    if f.denominator == 1:
        return "(%d)" % f.numerator
    return "(%d / %d)" % (f.numerator, f.denominator)


def stage_interval(ctx):
    from holopy.core.prior import Uniform, Gaussian
    rng = ctx.subrng("interval")
    goals, metas = [], []
    for k in range(ctx.n(36, 400)):
        m = k % 3
        if m == 2:
            lo = dyd(rng, -10, 10)
            hi = lo + dyd(rng, -10, 10, signed=False)
            if not lo < hi:
                continue
            p = inside(rng, lo, hi)
            y = float(Uniform(lo, hi).lnprob(p))
            tol = 1e-9 * max(1.0, abs(y))
            goals.append(("exists u, uniform_ctor RO ln (Fin %s) (Fin %s) None = Ok u /\\ match uniform_lnprob RO u %s with "
                          "Some l => Rabs (l - %s) <= %s | None => False end" % (rlit(lo), rlit(hi), rlit(p), rlit(y), rlit(tol)),
                          "apply uniform_lnprob_enclosure; [lra | lra | interval with (i_prec 80)]"))
            metas.append(dict(kind="interval", what="uniform-lnprob", lo=lo, hi=hi, p=p, impl=y))
            continue
        mu, sd = rng.choice([0.0, dyd(rng, -8, 8)]), dyd(rng, -12, 12, signed=False)
        p = float(mu + rng.randint(-384, 384) / 64.0 * sd)
        g = Gaussian(mu, sd)
        if m == 0:
            y = float(g.lnprob(p))
            tol = 1e-9 * max(1.0, abs(y))
            stmt = "Rabs (gaussian_lnprob RO g %s - %s) <= %s" % (rlit(p), rlit(y), rlit(tol))
            lem = "gaussian_lnprob_enclosure"
            what = "gaussian-lnprob"
        else:
            y = float(g.prob(p))
            tol = 1e-9 * y
            stmt = "Rabs (gaussian_prob RO exp (sqrt (2 * PI)) g %s - %s) <= %s" % (rlit(p), rlit(y), rlit(tol))
            lem = "gaussian_prob_enclosure"
            what = "gaussian-prob"
        goals.append(("exists g, gaussian_ctor RO ln (sqrt (2 * PI)) %s %s = Ok g /\\ %s" % (rlit(mu), rlit(sd), stmt),
                      "apply %s; [lra | interval with (i_prec 80)]" % lem))
        metas.append(dict(kind="interval", what=what, mu=mu, sd=sd, p=p, impl=y))
    head = ("From Coq Require Import Reals Lra.\nFrom Interval Require Import Tactic.\n"
            "From HV Require Import Common.Generic C14.Model C14.Lemmas.\nOpen Scope R_scope.\n")
    files = []
    per = 25
    for f0 in range(0, len(goals), per):
        txt = head
        for j in range(f0, min(f0 + per, len(goals))):
            st, tac = goals[j]
            txt += ("Goal %s.\nProof. first [ assert_succeeds (solve [%s]); idtac \"C14OK %d\" | idtac \"C14BAD %d\" ]. Abort.\n"
                    % (st, tac, j, j))
        files.append(("encl_%03d" % (f0 // per), txt))
    res = eval_files("C14i", files, jobs=8)
    ok, bad = set(), set()
    for name, rc, out in res:
        if rc != 0:
            ctx.violation("corr-eval-error", "enclosure file failed: " + out[-300:], dict(kind="coq-error", log=out[-1500:]), nofail=True)
        ok.update(int(x) for x in re.findall(r"C14OK (\d+)", out))
        bad.update(int(x) for x in re.findall(r"C14BAD (\d+)", out))
    ctx.corr_cases += len(goals)
    ctx.count("interval-goals", len(goals))
    for j in range(len(goals)):
        if j in bad or j not in ok:
            ctx.disagree("corr:interval:%s" % metas[j]["what"],
                         "the R model (real ln/exp/sqrt/PI, enclosed by Coq-Interval) does not reproduce the implementation's %s" % metas[j]["what"],
                         dict(metas[j], goal=goals[j][0]))


# --- stage: exploration (never called a proof) -------------------------------------------------------
def stage_explore(ctx):
    import numpy as np
    from scipy import stats, integrate
    from holopy.core.prior import Uniform, Gaussian, BoundedGaussian
    rng = ctx.subrng("explore")
    # quadrature of the densities
    for k in range(ctx.n(12, 150)):
        ctx.explored += 1
        if k % 2 == 0:
            lo = dyd(rng, -8, 8)
            hi = lo + dyd(rng, -8, 8, signed=False)
            if not lo < hi:
                continue
            w = hi - lo
            u = Uniform(lo, hi)
            val, err = integrate.quad(u.prob, lo - w, hi + 2 * w, points=[lo, hi], limit=200)
            val2, _ = integrate.quad(u.prob, lo, hi)
            if abs(val - 1) > 1e-7 or abs(val2 - 1) > 1e-9:
                ctx.violation("quad:uniform", "Uniform density does not integrate to one", dict(kind="quad", lo=lo, hi=hi, integral=[val, val2]))
        else:
            mu, sd = dyd(rng, -8, 8), dyd(rng, -8, 8, signed=False)
            g = Gaussian(mu, sd)
            val, err = integrate.quad(g.prob, mu - 12 * sd, mu + 12 * sd, points=[mu - 3 * sd, mu, mu + 3 * sd], limit=200)
            if abs(val - 1) > 1e-7:
                ctx.violation("quad:gaussian", "Gaussian density does not integrate to one", dict(kind="quad", mu=mu, sd=sd, integral=val))
        ctx.count("quadrature")
    # seeded sampler / density agreement (KS); alarm threshold p < 1e-6
    N = ctx.n(3000, 20000)
    for k in range(ctx.n(9, 60)):
        seed = rng.randint(0, 2 ** 31 - 1)
        np.random.seed(seed)
        m = k % 3
        size = rng.choice([None, 1, 50])
        reps = N if size is None else N // size
        if m == 0:
            lo = dyd(rng, -8, 8)
            hi = lo + dyd(rng, -8, 8, signed=False)
            if not lo < hi:
                continue
            p = Uniform(lo, hi)
            cdf = stats.uniform(lo, hi - lo).cdf
            desc = dict(uniform=[lo, hi])
            key = "ks:uniform"
        elif m == 1:
            mu, sd = dyd(rng, -8, 8), dyd(rng, -8, 8, signed=False)
            p = Gaussian(mu, sd)
            cdf = stats.norm(mu, sd).cdf
            lo, hi = -INF, INF
            desc = dict(gaussian=[mu, sd])
            key = "ks:gaussian"
        else:
            mu, sd = dyd(rng, -4, 4), dyd(rng, -4, 4, signed=False)
            # incl. intervals much narrower than sd (a prior that pins a parameter): the sampler has to keep resampling
            opts = [(2.0 ** -9, 2.0 ** -9), (0.5, 0.5), (1, 2), (2.0 ** -8, 2.0 ** -11), (0.25, INF), (INF, 0.5), (2, 0.125)]
            a, b = opts[(k // 3) % len(opts)]          # every kind in turn, a narrow one first
            lo, hi = mu - a * sd, mu + b * sd
            p = BoundedGaussian(mu, sd, lo, hi)
            cdf = stats.truncnorm(-a, b, loc=mu, scale=sd).cdf
            desc = dict(bgaussian=[mu, sd, lo, hi])
            key = KNOWN_OOB + ":ks"
        xs = np.concatenate([np.atleast_1d(p.sample(size)) for _ in range(reps)])
        ctx.explored += 1
        ctx.count("ks:%s:size=%s" % (list(desc)[0], size))
        nout = int(np.sum((xs < lo) | (xs > hi)))
        if nout:
            ctx.violation(KNOWN_OOB if m == 2 else "sampler:uniform-support",
                          "%d of %d samples of %r (size=%r, seed %d) lie outside the support" % (nout, len(xs), desc, size, seed),
                          dict(kind="bg-oob-many", prior=desc, seed=seed, size=size, n=len(xs), outside=nout))
        # a continuous distribution: (almost) no repeated values, none piled up on a bound
        ndup = int(len(xs) - len(np.unique(xs)))
        if ndup > max(3, len(xs) // 500):
            ctx.violation((KNOWN_OOB + ":pile-up") if m == 2 else "sampler:repeats",
                          "%d of %d samples of %r (size=%r, seed %d) are repeated values (%d exactly on a bound)"
                          % (ndup, len(xs), desc, size, seed, int(np.sum((xs == lo) | (xs == hi)))),
                          dict(kind="ks", prior=desc, seed=seed, size=size, n=len(xs), repeated=ndup))
        pv = float(stats.kstest(xs, cdf).pvalue)
        if pv < 1e-6:
            ctx.violation(key if m == 2 else key, "samples of %r (size=%r, seed %d, n=%d) do not follow the declared distribution: KS p=%.3g"
                          % (desc, size, seed, len(xs), pv), dict(kind="ks", prior=desc, seed=seed, size=size, n=len(xs), p=pv))


# ------------------------------------------------------------------------------------------
# source tie: the arithmetic one-liners of core/prior.py as written now

PRIOR_PY = "holopy/core/prior.py"
SRC_ITEMS = [
    dict(file=PRIOR_PY, qualname="Prior.scale", name="scale_src", rettype="R", params=[("physical", "R")], self_attrs={"scale_factor": "sf"}),
    dict(file=PRIOR_PY, qualname="Prior.unscale", name="unscale_src", rettype="R", params=[("scaled", "R")], self_attrs={"scale_factor": "sf"}),
    dict(file=PRIOR_PY, qualname="Gaussian.variance", name="gaussian_variance_src", rettype="R", params=[], self_attrs={"sd": "sd"}),
    dict(file=PRIOR_PY, qualname="Gaussian.lnprob", name="gaussian_lnprob_src", rettype="R", params=[("p", "R")],
         self_attrs={"_lnprob_normalization": "nrm", "mu": "mu", "variance": "var"}),
    dict(file=PRIOR_PY, qualname="Uniform.interval", name="uniform_interval_src", rettype="R", params=[],
         self_attrs={"lower_bound": "lo", "upper_bound": "hi"}),
    dict(file=PRIOR_PY, qualname="Uniform.prob", name="uniform_prob_src", rettype="R", params=[("p", "R")],
         self_attrs={"lower_bound": "lo", "upper_bound": "hi", "interval": "iv"}),
    dict(file=PRIOR_PY, qualname="Uniform.lnprob", name="uniform_lnprob_src", rettype="option R", params=[("p", "R")],
         self_attrs={"lower_bound": "lo", "upper_bound": "hi", "_lnprob": "lnp"}),
    dict(file=PRIOR_PY, qualname="BoundedGaussian.lnprob", name="bgaussian_lnprob_src", rettype="option R", params=[("p", "R")],
         self_attrs={"lower_bound": "lo", "upper_bound": "hi"}, opaque_exprs={"super().lnprob(p)": "glp"}),
]


def stage_srctie(ctx):
    from harness.lib import srctie
    ok = srctie.run(ctx, "C14", "From HV Require Import C14.Model C14.Lemmas C14.Props.\n", SRC_ITEMS)
    ctx.count("srctie:%s" % ("ok" if ok else "broken"))


def run(ctx):
    ctx.rule = ("Uniform bounds finite / half-infinite / infinite / malformed over 2^-24..2^24, guesses None / inside / on a bound / "
                "just outside / near 0; Gaussian mu, sd over 2^-20..2^20 incl. sd<=0; BoundedGaussian with mu inside / on / outside, "
                "lo==hi, infinite sides; evaluation points on, one ulp beside and far from the bounds; ComplexPrior with fixed/free "
                "parts; operator/ufunc trees of depth<=3 over 3 base priors and numbers incl. 0, 1, -1, ints and floats; sample sizes "
                "None/1/n; non-trivial = distinct (bound kinds, guess kind, verdict) classes, distinct tree shapes, distinct sampler "
                "(size, resampled?, open side) classes")
    ctx.clauses_proved = [
        "exp(lnprob) = prob (proper Uniform, Gaussian, BoundedGaussian); improper Uniform constant stated separately",
        "Gaussian density is the textbook formula", "Uniform density integrates to one (RInt) over any interval containing the support",
        "density zero / lnprob -inf outside the support", "guess in support (given or default, all four bound cases)",
        "scale/unscale inverse for every constructed prior; scale-factor rule", "constructor rejects exactly the senseless bounds/widths/guesses",
        "for EVERY operator/ufunc expression tree: guess and sample (size None and n, same recorded draws) of the derived prior = the same "
        "operations on the base guesses/samples (structural induction)", "+0, *1 (either side, -0, /1) return the prior itself; *0, 0/p, "
        "unsupported types raise TypeError, /0 ZeroDivisionError", "resampling loop: every returned entry within bounds, requested size, "
        "entries are draws (any size)", "Uniform sample in [lo,hi) for u in [0,1)", "ComplexPrior prob = product of the parts; "
        "updated() inherits bounds and takes the widest sd; generate_guess scaling", "Q instance decides supports and runs the loop as the R instance"]
    ctx.clauses_explored = ["samples follow the declared distribution (seeded KS test against scipy cdfs, alarm at p<1e-6; statistical, not a proof)",
                            "Gaussian density integrates to one (quadrature over mu+-12sd; the Coq statement gaussian_mass was not attempted)",
                            "quadrature of the Uniform density (also proved)"]
    ctx.trusted += ["oracle: ln (np.log) - keyed table from math.log; R theorems use Coq's ln",
                    "oracle: exp inside scipy.stats.norm.pdf / np.exp - keyed table from math.exp; R theorems use Coq's exp",
                    "oracle: sqrt(2*pi) - literal math.sqrt(2*math.pi); R theorems use sqrt (2*PI) (only 0 < s is needed)",
                    "oracle: operator.pow and np.sqrt/np.exp/np.log applied by TransformedPrior - universally quantified in the theorems, keyed tables from math in the check",
                    "oracle: numpy legacy RandomState (random_sample / standard_normal streams, stream continuity across calls) - recorded draws; theorems quantify over all streams",
                    "Coq-Interval (enclosure stage): its tactic and primitive-integer/float kernel features"]
    ctx.trusted.append("source translator harness/lib/pysrc.py (python floats read as reals; see its docstring) for the source tie")
    ctx.clauses_proved.append("source tie: Prior.scale / unscale, Gaussian.variance / lnprob, Uniform.interval / prob of core/prior.py, translated from the current source text on every run, are proved equal to the model; scaling round trip, exp(lnprob) = textbook Gaussian density and the Uniform density restated for the translated source")
    guarded(ctx, "prove", ctx.prove)
    guarded(ctx, "source-tie", stage_srctie, ctx)
    boot.boot()
    guarded(ctx, "uniform", stage_uniform, ctx)
    guarded(ctx, "gaussian", stage_gaussian, ctx)
    guarded(ctx, "complex", stage_complex, ctx)
    guarded(ctx, "trees", stage_trees, ctx)
    guarded(ctx, "samplers", stage_samplers, ctx)
    guarded(ctx, "updated", stage_updated, ctx)
    guarded(ctx, "interval", stage_interval, ctx)
    guarded(ctx, "explore", stage_explore, ctx)


def replay(ctx, data):
    """re-run the stored failing case on the current tree"""
    import numpy as np
    boot.boot()
    d = data["data"]
    kind = d.get("kind")
    if kind == "tie":
        ctx.prove()
        stage_srctie(ctx)
    elif kind == "bg-sample":
        from holopy.core.prior import BoundedGaussian
        lo, hi = _unj(d["lo"]), _unj(d["hi"])
        p = BoundedGaussian(d["mu"], d["sd"], lo, hi)
        np.random.seed(d["seed"])
        v = np.atleast_1d(p.sample(d["size"]))
        ctx.explored += 1
        print("replay: BoundedGaussian(%r, %r, %r, %r).sample(%r) seed %d -> %r" % (d["mu"], d["sd"], lo, hi, d["size"], d["seed"], v.tolist()))
        if np.any((v < lo) | (v > hi)):
            ctx.violation(data["key"], data["what"], d)
    else:
        print("replay: re-running the whole check with the recorded seed")
        ctx.seed = data.get("seed", ctx.seed)
        run(ctx)


def _unj(x):
    return {"inf": INF, "-inf": -INF}.get(x, x) if isinstance(x, str) else x

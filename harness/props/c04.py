"""C04 - results depend only on dimensionless ratios (unit-agnostic).

Proof obligations (coq/C04/Props.v) + correspondence of the Gallina model with what the image-formation
glue hands to a theory (mock theories) and with the parameters the real theories form internally
(recording subclasses / harness-side wrappers around the solver entry points) + direct exploration
of the property on every theory under rescaling of all lengths and the index substitution."""
import contextlib
import math
import re
import warnings
from fractions import Fraction

from harness.lib import boot
from harness.lib.coqrun import RUN_ROOT
from harness.lib.coqrun import qlit, zlit, listlit, parse_eval_blocks, COQ, BUILD, LOGICAL
from harness.lib.ctx import guarded

REQ = "From HV Require Import Common.Generic C04.Model.\n"
DEFS = """
Definition fv (v : vec Q) : list Q := let '(a,b,c) := v in [a;b;c].
Definition fc (c : cplx Q) : list Q := [fst c; snd c].
Definition flat_par (p : params Q) : list Q :=
  p_x p ++ flat_map fc (p_m p) ++ flat_map fv (p_geo p) ++ p_shape p ++ [inject_Z (p_np p)].
Definition flat_dl (d : dl Q) : list Q := flat_map fv (d_pos d) ++ [d_phase d] ++ flat_par (d_par d).
Definition flat_tm (t : Q*Q*Q*Q*Q*Q*Z*Q*Q) : list Q :=
  let '(axi,rat,lam,mrr,mri,eps,np,alpha,beta) := t in [axi;rat;lam;mrr;mri;eps;inject_Z np;alpha;beta].
Definition out (l : list Q) : list (Z * Z) := map (fun q => let r := Qred q in (Qnum r, Zpos (Qden r))) l.
"""
PI_LIT = qlit(math.pi)
TOL = 1e-9          # correspondence: observed rounding level ~1e-15
LOOSE = 1e-6        # exploration, iterative / truncated solvers (observed <= 1e-11)


# ---------------------------------------------------------------------------------------------
# configurations (plain python; lengths in arbitrary units)

def lg(rng, lo, hi):
    return math.exp(rng.uniform(math.log(lo), math.log(hi)))


def rnd(rng, lo, hi, digits=4):
    return round(rng.uniform(lo, hi), digits)


def gen_sphere(rng, layered=False, absorbing=None, zlo=4.0, zhi=9.0):
    if absorbing is None:
        absorbing = rng.random() < 0.4
    nl = rng.choice([2, 3]) if layered else 1
    ns = [complex(rnd(rng, 1.35, 1.7), rnd(rng, 0.001, 0.05) if absorbing else 0.0) for _ in range(nl)]
    rs = sorted(rnd(rng, 0.15, 0.7) for _ in range(nl))
    for i in range(1, nl):
        if rs[i] - rs[i - 1] < 0.05:
            rs[i] = round(rs[i - 1] + 0.07, 4)
    return dict(kind="sphere", n=ns, r=rs, c=[rnd(rng, -1, 2), rnd(rng, -1, 2), rnd(rng, zlo, zhi)])


def gen_cluster(rng, nsph, close=True):
    out, first = [], None
    for i in range(nsph):
        s = gen_sphere(rng, False, absorbing=(rng.random() < 0.3))
        s["r"] = [rnd(rng, 0.2, 0.5)]
        if first is None:
            first = s
        elif close:
            # next to the previous ones, not overlapping: offset along a random direction
            while True:
                d = [rng.uniform(-1, 1) for _ in range(3)]
                nd = math.sqrt(sum(x * x for x in d))
                if nd < 0.3:
                    continue
                base = rng.choice(out)
                dist = base["r"][0] + s["r"][0] + rnd(rng, 0.05, 0.5)
                c = [round(base["c"][j] + d[j] / nd * dist, 4) for j in range(3)]
                if all(math.dist(c, o["c"]) > o["r"][0] + s["r"][0] + 0.02 for o in out):
                    s["c"] = c
                    break
        out.append(s)
    return dict(kind="spheres", members=out)


def gen_spheroid(rng):
    a = rnd(rng, 0.2, 0.45)
    ratio = rng.choice([0.6, 0.8, 1.25, 1.6])
    return dict(kind="spheroid", n=complex(rnd(rng, 1.4, 1.65), rng.choice([0.0, 0.01])), rxy=a, rz=round(a * ratio, 4),
                rot=[rnd(rng, 0, 1), rnd(rng, 0.05, 1.2), rnd(rng, 0, 3)], c=[rnd(rng, -1, 2), rnd(rng, -1, 2), rnd(rng, 4, 9)])


def gen_cylinder(rng):
    d = rnd(rng, 0.4, 0.8)
    return dict(kind="cylinder", n=complex(rnd(rng, 1.4, 1.65), 0.0), d=d, h=round(d * rng.choice([0.8, 1.0, 1.3]), 4),
                rot=[rnd(rng, 0, 1), rnd(rng, 0.05, 1.2), rnd(rng, 0, 3)], c=[rnd(rng, -1, 2), rnd(rng, -1, 2), rnd(rng, 4, 9)])


def gen_det(rng, kind):
    if kind == "grid":
        return dict(kind="grid", shape=[rng.choice([3, 4, 5]), rng.choice([3, 4, 6])],
                    spacing=[rnd(rng, 0.05, 0.4), rnd(rng, 0.05, 0.4)])
    if kind == "points":
        n = rng.choice([4, 6, 9])
        return dict(kind="points", x=[rnd(rng, -2, 4) for _ in range(n)], y=[rnd(rng, -2, 4) for _ in range(n)],
                    z=[rnd(rng, -1, 1) for _ in range(n)])
    if kind == "flatpoints":
        n = rng.choice([4, 6, 9])
        z = rnd(rng, -1, 1)
        return dict(kind="points", x=[rnd(rng, -2, 4) for _ in range(n)], y=[rnd(rng, -2, 4) for _ in range(n)], z=[z] * n)
    if kind == "sph":
        n = rng.choice([4, 6])
        return dict(kind="sph", r=[rnd(rng, 5, 40) for _ in range(n)], theta=[rnd(rng, 0.05, 3.0) for _ in range(n)],
                    phi=[rnd(rng, 0, 6.2) for _ in range(n)])
    if kind == "far":
        n = rng.choice([4, 6])
        return dict(kind="far", theta=[rnd(rng, 0.0, 3.1) for _ in range(n)], phi=[rnd(rng, 0, 6.2) for _ in range(n)])
    raise ValueError(kind)


def gen_cfg(rng, sc, detkind):
    return dict(nm=rng.choice([1.0, 1.33, 1.33, 1.4, 1.5]), lam=rng.choice([0.405, 0.532, 0.66, 0.785, 1.064]),
                pol=rng.choice([[1, 0], [0, 1], [1, 1], [0.6, -0.8], [0.3, 0.9]]), sc=sc, det=gen_det(rng, detkind))


def map_sc(sc, fl, fn):
    """apply fl to every length and fn to every index of a scatterer description"""
    if sc["kind"] == "sphere":
        return dict(kind="sphere", n=[fn(x) for x in sc["n"]], r=[fl(x) for x in sc["r"]], c=[fl(x) for x in sc["c"]])
    if sc["kind"] == "spheres":
        return dict(kind="spheres", members=[map_sc(m, fl, fn) for m in sc["members"]])
    if sc["kind"] == "spheroid":
        return dict(kind="spheroid", n=fn(sc["n"]), rxy=fl(sc["rxy"]), rz=fl(sc["rz"]), rot=list(sc["rot"]),
                    c=[fl(x) for x in sc["c"]])
    if sc["kind"] == "cylinder":
        return dict(kind="cylinder", n=fn(sc["n"]), d=fl(sc["d"]), h=fl(sc["h"]), rot=list(sc["rot"]),
                    c=[fl(x) for x in sc["c"]])
    raise ValueError(sc["kind"])


def map_det(det, fl):
    d = dict(det)
    for key in ("spacing", "x", "y", "z", "r"):
        if key in d:
            d[key] = [fl(v) for v in d[key]]
    return d


def transform(cfg, s=1.0, subst=False):
    """the two transformations of the property: all lengths * s; (n, n_m, L) -> (n/n_m, 1, L/n_m)"""
    nm, lam = cfg["nm"], cfg["lam"]
    fn = (lambda n: n / nm) if subst else (lambda n: n)
    fl = lambda x: x * s
    out = dict(cfg)
    out["sc"] = map_sc(cfg["sc"], fl, fn)
    out["det"] = map_det(cfg["det"], fl)
    if subst:
        out["nm"], lam = 1.0, lam / nm
    out["lam"] = lam * s
    return out


def cidx(n):
    """index as handed to the constructors: real if it has no imaginary part"""
    n = complex(n)
    return n.real if n.imag == 0 else n


def build_sc(sc):
    from holopy.scattering import Sphere, Spheres, Spheroid, Cylinder
    if sc["kind"] == "sphere":
        if len(sc["r"]) == 1:
            return Sphere(n=cidx(sc["n"][0]), r=sc["r"][0], center=tuple(sc["c"]))
        return Sphere(n=[cidx(x) for x in sc["n"]], r=list(sc["r"]), center=tuple(sc["c"]))
    if sc["kind"] == "spheres":
        return Spheres([build_sc(m) for m in sc["members"]], warn=False)
    if sc["kind"] == "spheroid":
        return Spheroid(n=cidx(sc["n"]), r=(sc["rxy"], sc["rz"]), rotation=tuple(sc["rot"]), center=tuple(sc["c"]))
    if sc["kind"] == "cylinder":
        return Cylinder(n=cidx(sc["n"]), d=sc["d"], h=sc["h"], rotation=tuple(sc["rot"]), center=tuple(sc["c"]))
    raise ValueError(sc["kind"])


def build_det(det):
    import numpy as np
    from holopy.core.metadata import detector_grid, detector_points
    if det["kind"] == "grid":
        return detector_grid(shape=tuple(det["shape"]), spacing=tuple(det["spacing"]))
    if det["kind"] == "points":
        return detector_points(x=np.array(det["x"]), y=np.array(det["y"]), z=np.array(det["z"]))
    if det["kind"] == "sph":
        return detector_points(r=np.array(det["r"]), theta=np.array(det["theta"]), phi=np.array(det["phi"]))
    if det["kind"] == "far":
        return detector_points(theta=np.array(det["theta"]), phi=np.array(det["phi"]))
    raise ValueError(det["kind"])


# ---------------------------------------------------------------------------------------------
# Coq literals

def vlit(v):
    return "(%s, %s, %s)" % tuple(qlit(float(x)) for x in v)


def clit(n):
    n = complex(n)
    return "(%s, %s)" % (qlit(n.real), qlit(n.imag))


def p_lit(sc):
    if sc["kind"] == "sphere":
        return "(Sph %s %s %s)" % (listlit([clit(n) for n in sc["n"]]), listlit([qlit(float(r)) for r in sc["r"]]), vlit(sc["c"]))
    if sc["kind"] == "spheroid":
        return "(Spheroid %s %s %s %s %s)" % (clit(sc["n"]), qlit(float(sc["rxy"])), qlit(float(sc["rz"])), vlit(sc["rot"]), vlit(sc["c"]))
    if sc["kind"] == "cylinder":
        return "(Cyl %s %s %s %s %s)" % (clit(sc["n"]), qlit(float(sc["d"])), qlit(float(sc["h"])), vlit(sc["rot"]), vlit(sc["c"]))
    raise ValueError(sc["kind"])


def sc_lit(sc):
    if sc["kind"] == "spheres":
        return "(Many %s)" % listlit([p_lit(m) for m in sc["members"]])
    return "(One %s)" % p_lit(sc)


def det_lit(det, detector):
    """detector literal from the coordinates of the detector object actually handed to the implementation, in the
    order in which flat() enumerates them (x outermost, then y, then z)"""
    import numpy as np
    if det["kind"] == "grid":
        xs, ys, zs = detector.x.values, detector.y.values, np.atleast_1d(detector.z.values)
        pts = [(x, y, z) for x in xs for y in ys for z in zs]
        return "(DCart %s)" % listlit([vlit(p) for p in pts])
    if det["kind"] == "points":
        return "(DCart %s)" % listlit([vlit(p) for p in zip(detector.x.values, detector.y.values, detector.z.values)])
    if det["kind"] == "sph":
        return "(DSph %s)" % listlit([vlit(p) for p in zip(detector.r.values, detector.theta.values, detector.phi.values)])
    raise ValueError(det["kind"])


def cfg_lit(cfg, detector):
    return "(mkCfg %s %s %s %s)" % (qlit(float(cfg["nm"])), qlit(float(cfg["lam"])), sc_lit(cfg["sc"]), det_lit(cfg["det"], detector))


def cb_value(sc):
    """oracle value of v ** (1/3.) for the T-matrix equivalent-volume radius (same primitive as the implementation)"""
    if sc["kind"] == "sphere":
        rxy = rz = sc["r"][0]
    elif sc["kind"] == "spheroid":
        rxy, rz = sc["rxy"], sc["rz"]
    elif sc["kind"] == "cylinder":
        rxy, rz = sc["d"] / 2, sc["h"] / 2
    else:
        return 0.0
    return float((rz * rxy ** 2) ** (1 / 3.))


def run_coq_files(tag, files, jobs=3, timeout=600):
    """compile (name, text) files with coqc in build/run/<tag>/, at most `jobs` at a time.  The (large) output goes
    to a file, not a pipe.  Returns [(name, rc, output)] in the order of `files`."""
    import os
    import subprocess
    import time
    rundir = os.path.join(RUN_ROOT, tag)
    os.makedirs(rundir, exist_ok=True)
    for fn in os.listdir(rundir):
        try:
            os.remove(os.path.join(rundir, fn))
        except OSError:
            pass
    pending, running, done = list(files), [], {}
    while pending or running:
        while pending and len(running) < jobs:
            name, text = pending.pop(0)
            path = os.path.join(rundir, name + ".v")
            with open(path, "w") as fh:
                fh.write(text)
            outf = open(os.path.join(rundir, name + ".out"), "w")
            p = subprocess.Popen(["coqc", "-Q", COQ, LOGICAL, path], cwd=rundir, stdout=outf, stderr=subprocess.STDOUT)
            running.append((name, p, outf, time.time()))
        still = []
        for name, p, outf, ts in running:
            rc = p.poll()
            if rc is None and time.time() - ts > timeout:
                p.kill()
                rc = 124
            if rc is None:
                still.append((name, p, outf, ts))
            else:
                outf.close()
                done[name] = (rc, open(os.path.join(rundir, name + ".out")).read())
        running = still
        if running:
            time.sleep(0.05)
    return [(name, done[name][0], done[name][1]) for name, _ in files]


def coq_eval_lists(tag, exprs, chunk=12):
    """exprs: Gallina terms of type list Q.  Returns (list of list[Fraction] | None, errors)"""
    files = []
    for k in range(0, len(exprs), chunk):
        text = ("From Coq Require Import ZArith QArith List Bool.\nImport ListNotations.\n" + REQ + DEFS +
                "Open Scope Q_scope.\nDefinition cases : list (list Q) :=\n " +
                listlit(["\n  (" + e + ")" for e in exprs[k:k + chunk]]) + ".\nClose Scope Q_scope.\nOpen Scope Z_scope.\n"
                "Eval vm_compute in (map out cases).\n")
        files.append(("cases_%04d" % (k // chunk), text))
    res = run_coq_files(tag, files)
    out, errors = [], []
    for i, (name, rc, text) in enumerate(res):
        n_here = len(exprs[i * chunk:(i + 1) * chunk])
        if rc != 0:
            errors.append("%s: rc=%d %s" % (name, rc, text[-1500:]))
            out.extend([None] * n_here)
            continue
        blocks = parse_eval_blocks(text)
        if not blocks:
            errors.append("%s: no Eval output: %s" % (name, text[-500:]))
            out.extend([None] * n_here)
            continue
        body = blocks[-1]
        body = body[:body.rfind(":")] if ": list" in body else body
        inner = re.findall(r"\[([^\[\]]*)\]", body)
        if len(inner) != n_here:
            errors.append("%s: parsed %d lists, expected %d" % (name, len(inner), n_here))
            out.extend([None] * n_here)
            continue
        for s in inner:
            out.append([Fraction(int(a), int(b)) for a, b in re.findall(r"\(\s*(-?\d+)\s*,\s*(\d+)\s*\)", s)])
    return out, errors


# ---------------------------------------------------------------------------------------------
# observation of the implementation

def to_cart(pos, system):
    """implementation positions (3, N) in the theory's coordinate system -> cartesian (N, 3)"""
    import numpy as np
    a, b, c = np.asarray(pos, dtype=float)
    if system == "cartesian":
        return np.array([a, b, c]).T
    if system == "spherical":
        return np.array([a * np.sin(b) * np.cos(c), a * np.sin(b) * np.sin(c), a * np.cos(b)]).T
    if system == "cylindrical":
        return np.array([a * np.cos(b), a * np.sin(b), c]).T
    raise ValueError(system)


def make_mock(coord, mode):
    import numpy as np
    from holopy.scattering.theory.scatteringtheory import ScatteringTheory
    from holopy.scattering.scatterer import Sphere

    class MockTheory(ScatteringTheory):
        desired_coordinate_system = coord

        def __init__(self):
            self.log = []

        def can_handle(self, scatterer):
            return isinstance(scatterer, Sphere) if mode == "sphere-only" else True

        def raw_fields(self, pos, scatterer, medium_wavevec, medium_index, illum_polarization):
            pos = np.array(pos, dtype=float)
            raw = np.empty((3, pos.shape[1]), dtype=complex)
            raw[0], raw[1], raw[2] = 1.0 + 0.5j, 0.25 - 1.0j, 0.5j
            self.log.append(dict(what="fields", pos=pos, k=float(medium_wavevec), nm=medium_index, raw=raw.copy()))
            return raw

        def raw_scat_matrs(self, scatterer, pos, medium_wavevec, medium_index):
            pos = np.array(pos, dtype=float)
            self.log.append(dict(what="scat", pos=pos, k=float(medium_wavevec), nm=medium_index))
            return np.ones((pos.shape[1], 2, 2), dtype=complex)

        def raw_cross_sections(self, scatterer, medium_wavevec, medium_index, illum_polarization):
            self.log.append(dict(what="cross", k=float(medium_wavevec), nm=medium_index))
            return np.array([1.0, 2.0, 3.0, 0.5])
    return MockTheory()


PLOG = []   # parameter records of the real solvers, in call order
MAXERR = {}  # largest relative difference seen in the exploration, per theory (reported in the evidence notes)


class _Proxy(object):
    def __init__(self, target, **over):
        self._t = target
        self._o = over

    def __getattr__(self, name):
        o = object.__getattribute__(self, "_o")
        if name in o:
            return o[name]
        return getattr(object.__getattribute__(self, "_t"), name)


@contextlib.contextmanager
def recording_solvers():
    """harness-side wrappers (nothing in /repo is edited) around the entry points through which the theories hand
    their dimensionless parameters to the solvers"""
    import numpy as np
    import holopy.scattering.theory.mie as M
    import holopy.scattering.theory.multisphere as MS
    import holopy.scattering.theory.tmatrix as TM
    import holopy.scattering.theory.mielens as ML
    saved = (M.miescatlib, M.scatcoeffs_multi, MS.scsmfo_min, TM.ampld, ML.MieLensCalculator, ML.AberratedMieLensCalculator)

    def scatcoeffs(m, x, *a, **k):
        PLOG.append(dict(what="mie", m=[complex(m)], x=[float(x)]))
        return saved[0].scatcoeffs(m, x, *a, **k)

    def scatcoeffs_multi(m, x, *a, **k):
        PLOG.append(dict(what="mie", m=[complex(v) for v in np.atleast_1d(m)], x=[float(v) for v in np.atleast_1d(x)]))
        return saved[1](m, x, *a, **k)

    def amncalc(one, x, y, z, mre, mim, xs, *a, **k):
        PLOG.append(dict(what="multi", geo=[[float(p), float(q), float(r)] for p, q, r in zip(x, y, z)],
                         m=[complex(p, q) for p, q in zip(np.atleast_1d(mre), np.atleast_1d(mim))],
                         x=[float(v) for v in np.atleast_1d(xs)]))
        return saved[2].amncalc(one, x, y, z, mre, mim, xs, *a, **k)

    def ampld(*args):
        axi, rat, lam, mrr, mri, eps, NP, ndgs, alpha, beta = args[:10]
        PLOG.append(dict(what="tmat", raw=[float(axi), float(rat), float(lam), float(mrr), float(mri), float(eps), int(NP),
                                           float(alpha), float(beta)]))
        return saved[3](*args)

    def mlc(**kw):
        PLOG.append(dict(what="mielens", kz=float(kw["particle_kz"]), m=[complex(kw["index_ratio"])],
                         x=[float(kw["size_parameter"])], shape=[float(kw["lens_angle"])]))
        return saved[4](**kw)

    def amlc(**kw):
        PLOG.append(dict(what="mielens", kz=float(kw["particle_kz"]), m=[complex(kw["index_ratio"])],
                         x=[float(kw["size_parameter"])],
                         shape=[float(kw["lens_angle"])] + [float(v) for v in np.reshape(kw["spherical_aberration"], -1)]))
        return saved[5](**kw)

    def cross_sections(an, bn):
        out = saved[0].cross_sections(an, bn)
        PLOG.append(dict(what="qs", q=[float(v) for v in out]))
        return out

    def asymmetry_parameter(an, bn):
        out = saved[0].asymmetry_parameter(an, bn)
        PLOG.append(dict(what="g", g=float(out)))
        return out

    M.miescatlib = _Proxy(saved[0], scatcoeffs=scatcoeffs, cross_sections=cross_sections,
                          asymmetry_parameter=asymmetry_parameter)
    M.scatcoeffs_multi = scatcoeffs_multi
    MS.scsmfo_min = _Proxy(saved[2], amncalc=amncalc)
    TM.ampld = ampld
    ML.MieLensCalculator = mlc
    ML.AberratedMieLensCalculator = amlc
    try:
        yield
    finally:
        (M.miescatlib, M.scatcoeffs_multi, MS.scsmfo_min, TM.ampld, ML.MieLensCalculator, ML.AberratedMieLensCalculator) = saved


def recording(theory_cls):
    """subclass of a real theory that records what ImageFormation hands to raw_fields and what it returns"""
    import numpy as np

    class Rec(theory_cls):
        flog = None

        def raw_fields(self, positions, scatterer, medium_wavevec, medium_index, illum_polarization):
            pos = np.array(positions, dtype=float).copy()
            n0 = len(PLOG)
            out = super().raw_fields(positions, scatterer, medium_wavevec, medium_index, illum_polarization)
            type(self).flog.append(dict(pos=pos, k=float(medium_wavevec), nm=medium_index, raw=np.array(out).copy(),
                                        params=PLOG[n0:]))
            return out
    Rec.flog = []
    Rec.__name__ = "Rec" + theory_cls.__name__
    return Rec


THEORIES = {}   # name -> dict(make=callable(rec) -> theory, lit, coord, sc kinds, det kinds, tol, apis)


def _theories():
    if THEORIES:
        return THEORIES
    from holopy.scattering.theory import Mie, Multisphere, Tmatrix, MieLens, Lens, AberratedMieLens

    def reg(name, make, lit, coord, scs, dets, tol, scat=True, shape=()):
        THEORIES[name] = dict(name=name, make=make, lit=lit, coord=coord, scs=scs, dets=dets, tol=tol, scat=scat,
                              shape=list(shape))
    reg("Mie", lambda w=(lambda c: c): w(Mie)(), "Mie", "spherical", ["sphere", "layered"], ["grid", "points", "sph"], TOL)
    reg("MieSuperposition", lambda w=(lambda c: c): w(Mie)(), "Mie", "spherical", ["mixed-cluster"], ["grid", "points", "sph"], TOL,
        scat=False)
    reg("Multisphere", lambda w=(lambda c: c): w(Multisphere)(), "Multi", "spherical", ["cluster", "usphere"],
        ["grid", "points", "sph"], LOOSE)
    reg("Tmatrix", lambda w=(lambda c: c): w(Tmatrix)(), "Tmat", "spherical", ["spheroid", "cylinder", "usphere"],
        ["grid", "points", "sph"], LOOSE)
    reg("MieLens", lambda w=(lambda c: c): w(MieLens)(lens_angle=0.85), "(MieLens %s [])" % qlit(0.85), "cylindrical",
        ["usphere"], ["grid", "flatpoints"], TOL, scat=False, shape=[0.85])
    reg("AberratedMieLens", lambda w=(lambda c: c): w(AberratedMieLens)(spherical_aberration=[0.7, -0.3], lens_angle=0.6),
        "(MieLens %s [%s; %s])" % (qlit(0.6), qlit(0.7), qlit(-0.3)), "cylindrical", ["usphere"], ["grid", "flatpoints"], TOL,
        scat=False, shape=[0.6, 0.7, -0.3])
    reg("Lens(Mie)", lambda w=(lambda c: c): w(Lens)(0.7, Mie(), quad_npts_theta=16, quad_npts_phi=16),
        "(Lens %s Mie)" % qlit(0.7), "cylindrical", ["sphere", "layered"], ["grid", "flatpoints"], TOL, scat=False, shape=[0.7])
    reg("Lens(Tmatrix)", lambda w=(lambda c: c): w(Lens)(0.5, Tmatrix(), quad_npts_theta=6, quad_npts_phi=8),
        "(Lens %s Tmat)" % qlit(0.5), "cylindrical", ["spheroid"], ["grid"], LOOSE, scat=False, shape=[0.5])
    return THEORIES


def gen_sc(rng, kind):
    if kind == "sphere":
        return gen_sphere(rng, False)
    if kind == "usphere":
        return gen_sphere(rng, False)
    if kind == "layered":
        return gen_sphere(rng, True)
    if kind == "cluster":
        return gen_cluster(rng, rng.choice([2, 2, 3]))
    if kind == "mixed-cluster":
        cl = gen_cluster(rng, rng.choice([2, 3]))
        if rng.random() < 0.5:
            lay = gen_sphere(rng, True)
            lay["c"] = [cl["members"][0]["c"][0] + 3.0, cl["members"][0]["c"][1] - 2.5, cl["members"][0]["c"][2] + 1.5]
            cl["members"].append(lay)
        return cl
    if kind == "spheroid":
        return gen_spheroid(rng)
    if kind == "cylinder":
        return gen_cylinder(rng)
    raise ValueError(kind)


def unit_of(rng):
    """the unit in which a configuration is expressed: 8 decades, powers of two, powers of ten and arbitrary factors"""
    c = rng.random()
    if c < 0.25:
        return 1.0
    if c < 0.5:
        return 2.0 ** rng.randint(-13, 13)
    if c < 0.7:
        return 10.0 ** rng.randint(-4, 4)
    return lg(rng, 1e-4, 1e4)


def close_vec(a, b, tol):
    """|a - b| <= tol * max(|a|, |b|) for vectors (or scalars)"""
    import numpy as np
    a, b = np.asarray(a, dtype=complex).ravel(), np.asarray(b, dtype=complex).ravel()
    if a.shape != b.shape:
        return False
    if not (np.all(np.isfinite(a)) and np.all(np.isfinite(b))):
        return False
    scale = max(np.max(np.abs(a)) if a.size else 0.0, np.max(np.abs(b)) if b.size else 0.0)
    return bool(np.max(np.abs(a - b)) <= tol * scale) if a.size else True


def f(fr):
    return float(fr)


def field_matrix(res):
    """calc_field result -> (N, 3) array in the order of the flattened detector"""
    import numpy as np
    return np.asarray(res.transpose(..., "vector").values).reshape(-1, 3)


# ---------------------------------------------------------------------------------------------
# stage 1: what ImageFormation hands to a theory (mock theories) vs the model

def stage_mock(ctx):
    import numpy as np
    from holopy.scattering import calc_field, calc_holo, calc_scat_matrix, calc_cross_sections
    rng = ctx.subrng("mock")
    exprs, metas = [], []
    for k in range(ctx.n(70, 700)):
        api = rng.choice(["field", "field", "field", "holo", "scat", "scat", "cross"])
        mode = rng.choice(["sphere-only", "all"])
        coord = rng.choice(["cartesian", "cartesian", "spherical", "cylindrical"])
        if mode == "sphere-only":
            sc = gen_sc(rng, rng.choice(["sphere", "layered", "mixed-cluster"]))
            lit_th = "Mie"
        else:
            kind = rng.choice(["usphere", "cluster", "spheroid", "cylinder"])
            sc = gen_sc(rng, kind)
            lit_th = "Tmat" if kind in ("spheroid", "cylinder") else "Multi"
        detkind = rng.choice(["grid", "points", "sph"] if coord == "spherical" else ["grid", "points"])
        if api == "scat":
            coord = "spherical"
            detkind = rng.choice(["grid", "points", "sph"])
        base = gen_cfg(rng, sc, detkind)
        u = unit_of(rng)
        cfg = transform(base, s=u, subst=(rng.random() < 0.25))
        ctx.count("mock:api:" + api)
        ctx.count("mock:coord:" + coord)
        ctx.count("mock:det:" + detkind)
        ctx.count("mock:sc:" + sc["kind"])
        ctx.count("unit-decade:%d" % math.floor(math.log10(u) + 0.5))
        det, scat = build_det(cfg["det"]), build_sc(cfg["sc"])
        mock = make_mock(coord, mode)
        meta = dict(case=k, api=api, mode=mode, coord=coord, cfg=cfg, unit=u)
        cl = cfg_lit(cfg, det)
        if api in ("field", "holo"):
            fn = calc_field if api == "field" else calc_holo
            res = fn(det, scat, cfg["nm"], cfg["lam"], cfg["pol"], theory=mock)
            calls = [c for c in mock.log if c["what"] == "fields"]
            expr = "wavevec QO %s %s %s :: flat_map flat_dl (dimensionless QO %s (fun _ => 0) %s %s)" % (
                PI_LIT, qlit(float(cfg["nm"])), qlit(float(cfg["lam"])), PI_LIT, lit_th, cl)
            exprs.append(expr)
            meta.update(calls=calls, result=field_matrix(res) if api == "field" else None)
        elif api == "scat":
            calc_scat_matrix(det, scat, cfg["nm"], cfg["lam"], theory=mock)
            calls = [c for c in mock.log if c["what"] == "scat"]
            expr = ("wavevec QO %s %s %s :: flat_map fv (positions QO 1 (center QO %s) %s)"
                    % (PI_LIT, qlit(float(cfg["nm"])), qlit(float(cfg["lam"])), sc_lit(cfg["sc"]), det_lit(cfg["det"], det)))
            exprs.append(expr)
            meta.update(calls=calls)
        else:
            calc_cross_sections(scat, cfg["nm"], cfg["lam"], cfg["pol"], theory=mock)
            calls = [c for c in mock.log if c["what"] == "cross"]
            exprs.append("[wavevec QO %s %s %s]" % (PI_LIT, qlit(float(cfg["nm"])), qlit(float(cfg["lam"]))))
            meta.update(calls=calls)
        metas.append(meta)
    vals, errors = coq_eval_lists("C04m", exprs)
    ctx.corr_cases += len(exprs)
    for e in errors:
        ctx.violation("corr-eval-error", "model evaluation failed: " + e[:300], dict(kind="coq-error", log=e), nofail=True)
    for meta, mv in zip(metas, vals):
        if mv is None:
            continue
        bad = compare_mock(meta, [f(x) for x in mv])
        if bad:
            ctx.disagree("corr:handoff:%s:%s" % (meta["api"], bad[0]),
                         "model and implementation disagree on what ImageFormation hands to a theory (%s, %s): %s"
                         % (meta["api"], meta["coord"], bad[1]),
                         dict(kind="corr-mock", api=meta["api"], mode=meta["mode"], coord=meta["coord"], cfg=meta["cfg"],
                              detail=bad[1]))
        else:
            ctx.nontriv(("mock", meta["api"], meta["coord"], meta["cfg"]["sc"]["kind"], meta["cfg"]["det"]["kind"],
                         math.floor(math.log10(meta["unit"]))))
        if meta["case"] < 2:
            ctx.sample(dict(api=meta["api"], coord=meta["coord"], cfg=meta["cfg"], k_handed=meta["calls"][0]["k"] if meta["calls"] else None,
                            model_first_values=[f(x) for x in mv[:4]]))


def compare_mock(meta, mv):
    """returns None or (short key, description)"""
    import numpy as np
    api, calls, cfg = meta["api"], meta["calls"], meta["cfg"]
    if api == "cross":
        if len(calls) != 1:
            return ("ncalls", "raw_cross_sections called %d times" % len(calls))
        if not close_vec(calls[0]["k"], mv[0], TOL):
            return ("wavevec", "medium_wavevec %r, model %r" % (calls[0]["k"], mv[0]))
        if calls[0]["nm"] != cfg["nm"]:
            return ("medium_index", "medium_index handed over %r != %r" % (calls[0]["nm"], cfg["nm"]))
        return None
    if api == "scat":
        if len(calls) != 1:
            return ("ncalls", "raw_scat_matrs called %d times" % len(calls))
        c = calls[0]
        if not close_vec(c["k"], mv[0], TOL):
            return ("wavevec", "medium_wavevec %r, model %r" % (c["k"], mv[0]))
        model = np.array(mv[1:]).reshape(-1, 3)
        if cfg["det"]["kind"] == "sph":
            got = c["pos"].T
        else:
            got = to_cart(c["pos"], "spherical")
        if got.shape != model.shape:
            return ("npoints", "positions shape %r, model %r" % (got.shape, model.shape))
        for g, m in zip(got, model):
            if not close_vec(g, m, TOL):
                return ("positions", "position handed over %r, model %r" % (g.tolist(), m.tolist()))
        return None
    # field / holo: model wavevec, then a sequence of dl = positions (3 per point), phase, params (ignored here)
    kq, mv = mv[0], mv[1:]
    npts = calls[0]["pos"].shape[1] if calls else 0
    pos_i = 0
    total = np.zeros((npts, 3), dtype=complex)
    for ci, c in enumerate(calls):
        if pos_i + 3 * npts + 1 > len(mv):
            return ("ncalls", "more raw_fields calls (%d) than hand-overs in the model" % len(calls))
        model = np.array(mv[pos_i:pos_i + 3 * npts]).reshape(-1, 3)
        phase = mv[pos_i + 3 * npts]
        pos_i += 3 * npts + 1 + meta_par_len(meta, ci)
        if cfg["det"]["kind"] == "sph":
            got = c["pos"].T
        else:
            got = to_cart(c["pos"], meta["coord"])
        for g, m in zip(got, model):
            if not close_vec(g, m, TOL):
                return ("positions", "call %d: position handed over %r, model %r" % (ci, g.tolist(), m.tolist()))
        if c["nm"] != cfg["nm"]:
            return ("medium_index", "medium_index handed over %r != %r" % (c["nm"], cfg["nm"]))
        if not close_vec(c["k"], kq, TOL):
            return ("wavevec", "medium_wavevec %r, model %r" % (c["k"], kq))
        total += c["raw"].T * np.exp(-1j * phase)
    if pos_i != len(mv):
        return ("ncalls", "model predicts a different number of hand-overs (%d calls seen)" % len(calls))
    if meta["result"] is not None:
        if not close_vec(meta["result"], total, TOL):
            return ("phase", "calc_field result is not sum_i raw_i * exp(-1j * k * z_i) with the model's phase arguments")
    return None


def meta_par_len(meta, ci):
    """length of flat_par for the model theory used in the mock stage"""
    cfg = meta["cfg"]
    sc = cfg["sc"]
    if meta["mode"] == "sphere-only":           # model theory Mie
        p = sc["members"][ci] if sc["kind"] == "spheres" else sc
        return len(p["r"]) + 2 * len(p["n"]) + 1
    if sc["kind"] in ("spheroid", "cylinder"):  # Tmat
        return 1 + 2 + 3 + 1
    n = len(sc["members"]) if sc["kind"] == "spheres" else 1
    return n + 2 * n + 3 * n + 1                # Multi


# ---------------------------------------------------------------------------------------------
# stage 2: parameters the real theories form, and what they are handed, vs the model's dimensionless tuple

def stage_params(ctx):
    import numpy as np
    from holopy.scattering import calc_field
    ths = _theories()
    rng = ctx.subrng("params")
    exprs, metas = [], []
    names = list(ths)
    reps = ctx.n(5, 40)
    for name in names:
        th = ths[name]
        for j in range(reps if name not in ("Lens(Tmatrix)",) else max(1, reps // 3)):
            kind = rng.choice(th["scs"])
            detkind = rng.choice(th["dets"])
            base = gen_cfg(rng, gen_sc(rng, kind), detkind)
            if name in ("Tmatrix", "Lens(Tmatrix)"):
                base["pol"] = [1, 0]
            u = unit_of(rng)
            cfg = transform(base, s=u, subst=(rng.random() < 0.25))
            det, scat = build_det(cfg["det"]), build_sc(cfg["sc"])
            del PLOG[:]
            holder = {}

            def wrap(cls, holder=holder):
                # the outermost theory class is the one ImageFormation calls
                if "cls" not in holder:
                    holder["cls"] = recording(cls)
                    return holder["cls"]
                return cls
            theory = th["make"](wrap)
            try:
                with recording_solvers():
                    res = calc_field(det, scat, cfg["nm"], cfg["lam"], cfg["pol"], theory=theory)
            except Exception as e:
                ctx.corr_cases += 1
                ctx.disagree("corr:params:%s:raises" % name,
                             "calc_field with %s raises %s: %s on a generated configuration (unit %r)"
                             % (name, type(e).__name__, str(e)[:120], u),
                             dict(kind="corr-params", theory=name, cfg=cfg, unit=u, error=repr(e)[:300]))
                continue
            calls = holder["cls"].flog
            cb = cb_value(cfg["sc"])
            expr = "flat_map flat_dl (dimensionless QO %s (fun _ => %s) %s %s)" % (PI_LIT, qlit(cb), th["lit"], cfg_lit(cfg, det))
            if name == "Tmatrix":
                expr += " ++ flat_tm (tm_raw QO %s (fun _ => %s) (wavevec QO %s %s %s) %s %s)" % (
                    PI_LIT, qlit(cb), PI_LIT, qlit(float(cfg["nm"])), qlit(float(cfg["lam"])), qlit(float(cfg["nm"])),
                    p_lit(cfg["sc"]))
            exprs.append(expr)
            metas.append(dict(case=len(metas), theory=name, cfg=cfg, unit=u, calls=calls, result=field_matrix(res)))
            ctx.count("params:theory:" + name)
            ctx.count("params:sc:" + kind)
            ctx.count("unit-decade:%d" % math.floor(math.log10(u) + 0.5))
    vals, errors = coq_eval_lists("C04p", exprs)
    ctx.corr_cases += len(exprs)
    for e in errors:
        ctx.violation("corr-eval-error", "model evaluation failed: " + e[:300], dict(kind="coq-error", log=e), nofail=True)
    shown = set()
    for meta, mv in zip(metas, vals):
        if mv is None:
            continue
        bad = compare_params(meta, [f(x) for x in mv])
        if bad:
            ctx.disagree("corr:params:%s:%s" % (meta["theory"], bad[0]),
                         "model and implementation disagree on the dimensionless parameters of %s: %s" % (meta["theory"], bad[1]),
                         dict(kind="corr-params", theory=meta["theory"], cfg=meta["cfg"], detail=bad[1]))
        else:
            ctx.nontriv(("params", meta["theory"], meta["cfg"]["sc"]["kind"], meta["cfg"]["det"]["kind"],
                         math.floor(math.log10(meta["unit"]))))
        if meta["theory"] not in shown and len(shown) < 3:
            shown.add(meta["theory"])
            ctx.sample(dict(theory=meta["theory"], cfg=meta["cfg"],
                            recorded_params=[{k: v for k, v in p.items()} for c in meta["calls"] for p in c["params"]][:2]))


def rec_flat_params(name, th, call):
    """flat_par of the recorded solver parameters of one raw_fields call, with the grouping used for comparison
    (list of (label, values)); None if the records have an unexpected shape"""
    ps = call["params"]
    lens_shape = [th["shape"][0]] if name.startswith("Lens(") else []
    if not ps:
        return None
    p = ps[0]
    if any(q != p for q in ps[1:]):
        return None

    def ms(m):
        return [("m%d" % i, [v.real, v.imag]) for i, v in enumerate(m)]

    def xs(x):
        return [("x%d" % i, [v]) for i, v in enumerate(x)]

    def sh(v):
        return [("shape%d" % i, [w]) for i, w in enumerate(v)]
    if p["what"] == "mie":
        return xs(p["x"]) + ms(p["m"]) + sh(lens_shape) + [("np", [0.0])]
    if p["what"] == "mielens":
        return xs(p["x"]) + ms(p["m"]) + sh(p["shape"]) + [("np", [0.0])]
    if p["what"] == "multi":
        return xs(p["x"]) + ms(p["m"]) + [("centres", [v for g in p["geo"] for v in g])] + [("np", [0.0])]
    if p["what"] == "tmat":
        axi, rat, lam, mrr, mri, eps, NP, alpha, beta = p["raw"]
        return xs([rat * axi / lam]) + ms([complex(mrr, mri)]) + sh(lens_shape + [eps, alpha, beta]) + [("np", [float(NP)])]
    return None


def compare_params(meta, mv):
    import numpy as np
    name, cfg, calls = meta["theory"], meta["cfg"], meta["calls"]
    th = _theories()[name]
    npts = calls[0]["pos"].shape[1] if calls else 0
    i = 0
    total = np.zeros((npts, 3), dtype=complex)
    for ci, c in enumerate(calls):
        rec = rec_flat_params(name, th, c)
        if rec is None:
            return ("records", "call %d: unexpected solver records %r" % (ci, [p["what"] for p in c["params"]]))
        need = 3 * npts + 1 + sum(len(v) for _, v in rec)
        if i + need > len(mv):
            return ("ncalls", "model predicts fewer / shorter hand-overs than observed (call %d)" % ci)
        model_pos = np.array(mv[i:i + 3 * npts]).reshape(-1, 3)
        phase = mv[i + 3 * npts]
        model_par = mv[i + 3 * npts + 1:i + need]
        i += need
        got = c["pos"].T if cfg["det"]["kind"] == "sph" else to_cart(c["pos"], th["coord"])
        for g, m in zip(got, model_pos):
            if not close_vec(g, m, TOL):
                return ("positions", "call %d: position handed over %r, model %r" % (ci, g.tolist(), m.tolist()))
        off = 0
        for label, g in rec:
            m = model_par[off:off + len(g)]
            off += len(g)
            if not close_vec(g, m, TOL):
                return ("parameter", "call %d: solver parameter %s = %r, model %r (recorded %r)" % (ci, label, g, m, c["params"][0]))
        if c["params"][0]["what"] == "mielens":
            kz_model = model_pos[0][2]
            if not close_vec(c["params"][0]["kz"], kz_model, TOL):
                return ("particle_kz", "call %d: particle_kz %r, model %r" % (ci, c["params"][0]["kz"], kz_model))
        total += c["raw"].T * np.exp(-1j * phase)
    rest = mv[i:]
    if name == "Tmatrix":
        if len(rest) != 9:
            return ("ncalls", "model predicts a different number of hand-overs")
        raw = calls[0]["params"][0]["raw"]
        for idx, (g, m) in enumerate(zip(raw, rest)):
            if not close_vec(g, m, TOL):
                return ("tm_args", "T-matrix argument #%d (axi,rat,lam,mrr,mri,eps,np,alpha,beta) = %r, model %r" % (idx, g, m))
    elif rest:
        return ("ncalls", "model predicts more hand-overs than observed (%d calls)" % len(calls))
    if not close_vec(meta["result"], total, TOL):
        return ("phase", "calc_field result is not sum_i raw_i * exp(-1j * phase_arg_i) with the model's phase arguments")
    return None


def stage_cross(ctx):
    """Mie.raw_cross_sections: efficiencies (oracle values of miescatlib) -> dimensional cross sections, vs cs_mie"""
    import numpy as np
    from holopy.scattering import calc_cross_sections
    from holopy.scattering.theory import Mie
    rng = ctx.subrng("cross")
    exprs, metas = [], []
    for k in range(ctx.n(12, 120)):
        base = gen_cfg(rng, gen_sc(rng, rng.choice(["sphere", "layered"])), "grid")
        u = unit_of(rng)
        cfg = transform(base, s=u, subst=(rng.random() < 0.25))
        del PLOG[:]
        with recording_solvers():
            res = np.asarray(calc_cross_sections(build_sc(cfg["sc"]), cfg["nm"], cfg["lam"], cfg["pol"], theory=Mie()).values)
        qs = [p for p in PLOG if p["what"] == "qs"]
        g = [p for p in PLOG if p["what"] == "g"]
        if len(qs) != 1 or len(g) != 1:
            ctx.disagree("corr:cross:records", "unexpected solver records in Mie.raw_cross_sections", dict(kind="corr-cross", cfg=cfg))
            continue
        exprs.append("(let '(a,b,c,d) := cs_mie QO %s (wavevec QO %s %s %s) %s %s %s in [a;b;c;d])" % (
            PI_LIT, PI_LIT, qlit(float(cfg["nm"])), qlit(float(cfg["lam"])), qlit(qs[0]["q"][0]), qlit(qs[0]["q"][1]), qlit(g[0]["g"])))
        metas.append(dict(cfg=cfg, unit=u, result=res, q=qs[0]["q"], g=g[0]["g"]))
        ctx.count("cross:corr")
    vals, errors = coq_eval_lists("C04c", exprs)
    ctx.corr_cases += len(exprs)
    for e in errors:
        ctx.violation("corr-eval-error", "model evaluation failed: " + e[:300], dict(kind="coq-error", log=e), nofail=True)
    for meta, mv in zip(metas, vals):
        if mv is None:
            continue
        mvf = [f(x) for x in mv]
        # cabs = cext - cscat cancels for weakly absorbing spheres: compare it on the scale of cext
        ok = (len(mvf) == 4 and close_vec(meta["result"][[0, 2, 3]], [mvf[0], mvf[2], mvf[3]], TOL) and
              abs(meta["result"][1] - mvf[1]) <= TOL * abs(mvf[2]))
        if not ok:
            ctx.disagree("corr:cross:Mie", "calc_cross_sections (Mie) %r differs from the model %r formed from the same efficiencies"
                         % (meta["result"].tolist(), mvf), dict(kind="corr-cross", cfg=meta["cfg"], q=meta["q"], g=meta["g"]))
        else:
            ctx.nontriv(("cross", meta["cfg"]["sc"]["kind"], math.floor(math.log10(meta["unit"]))))


# ---------------------------------------------------------------------------------------------
# stage 3: direct exploration of the property on the implementation

def run_api(api, theory, cfg):
    import numpy as np
    from holopy.scattering import calc_holo, calc_field, calc_intensity, calc_scat_matrix, calc_cross_sections
    det, scat = (build_det(cfg["det"]) if api != "cross" else None), build_sc(cfg["sc"])
    if api == "holo":
        return np.asarray(calc_holo(det, scat, cfg["nm"], cfg["lam"], cfg["pol"], theory=theory).values)
    if api == "field":
        return np.asarray(calc_field(det, scat, cfg["nm"], cfg["lam"], cfg["pol"], theory=theory).values)
    if api == "intensity":
        return np.asarray(calc_intensity(det, scat, cfg["nm"], cfg["lam"], cfg["pol"], theory=theory).values)
    if api == "scat":
        return np.asarray(calc_scat_matrix(det, scat, cfg["nm"], cfg["lam"], theory=theory).values)
    if api == "cross":
        return np.asarray(calc_cross_sections(scat, cfg["nm"], cfg["lam"], cfg["pol"], theory=theory).values)
    raise ValueError(api)


def transforms_for(rng, n_random):
    """(s, subst) pairs: powers of two, powers of ten, arbitrary factors over 8 decades, and the index substitution"""
    out = [(2.0 ** -13, False), (2.0 ** 13, False), (1e-4, False), (1e4, True), (1.0, True), (1e-6, False),   # 1e-6: microns -> metres
           (1e-8, False)]                                                                                 # a 0.5 um radius becomes 5e-9
    for _ in range(n_random):
        out.append((lg(rng, 1e-4, 1e4), rng.random() < 0.4))
    return out


def explore_one(ctx, name, api, base, s, subst, base_out=None):
    """evaluates the property's predicate; returns the base output for reuse"""
    import numpy as np
    th = _theories()[name]
    theory = th["make"]()
    if base_out is None:
        base_out = run_api(api, theory, base)
    cfg = transform(base, s=s, subst=subst)
    kind = ("scale+subst" if s != 1.0 else "subst") if subst else "scale"
    data = dict(kind="explore", theory=name, api=api, base=base, s=s, subst=subst)
    ctx.explored += 1
    try:
        out = run_api(api, th["make"](), cfg)
    except Exception as e:  # the base configuration computed, the re-expressed one does not
        ctx.violation("explore:%s:%s:raises" % (name, kind),
                      "%s of %s computes in the original units but raises %s: %s after %s (s=%r)"
                      % (api, name, type(e).__name__, str(e)[:120], kind, s), data)
        return base_out
    expect = base_out
    if api == "cross":
        expect = base_out * np.array([s * s, s * s, s * s, 1.0])
    tol = th["tol"]
    if api == "cross" and name == "Multisphere":
        # the absorption cross section is a difference of two nearly equal numbers, the asymmetry comes from dblquad
        ok = close_vec(out[[0, 2, 3]], expect[[0, 2, 3]], tol) and abs(out[1] - expect[1]) <= tol * abs(expect[2])
    else:
        ok = close_vec(out, expect, tol)
    err = float(np.max(np.abs(out - expect)) / max(np.max(np.abs(expect)), 1e-300)) if out.shape == expect.shape else None
    if ok and err is not None:
        MAXERR[name] = max(MAXERR.get(name, 0.0), err)
    if not ok:
        data["rel_err"] = err
        ctx.violation("explore:%s:%s" % (name, kind),
                      "%s of %s changes under %s (s=%r): relative difference %r > %g" % (api, name, kind, s, err, tol), data)
    else:
        ctx.nontriv(("explore", name, api, kind, math.floor(math.log10(s) + 0.5)))
    return base_out


def stage_explore(ctx):
    ths = _theories()
    rng = ctx.subrng("explore")
    nconf = ctx.n(2, 8)
    nrand = ctx.n(2, 8)
    for name, th in ths.items():
        for j in range(nconf if name != "Lens(Tmatrix)" else 1):
            kind = rng.choice(th["scs"])
            detkind = rng.choice(th["dets"])
            base = gen_cfg(rng, gen_sc(rng, kind), detkind)
            if name in ("Tmatrix", "Lens(Tmatrix)"):
                base["pol"] = [1, 0]
            apis = ["holo", "field", "intensity"]
            trs = transforms_for(rng, nrand)
            for api in apis:
                ctx.count("explore:%s:%s" % (name, api))
                bo = None
                for s, subst in trs:
                    bo = explore_one(ctx, name, api, base, s, subst, bo)
            if th["scat"]:
                sbase = dict(base)
                sbase["det"] = gen_det(rng, rng.choice(["far", "grid", "points"]))
                ctx.count("explore:%s:scat" % name)
                bo = None
                for s, subst in trs:
                    bo = explore_one(ctx, name, "scat", sbase, s, subst, bo)
            if j == 0:
                ctx.sample(dict(explored=name, base=base, transforms=trs[:3]))
    # cross sections: x s^2 (asymmetry parameter unchanged)
    for j in range(ctx.n(6, 40)):
        base = gen_cfg(rng, gen_sc(rng, rng.choice(["sphere", "layered"])), "grid")
        ctx.count("explore:Mie:cross")
        bo = None
        for s, subst in transforms_for(rng, nrand):
            bo = explore_one(ctx, "Mie", "cross", base, s, subst, bo)
    for j in range(ctx.n(1, 3)):
        base = gen_cfg(rng, gen_sc(rng, "cluster"), "grid")
        ctx.count("explore:Multisphere:cross")
        bo = None
        for s, subst in [(1e-4, False), (lg(rng, 1e-4, 1e4), True)] + ([(2.0 ** 13, False), (1.0, True)] if ctx.tier == "thorough" else []):
            bo = explore_one(ctx, "Multisphere", "cross", base, s, subst, bo)


def stage_integer_units(ctx):
    """the same configuration written in a unit in which every length is a whole number (nanometres, angstroms) and handed over
    as python ints - the usual way to write such numbers - against the micron description in floats.  The configurations are
    first rounded to whole numbers of 1e-4 micron, so the two descriptions denote the same lengths up to a rounding of 1e-16."""
    import numpy as np
    rng = ctx.subrng("integer-units")
    plan = [("Mie", "sphere"), ("Mie", "layered"), ("MieSuperposition", "mixed-cluster"), ("Multisphere", "cluster"),
            ("Tmatrix", "spheroid"), ("Tmatrix", "cylinder")] * ctx.n(1, 4)
    ths = _theories()
    for name, kind in plan:
        th = ths[name]
        base = gen_cfg(rng, gen_sc(rng, kind), rng.choice(["grid", "points"]))
        if name == "Tmatrix":
            base["pol"] = [1, 0]
        base["lam"] = round(base["lam"] * 1e4) / 1e4
        unit = rng.choice([1e4, 1e5])                 # 1e-4 micron = 1 angstrom; 1e-5 micron
        whole = transform(base, s=unit)
        toint = lambda v: int(round(v))  # noqa
        whole["sc"] = map_sc(whole["sc"], toint, lambda n: n)
        whole["det"] = map_det(whole["det"], toint)
        whole["lam"] = toint(whole["lam"])
        back = transform(whole, s=1.0 / unit)          # the float description of exactly these whole numbers
        data = dict(kind="integer-units", theory=name, base=back, whole=whole, unit=unit)
        for api in ("holo", "field"):
            ctx.explored += 1
            ctx.count("integer-units:%s:%s" % (name, api))
            ref = run_api(api, th["make"](), back)
            try:
                out = run_api(api, th["make"](), whole)
            except Exception as e:  # noqa
                ctx.violation("explore:%s:integer-lengths:raises" % name,
                              "%s of %s computes when the lengths are written as floats in microns but raises %s: %s when the same "
                              "lengths are written as whole numbers (python ints) of 1/%g micron" % (api, name, type(e).__name__, str(e)[:120], unit),
                              data)
                break
            if not close_vec(out, ref, th["tol"]):
                err = float(np.max(np.abs(out - ref)) / max(np.max(np.abs(ref)), 1e-300)) if out.shape == ref.shape else None
                ctx.violation("explore:%s:integer-lengths" % name,
                              "%s of %s differs between lengths written as floats in microns and as whole numbers (python ints) of 1/%g "
                              "micron: relative difference %r" % (api, name, unit, err), dict(data, rel_err=err))
                break
            ctx.nontriv(("integer-units", name, kind, api))


def stage_sequence(ctx):
    """History x units: ONE theory object per theory computes a short series of particles that share index, medium and
    wavelength but differ in size and position, first in microns, then re-expressed in metres (x 1e-6), millimetres,
    and kilometre-sized units, and with the index substitution - all in one process.  Every result has to equal its
    micron counterpart: a memo / cache keyed on rounded lengths, or on the particle without the wave vector, shows here
    and nowhere in a single rescaled calculation."""
    import numpy as np
    ths = _theories()
    rng = ctx.subrng("sequence")
    seq = [(1e-6, False), (1e-3, False), (1.0, True), (1e6, False), (3.7e-6, True), (1e-8, False)]
    for name, th in ths.items():
        if name == "Lens(Tmatrix)" and ctx.tier != "thorough":
            continue
        kind = th["scs"][0]
        detkind = rng.choice(th["dets"])
        base0 = gen_cfg(rng, gen_sc(rng, kind), detkind)
        if name in ("Tmatrix", "Lens(Tmatrix)"):
            base0["pol"] = [1, 0]
        # one-factor siblings of one request: the SAME particle at another wavelength / under another polarisation / at
        # another place / in another medium / with another index (what a cache keyed on the particle alone would confuse),
        # kept adjacent; the series is run forwards in microns and backwards for every second re-expression, so that a
        # result that depends on the call before it differs between the two sides of the property's relation
        bases = []
        b = dict(base0); b["lam"] = base0["lam"] * 0.79; bases.append(b)
        bases.append(base0)
        if name not in ("Tmatrix", "Lens(Tmatrix)"):
            b = dict(base0); b["pol"] = [0.8, -0.6] if base0["pol"] != [0.8, -0.6] else [0, 1]; bases.append(b)
        b = dict(base0); b["sc"] = shift_sc(base0["sc"], base0["sc"], 0.35); bases.append(b)
        b = dict(base0); b["nm"] = 1.21 if base0["nm"] != 1.21 else 1.1; bases.append(b)
        b = dict(base0); b["sc"] = map_sc(base0["sc"], lambda x: x, lambda n: n * 1.03); bases.append(b)
        for f, dx in ((0.83, 0.4), (1.21, -0.7)):
            b = dict(base0)
            b["sc"] = map_sc(base0["sc"], lambda x, f=f: x * f, lambda n: n)      # sizes AND positions scaled by f ...
            b["sc"] = shift_sc(b["sc"], base0["sc"], dx)                          # ... then put back near the original place
            bases.append(b)
        theory = th["make"]()
        api = "holo" if name != "MieSuperposition" else "field"
        outs = [run_api(api, theory, b) for b in bases]
        for q, (sf, subst) in enumerate(seq):
            series = list(enumerate(zip(bases, outs)))
            for i, (b, o) in (series[::-1] if q % 2 == 0 else series):
                ctx.explored += 1
                ctx.count("sequence:%s" % name)
                data = dict(kind="sequence", theory=name, api=api, bases=bases, index=i, s=sf, subst=subst)
                try:
                    out = run_api(api, theory, transform(b, s=sf, subst=subst))
                except Exception as e:  # noqa
                    ctx.violation("sequence:%s:raises" % name, "%s of %s raises %s after re-expressing lengths (s=%r) in a series"
                                  % (api, name, type(e).__name__, sf), data)
                    continue
                if not close_vec(out, o, th["tol"]):
                    err = float(np.max(np.abs(out - o)) / max(np.max(np.abs(o)), 1e-300)) if out.shape == o.shape else None
                    data["rel_err"] = err
                    ctx.violation("sequence:%s" % name, "%s of %s: particle %d of a series computed with one theory object changes when "
                                  "all lengths are multiplied by %r%s (relative difference %r)"
                                  % (api, name, i, sf, " and the index substitution is applied" if subst else "", err), data)
                else:
                    ctx.nontriv(("sequence", name, i, sf, subst))


def shift_sc(sc, ref, dx):
    """move [sc] so that its (first) centre sits at [ref]'s (first) centre + (dx, 0, 0)"""
    def first_c(s):
        return s["members"][0]["c"] if s["kind"] == "spheres" else s["c"]
    c0, c1 = first_c(ref), first_c(sc)
    d = [c0[0] + dx - c1[0], c0[1] - c1[1], c0[2] - c1[2]]

    def mv(s):
        s = dict(s)
        s["c"] = [s["c"][0] + d[0], s["c"][1] + d[1], s["c"][2] + d[2]]
        return s
    if sc["kind"] == "spheres":
        return dict(kind="spheres", members=[mv(m) for m in sc["members"]])
    return mv(sc)


def two_colour(base, s, subst):
    """calc_holo with two illumination wavelengths (dict-valued wavelength and index), lengths * s, optional index substitution"""
    import numpy as np
    from holopy.scattering import Sphere, calc_holo
    from holopy.core.metadata import detector_grid
    nm = base["nm"]
    d = nm if subst else 1.0
    det = detector_grid(shape=tuple(base["shape"]), spacing=base["spacing"] * s, extra_dims={"illumination": ["red", "green"]})
    sc = Sphere(n={"red": base["n"][0] / d, "green": base["n"][1] / d}, r=base["r"] * s, center=tuple(x * s for x in base["c"]))
    lam = {"red": base["lam"][0] / d * s, "green": base["lam"][1] / d * s}
    return np.asarray(calc_holo(det, sc, 1.0 if subst else nm, lam, base["pol"]).values)


def stage_two_colour(ctx):
    rng = ctx.subrng("twocolour")
    for j in range(ctx.n(2, 10)):
        base = dict(nm=rng.choice([1.33, 1.4]), shape=[4, 5], spacing=rnd(rng, 0.05, 0.3), n=[rnd(rng, 1.5, 1.6), rnd(rng, 1.55, 1.7)],
                    r=rnd(rng, 0.3, 0.7), c=[rnd(rng, 0, 1), rnd(rng, 0, 1), rnd(rng, 4, 9)], lam=[0.66, 0.52],
                    pol=rng.choice([[1, 0], [0.6, 0.8]]))
        ref = two_colour(base, 1.0, False)
        for s, subst in transforms_for(rng, 2):
            ctx.explored += 1
            ctx.count("explore:Mie-two-colour:holo")
            kind = ("scale+subst" if s != 1.0 else "subst") if subst else "scale"
            data = dict(kind="explore-two-colour", base=base, s=s, subst=subst)
            try:
                out = two_colour(base, s, subst)
            except Exception as e:
                ctx.violation("explore:Mie-two-colour:%s:raises" % kind,
                              "two-colour calc_holo raises %s: %s after %s (s=%r)" % (type(e).__name__, str(e)[:120], kind, s), data)
                continue
            if not close_vec(out, ref, TOL):
                ctx.violation("explore:Mie-two-colour:%s" % kind, "two-colour calc_holo changes under %s (s=%r)" % (kind, s), data)
            else:
                ctx.nontriv(("explore", "two-colour", kind, math.floor(math.log10(s) + 0.5)))


# ------------------------------------------------------------------------------------------
# source tie: the two places that form the wave vector, as written now

SRC_ITEMS = [
    dict(file="holopy/scattering/imageformation.py", qualname="get_wavevec_from", name="wavevec_src", rettype="R",
         params=[("schema", "obj")], attrs={"schema.illum_wavelen": "wl", "schema.medium_index": "nm"}),
    dict(file="holopy/scattering/interface.py", qualname="calc_cross_sections", kwarg="medium_wavevec", name="xsec_wavevec_src",
         rettype="R", params=[("illum_wavelen", "R"), ("medium_index", "R")]),
    dict(file="holopy/scattering/theory/mie.py", qualname="Mie._scat_coeffs (x_arr, m_arr)", name="mie_handoff_src",
         fn=lambda repo: __import__("harness.lib.pysrc", fromlist=["x"]).translate_segment(
             repo, "holopy/scattering/theory/mie.py", "Mie._scat_coeffs", "mie_handoff_src", "x_arr", "m_arr", ["x_arr", "m_arr"],
             inputs=["medium_wavevec", "medium_index"], calls={"ensure_array": ("", 1)}, opaque_exprs={"s.r": "r", "s.n": "n"})),
    dict(file="holopy/scattering/imageformation.py", qualname="ImageFormation._transform_to_desired_coordinates (cartesian)",
         name="coord_handoff_src",
         fn=lambda repo: __import__("harness.lib.pysrc", fromlist=["x"]).translate_assigned_list(
             repo, "holopy/scattering/imageformation.py", "ImageFormation._transform_to_desired_coordinates", "coord_handoff_src",
             "original_coordinate_values", 3,
             {"f.x.values": "x", "f.y.values": "y", "f.z.values": "z", "origin[0]": "ox", "origin[1]": "oy", "origin[2]": "oz"},
             inputs=["wavevec"])),
]


def stage_srctie(ctx):
    from harness.lib import srctie
    ok = srctie.run(ctx, "C04", "From HV Require Import C04.Model C04.Lemmas C04.Props.\n", SRC_ITEMS)
    ctx.count("srctie:%s" % ("ok" if ok else "broken"))


def run(ctx):
    ctx.rule = ("configurations = optics (5 wavelengths x 5 medium indices x 5 polarizations) x scatterer (sphere, 2-3 layer "
                "sphere, 2-4 sphere cluster incl. layered members, spheroid, cylinder; real and absorbing indices) x detector "
                "(grid, cartesian points with varied z, spherical points, far-field angles), expressed in a unit drawn from "
                "8 decades (powers of two, powers of ten, arbitrary factors), 25% with the index substitution applied; "
                "non-trivial = distinct (stage, api/theory, coordinate system, scatterer kind, detector kind, decade of the unit) "
                "classes on which model and implementation agree / the property holds")
    ctx.clauses_proved = [
        "everything handed to a theory (k-scaled offsets incl. the sign-flipped z, spherical r*k, phase argument k*z0) and "
        "formed by it (size parameters, relative indices, Multisphere centroid-relative k-centres, T-matrix axi/lam, eps, "
        "Euler angles, lens angles) is invariant under scaling all lengths by s > 0, for every theory incl. superposition "
        "and Lens(inner), every number of layers / spheres / detector points",
        "the same tuple is invariant under (n, n_m, L) -> (n/n_m, 1, L/n_m)",
        "hence any result that is a function of that tuple is unit-agnostic (hypothesis explicit)",
        "cross sections (Mie and Multisphere prefactors) scale with s^2, asymmetry parameter invariant",
        "T-matrix argument tuple: axi, lam scale with s; eps, axi/lam invariant; 2 pi/lam * amplitude invariant",
        "calc_scat_matrix path: angles of the unscaled spherical positions are invariant (real sqrt / atan2)",
        "cartesian->spherical/cylindrical transforms are homogeneous; real cube root / sqrt / atan2 meet the oracle hypotheses",
        "Q instance of wavevec / handoff = R instance"]
    ctx.clauses_explored = [
        "theory output is a function of the dimensionless tuple only (no hidden absolute-unit constant in the Python or "
        "Fortran solvers): calc_holo / calc_field / calc_intensity / calc_scat_matrix equal under rescaling over 8 decades "
        "and the index substitution, calc_cross_sections x s^2, for Mie, layered Mie, Mie superposition, Multisphere, "
        "T-matrix, MieLens, AberratedMieLens, Lens(Mie), Lens(Tmatrix), and two-colour Mie holograms (sampled)"]
    ctx.trusted += [
        "oracle: np.pi enters the model as the argument [pi] (theorems hold for every value)",
        "oracle: v ** (1/3.) in Tmatrix._parse_args = argument [cbrt], hypothesis: positively homogeneous (proved for the real cube root)",
        "oracle: np.sqrt / np.arctan2 / % (2 pi) in the coordinate transforms (hypotheses: homogeneity, proved for sqrt and atan2 on R); "
        "the correspondence maps the implementation's spherical / cylindrical positions back to cartesian with numpy sin / cos",
        "oracle: np.exp(-1j * phase) applied to the raw field (checked as result = sum raw_i * exp(-1j * model phase_i))",
        "hypothesis (not proved): each solver's output depends on its inputs only through the recorded dimensionless parameters "
        "(Fortran mie / scsmfo / ampld kernels, MieLensCalculator, Lens quadrature); ampld output is proportional to lam",
        "harness-side recording subclasses of the theories and wrappers around scatcoeffs / scatcoeffs_multi / amncalc / ampld / "
        "MieLensCalculator (module attributes replaced at run time; /repo is not edited)"]
    ctx.trusted.append("source translator harness/lib/pysrc.py (python floats read as reals; see its docstring) for the source tie")
    ctx.clauses_proved.append("source tie: get_wavevec_from and the medium_wavevec expression of calc_cross_sections, translated from the current source text on every run, are proved equal to the model wave vector; inverse scaling and index substitution restated for the translated source; the size parameter and relative index Mie._scat_coeffs hands to the solver (x = k r, m = n / n_m), translated likewise, are proved invariant under scaling of all lengths and under (n, n_m, lambda) -> (n/n_m, 1, lambda/n_m); the Cartesian hand-off of ImageFormation._transform_to_desired_coordinates (k (x - x0), k (y - y0), k (z0 - z)) is proved equal to the model's handoff1 and invariant under scaling and under a common shift of detector and particle")
    guarded(ctx, "prove", ctx.prove)
    guarded(ctx, "source-tie", stage_srctie, ctx)
    boot.boot()
    warnings.simplefilter("ignore")
    guarded(ctx, "mock", stage_mock, ctx)
    guarded(ctx, "params", stage_params, ctx)
    guarded(ctx, "cross", stage_cross, ctx)
    guarded(ctx, "explore", stage_explore, ctx)
    guarded(ctx, "integer-units", stage_integer_units, ctx)
    guarded(ctx, "sequence", stage_sequence, ctx)
    guarded(ctx, "two_colour", stage_two_colour, ctx)
    ctx.notes.append("largest relative difference observed in the exploration (tolerance 1e-9; 1e-6 for Multisphere / T-matrix): "
                     + ", ".join("%s %.1e" % kv for kv in sorted(MAXERR.items())))


def replay(ctx, data):
    """re-run the stored failing case on the current tree"""
    boot.boot()
    warnings.simplefilter("ignore")
    d = data["data"]
    if d.get("kind") == "tie":
        ctx.prove()
        stage_srctie(ctx)
    elif d.get("kind") == "explore-two-colour":
        ok = close_vec(two_colour(d["base"], d["s"], d["subst"]), two_colour(d["base"], 1.0, False), TOL)
        ctx.explored += 1
        print("replay: two-colour s=%r subst=%r -> %s" % (d["s"], d["subst"], "property holds" if ok else "property fails"))
        if not ok:
            ctx.violation(data["key"], data["what"], d)
    elif d.get("kind") == "explore":
        n0 = len(ctx.violations)
        explore_one(ctx, d["theory"], d["api"], _fix_cfg(d["base"]), d["s"], d["subst"])
        print("replay: %s %s s=%r subst=%r -> %s" % (d["theory"], d["api"], d["s"], d["subst"],
                                                     "property fails" if len(ctx.violations) > n0 else "property holds"))
    else:
        print("replay: re-running the whole check with the recorded seed")
        ctx.seed = data.get("seed", ctx.seed)
        run(ctx)


def _fix_cfg(cfg):
    """json round trip turns complex indices into {'re','im'} dicts"""
    def fixn(n):
        return complex(n["re"], n["im"]) if isinstance(n, dict) else n

    def fixsc(sc):
        sc = dict(sc)
        if sc["kind"] == "spheres":
            sc["members"] = [fixsc(m) for m in sc["members"]]
        elif sc["kind"] == "sphere":
            sc["n"] = [fixn(x) for x in sc["n"]]
        else:
            sc["n"] = fixn(sc["n"])
        return sc
    cfg = dict(cfg)
    cfg["sc"] = fixsc(cfg["sc"])
    return cfg

"""C06 - superposition over scatterer collections, linearity in the polarisation, per-channel
(multi-colour) calculations.

X (correspondence, exact decoding): a mock ScatteringTheory (harness-side subclass of the public
   ScatteringTheory, as the repo's own tests do) records what the image-formation glue hands to a
   theory (k, n_medium, polarisation, the scatterer it is asked about) and returns a value that
   encodes those arguments; the Coq model (coq/C06/Model.v: component_list, single_color,
   select_scatterer, prep_schema, multi_color) is evaluated on the same tree / channel layout and the
   two are compared call by call and sum by sum.
X (assemblies): mie_assemble on the scattering matrix / prefactor / radial term the Fortran kernels
   return vs calc_field (Mie far-field and full radial); mielens_assemble with I0, I2 identified from
   one x-polarised evaluation vs calc_field(MieLens) at arbitrary polarisation.
S (direct exploration on the real theories): superposition (sum of calc_field of the members =
   calc_field of the collection, Mie), polarisation linearity at arbitrary (a, b) for Mie, Mie on
   collections, Multisphere, MieLens, Tmatrix ((1,0) only: the theory refuses anything else),
   multi-channel = stacked single-channel for dict / DataArray valued wavelengths, polarisations,
   scatterer parameters and noise, under permutations of keys / labels / channels.
"""
import cmath
import math
import warnings
from fractions import Fraction

from harness.lib import boot
from harness.lib.coqrun import qlit, zlit, blit, listlit, strlit, run_mismatch_cases
from harness.lib.ctx import guarded

REQ = ("From HV Require Import Common.Generic Common.Cmp C01.Model C06.Model.\n"
       "Open Scope Q_scope.\nOpen Scope string_scope.\n")
TOL_Q = "(1 # 1000000000000)"     # 1e-12: k = 2 pi/(w/n_m) and p/|p| are rounded by the implementation (~1e-16)
TOL_ASM = "(1 # 1000000000)"      # 1e-9 on assemblies (measured <= 3e-15)
LABEL_POOL = ["red", "green", "blue", "uv", "ir"]


def dy(rng, lo, hi, bits=4):
    s = 1 << bits
    return rng.randint(int(lo * s), int(hi * s)) / s


def lab(l):
    """canonical string of an illumination label (str stays, numbers by value)"""
    if isinstance(l, str):
        return l
    return repr(float(l))


# --------------------------------------------------------------------------------------
# specs (JSON-able) -> python objects / Coq literals

def build_val(v):
    import xarray as xr
    if "s" in v:
        return v["s"]
    if "d" in v:
        return {k: x for k, x in v["d"]}
    return xr.DataArray([x for _, x in v["a"]], dims="illumination",
                        coords={"illumination": [k for k, _ in v["a"]]})


def qv_lit(x):
    if isinstance(x, (list, tuple)):
        return listlit([qlit(float(y)) for y in x])
    return listlit([qlit(float(x))])


def pval_lit(v):
    if "s" in v:
        return "(PScalar %s)" % qv_lit(v["s"])
    tag = "PDict" if "d" in v else "PArr"
    items = v["d"] if "d" in v else v["a"]
    return "(%s %s)" % (tag, listlit(["(%s, %s)" % (strlit(lab(k)), qv_lit(x)) for k, x in items]))


def tree_lit(t):
    if "leaf" in t:
        lf = t["leaf"]
        if lf["kind"] == 0:
            ps = [("n", lf["n"]), ("r", lf["r"]), ("center", {"s": lf["center"]})]
        else:
            ps = []
        return "(Leaf (%s, %s))" % (zlit(lf["kind"]),
                                    listlit(["(%s, %s)" % (strlit(k), pval_lit(v)) for k, v in ps]))
    return "(Node %s %s)" % (zlit(t["node"]), listlit([tree_lit(c) for c in t["children"]]))


def tree_leaves(t):
    if "leaf" in t:
        return [t["leaf"]]
    out = []
    for c in t["children"]:
        out += tree_leaves(c)
    return out


def tree_depth(t):
    if "leaf" in t:
        return 0
    return 1 + max([tree_depth(c) for c in t["children"]] + [0])


_CLASSES = {}


def classes():
    """harness-side subclasses of the public Scatterers (the documented composite) with a centre"""
    if _CLASSES:
        return _CLASSES
    import numpy as np
    from holopy.scattering.scatterer import Scatterers, Spheres

    class TreeC(Scatterers):
        @property
        def center(self):
            return np.array([0.0, 0.0, 0.0])

    class SubTree(TreeC):
        pass

    _CLASSES.update({0: Scatterers, 1: Spheres, 3: TreeC, 4: SubTree})
    return _CLASSES


def build_tree(t):
    from holopy.scattering.scatterer import Sphere, Ellipsoid
    if "leaf" in t:
        lf = t["leaf"]
        if lf["kind"] == 0:
            c = None if lf["center"] is None else tuple(lf["center"])
            return Sphere(n=build_val(lf["n"]), r=build_val(lf["r"]), center=c)
        return Ellipsoid(n=1.5, r=(0.5, 0.5, 1.0), center=(0, 0, 0))
    cls = classes()[t["node"]]
    kids = [build_tree(c) for c in t["children"]]
    if t["node"] == 1:
        return cls(kids, warn=False)
    return cls(kids)


def norm_pol(p):
    """metadata.to_vector, re-derived: pad to 3, divide by the euclidean norm"""
    v = [float(x) for x in p] + [0.0] * (3 - len(p))
    n = math.sqrt(sum(x * x for x in v))
    return [x / n for x in v]


def build_wl(w):
    import xarray as xr
    if "s" in w:
        return w["s"]
    if "l" in w:
        return list(w["l"])
    if "d" in w:
        return {k: x for k, x in w["d"]}
    return xr.DataArray([x for _, x in w["a"]], dims="illumination", coords={"illumination": [k for k, _ in w["a"]]})


def build_pol(p):
    import xarray as xr
    from holopy.core.metadata import to_vector
    if "v" in p:
        return tuple(p["v"])
    if "d" in p:
        return {k: tuple(x) for k, x in p["d"]}
    return xr.concat([to_vector(tuple(x)) for _, x in p["a"]],
                     xr.DataArray([k for k, _ in p["a"]], dims="illumination", name="illumination"))


def wl_lit(w):
    if "s" in w:
        return "(WScalar %s)" % qlit(float(w["s"]))
    if "l" in w:
        return "(WList %s)" % listlit(["(%s, %s)" % (strlit(lab(x)), qlit(float(x))) for x in w["l"]])
    isd = "d" in w
    items = w["d"] if isd else w["a"]
    return "(WLab %s %s)" % (blit(isd), listlit(["(%s, %s)" % (strlit(lab(k)), qlit(float(x))) for k, x in items]))


def pol_lit(p):
    def vl(x):
        return listlit([qlit(y) for y in norm_pol(x)])
    if "v" in p:
        return "(PVec %s)" % vl(p["v"])
    isd = "d" in p
    items = p["d"] if isd else p["a"]
    return "(PLab %s %s)" % (blit(isd), listlit(["(%s, %s)" % (strlit(lab(k)), vl(x)) for k, x in items]))


def det_lit(det):
    if det is None:
        return "None"
    return "(Some %s)" % listlit([strlit(lab(l)) for l in det])


# --------------------------------------------------------------------------------------
# the mock theory

_MOCK = {}


def mock_theory_class():
    if _MOCK:
        return _MOCK["cls"]
    import numpy as np
    import xarray as xr
    from holopy.scattering.theory.scatteringtheory import ScatteringTheory
    from holopy.scattering.scatterer import Sphere, Spheres

    def num(x):
        if isinstance(x, (dict, xr.DataArray)):
            if isinstance(x, xr.DataArray) and x.ndim == 0:
                return float(x.values)
            return -1.0
        a = np.asarray(x, dtype=float)
        return float(a.ravel()[0])

    class MockTheory(ScatteringTheory):
        """records every call and answers with a field that encodes its arguments"""
        desired_coordinate_system = 'cartesian'

        def __init__(self, handles_spheres=False):
            super().__init__()
            self.handles_spheres = handles_spheres
            self.log = []

        def can_handle(self, scatterer):
            return isinstance(scatterer, Sphere) or (self.handles_spheres and isinstance(scatterer, Spheres))

        def raw_fields(self, positions, scatterer, medium_wavevec, medium_index, illum_polarization):
            is_node = not isinstance(scatterer, Sphere)
            members = list(scatterer.scatterers) if is_node else [scatterer]
            self.log.append(dict(k=float(medium_wavevec), nm=float(medium_index),
                                 pol=[float(x) for x in np.asarray(illum_polarization.values)],
                                 is_node=is_node,
                                 leaves=[dict(n=s.n, r=s.r, center=s.center) for s in members]))
            out = np.zeros(positions.shape, dtype=complex)
            out[0] = sum(num(s.n) for s in members) + 1j * sum(num(s.r) for s in members)
            out[1] = float(medium_wavevec) + 1j * float(medium_index)
            out[2] = float(illum_polarization.values[0]) + 1j * float(illum_polarization.values[1])
            return out

    _MOCK["cls"] = MockTheory
    return MockTheory


def enc_obs(x):
    """observed python parameter value -> pval literal"""
    import numpy as np
    import xarray as xr
    if isinstance(x, dict):
        return "(PDict %s)" % listlit(["(%s, %s)" % (strlit(lab(k)), enc_q(v)) for k, v in x.items()])
    if isinstance(x, xr.DataArray) and x.ndim >= 1 and "illumination" in x.dims:
        return "(PArr %s)" % listlit(["(%s, %s)" % (strlit(lab(k.item() if hasattr(k, "item") else k)),
                                                    enc_q(x.sel(illumination=k).values))
                                      for k in x.illumination.values])
    return "(PScalar %s)" % enc_q(x)


def enc_q(x):
    import numpy as np
    a = np.asarray(getattr(x, "values", x), dtype=float).ravel()
    return listlit([qlit(float(v)) for v in a])


def obs_call_lit(c):
    leaves = listlit([listlit(["(%s, %s)" % (strlit(k), enc_obs(l[k])) for k in ("n", "r", "center")])
                      for l in c["leaves"]])
    return "(%s, %s, %s, %s, %s)" % (qlit(c["k"]), qlit(c["nm"]), listlit([qlit(x) for x in c["pol"]]),
                                     blit(c["is_node"]), leaves)


ERRMAP = [("TheoryNotCompatibleError", "ETheoryNotCompatible"), ("MissingParameter", "EMissingParameter"),
          ("IndexError", "EIndexError"), ("KeyError", "EKeyError"), ("ValueError", "EValueError")]


def err_kind(e):
    names = [c.__name__ for c in type(e).__mro__]
    for py, coq in ERRMAP:
        if py in names:
            return coq
    return None


def cplx_lit(z):
    return "(%s, %s)" % (qlit(float(z.real)), qlit(float(z.imag)))


def run_mock_case(spec):
    """run the implementation on one spec; returns (observed literal, observed-sum literal, info)"""
    import numpy as np
    from holopy.core.metadata import detector_grid
    from holopy.scattering.interface import calc_field
    th = mock_theory_class()(handles_spheres=spec["hs"])
    det = spec["det"]
    grid = detector_grid(shape=2, spacing=0.5, extra_dims=None if det is None else {"illumination": list(det)})
    try:
        with warnings.catch_warnings():
            warnings.simplefilter("ignore")
            scat = build_tree(spec["tree"])
            res = calc_field(grid, scat, medium_index=spec["nm"], illum_wavelen=build_wl(spec["wl"]),
                             illum_polarization=build_pol(spec["pol"]), theory=th)
    except Exception as e:  # noqa - the class of the exception is the observation
        k = err_kind(e)
        if k is None:
            raise
        return "(Err %s)" % k, "(Err %s)" % k, dict(error=type(e).__name__, msg=str(e)[:200], ncalls=len(th.log))
    if "illumination" in res.dims:
        labels = [lab(l.item() if hasattr(l, "item") else l) for l in res.illumination.values]
        per = len(th.log) // len(labels)
        chunks = [th.log[i * per:(i + 1) * per] for i in range(len(labels))]
        vals = [res.sel(illumination=l).values.reshape(3, -1) for l in res.illumination.values]
    else:
        labels, chunks = [""], [th.log]
        vals = [res.transpose("vector", ...).values.reshape(3, -1)]
    for v in vals:   # the mock answers the same value at every pixel
        if not np.all(v == v[:, :1]):
            raise AssertionError("mock field is not constant over the detector")
    obs = "(Ok %s)" % listlit(["(%s, %s)" % (strlit(l), listlit([obs_call_lit(c) for c in ch]))
                               for l, ch in zip(labels, chunks)])
    osum = "(Ok %s)" % listlit(["(%s, (%s, %s, %s))" % (strlit(l), cplx_lit(v[0, 0]), cplx_lit(v[1, 0]), cplx_lit(v[2, 0]))
                                for l, v in zip(labels, vals)])
    info = dict(labels=labels, ncalls=len(th.log),
                calls=[dict(k=c["k"], pol=c["pol"], n=[repr(l["n"]) for l in c["leaves"]],
                            r=[repr(l["r"]) for l in c["leaves"]]) for c in th.log[:12]],
                sums=[[complex(v[i, 0]) for i in range(3)] for v in vals])
    return obs, osum, info


def comp_codes(scat):
    """get_component_list of a collection as (class id or -1 for a primitive, number of primitives below)"""
    from holopy.scattering.scatterer import Scatterers
    ids = {v: k for k, v in classes().items()}

    def nleaves(s):
        return sum(nleaves(c) for c in s.scatterers) if isinstance(s, Scatterers) else 1
    return [((ids[type(c)], nleaves(c)) if isinstance(c, Scatterers) else (-1, 1)) for c in scat.get_component_list()]


def comp_expr(spec, codes):
    return ("zpairs_eqb (map (fun c => match c with Leaf _ => ((-1)%%Z, 1%%Z) | Node k _ => (k, Z.of_nat (List.length (leaves c))) end) "
            "(component_list std_isinst (%s : tree (leaf qv)))) %s" % (tree_lit(spec["tree"]),
                                                    listlit(["(%s, %s)" % (zlit(a), zlit(b)) for a, b in codes])))


def mock_exprs(spec, obs, osum, twopi):
    args = "%s %s %s %s %s %s %s %s" % (blit(spec["hs"]), qlit(twopi), qlit(float(spec["nm"])), det_lit(spec["det"]),
                                         wl_lit(spec["wl"]), pol_lit(spec["pol"]), blit(spec["has_center"]),
                                         tree_lit(spec["tree"]))
    return ("outcome_eqb %s (mock_run %s) %s" % (TOL_Q, args, obs),
            "sum_eqb %s (mock_sum %s) %s" % (TOL_Q, args, osum))


# --------------------------------------------------------------------------------------
# generators

def gen_val(rng, labels, lo, hi, allow_channel=True, layered=False):
    """a parameter value: plain, dict by label, DataArray by label (keys shuffled, sometimes missing / extra)"""
    def one():
        if layered:
            a = dy(rng, lo, hi)
            return [a, a + dy(rng, 0.125, 0.5)]
        return dy(rng, lo, hi)
    mode = rng.random()
    if not allow_channel or not labels or mode < 0.4:
        return {"s": one()}
    keys = list(labels)
    rng.shuffle(keys)
    u = rng.random()
    if u < 0.08 and len(keys) > 1:
        keys = keys[:-1]                      # a label is missing: the value stays as it is for that channel
    elif u < 0.16:
        keys.append("other" if isinstance(keys[0], str) else 9.5)   # an extra key that no channel uses
        rng.shuffle(keys)
    if mode < 0.75 or layered:
        return {"d": [[k, one()] for k in keys]}
    return {"a": [[k, one()] for k in keys]}


def gen_leaf(rng, labels, in_spheres, malformed):
    if malformed and rng.random() < 0.3 and not in_spheres:
        return {"leaf": {"kind": 1}}
    layered = rng.random() < 0.2
    # a Spheres collection computes overlaps from r at construction: per-channel radii only outside it
    return {"leaf": {"kind": 0,
                     "n": gen_val(rng, labels, 1.0, 2.5, True, layered),
                     "r": gen_val(rng, labels, 0.125, 1.0, not in_spheres, layered),
                     "center": [dy(rng, -4, 4, 2), dy(rng, -4, 4, 2), 0.0]}}


def gen_tree(rng, labels, depth, cls, malformed):
    """cls: class id of this collection (1 Spheres holds only spheres)"""
    if cls == 1:
        n = rng.choice([1, 2, 2, 3, 4, 6])
        return {"node": 1, "children": [gen_leaf(rng, labels, True, False) for _ in range(n)]}
    n = rng.choice([1, 2, 2, 3, 3, 4])
    if malformed and rng.random() < 0.3:
        n = 0
    kids = []
    for _ in range(n):
        if depth > 0 and rng.random() < 0.45:
            kids.append(gen_tree(rng, labels, depth - 1, rng.choice([0, 0, 1, 3, 3, 4]), malformed))
        else:
            kids.append(gen_leaf(rng, labels, False, malformed))
    return {"node": cls, "children": kids}


def shuffled(rng, l):
    l = list(l)
    rng.shuffle(l)
    return l


def gen_channels(rng, malformed):
    """(labels, det, wl spec, pol spec)"""
    nch = rng.choice([1, 2, 2, 3, 3])
    if nch == 1:
        return [], None, {"s": dy(rng, 0.25, 1.0)}, {"v": gen_pvec(rng)}
    mode = rng.random()
    if mode < 0.15:
        # unlabelled wavelengths, one polarisation: the labels are the wavelengths themselves
        ws = rng.sample([0.375, 0.5, 0.625, 0.75, 0.875], nch)
        det = None if rng.random() < 0.5 else shuffled(rng, ws)
        return ws, det, {"l": ws}, {"v": gen_pvec(rng)}
    labels = rng.sample(LABEL_POOL, nch)
    det = shuffled(rng, labels)
    ws = [dy(rng, 0.25, 1.0) for _ in labels]
    u = rng.random()
    if u < 0.35:
        wl = {"d": [[k, w] for k, w in zip(shuffled(rng, labels), ws)]}
    elif u < 0.7:
        wl = {"a": [[k, w] for k, w in zip(shuffled(rng, labels), ws)]}
    elif u < 0.85:
        wl = {"s": ws[0]}
    else:
        wl = {"l": ws}
    u = rng.random()
    if "s" in wl or "l" in wl or u < 0.6:
        if rng.random() < 0.5:
            pol = {"d": [[k, gen_pvec(rng)] for k in shuffled(rng, labels)]}
        else:
            pol = {"a": [[k, gen_pvec(rng)] for k in shuffled(rng, labels)]}
    else:
        pol = {"v": gen_pvec(rng)}
    if malformed:
        u = rng.random()
        if u < 0.25 and ("d" in wl or "d" in pol):
            det = None                                  # a dict needs a detector dimension with its keys
        elif u < 0.5 and ("a" in pol or "d" in pol) and ("a" in wl) and not ("d" in pol):
            pol["a"] = [[("zz" if i == 0 else k), v] for i, (k, v) in enumerate(pol["a"])]   # label absent: KeyError
        elif u < 0.75 and "l" in wl and nch == 3:
            wl = {"l": ws[:2]}                          # wrong number of unlabelled wavelengths
    if rng.random() < 0.25 and not ("d" in wl or "d" in pol):
        det = None                                      # labelled arrays need no illumination dimension on the detector
    return labels, det, wl, pol


def gen_pvec(rng):
    while True:
        a, b = dy(rng, -3, 3, 3), dy(rng, -3, 3, 3)
        if abs(a) + abs(b) > 0.2:
            return [a, b]


def gen_mock_spec(rng, malformed):
    labels, det, wl, pol = gen_channels(rng, malformed)
    rootcls = rng.choice([3, 3, 4, 1, 1, -1])
    if rootcls == -1:
        tree = gen_leaf(rng, labels, False, False)
    else:
        tree = gen_tree(rng, labels, rng.choice([0, 1, 2, 2]), rootcls, malformed)
    has_center = True
    if malformed and "leaf" in tree and rng.random() < 0.5:
        tree["leaf"]["center"] = None
        has_center = False
    return dict(tree=tree, det=det, wl=wl, pol=pol, nm=dy(rng, 1.0, 1.5, 3), hs=rng.random() < 0.3,
                has_center=has_center, labels=labels)


def spec_for_model(spec):
    """a leaf without centre is still a sphere for the model"""
    if not spec["has_center"]:
        import copy
        s = copy.deepcopy(spec)
        s["tree"]["leaf"]["center"] = [0.0, 0.0, 0.0]
        return s
    return spec


# --------------------------------------------------------------------------------------
# stages

def stage_mock(ctx):
    import numpy as np
    twopi = 2 * np.pi
    rng = ctx.subrng("mock")
    exprs, metas = [], []
    for k in range(ctx.n(260, 3000)):
        malformed = rng.random() < 0.18
        spec = gen_mock_spec(rng, malformed)
        try:
            obs, osum, info = run_mock_case(spec)
        except Exception as e:  # noqa - an exception class the model does not know: report this case, go on
            ctx.explored += 1
            ctx.violation("mock:unexpected:%s" % type(e).__name__,
                          "calc_field with the mock theory raised %s (%s) where the model expects a result or one of "
                          "the modelled error classes" % (type(e).__name__, str(e)[:150]), dict(kind="mock-crash", spec=spec))
            continue
        e1, e2 = mock_exprs(spec_for_model(spec), obs, osum, twopi)
        cases = [("calls", e1), ("sum", e2)]
        if "node" in spec["tree"]:
            with warnings.catch_warnings():
                warnings.simplefilter("ignore")
                codes = comp_codes(build_tree(spec["tree"]))
            info["component_list"] = codes
            cases.append(("component_list", comp_expr(spec, codes)))
        for tag, e in cases:
            exprs.append(e)
            metas.append(dict(case=k, what=tag, spec=spec, observed=info))
        nl = len(tree_leaves(spec["tree"]))
        ctx.count("channels:%d" % max(1, len(spec["labels"])))
        ctx.count("leaves:%d" % min(nl, 7))
        ctx.count("depth:%d" % tree_depth(spec["tree"]))
        ctx.count("wl:" + list(spec["wl"].keys())[0])
        ctx.count("pol:" + list(spec["pol"].keys())[0])
        ctx.count("outcome:" + (info.get("error") or "ok"))
        if "error" not in info and info["ncalls"] > 1:
            ctx.nontriv(("mock", k))
        if k < 2:
            ctx.sample(dict(spec=spec, observed=info))
    mism, errors, _ = run_mismatch_cases("C06m", REQ, exprs, chunk=40)
    ctx.corr_cases += len(exprs)
    for e in errors:
        ctx.violation("corr-eval-error", "model evaluation failed: " + e[:300], dict(kind="coq-error", log=e), nofail=True)
    for i in mism:
        m = metas[i]
        multi = len(m["spec"]["labels"]) > 1
        if m["what"] == "component_list":
            ctx.disagree("corr:component_list", "get_component_list differs from the model's flattening",
                         dict(kind="mock", **m))
            continue
        ctx.disagree("corr:mock:%s:%s" % (m["what"], "multi" if multi else "single"),
                     "image formation hands the theory something else than the model says (%s, %s-channel): "
                     "components / wavevector / polarisation / per-channel parameters" % (m["what"], "multi" if multi else "single"),
                     dict(kind="mock", **m))


def cq(z):
    return "(%s, %s)" % (qlit(float(z.real)), qlit(float(z.imag)))


def cv_lit(E):
    return "(%s, %s, %s)" % (cq(E[0]), cq(E[1]), cq(E[2]))


def stage_assembly(ctx):
    """mie_assemble / mielens_assemble on the leaf values the kernels return vs calc_field"""
    import numpy as np
    from holopy.core.metadata import detector_points
    from holopy.scattering import Sphere, Mie, MieLens, calc_field
    from holopy.scattering.theory.mie_f import mieangfuncs
    rng = ctx.subrng("asm")
    exprs, metas = [], []
    for k in range(ctx.n(40, 400)):
        nm = dy(rng, 1.0, 1.5, 3)
        wl = dy(rng, 0.4, 0.8, 4)
        layered = rng.random() < 0.25
        r = dy(rng, 0.25, 1.0)
        n = dy(rng, 1.4, 2.0)
        sph = (Sphere(n=[n, n + 0.125], r=[r, r + 0.25], center=(dy(rng, -2, 2), dy(rng, -2, 2), dy(rng, 5, 12)))
               if layered else Sphere(n=n, r=r, center=(dy(rng, -2, 2), dy(rng, -2, 2), dy(rng, 5, 12))))
        pts = [(dy(rng, -4, 4, 6), dy(rng, -4, 4, 6)) for _ in range(3)]
        det = detector_points(x=[p[0] for p in pts], y=[p[1] for p in pts], z=0.0)
        a, b = gen_pvec(rng)
        nrm = math.hypot(a, b)
        kk = 2 * np.pi / (wl / nm)
        full = rng.random() < 0.5
        theory = Mie() if full else Mie(False, False)
        E = calc_field(det, sph, nm, wl, (a, b), theory=theory).transpose("vector", ...).values
        asbs = theory._scat_coeffs(sph, kk, nm)
        ph = cmath.exp(-1j * kk * sph.center[2])
        for j, (x, y) in enumerate(pts):
            dx, dy_, dz = kk * (x - sph.center[0]), kk * (y - sph.center[1]), kk * (sph.center[2] - 0.0)
            kr = math.sqrt(dx * dx + dy_ * dy_ + dz * dz)
            theta = math.atan2(math.sqrt(dx * dx + dy_ * dy_), dz)
            phi = math.atan2(dy_, dx)
            if full:
                S = mieangfuncs.asm_mie_fullradial(asbs, np.array([kr, theta, phi]))
                erad = complex(mieangfuncs.radial_field_mie(asbs[0:1, :], kr, theta))
            else:
                S = mieangfuncs.asm_mie_far(asbs, theta)
                erad = 0j
            pref = 1j / kr * cmath.exp(1j * kr)
            e = ("cv_near %s (mie_field QOr ((%s, %s), (%s, %s)) %s %s %s %s %s %s %s %s %s %s) %s" % (
                TOL_ASM, cq(S[0][0]), cq(S[0][1]), cq(S[1][0]), cq(S[1][1]), cq(pref), cq(erad),
                qlit(math.cos(theta)), qlit(math.sin(theta)), qlit(math.cos(phi)), qlit(math.sin(phi)), cq(ph),
                qlit(a), qlit(b), qlit(nrm), cv_lit(E[:, j])))
            exprs.append(e)
            metas.append(dict(what="mie" + ("-full" if full else "-far"), pol=[a, b], point=[x, y], wl=wl, nm=nm,
                              sphere=repr(sph), impl=[complex(z) for z in E[:, j]]))
        ctx.count("asm:mie" + ("-full" if full else "-far"))
        ctx.nontriv(("asm-mie", k))
    # MieLens: I0, I2 identified from one x-polarised evaluation, then every other polarisation is predicted
    for k in range(ctx.n(25, 250)):
        nm = dy(rng, 1.0, 1.5, 3)
        wl = dy(rng, 0.4, 0.8, 4)
        sph = Sphere(n=dy(rng, 1.4, 2.0), r=dy(rng, 0.25, 1.0), center=(dy(rng, -1, 1), dy(rng, -1, 1), dy(rng, -3, 6)))
        pts = []
        while len(pts) < 3:
            x, y = dy(rng, -3, 3, 6), dy(rng, -3, 3, 6)
            phi = math.atan2(y - sph.center[1], x - sph.center[0])
            if abs(math.sin(2 * phi)) > 0.2:      # identification divides by sin 2phi: keep it well conditioned
                pts.append((x, y))
        det = detector_points(x=[p[0] for p in pts], y=[p[1] for p in pts], z=0.0)
        theory = MieLens(lens_angle=dy(rng, 0.5, 1.1, 3))
        Ex = calc_field(det, sph, nm, wl, (1, 0), theory=theory).transpose("vector", ...).values
        a, b = gen_pvec(rng)
        nrm = math.hypot(a, b)
        E = calc_field(det, sph, nm, wl, (a, b), theory=theory).transpose("vector", ...).values
        gam = math.atan2(b / nrm, a / nrm)
        for j, (x, y) in enumerate(pts):
            phi = math.atan2(y - sph.center[1], x - sph.center[0])
            half_i2 = Ex[1, j] / math.sin(2 * phi)
            half_i0 = Ex[0, j] - half_i2 * math.cos(2 * phi)
            # leaves: K I0 = 2 half_i0, K I2 = 2 half_i2 (K and the phase folded in: both are common factors)
            e = ("cv_near %s (mielens_assemble QOr %s %s %s %s %s %s (1, 0)) %s" % (
                TOL_ASM, cq(2 * half_i0), cq(2 * half_i2), qlit(math.cos(phi)), qlit(math.sin(phi)),
                qlit(math.cos(gam)), qlit(math.sin(gam)), cv_lit(E[:, j])))
            exprs.append(e)
            metas.append(dict(what="mielens", pol=[a, b], point=[x, y], wl=wl, nm=nm, sphere=repr(sph),
                              lens_angle=theory.lens_angle, impl=[complex(z) for z in E[:, j]]))
        ctx.count("asm:mielens")
        ctx.nontriv(("asm-ml", k))
    mism, errors, _ = run_mismatch_cases("C06a", REQ, exprs, chunk=20)
    ctx.corr_cases += len(exprs)
    for e in errors:
        ctx.violation("corr-eval-error", "model evaluation failed: " + e[:300], dict(kind="coq-error", log=e), nofail=True)
    for i in mism:
        m = metas[i]
        ctx.disagree("corr:assembly:%s" % m["what"].split("-")[0],
                     "field assembly of the model differs from calc_field (%s)" % m["what"], dict(kind="assembly", **m))


def relerr(A, B):
    import numpy as np
    s = max(float(np.abs(A).max()), float(np.abs(B).max()), 1e-300)
    return float(np.abs(A - B).max()) / s


def gen_sphere(rng, layered=False, zlo=4.0, zhi=12.0, span=3.0):
    from holopy.scattering import Sphere
    c = (dy(rng, -span, span), dy(rng, -span, span), dy(rng, zlo, zhi))
    if layered:
        r = dy(rng, 0.2, 0.6)
        n = dy(rng, 1.4, 1.9)
        return Sphere(n=[n, n + dy(rng, -0.2, 0.3)], r=[r, r + dy(rng, 0.1, 0.4)], center=c)
    return Sphere(n=dy(rng, 1.4, 2.0) + (0.0 if rng.random() < 0.8 else 0.0625j), r=dy(rng, 0.2, 0.9), center=c)


def gen_detector(rng, grid_ok=True):
    from holopy.core.metadata import detector_grid, detector_points
    if grid_ok and rng.random() < 0.6:
        return detector_grid(shape=rng.choice([3, 4, (3, 5)]), spacing=dy(rng, 0.1, 0.5))
    n = rng.choice([1, 3, 5])
    return detector_points(x=[dy(rng, -3, 3, 5) for _ in range(n)], y=[dy(rng, -3, 3, 5) for _ in range(n)], z=0.0)


TOL_SUP = 1e-11    # measured <= 5e-16 (same operations in the same order)
TOL_LIN = 1e-9     # measured <= 2e-15 (Mie, Multisphere, MieLens)
TOL_CH = 1e-11     # measured 0 .. 3e-16


def stage_superposition(ctx):
    """sum of calc_field of the members (each with its own phase) = calc_field of the collection (Mie)"""
    import numpy as np
    from holopy.scattering import Spheres, Mie, calc_field, calc_holo
    rng = ctx.subrng("sup")
    worst = 0.0
    for k in range(ctx.n(150, 1500)):
        nsph = rng.choice([1, 2, 3, 4, 5, 6])
        layered = rng.random() < 0.3
        members = [gen_sphere(rng, layered and rng.random() < 0.7, span=6.0) for _ in range(nsph)]
        det = gen_detector(rng)
        nm, wl = dy(rng, 1.0, 1.5, 3), dy(rng, 0.4, 0.8, 4)
        pol = gen_pvec(rng)
        tk = rng.choice(["mie", "mie", "mie_far", "mielens", "amielens"])
        if tk in ("mielens", "amielens"):
            # the lens theories take uniform spheres only and a detector in one plane
            members = [gen_sphere(rng, False, zlo=2.0, zhi=9.0, span=3.0) for _ in range(nsph)]
        if rng.random() < 0.35 and nsph > 1:
            # identical particles at different places (dimers / chains of one kind of bead), some stacked along z
            from holopy.scattering import Sphere
            first = members[0]
            members = [first] + [Sphere(n=first.n, r=first.r, center=(m.center[0] if q % 2 else first.center[0],
                                                                        m.center[1] if q % 2 else first.center[1], m.center[2]))
                                 for q, m in enumerate(members[1:])]
        la = dy(rng, 0.4, 1.0, 4)

        def mk_theory():
            from holopy.scattering import MieLens
            from holopy.scattering.theory.mielens import AberratedMieLens
            return (Mie() if tk == "mie" else Mie(False, False) if tk == "mie_far" else MieLens(lens_angle=la) if tk == "mielens"
                    else AberratedMieLens(spherical_aberration=[0.5, -0.25], lens_angle=la))
        shared = rng.random() < 0.5
        theory = mk_theory()
        th = (lambda: theory) if shared else mk_theory       # one theory object for everything, or a fresh one per call
        shape = rng.choice(["spheres", "tree", "nested"])
        with warnings.catch_warnings():
            warnings.simplefilter("ignore")
            if shape == "spheres" or nsph < 2:
                shape, coll = "spheres", Spheres(members, warn=False)
            elif shape == "tree":
                coll = classes()[3](members)
            else:
                cut = rng.randint(1, nsph - 1)
                inner = classes()[rng.choice([0, 1, 3])](members[cut:]) if rng.random() < 0.7 else \
                    classes()[0]([classes()[0](members[cut:])])
                coll = classes()[rng.choice([3, 4])](members[:cut] + [inner])
            whole = calc_field(det, coll, nm, wl, pol, theory=th())
            parts = [calc_field(det, s, nm, wl, pol, theory=th()) for s in members]
        total = parts[0].values.copy()
        for p in parts[1:]:
            total = total + p.values
        err = relerr(whole.values, total)
        worst = max(worst, err)
        ctx.explored += 1
        ctx.count("sup:%s:%d" % (shape, nsph))
        ctx.count("sup:theory:%s:%s" % (tk, "shared-object" if shared else "fresh-objects"))
        if nsph > 1:
            ctx.nontriv(("sup", k))
        if not (err <= TOL_SUP) or whole.dims != parts[0].dims:
            ctx.violation("superposition:%s" % shape,
                          "field of a collection differs from the sum of the fields of its members (rel %.3g)" % err,
                          dict(kind="superposition", shape=shape, members=[repr(s) for s in members], nm=nm, wl=wl,
                               pol=pol, theory=repr(theory), err=err))
    ctx.notes.append("superposition: worst relative difference %.3g (tolerance %.0e)" % (worst, TOL_SUP))


def stage_linearity(ctx):
    """E(a,b) = (a E_x + b E_y)/|(a,b)| on the real theories"""
    import numpy as np
    from holopy.scattering import Spheres, Spheroid, Mie, MieLens, Multisphere, Tmatrix, calc_field
    rng = ctx.subrng("lin")
    worst = {}
    plan = (["mie"] * 3 + ["mie-far", "mie-spheres", "multisphere", "mielens", "mielens"]) * ctx.n(10, 110)
    for k, kind in enumerate(plan):
        nm, wl = dy(rng, 1.0, 1.5, 3), dy(rng, 0.4, 0.8, 4)
        with warnings.catch_warnings():
            warnings.simplefilter("ignore")
            if kind in ("mie", "mie-far"):
                scat, theory = gen_sphere(rng, rng.random() < 0.3), (Mie() if kind == "mie" else Mie(False, False))
                det = gen_detector(rng)
            elif kind == "mie-spheres":
                scat = Spheres([gen_sphere(rng, False, span=5.0) for _ in range(rng.choice([2, 3, 4]))], warn=False)
                theory, det = Mie(), gen_detector(rng)
            elif kind == "multisphere":
                c0 = (dy(rng, -1, 1), dy(rng, -1, 1), dy(rng, 6, 10))
                ms = []
                for i in range(rng.choice([2, 3])):
                    from holopy.scattering import Sphere
                    ms.append(Sphere(n=dy(rng, 1.4, 1.8), r=dy(rng, 0.25, 0.5),
                                     center=(c0[0] + 1.25 * i, c0[1] + (0.5 * i), c0[2] + 0.25 * i)))
                scat, theory, det = Spheres(ms, warn=False), Multisphere(), gen_detector(rng)
            else:
                scat = gen_sphere(rng, False, zlo=-3.0, zhi=6.0, span=1.0)
                theory, det = MieLens(lens_angle=dy(rng, 0.5, 1.1, 3)), gen_detector(rng)
            mode = rng.random()
            if mode < 0.7:
                a, b = gen_pvec(rng)
            elif mode < 0.8:
                a, b = rng.choice([(0.0, dy(rng, -3, 3, 3) or 1.0), (dy(rng, -3, 3, 3) or 1.0, 0.0)])
            elif mode < 0.9:
                a, b = 1000.0 * dy(rng, 0.5, 2), -1000.0 * dy(rng, 0.5, 2)
            else:
                a, b = 2.0 ** -10 * dy(rng, 0.5, 2), 2.0 ** -10 * dy(rng, -2, 2)
            Ex = calc_field(det, scat, nm, wl, (1, 0), theory=theory).values
            Ey = calc_field(det, scat, nm, wl, (0, 1), theory=theory).values
            # the same polarisation in the forms the public functions accept: pair, 3-component sequence / array (a, b, 0),
            # vector-labelled DataArray
            form = ["pair", "list3", "pair", "ndarray3", "tuple3", "xarray3"][k % 6]
            if form == "pair":
                parg = (a, b)
            elif form == "list3":
                parg = [a, b, 0]
            elif form == "tuple3":
                parg = (a, b, 0.0)
            elif form == "ndarray3":
                parg = np.array([a, b, 0.0])
            else:
                import xarray as xr
                parg = xr.DataArray([a, b, 0.0], dims="vector", coords={"vector": ["x", "y", "z"]})
            ctx.count("lin:polarisation-form:" + form)
            E = calc_field(det, scat, nm, wl, parg, theory=theory).values
        expect = (a * Ex + b * Ey) / math.hypot(a, b)
        err = relerr(E, expect)
        worst[kind] = max(worst.get(kind, 0.0), err)
        ctx.explored += 1
        ctx.count("lin:" + kind)
        if a != 0 and b != 0:
            ctx.nontriv(("lin", k))
        if not (err <= TOL_LIN):
            ctx.violation("linearity:%s" % kind.split("-")[0],
                          "field for polarisation (a,b) differs from (a E_x + b E_y)/|(a,b)| (rel %.3g, %s)" % (err, kind),
                          dict(kind="linearity", theory=kind, a=a, b=b, pol_form=form, scatterer=repr(scat), nm=nm, wl=wl, err=err,
                               lens_angle=getattr(theory, "lens_angle", None)))
    # the T-matrix theory accepts (1,0) only and refuses everything else (a refusal, not a wrong field)
    det = gen_detector(rng)
    sph = Spheroid(n=1.5, r=(0.3, 0.5), center=(1, 1, 8))
    for pol in [(0, 1), (1, 1), (3, 4)]:
        ctx.explored += 1
        try:
            with warnings.catch_warnings():
                warnings.simplefilter("ignore")
                E = calc_field(det, sph, 1.33, 0.66, pol, theory=Tmatrix()).values
                Ex = calc_field(det, sph, 1.33, 0.66, (1, 0), theory=Tmatrix()).values
            ctx.count("lin:tmatrix-accepted")
            # if a future version accepts it, it must at least not silently return the x-polarised field
            if relerr(E, Ex) < 1e-6:
                ctx.violation("linearity:tmatrix", "Tmatrix returns the x-polarised field for polarisation %r" % (pol,),
                              dict(kind="tmatrix", pol=list(pol)))
        except ValueError:
            ctx.count("lin:tmatrix-refused")
    ctx.notes.append("linearity: worst relative differences " +
                     ", ".join("%s %.3g" % kv for kv in sorted(worst.items())) + " (tolerance %.0e)" % TOL_LIN)


def stage_channels(ctx):
    """multi-channel result = stacked single-channel results, on the real theories, through calc_field / calc_holo"""
    import numpy as np
    import xarray as xr
    from holopy.core.metadata import detector_grid, update_metadata, to_vector
    from holopy.scattering import Sphere, Spheres, Mie, MieLens, calc_field, calc_holo
    rng = ctx.subrng("chan")
    worst = 0.0
    for k in range(ctx.n(100, 900)):
        nch = rng.choice([2, 3])
        labels = rng.sample(LABEL_POOL, nch)
        wls = {l: dy(rng, 0.4, 0.8, 4) for l in labels}
        pols = {l: gen_pvec(rng) for l in labels}
        same_pol = rng.random() < 0.3
        if same_pol:
            pols = {l: pols[labels[0]] for l in labels}
        ns = {l: dy(rng, 1.4, 2.0) for l in labels}
        rs = {l: dy(rng, 0.25, 0.9) for l in labels}
        alphas = {l: dy(rng, 0.5, 1.0) for l in labels}
        noise = {l: dy(rng, 0.01, 0.2, 6) for l in labels}
        per_r = rng.random() < 0.5
        nm = dy(rng, 1.0, 1.5, 3)
        lens = rng.random() < 0.25
        center = (dy(rng, 0.5, 1.5), dy(rng, 0.5, 1.5), dy(rng, 3, 8))
        theory = MieLens() if lens else Mie()
        two = (not lens) and rng.random() < 0.35
        center2 = (center[0] + 2.0, center[1] - 1.5, center[2] + 1.0)

        def mk(kind, d):
            ks = shuffled(rng, labels)
            if kind == "dict":
                return {l: d[l] for l in ks}
            return xr.DataArray([d[l] for l in ks], dims="illumination", coords={"illumination": ks})
        kn, kr_ = rng.choice(["dict", "array"]), rng.choice(["dict", "array"])
        n_multi = mk(kn, ns)
        r_multi = mk(kr_, rs) if (per_r and not two) else rs[labels[0]]
        det_order = shuffled(rng, labels)
        shape = rng.choice([3, 4])
        det_m = detector_grid(shape=shape, spacing=0.25, extra_dims={"illumination": det_order})
        det_s = detector_grid(shape=shape, spacing=0.25)
        kw, kp = rng.choice(["dict", "array"]), rng.choice(["dict", "array", "rawarray", "vec" if same_pol else "rawarray"])
        wl_multi = mk(kw, wls)
        if kp == "rawarray":
            # a raw labelled (illumination x vector) array, not passed through to_vector first: channels of different norms,
            # often with ONE channel already of unit length (a per-array rather than per-channel normalisation test shows here)
            if not same_pol and rng.random() < 0.6:
                pols[rng.choice(labels)] = rng.choice([(1.0, 0.0), (0.0, 1.0), (0.6, 0.8), (-0.8, 0.6)])
            ks = shuffled(rng, labels)
            pol_multi = xr.DataArray([list(pols[l]) + [0.0] for l in ks], dims=["illumination", "vector"],
                                     coords={"illumination": ks, "vector": ["x", "y", "z"]})
            if rng.random() < 0.3:
                pol_multi = pol_multi.transpose("vector", "illumination")
        elif kp == "vec":
            pol_multi = tuple(pols[labels[0]])
        elif kp == "dict":
            pol_multi = {l: tuple(pols[l]) for l in shuffled(rng, labels)}
        else:
            ks = shuffled(rng, labels)
            pol_multi = xr.concat([to_vector(tuple(pols[l])) for l in ks],
                                  xr.DataArray(ks, dims="illumination", name="illumination"))
        what = rng.choice(["field", "holo", "holo"])

        def scat_of(n, r):
            s1 = Sphere(n=n, r=r, center=center)
            if two:
                return Spheres([s1, Sphere(n=1.5, r=0.3, center=center2)], warn=False)
            return s1
        with warnings.catch_warnings():
            warnings.simplefilter("ignore")
            if what == "field":
                multi = calc_field(det_m, scat_of(n_multi, r_multi), nm, wl_multi, pol_multi, theory=theory)
            else:
                det_mm = update_metadata(det_m, noise_sd={l: noise[l] for l in shuffled(rng, labels)})
                multi = calc_holo(det_mm, scat_of(n_multi, r_multi), nm, wl_multi, pol_multi, theory=theory,
                                  scaling={l: alphas[l] for l in shuffled(rng, labels)})
            ok, err = True, 0.0
            got_labels = [str(x) for x in multi.illumination.values]
            if sorted(got_labels) != sorted(labels):
                ok = False
            for l in labels:
                if not ok:
                    break
                r_l = rs[l] if (per_r and not two) else rs[labels[0]]
                if what == "field":
                    single = calc_field(det_s, scat_of(ns[l], r_l), nm, wls[l], tuple(pols[l]), theory=theory)
                else:
                    single = calc_holo(det_s, scat_of(ns[l], r_l), nm, wls[l], tuple(pols[l]), theory=theory,
                                       scaling=alphas[l])
                    nsd = multi.attrs.get("noise_sd")
                    if nsd is None or abs(float(nsd.sel(illumination=l).values) - noise[l]) > 0:
                        ok = False
                        ctx.violation("channels:noise", "per-channel noise_sd of the result is not the value given for the label",
                                      dict(kind="channels-noise", labels=labels, noise=noise, got=repr(nsd)))
                sel = multi.sel(illumination=l)
                e = relerr(sel.transpose(*single.dims).values, single.values)
                err = max(err, e)
        worst = max(worst, err)
        ctx.explored += 1
        ctx.count("chan:%s:%s:n-%s:wl-%s:pol-%s" % (what, "lens" if lens else "mie", kn, kw, kp))
        ctx.nontriv(("chan", k))
        if not ok or not (err <= TOL_CH):
            ctx.violation("channels:%s" % what,
                          "a channel of the multi-channel %s differs from the single-channel calculation with that "
                          "channel's wavelength / polarisation / scatterer parameters (rel %.3g)" % (what, err),
                          dict(kind="channels", what=what, labels=labels, det_order=det_order, wls=wls, pols=pols, ns=ns,
                               rs=rs if per_r else None, alphas=alphas, nm=nm, lens=lens, two=two, center=list(center),
                               forms=dict(n=kn, r=kr_, wl=kw, pol=kp), got_labels=got_labels, err=err))
    ctx.notes.append("channels: worst relative difference %.3g (tolerance %.0e)" % (worst, TOL_CH))


# source tie: to_vector of core/metadata.py as written now
def _src_items():
    from harness.lib import pygrid
    return [dict(file="holopy/core/metadata.py", qualname="to_vector", name="to_vector_src", fn=pygrid.to_vector)]


def stage_srctie(ctx):
    from harness.lib import srctie
    ok = srctie.run(ctx, "C06", "From Coq Require Import Lia Psatz.\nFrom HV Require Import C01.Model C06.Model C06.Lemmas C06.Props.\n", _src_items())
    ctx.count("srctie:%s" % ("ok" if ok else "broken"))


def run(ctx):
    ctx.rule = ("mock stage: scatterer trees (depth 0-3, classes Scatterers / Spheres / two harness subclasses, 1-12 "
                "primitives, uniform and layered spheres, occasional empty collections and non-spheres) x channel layouts "
                "(1-3 channels; wavelengths scalar / list / dict / DataArray; polarisations vector / dict / DataArray; "
                "parameters plain / dict / DataArray with shuffled, missing and extra labels; detector with and without "
                "illumination dimension); non-trivial = accepted case with more than one theory call; real-theory stages: "
                "collections of 1-6 spheres, polarisations of any norm incl. 1e3 and 1e-3 and on the axes, 2-3 channels")
    ctx.clauses_proved = [
        "get_component_list keeps exactly the primitives, in order, for every nesting / class layout; flat when well-classed",
        "single-colour dispatch = the code; field(tree) = sum over primitives for a theory handling primitives only (any nesting)",
        "polarisation linearity of the Mie (incl. radial term) and MieLens assemblies for all a, b and all leaf values",
        "channel c of the multi-channel result = single-channel result on (wavelength_c, polarisation_c, scatterer_c); converse; totality",
        "selection is by label: value = entry with the channel's key; invariant under re-ordering keys / labels / channels",
        "prep_schema channel table (broadcast rules)", "Q instance = R instance for the assemblies and the wave vector"]
    ctx.clauses_explored = [
        "superposition, polarisation linearity and channel equivalence of the compiled solvers themselves (Mie, Multisphere, "
        "MieLens, Tmatrix refusal): sampled, tolerances 1e-11 / 1e-9 / 1e-11",
        "per-channel noise_sd is carried by label"]
    ctx.trusted += [
        "oracle: the scattering theory called by the glue (Fortran mie_fields / asm_mie_far / asm_mie_fullradial / "
        "radial_field_mie, MieLensCalculator integrals I0, I2, Multisphere, Tmatrix): enters as `direct` / leaf values",
        "oracle: prefactor i exp(ikr)/kr, phase exp(-ikz), cos/sin of detector angles (cmath / math), sqrt in to_vector, "
        "cos/sin(arctan2(p_y,p_x)) = p/|p| for the MieLens polarisation angle, 2*pi",
        "oracle: xarray label selection (.sel), dict lookup, xr.concat along the illumination coordinate",
        "mock theory: harness-side subclass of holopy's public ScatteringTheory (records its arguments)"]
    ctx.trusted.append("source reader harness/lib/pygrid.py (a vector read as the list of its components; python floats read as the reals "
                       "their decimal text denotes) for the source tie")
    ctx.clauses_proved.append(
        "source tie: to_vector of core/metadata.py, read per component from the current source text on every run, hands on "
        "(a, b, 0) / sqrt(a^2 + b^2); that norm meets the hypotheses of the linearity theorems, which are restated for the source; the "
        "result is invariant under scaling the polarisation by any s > 0; a labelled per-channel array is handed on unchanged only when "
        "ALL channels have unit length to 1e-12 [src_polarisation_components, src_pol_linear_mie, src_pol_linear_mielens, "
        "src_polarisation_scale_invariant, to_vector_lab_src_all]")
    guarded(ctx, "prove", ctx.prove)
    guarded(ctx, "source-tie", stage_srctie, ctx)
    boot.boot()
    guarded(ctx, "mock", stage_mock, ctx)
    guarded(ctx, "assembly", stage_assembly, ctx)
    guarded(ctx, "superposition", stage_superposition, ctx)
    guarded(ctx, "linearity", stage_linearity, ctx)
    guarded(ctx, "channels", stage_channels, ctx)


def replay(ctx, data):
    """re-run the stored failing case on the current tree"""
    import numpy as np
    boot.boot()
    d = data["data"]
    kind = d.get("kind")
    if kind == "mock":
        spec = d["spec"]
        obs, osum, info = run_mock_case(spec)
        e1, e2 = mock_exprs(spec_for_model(spec), obs, osum, 2 * np.pi)
        mism, errors, _ = run_mismatch_cases("C06r", REQ, [e1, e2])
        ctx.corr_cases += 2
        print("replay: observed %s ; model disagrees on %s" % (info, [["calls", "sum"][i] for i in mism]))
        for e in errors:
            ctx.violation("corr-eval-error", "model evaluation failed: " + e[:300], dict(kind="coq-error", log=e), nofail=True)
        if mism:
            ctx.disagree(data["key"], data["what"], d)
    elif kind == "mock-crash":
        try:
            run_mock_case(d["spec"])
            print("replay: no exception any more")
        except Exception as e:  # noqa
            print("replay: raised %s: %s" % (type(e).__name__, e))
            ctx.violation(data["key"], data["what"], d)
        ctx.explored += 1
    else:
        print("replay: re-running the whole check with the recorded seed")
        ctx.seed = data.get("seed", ctx.seed)
        run(ctx)

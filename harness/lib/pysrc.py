"""Fail-closed translator from a small subset of Python (straight-line scalar numerics) to Gallina over R.

Purpose: a SECOND tie between model and code, next to the behavioural correspondence.  For the functions whose
body is plain real arithmetic (core/math.py's rotation matrix and coordinate conversions, the wave vector, prior
scaling, the Gaussian log density ...) the check re-reads /repo's CURRENT source text on every run, translates it,
and Coq proves `translated_source = hand-written model` (by ring / f_equal, so algebraically equal rewrites still
pass).  The property theorems are then restated for the translated source.  A semantic edit of such a function
breaks that lemma even on inputs no generator reaches.

What is trusted here: this translator (Python float arithmetic read as real arithmetic; numpy broadcasting
ignored - every array is read as its generic element; the whitelisted calls np.cos/np.sin/np.sqrt/np.arctan2/
np.exp/np.log/abs and the `% (2*np.pi)` idiom mapped to the R functions named in `calls`).  Everything else raises
Unsupported: the caller reports that as a broken tie (VIOLATION ... no-failing-input-found unless another stage
finds an input), never as a pass.
"""
import ast
import os
from fractions import Fraction


class Unsupported(Exception):
    pass


def _dotted(node):
    if isinstance(node, ast.Name):
        return node.id
    if isinstance(node, ast.Attribute):
        b = _dotted(node.value)
        return None if b is None else b + "." + node.attr
    return None


def _num(v):
    if isinstance(v, bool):
        raise Unsupported("boolean constant in arithmetic position")
    if isinstance(v, int):
        return "(%d)" % v if v >= 0 else "(- (%d))" % (-v)
    if isinstance(v, float):
        if v != v or v in (float("inf"), float("-inf")):
            raise Unsupported("non-finite float constant")
        fr = Fraction(v)   # exact value of the double the literal denotes
        n, d = fr.numerator, fr.denominator
        s = "(%d)" % abs(n) if d == 1 else "(%d / %d)" % (abs(n), d)
        return s if n >= 0 else "(- %s)" % s
    raise Unsupported("constant %r" % (v,))


DEFAULT_CALLS = {
    "cos": ("cos", 1), "sin": ("sin", 1), "np.cos": ("cos", 1), "np.sin": ("sin", 1),
    "math.cos": ("cos", 1), "math.sin": ("sin", 1),
    "np.sqrt": ("sqrt", 1), "sqrt": ("sqrt", 1), "math.sqrt": ("sqrt", 1),
    "np.arctan2": ("atan2", 2), "arctan2": ("atan2", 2),
    "np.exp": ("exp", 1), "np.log": ("ln", 1), "abs": ("Rabs", 1), "np.abs": ("Rabs", 1),
}
DEFAULT_CONSTS = {"np.pi": "PI", "pi": "PI", "math.pi": "PI"}


class Tr:
    def __init__(self, calls=None, consts=None, self_attrs=None, bools=(), state=(), attrs=None, opaque_exprs=None,
                 opaque_bools=None):
        self.calls = dict(DEFAULT_CALLS)
        self.calls.update(calls or {})
        self.consts = dict(DEFAULT_CONSTS)
        self.consts.update(consts or {})
        self.self_attrs = dict(self_attrs or {})     # read-only attributes of self -> Gallina parameter
        self.attrs = dict(attrs or {})               # read-only dotted names (schema.illum_wavelen) -> Gallina parameter
        self.state = list(state)                     # mutable attributes of self: the method is a state transformer
        self.bools = set(bools)
        # whole sub-expressions read as one real parameter each, keyed by their source text as printed by ast.unparse
        # (np.min(s.r), s.largest_overlap()): what they evaluate to is outside the translated function
        self.opaque_exprs = dict(opaque_exprs or {})
        self.opaque_bools = dict(opaque_bools or {})     # the same for boolean-valued sub-expressions (s1.in_domain(points))

    def svar(self, attr):
        return "s_" + attr.lstrip("_")

    def tname(self, t):
        """variable a statement assigns to: a local name, or a mutable attribute of self"""
        if isinstance(t, ast.Name):
            return t.id
        d = _dotted(t)
        if d is not None and d.startswith("self.") and d[5:] in self.state:
            return self.svar(d[5:])
        return None

    def state_tuple(self):
        vs = [self.svar(a) for a in self.state]
        return "(" + ", ".join(vs) + ")" if len(vs) > 1 else vs[0]

    # ---------------------------------------------------------------- expressions (real valued)
    def ex(self, e, env):
        if self.opaque_exprs and not isinstance(e, ast.Constant) and ast.unparse(e) in self.opaque_exprs:
            return self.opaque_exprs[ast.unparse(e)]
        if isinstance(e, ast.Constant):
            return _num(e.value)
        if isinstance(e, ast.Name):
            if e.id in self.consts:
                return self.consts[e.id]
            if e.id in env and e.id not in self.bools:
                return e.id
            raise Unsupported("unknown name %s" % e.id)
        if isinstance(e, ast.Attribute):
            d = _dotted(e)
            if d in self.consts:
                return self.consts[d]
            if d is not None and d.startswith("self.") and d[5:] in self.self_attrs:
                return self.self_attrs[d[5:]]
            if d is not None and d.startswith("self.") and d[5:] in self.state:
                return self.svar(d[5:])
            if d in self.attrs:
                return self.attrs[d]
            raise Unsupported("attribute %s" % d)
        if isinstance(e, ast.UnaryOp):
            if isinstance(e.op, ast.USub):
                return "(- %s)" % self.ex(e.operand, env)
            if isinstance(e.op, ast.UAdd):
                return self.ex(e.operand, env)
            raise Unsupported("unary operator")
        if isinstance(e, ast.BinOp):
            if isinstance(e.op, ast.Pow) and isinstance(e.right, ast.Name) and e.right.id in self.bools:
                # base ** flag with a boolean flag: base if the flag is set, 1 otherwise
                return "(if %s then %s else 1)" % (e.right.id, self.ex(e.left, env))
            if isinstance(e.op, ast.Pow) and "cbrt" in self.calls and ast.unparse(e.right) in ("1 / 3.0", "1.0 / 3", "1.0 / 3.0", "1 / 3"):
                # x ** (1/3.): the cube root, the caller's oracle
                return "(%s %s)" % (self.calls["cbrt"][0], self.ex(e.left, env))
            if isinstance(e.op, ast.Pow):
                if isinstance(e.right, ast.Constant) and isinstance(e.right.value, int) and 1 <= e.right.value <= 6:
                    b = self.ex(e.left, env)
                    return "(" + " * ".join([b] * e.right.value) + ")"
                raise Unsupported("power with a non-small-integer exponent")
            if isinstance(e.op, ast.Mod) and "fmod" in self.calls and isinstance(e.right, ast.Constant) \
                    and isinstance(e.right.value, (int, float)) and not isinstance(e.right.value, bool) and e.right.value > 0:
                # python's float % with a positive literal modulus: x - m * floor(x / m), the floor being the caller's oracle
                return "(%s %s %s)" % (self.calls["fmod"][0], self.ex(e.left, env), self.ex(e.right, env))
            if isinstance(e.op, ast.Mod):
                r = self.ex(e.right, env)
                if r.replace(" ", "") not in ("((2)*PI)", "(2*PI)"):
                    raise Unsupported("modulo by something other than 2*pi")
                if "mod2pi" not in self.calls:
                    raise Unsupported("modulo not enabled")
                return "(%s %s)" % (self.calls["mod2pi"][0], self.ex(e.left, env))
            ops = {ast.Add: "+", ast.Sub: "-", ast.Mult: "*", ast.Div: "/"}
            for k, s in ops.items():
                if isinstance(e.op, k):
                    return "(%s %s %s)" % (self.ex(e.left, env), s, self.ex(e.right, env))
            raise Unsupported("binary operator %s" % type(e.op).__name__)
        if isinstance(e, ast.Call) and isinstance(e.func, ast.Attribute) and e.func.attr == "sum" and not e.keywords \
                and len(e.args) == 1 and isinstance(e.args[0], ast.UnaryOp) and isinstance(e.args[0].op, ast.USub) \
                and isinstance(e.args[0].operand, ast.Constant) and e.args[0].operand.value == 1 \
                and isinstance(e.func.value, ast.BinOp) and isinstance(e.func.value.op, ast.Pow) \
                and isinstance(e.func.value.left, ast.Name) and e.func.value.left.id in getattr(self, "vec3", ()) \
                and isinstance(e.func.value.right, ast.Constant) and e.func.value.right.value == 2:
            # (points**2).sum(-1) for a point (or an N x 3 array of points, read as its generic row)
            v = e.func.value.left.id
            return "(%s_x * %s_x + %s_y * %s_y + %s_z * %s_z)" % (v, v, v, v, v, v)
        if isinstance(e, ast.Call):
            d = _dotted(e.func)
            if e.keywords:
                raise Unsupported("keyword arguments in call %s" % d)
            if d in self.calls:
                fn, ar = self.calls[d]
                if len(e.args) != ar:
                    raise Unsupported("arity of %s" % d)
                return "(%s %s)" % (fn, " ".join(self.ex(a, env) for a in e.args))
            raise Unsupported("call %s" % d)
        if isinstance(e, ast.IfExp):
            # the broadcasting idiom  (np.full(v.size, z) if np.size(z) == 1 else z)  is the identity on elements
            t, b, o = e.test, e.body, e.orelse
            if (isinstance(o, ast.Name) and isinstance(t, ast.Compare) and _dotted(getattr(t.left, "func", None)) == "np.size"
                    and len(t.left.args) == 1 and isinstance(t.left.args[0], ast.Name) and t.left.args[0].id == o.id
                    and isinstance(b, ast.Call) and _dotted(b.func) == "np.full" and len(b.args) == 2
                    and isinstance(b.args[1], ast.Name) and b.args[1].id == o.id):
                return self.ex(o, env)
            return "(if %s then %s else %s)" % (self.cond(t, env), self.ex(b, env), self.ex(o, env))
        raise Unsupported("expression %s" % type(e).__name__)

    # ---------------------------------------------------------------- conditions
    def cond(self, e, env):
        if self.opaque_bools and ast.unparse(e) in self.opaque_bools:
            return self.opaque_bools[ast.unparse(e)]
        if isinstance(e, ast.Call) and not e.keywords and _dotted(e.func) in ("np.logical_or", "np.logical_and") and len(e.args) == 2:
            op = "||" if _dotted(e.func) == "np.logical_or" else "&&"
            return "(%s %s %s)" % (self.cond(e.args[0], env), op, self.cond(e.args[1], env))
        if isinstance(e, ast.Call) and not e.keywords and _dotted(e.func) == "np.logical_not" and len(e.args) == 1:
            return "(negb %s)" % self.cond(e.args[0], env)
        if isinstance(e, ast.Name) and e.id in self.bools:
            return e.id
        if isinstance(e, ast.UnaryOp) and isinstance(e.op, ast.Not):
            return "(negb %s)" % self.cond(e.operand, env)
        if isinstance(e, ast.BoolOp):
            op = "&&" if isinstance(e.op, ast.And) else "||"
            return "(" + (" %s " % op).join(self.cond(v, env) for v in e.values) + ")"
        if isinstance(e, ast.Compare) and len(e.ops) == 1:
            a, b = self.ex(e.left, env), self.ex(e.comparators[0], env)
            o = e.ops[0]
            if isinstance(o, ast.Lt):
                return "(Rltb %s %s)" % (a, b)
            if isinstance(o, ast.Gt):
                return "(Rltb %s %s)" % (b, a)
            if isinstance(o, ast.LtE):
                return "(Rleb %s %s)" % (a, b)
            if isinstance(o, ast.GtE):
                return "(Rleb %s %s)" % (b, a)
            if isinstance(o, ast.Eq):
                return "(Reqb %s %s)" % (a, b)
            if isinstance(o, ast.NotEq):
                return "(negb (Reqb %s %s))" % (a, b)
        raise Unsupported("condition %s" % ast.dump(e)[:80])

    # ---------------------------------------------------------------- return values
    def ret(self, e, env):
        if getattr(self, "ext_ret", False):
            # extended-real result: -np.inf is None, every other value Some (the models' `option T` for log-densities)
            if isinstance(e, ast.UnaryOp) and isinstance(e.op, ast.USub) and _dotted(e.operand) in ("np.inf", "math.inf"):
                return "None"
            return "Some (%s)" % self.ex(e, env)
        # np.array([...]) / np.array([...]).reshape(...)  ->  list ;  tuple -> list ; scalar -> scalar
        if isinstance(e, ast.Call) and isinstance(e.func, ast.Attribute) and e.func.attr == "reshape":
            e = e.func.value
        if isinstance(e, ast.Call) and _dotted(e.func) in ("np.array", "array") and len(e.args) == 1 \
                and isinstance(e.args[0], (ast.List, ast.Tuple)):
            return "[" + "; ".join(self.ex(x, env) for x in e.args[0].elts) + "]"
        if isinstance(e, (ast.Tuple, ast.List)):
            return "[" + "; ".join(self.ex(x, env) for x in e.elts) + "]"
        if isinstance(e, ast.Call) and _dotted(e.func) in ("np.linspace", "linspace") and len(e.args) == 3 and not e.keywords:
            # numpy.linspace(a, b, n) is read as its three arguments [a; b; n]: the tie lemma applies the model's linspace
            return "[" + "; ".join(self.ex(x, env) for x in e.args) + "]"
        if isinstance(e, (ast.Compare, ast.BoolOp)) or (isinstance(e, ast.UnaryOp) and isinstance(e.op, ast.Not)) \
                or (isinstance(e, ast.Call) and _dotted(e.func) in ("np.logical_or", "np.logical_and", "np.logical_not")):
            return self.cond(e, env)          # a boolean result (the caller declares rettype bool)
        return self.ex(e, env)

    # ---------------------------------------------------------------- statement blocks
    def assigned(self, stmts):
        out = []
        for s in stmts:
            n = None
            if isinstance(s, ast.Assign) and len(s.targets) == 1:
                n = self.tname(s.targets[0])
            elif isinstance(s, ast.AugAssign):
                n = self.tname(s.target)
            if n is None:
                raise Unsupported("statement %s inside a non-returning if" % type(s).__name__)
            if n not in out:
                out.append(n)
        return out

    def assigns_only(self, stmts, env, names):
        """sequential assignments, then the tuple of [names]"""
        env = set(env)
        out = ""
        for s in stmts:
            if isinstance(s, ast.Assign):
                out += "let %s := %s in " % (self.tname(s.targets[0]), self.ex(s.value, env))
                env.add(self.tname(s.targets[0]))
            else:
                out += "let %s := %s in " % (self.tname(s.target), self.aug(s, env))
        return out + ("(" + ", ".join(names) + ")" if len(names) > 1 else names[0])

    def aug(self, s, env):
        if isinstance(s.op, ast.Mod):
            # x %= m  is  x = x % m
            return self.ex(ast.BinOp(left=ast.Name(id=self.tname(s.target), ctx=ast.Load()), op=ast.Mod(), right=s.value), env)
        ops = {ast.Add: "+", ast.Sub: "-", ast.Mult: "*", ast.Div: "/"}
        for k, o in ops.items():
            if isinstance(s.op, k):
                n = self.tname(s.target)
                if n is None or n not in env:
                    raise Unsupported("augmented assignment to an unknown name")
                return "(%s %s %s)" % (n, o, self.ex(s.value, env))
        raise Unsupported("augmented operator")

    def block(self, stmts, env, triples):
        if not stmts:
            if self.state:
                return self.state_tuple()     # a state transformer falls off its end: the new state
            raise Unsupported("path without a return")
        s, rest = stmts[0], stmts[1:]
        if isinstance(s, ast.Expr) and isinstance(s.value, ast.Constant) and isinstance(s.value.value, str):
            return self.block(rest, env, triples)    # docstring
        if isinstance(s, ast.Return):
            if s.value is None:
                raise Unsupported("bare return")
            return self.ret(s.value, env)
        if isinstance(s, ast.Assign) and len(s.targets) == 1:
            t = s.targets[0]
            if self.tname(t) is not None:
                n = self.tname(t)
                return "let %s := %s in\n  %s" % (n, self.ex(s.value, env), self.block(rest, env | {n}, triples))
            if isinstance(t, ast.Tuple) and isinstance(s.value, ast.Name) and s.value.id in triples \
                    and all(isinstance(x, ast.Name) for x in t.elts) and len(t.elts) == 3:
                ns = [x.id for x in t.elts]
                return "let '(%s) := %s in\n  %s" % (", ".join(ns), s.value.id, self.block(rest, env | set(ns), triples))
            raise Unsupported("assignment target")
        if isinstance(s, ast.AugAssign) and self.tname(s.target) is not None:
            return "let %s := %s in\n  %s" % (self.tname(s.target), self.aug(s, env), self.block(rest, env, triples))
        if isinstance(s, ast.If):
            returns = lambda b: bool(b) and isinstance(b[-1], ast.Return)   # noqa
            if returns(s.body):
                other = (s.orelse + rest) if not returns(s.orelse) else s.orelse
                if returns(s.orelse) and rest:
                    raise Unsupported("code after an if whose branches both return")
                return "if %s then (%s)\n  else (%s)" % (self.cond(s.test, env), self.block(s.body, env, triples),
                                                       self.block(other, env, triples))
            names = self.assigned(s.body)
            for n in self.assigned(s.orelse):
                if n not in names:
                    names.append(n)
            for n in names:
                if n not in env:
                    raise Unsupported("name %s assigned in one branch only and unknown before" % n)
            pat = "'(" + ", ".join(names) + ")" if len(names) > 1 else names[0]
            return "let %s := if %s then (%s) else (%s) in\n  %s" % (
                pat, self.cond(s.test, env), self.assigns_only(s.body, env, names),
                self.assigns_only(s.orelse, env, names), self.block(rest, env, triples))
        raise Unsupported("statement %s" % type(s).__name__)


def find_function(tree, qualname):
    parts = qualname.split(".")
    body = tree.body
    node = None
    for k, p in enumerate(parts):
        node = None
        for n in body:
            if isinstance(n, (ast.FunctionDef, ast.ClassDef)) and n.name == p:
                node = n
                break
        if node is None:
            raise Unsupported("%s not found" % qualname)
        body = node.body
    if not isinstance(node, ast.FunctionDef):
        raise Unsupported("%s is not a function" % qualname)
    return node


def translate(repo, relpath, qualname, name, params, rettype, **kw):
    """params: list of (python name, kind) with kind in 'R' | 'bool' | 'R3' in the function's own order (self dropped).
    Returns the Gallina definition text."""
    path = os.path.join(repo, relpath)
    with open(path) as f:
        tree = ast.parse(f.read())
    fn = find_function(tree, qualname)
    a = fn.args
    if a.vararg or a.kwarg or a.kwonlyargs or a.posonlyargs:
        raise Unsupported("signature of %s" % qualname)
    pyargs = [x.arg for x in a.args]
    if pyargs and pyargs[0] == "self":
        pyargs = pyargs[1:]
    if pyargs != [p for p, _ in params]:
        raise Unsupported("signature of %s is %r, expected %r" % (qualname, pyargs, [p for p, _ in params]))
    for dflt in a.defaults:
        if not isinstance(dflt, ast.Constant):
            raise Unsupported("non-constant default")
    tr = Tr(bools=[p for p, k in params if k == "bool"], **kw)
    tr.ext_ret = rettype == "option R"
    env = {p for p, k in params if k == "R"} | {tr.svar(a) for a in tr.state}
    triples = {p for p, k in params if k == "R3"}
    kinds = {"R": "R", "bool": "bool", "R3": "(R * R * R)"}
    body = tr.block(fn.body, frozenset(env) | set(), triples)
    sigs = ["(%s : R)" % tr.svar(a) for a in tr.state]
    for p, k in params:
        if k == "obj":      # an object read only through the attributes listed in attrs: one real parameter per attribute
            sigs += ["(%s : R)" % v for kk, v in tr.attrs.items() if kk.startswith(p + ".")]
        else:
            sigs.append("(%s : %s)" % (p, kinds[k]))
    sigs += ["(%s : R)" % v for v in tr.self_attrs.values()]
    sigs += ["(%s : R)" % v for v in tr.opaque_exprs.values()]
    sigs += ["(%s : bool)" % v for v in tr.opaque_bools.values()]
    sig = " ".join(sigs)
    return "Definition %s %s : %s :=\n  %s.\n" % (name, sig, rettype, body)


def translate_kwarg(repo, relpath, qualname, kwarg, name, params, rettype, **kw):
    """The expression passed as keyword argument [kwarg] in the first call that has one, inside function [qualname]
    (e.g. medium_wavevec=2*np.pi/(illum_wavelen/medium_index) in calc_cross_sections).  [params]: the python names it
    may mention, as (name, 'R')."""
    path = os.path.join(repo, relpath)
    with open(path) as f:
        tree = ast.parse(f.read())
    fn = find_function(tree, qualname)
    found = [k for n in ast.walk(fn) if isinstance(n, ast.Call) for k in n.keywords if k.arg == kwarg]
    if len(found) != 1:
        raise Unsupported("%d calls with keyword %s in %s" % (len(found), kwarg, qualname))
    tr = Tr(**kw)
    env = frozenset(p for p, k in params if k == "R")
    body = tr.ex(found[0].value, env)
    sig = " ".join("(%s : R)" % p for p, k in params)
    return "Definition %s %s : %s :=\n  %s.\n" % (name, sig, rettype, body)


def translate_lambda_list(repo, relpath, qualname, name, listvar, itervar, point):
    """Inside [qualname]: `<listvar> = [(lambda <point>, v=v: BODY) for v in <itervar>]` - one indicator function per element of
    a list of reals.  Returns `name (v : R) (point : R*R*R) : bool := BODY` (BODY a comparison of reals; `(point**2).sum(-1)` is the
    squared norm)."""
    with open(os.path.join(repo, relpath)) as f:
        tree = ast.parse(f.read())
    fn = find_function(tree, qualname)
    found = [n for n in ast.walk(fn) if isinstance(n, ast.Assign) and len(n.targets) == 1 and isinstance(n.targets[0], ast.Name)
             and n.targets[0].id == listvar]
    if len(found) != 1 or not isinstance(found[0].value, ast.ListComp):
        raise Unsupported("%s is not assigned one list comprehension in %s" % (listvar, qualname))
    lc = found[0].value
    if len(lc.generators) != 1 or lc.generators[0].ifs or not isinstance(lc.generators[0].target, ast.Name) \
            or not isinstance(lc.generators[0].iter, ast.Name) or lc.generators[0].iter.id != itervar or not isinstance(lc.elt, ast.Lambda):
        raise Unsupported("shape of the comprehension for %s" % listvar)
    v = lc.generators[0].target.id
    lam = lc.elt
    a = lam.args
    if [x.arg for x in a.args] != [point, v] or len(a.defaults) != 1 or not isinstance(a.defaults[0], ast.Name) \
            or a.defaults[0].id != v or a.vararg or a.kwarg or a.kwonlyargs:
        raise Unsupported("signature of the lambda for %s" % listvar)
    tr = Tr()
    tr.vec3 = {point}
    body = tr.cond(lam.body, frozenset({v}))
    return "Definition %s (%s : R) (%s : R * R * R) : bool :=\n  let '(%s_x, %s_y, %s_z) := %s in %s.\n" % (
        name, v, point, point, point, point, point, body)


def translate_if_test(repo, relpath, qualname, name, opaque_exprs):
    """The test of the ONLY `if` statement inside [qualname] (anywhere in its loops / try blocks), with the listed
    sub-expressions read as real parameters: e.g. the overlap criterion of Spheres.overlaps."""
    with open(os.path.join(repo, relpath)) as f:
        tree = ast.parse(f.read())
    fn = find_function(tree, qualname)
    ifs = [n for n in ast.walk(fn) if isinstance(n, (ast.If, ast.IfExp))]
    if len(ifs) != 1 or not isinstance(ifs[0], ast.If) or ifs[0].orelse:
        raise Unsupported("%s does not contain exactly one plain if" % qualname)
    tr = Tr(opaque_exprs=opaque_exprs)
    body = tr.cond(ifs[0].test, frozenset())
    sig = " ".join("(%s : R)" % v for v in tr.opaque_exprs.values())
    return "Definition %s %s : bool :=\n  %s.\n" % (name, sig, body)


def translate_call_arg(repo, relpath, qualname, name, func, argno, opaque_exprs):
    """Argument number [argno] of the ONLY call of [func] inside [qualname], as a real expression over the listed opaque
    sub-expressions: e.g. the candidate value inside `largest = max(largest, <candidate>)` of Spheres.largest_overlap."""
    with open(os.path.join(repo, relpath)) as f:
        tree = ast.parse(f.read())
    fn = find_function(tree, qualname)
    calls = [n for n in ast.walk(fn) if isinstance(n, ast.Call) and _dotted(n.func) == func]
    if len(calls) != 1 or calls[0].keywords or len(calls[0].args) <= argno:
        raise Unsupported("%s does not contain exactly one call of %s" % (qualname, func))
    tr = Tr(opaque_exprs=opaque_exprs)
    body = tr.ex(calls[0].args[argno], frozenset())
    sig = " ".join("(%s : R)" % v for v in tr.opaque_exprs.values())
    return "Definition %s %s : R :=\n  %s.\n" % (name, sig, body)


def translate_segment(repo, relpath, qualname, name, first, last, outputs, inputs=(), extra_sig="", triples=(), **kw):
    """The contiguous run of top-level statements of [qualname] from the FIRST assignment to the name [first] up to and
    including the LAST assignment (plain or augmented, possibly inside a top-level if) to the name [last], read as a function
    from [inputs] (real parameters, plus the opaque sub-expressions in kw['opaque_exprs']) to the tuple of [outputs]."""
    with open(os.path.join(repo, relpath)) as f:
        tree = ast.parse(f.read())
    fn = find_function(tree, qualname)

    def assigns(st, nm):
        for n in ast.walk(st):
            if isinstance(n, ast.Assign) and any(isinstance(t, ast.Name) and t.id == nm for t in n.targets):
                return True
            if isinstance(n, ast.AugAssign) and isinstance(n.target, ast.Name) and n.target.id == nm:
                return True
        return False
    idx_first = [i for i, st in enumerate(fn.body) if isinstance(st, ast.Assign) and assigns(st, first)]
    idx_last = [i for i, st in enumerate(fn.body) if assigns(st, last)]
    if not idx_first or not idx_last or idx_last[-1] < idx_first[0]:
        raise Unsupported("segment %s..%s not found in %s" % (first, last, qualname))
    seg = fn.body[idx_first[0]:idx_last[-1] + 1]
    bools = kw.pop("bool_inputs", ())
    tr = Tr(bools=bools, **kw)
    ret = ast.Return(value=ast.Tuple(elts=[ast.Name(id=o, ctx=ast.Load()) for o in outputs], ctx=ast.Load()))
    body = tr.block(list(seg) + [ret], frozenset(inputs), set(triples))
    # the tuple is returned as a Gallina tuple, not a list
    if body.rstrip().endswith("]"):
        k = body.rindex("[")
        body = body[:k] + "(" + body[k + 1:].rstrip()[:-1].replace(";", ",") + ")"
    sig = " ".join(["(%s : bool)" % b for b in bools] + ["(%s : R * R * R)" % t for t in triples] + ["(%s : R)" % i for i in inputs]
                   + ["(%s : R)" % v for v in tr.opaque_exprs.values()])
    return "Definition %s %s %s : %s :=\n  %s.\n" % (name, extra_sig, sig, " * ".join(["R"] * len(outputs)), body)


def translate_assigned_list(repo, relpath, qualname, name, target, nelts, opaque_exprs, inputs=()):
    """The ONLY assignment `target = [e1, ..., e_nelts]` inside [qualname] whose right-hand side is a list display of [nelts]
    elements that all translate (other assignments to the same name, e.g. in another branch, are skipped when they do not):
    read as `name <inputs> <opaque> : list R`."""
    with open(os.path.join(repo, relpath)) as f:
        tree = ast.parse(f.read())
    fn = find_function(tree, qualname)
    cands = [n for n in ast.walk(fn) if isinstance(n, ast.Assign) and len(n.targets) == 1 and isinstance(n.targets[0], ast.Name)
             and n.targets[0].id == target and isinstance(n.value, ast.List) and len(n.value.elts) == nelts]
    done = []
    for c in cands:
        tr = Tr(opaque_exprs=opaque_exprs)
        try:
            done.append("[" + "; ".join(tr.ex(x, frozenset(inputs)) for x in c.value.elts) + "]")
        except Unsupported:
            continue
    if len(done) != 1:
        raise Unsupported("%d translatable list assignments to %s in %s" % (len(done), target, qualname))
    sig = " ".join(["(%s : R)" % i for i in inputs] + ["(%s : R)" % v for v in opaque_exprs.values()])
    return "Definition %s %s : list R :=\n  %s.\n" % (name, sig, done[0])

"""Fail-closed translator for straight-line numpy code over COMPLEX scalars with boolean masks (the per-frequency body of
propagation.trans_func) to Gallina over R.  Third member of the pysrc / pyarr family.

Reading of the source (the trusted part, stated in DESIGN 3.4b):
  * every array is read as its generic element (numpy / xarray broadcasting by dimension name ignored); wrapping a value
    into an xarray.DataArray, `ensure_array`, and `x = xr.DataArray(x, ...)` are the identity on elements;
  * a complex value is a pair (re, im) of real terms, complex arithmetic is expanded here; `1+0j`, `-1j` are constants;
    a comparison `z >= 0` of a complex value is accepted only when its imaginary part is syntactically 0 (numpy orders complex
    numbers by real part first) and reads `0 <= re`; a boolean mask multiplies as `if b then z else 0`;
  * `np.sqrt` of a complex value whose imaginary part is syntactically 0 is the principal root of a real number:
    `if 0 <= x then (sqrt x, 0) else (0, sqrt (-x))` (signed zeros ignored); `np.exp` of a complex value is
    `(exp re * cos im, exp re * sin im)`;
  * `z ** k` with k a natural-number parameter is `cpow_src z k` (k-fold product, defined in the tie header);
  * parameters of kind 'nat' are non-negative python ints (`int(abs(k))` is then k, `k > 0` is `0 < k`, arithmetic with reals
    goes through INR); a parameter of kind 'optR' is a real that may be 0 / False: its truth value is `Some _` vs `None`;
  * an `if` without else that reassigns names is `let name' := if c then new else old`;
  * float rounding is ignored (real arithmetic).
Anything else raises Unsupported.
"""
import ast
import os

from .pysrc import Unsupported, _dotted, _num, find_function


def is0(c):
    return c in ("0", "(0)")


def is1(c):
    return c in ("1", "(1)")


def add(a, b):
    return b if is0(a) else a if is0(b) else "(%s + %s)" % (a, b)


def sub(a, b):
    return a if is0(b) else "(- %s)" % b if is0(a) else "(%s - %s)" % (a, b)


def mul(a, b):
    if is0(a) or is0(b):
        return "0"
    return b if is1(a) else a if is1(b) else "(%s * %s)" % (a, b)


def neg(a):
    return "0" if is0(a) else "(- %s)" % a


def ite(c, a, b):
    return a if a == b else "(if %s then %s else %s)" % (c, a, b)


class V:
    def __init__(self, ty, code):
        self.ty, self.code = ty, code      # 'R' str | 'C' (re, im) | 'N' str (nat) | 'B' str (bool)


def toR(v):
    if v.ty == "R":
        return v.code
    if v.ty == "N":
        return "(INR %s)" % v.code
    raise Unsupported("a %s value where a real one is needed" % v.ty)


def toC(v):
    return v.code if v.ty == "C" else (toR(v), "0")


class CxTr:
    def __init__(self, params, opaque_calls=(), identity_calls=()):
        self.params = dict(params)          # name -> 'R' | 'nat' | 'optR' | 'ignore'
        self.env = {}
        self.ver = {}
        self.lets = []
        self.opaque_calls = set(opaque_calls)
        self.identity_calls = set(identity_calls)
        self.leaves = []                    # opaque real inputs created by opaque calls, in order of appearance
        for p, k in params:
            if k == "R":
                self.env[p] = V("R", p)
            elif k == "nat":
                self.env[p] = V("N", p)
            elif k == "optR":
                self.env[p] = V("O", p)

    # ------------------------------------------------------------------ binding
    def bind(self, name, v):
        """let-bind a value under a fresh version of [name]"""
        k = self.ver.get(name, 0) + 1
        self.ver[name] = k
        nm = "%s_%d" % (name, k)
        if v.ty == "C":
            re_, im_ = v.code
            if not (is0(re_) or is1(re_)):
                self.lets.append("let %s_re := %s in\n  " % (nm, re_))
                re_ = nm + "_re"
            if not (is0(im_) or is1(im_)):
                self.lets.append("let %s_im := %s in\n  " % (nm, im_))
                im_ = nm + "_im"
            self.env[name] = V("C", (re_, im_))
        elif v.ty in ("R", "N", "B"):
            self.lets.append("let %s := %s in\n  " % (nm, v.code))
            self.env[name] = V(v.ty, nm)
        else:
            self.env[name] = v

    # ------------------------------------------------------------------ expressions
    def ex(self, e):
        if isinstance(e, ast.Constant):
            v = e.value
            if isinstance(v, bool):
                raise Unsupported("boolean constant")
            if isinstance(v, complex):
                return V("C", (_num(v.real) if v.real else "0", "1" if v.imag == 1 else _num(v.imag) if v.imag else "0"))
            if isinstance(v, int):
                return V("R", "1" if v == 1 else "0" if v == 0 else _num(v))
            return V("R", _num(v))
        if isinstance(e, ast.Name):
            if e.id in self.env:
                v = self.env[e.id]
                if v.ty == "O":
                    raise Unsupported("optional parameter %s used outside its truth test" % e.id)
                return v
            raise Unsupported("unknown name %s" % e.id)
        if isinstance(e, ast.Attribute) and _dotted(e) in ("np.pi", "math.pi"):
            return V("R", "PI")
        if isinstance(e, ast.UnaryOp) and isinstance(e.op, ast.USub):
            v = self.ex(e.operand)
            if v.ty == "C":
                return V("C", (neg(v.code[0]), neg(v.code[1])))
            return V("R", neg(toR(v)))
        if isinstance(e, ast.UnaryOp) and isinstance(e.op, ast.UAdd):
            return self.ex(e.operand)
        if isinstance(e, ast.Compare) and len(e.ops) == 1:
            a, b = self.ex(e.left), self.ex(e.comparators[0])
            if a.ty == "N" and b.ty == "R" and is0(b.code) and isinstance(e.ops[0], ast.Gt):
                return V("B", "(0 <? %s)%%nat" % a.code)
            if a.ty == "C":
                if not is0(a.code[1]):
                    raise Unsupported("ordering comparison of a complex value with a non-zero imaginary part")
                x = a.code[0]
            else:
                x = toR(a)
            y = toR(b)
            o = e.ops[0]
            if isinstance(o, ast.GtE):
                return V("B", "(Rleb %s %s)" % (y, x))
            if isinstance(o, ast.Gt):
                return V("B", "(Rltb %s %s)" % (y, x))
            if isinstance(o, ast.LtE):
                return V("B", "(Rleb %s %s)" % (x, y))
            if isinstance(o, ast.Lt):
                return V("B", "(Rltb %s %s)" % (x, y))
            raise Unsupported("comparison operator")
        if isinstance(e, ast.BinOp):
            return self.binop(e.op, self.ex(e.left), self.ex(e.right), e)
        if isinstance(e, ast.Call):
            return self.call(e)
        raise Unsupported("expression %s" % type(e).__name__)

    def binop(self, op, a, b, node=None):
        if isinstance(op, ast.Pow):
            if b.ty == "N":
                z = toC(a)
                return V("C", ("(fst (cpow_src (%s, %s) %s))" % (z[0], z[1], b.code), "(snd (cpow_src (%s, %s) %s))" % (z[0], z[1], b.code)))
            if node is not None and isinstance(node.right, ast.Constant) and isinstance(node.right.value, int) \
                    and not isinstance(node.right.value, bool) and 1 <= node.right.value <= 4 and a.ty != "C":
                x = toR(a)
                return V("R", "(" + " * ".join([x] * node.right.value) + ")")
            raise Unsupported("power")
        if "B" in (a.ty, b.ty):
            if not isinstance(op, ast.Mult) or a.ty == b.ty:
                raise Unsupported("boolean mask in something other than a product")
            m, z = (a, b) if a.ty == "B" else (b, a)
            if z.ty == "C":
                return V("C", (ite(m.code, z.code[0], "0"), ite(m.code, z.code[1], "0")))
            return V("R", ite(m.code, toR(z), "0"))
        if isinstance(op, ast.Div):
            if b.ty == "C":
                raise Unsupported("division by a complex value")
            d = toR(b)
            if a.ty == "C":
                return V("C", ("0" if is0(a.code[0]) else "(%s / %s)" % (a.code[0], d), "0" if is0(a.code[1]) else "(%s / %s)" % (a.code[1], d)))
            return V("R", "(%s / %s)" % (toR(a), d))
        if a.ty != "C" and b.ty != "C":
            x, y = toR(a), toR(b)
            if isinstance(op, ast.Add):
                return V("R", add(x, y))
            if isinstance(op, ast.Sub):
                return V("R", sub(x, y))
            if isinstance(op, ast.Mult):
                return V("R", mul(x, y))
            raise Unsupported("binary operator")
        (ar, ai), (br, bi) = toC(a), toC(b)
        if isinstance(op, ast.Add):
            return V("C", (add(ar, br), add(ai, bi)))
        if isinstance(op, ast.Sub):
            return V("C", (sub(ar, br), sub(ai, bi)))
        if isinstance(op, ast.Mult):
            return V("C", (sub(mul(ar, br), mul(ai, bi)), add(mul(ar, bi), mul(ai, br))))
        raise Unsupported("binary operator")

    def call(self, e):
        d = _dotted(e.func)
        if d in ("int", "abs") and len(e.args) == 1 and not e.keywords:
            v = self.ex(e.args[0])
            if v.ty == "N":
                return v
            if d == "abs" and v.ty == "R":
                return V("R", "(Rabs %s)" % v.code)
            raise Unsupported("%s of a %s value" % (d, v.ty))
        if d in self.identity_calls and len(e.args) >= 1:
            return self.ex(e.args[0])
        if e.keywords or len(e.args) != 1:
            raise Unsupported("call %s" % d)
        v = self.ex(e.args[0])
        if d in ("np.sqrt", "sqrt"):
            if v.ty == "C":
                if not is0(v.code[1]):
                    raise Unsupported("square root of a complex value with a non-zero imaginary part")
                x = v.code[0]
                c = "(Rleb 0 %s)" % x
                return V("C", ("(if %s then sqrt %s else 0)" % (c, x), "(if %s then 0 else sqrt (- %s))" % (c, x)))
            return V("R", "(sqrt %s)" % toR(v))
        if d in ("np.exp", "exp"):
            if v.ty == "C":
                re_, im_ = v.code
                ex_ = "1" if is0(re_) else "(exp %s)" % re_
                return V("C", (mul(ex_, "(cos %s)" % im_), mul(ex_, "(sin %s)" % im_)))
            return V("R", "(exp %s)" % toR(v))
        raise Unsupported("call %s" % d)

    # ------------------------------------------------------------------ statements
    def assign_from(self, name, value):
        self.bind(name, self.ex(value))

    def stmt(self, s):
        if isinstance(s, ast.Expr) and isinstance(s.value, ast.Constant) and isinstance(s.value.value, str):
            return
        # x = xr.DataArray(x, ...)  /  if not hasattr(x, ..): x = xr.DataArray(ensure_array(x), ...)   : identity on elements
        if isinstance(s, ast.If) and not s.orelse and isinstance(s.test, ast.UnaryOp) and isinstance(s.test.op, ast.Not) \
                and isinstance(s.test.operand, ast.Call) and _dotted(s.test.operand.func) == "hasattr" \
                and len(s.body) == 1 and self.is_wrap(s.body[0]):
            return
        if self.is_wrap(s):
            return
        # a, b = f(..), f(..) with f an opaque producer of real inputs (the frequency coordinates)
        if isinstance(s, ast.Assign) and len(s.targets) == 1 and isinstance(s.targets[0], ast.Tuple) \
                and isinstance(s.value, ast.Tuple) and len(s.value.elts) == len(s.targets[0].elts) \
                and all(isinstance(t, ast.Name) for t in s.targets[0].elts) \
                and all(isinstance(v, ast.Call) and _dotted(v.func) in self.opaque_calls for v in s.value.elts):
            for t in s.targets[0].elts:
                self.leaves.append(t.id)
                self.env[t.id] = V("R", t.id)
            return
        if isinstance(s, ast.Assign) and len(s.targets) == 1 and isinstance(s.targets[0], ast.Name):
            self.assign_from(s.targets[0].id, s.value)
            return
        if isinstance(s, ast.AugAssign) and isinstance(s.target, ast.Name):
            if s.target.id not in self.env:
                raise Unsupported("augmented assignment to an unknown name")
            self.bind(s.target.id, self.binop(s.op, self.env[s.target.id], self.ex(s.value)))
            return
        if isinstance(s, ast.If) and not s.orelse:
            self.cond_block(s)
            return
        raise Unsupported("statement %s" % type(s).__name__)

    def is_wrap(self, s):
        if not (isinstance(s, ast.Assign) and len(s.targets) == 1 and isinstance(s.targets[0], ast.Name)
                and isinstance(s.value, ast.Call) and _dotted(s.value.func) == "xr.DataArray" and s.value.args):
            return False
        a = s.value.args[0]
        if isinstance(a, ast.Call) and _dotted(a.func) in self.identity_calls and len(a.args) == 1:
            a = a.args[0]
        return isinstance(a, ast.Name) and a.id == s.targets[0].id

    def cond_block(self, s):
        """if c: <assignments>   ->   each reassigned name becomes `if c then new else old`"""
        t = s.test
        opt = None
        if isinstance(t, ast.Name) and t.id in self.env and self.env[t.id].ty == "O":
            opt = t.id
        else:
            c = self.ex(t)
            if c.ty != "B":
                raise Unsupported("condition that is not a comparison")
        before = dict(self.env)
        nlets = len(self.lets)
        if opt:
            self.env[opt] = V("R", opt + "_v")
        for b in s.body:
            if not isinstance(b, (ast.Assign, ast.AugAssign)):
                raise Unsupported("statement %s inside an if" % type(b).__name__)
            self.stmt(b)
        inner = "".join(self.lets[nlets:])
        del self.lets[nlets:]
        after = self.env
        self.env = dict(before)
        for name, v in after.items():
            if name == opt or name not in before or v is before[name]:
                if name not in before and name != opt:
                    raise Unsupported("name %s first assigned inside an if" % name)
                continue
            old = before[name]
            if old.ty == "O":
                continue

            def pick(new_code, old_code):
                if opt:
                    return "(match %s with Some %s_v => %s%s | None => %s end)" % (opt, opt, inner, new_code, old_code)
                return "(if %s then %s%s else %s)" % (c.code, inner, new_code, old_code)
            if v.ty == "C" or old.ty == "C":
                (nr, ni), (or_, oi) = toC(v), toC(old)
                self.bind(name, V("C", (pick(nr, or_), pick(ni, oi))))
            elif v.ty == "N" and old.ty == "N":
                self.bind(name, V("N", pick(v.code, old.code)))
            else:
                self.bind(name, V("R", pick(toR(v), toR(old))))

    def body(self, stmts):
        for s in stmts:
            if isinstance(s, ast.Return):
                if s.value is None:
                    raise Unsupported("bare return")
                v = self.ex(s.value)
                re_, im_ = toC(v)
                return "".join(self.lets) + "(%s, %s)" % (re_, im_)
            self.stmt(s)
        raise Unsupported("no return")


HEADER = """
Fixpoint cpow_src (z : R * R) (k : nat) : R * R :=
  match k with O => (1, 0) | S k' => (fst z * fst (cpow_src z k') - snd z * snd (cpow_src z k'), fst z * snd (cpow_src z k') + snd z * fst (cpow_src z k')) end.
"""


def translate(repo, relpath, qualname, name, params, leaves, **opts):
    """params: the function's parameters in order as (name, 'R' | 'nat' | 'optR' | 'ignore'); leaves: the names that the body binds
    from opaque producers (must come out exactly as listed).  Result: `name <params> <leaves> : R * R`."""
    with open(os.path.join(repo, relpath)) as f:
        tree = ast.parse(f.read())
    fn = find_function(tree, qualname)
    a = fn.args
    if a.vararg or a.kwarg or a.kwonlyargs or a.posonlyargs:
        raise Unsupported("signature of %s" % qualname)
    if [x.arg for x in a.args] != [p for p, _ in params]:
        raise Unsupported("signature of %s is %r" % (qualname, [x.arg for x in a.args]))
    for dflt in a.defaults:
        if not (isinstance(dflt, ast.Constant) and dflt.value == 0 and not isinstance(dflt.value, bool)):
            raise Unsupported("default other than 0")
    tr = CxTr(params, **opts)
    body = tr.body(fn.body)
    if tr.leaves != list(leaves):
        raise Unsupported("opaque inputs of %s are %r" % (qualname, tr.leaves))
    kinds = {"R": "R", "nat": "nat", "optR": "option R"}
    sig = " ".join("(%s : %s)" % (p, kinds[k]) for p, k in params if k != "ignore")
    sig += " " + " ".join("(%s : R)" % l for l in leaves)
    return "Definition %s %s : R * R :=\n  %s.\n" % (name, sig, body)

"""Check context: collects obligations, correspondence results, explorations, violations,
matches them against KNOWN_FINDINGS.json, prints the verdict lines and writes evidence."""
import json
import os
import random
import sys
import time
import traceback

from . import coqrun

VERIF = coqrun.VERIF
EVID = os.path.join(VERIF, "evidence")
REPLAYS = os.path.join(VERIF, "replays")
# A run against another tree (HOLOPY_REPO=<scratch worktree>, used to try seeded changes and proposed
# repairs) is not a run against /repo: its evidence and replay files must never replace /verif's own.
_TREE = os.path.realpath(os.environ.get("HOLOPY_REPO", "/repo"))
if _TREE != os.path.realpath("/repo"):
    import hashlib as _hl
    _ALT = os.path.join(VERIF, "build", "alt", _hl.sha1(_TREE.encode()).hexdigest()[:10])
    EVID = os.path.join(_ALT, "evidence")
    REPLAYS = os.path.join(_ALT, "replays")
KNOWN = os.path.join(VERIF, "KNOWN_FINDINGS.json")


def jsonable(x):
    import numpy as np
    if isinstance(x, dict):
        return {str(k): jsonable(v) for k, v in x.items()}
    if isinstance(x, (list, tuple)):
        return [jsonable(v) for v in x]
    if isinstance(x, (np.ndarray,)):
        return jsonable(x.tolist())
    if isinstance(x, (np.bool_,)):
        return bool(x)
    if isinstance(x, np.integer):
        return int(x)
    if isinstance(x, np.floating):
        return float(x)
    if isinstance(x, complex) or isinstance(x, np.complexfloating):
        return {"re": float(x.real), "im": float(x.imag)}
    if isinstance(x, float):
        if x != x:
            return "nan"
        if x in (float("inf"), float("-inf")):
            return "inf" if x > 0 else "-inf"
        return x
    if isinstance(x, (int, str, bool)) or x is None:
        return x
    return repr(x)


class Ctx:
    def __init__(self, pid, tier="quick", seed=None, replay=None):
        self.pid = pid
        self.tier = tier
        if seed is None:
            seed = int(os.environ.get("VERIF_SEED", "20260926"))
        self.seed = int(seed)
        self.rng = random.Random("%s-%d" % (pid, self.seed))
        self.t0 = time.time()
        self.replay = replay
        self.obligations = 0
        self.discharged = 0
        self.theorems = []
        self.axioms = {}
        self.trusted = []
        self.corr_cases = 0
        self.corr_disagree = 0
        self.explored = 0
        self.nontrivial = set()
        self.hist = {}
        self.samples = []
        self.violations = []  # dict(key, what, data, nofail)
        self.known_hits = []
        self.notes = []
        self.clauses_proved = []
        self.clauses_explored = []
        self.assumptions = []
        self.checker_cmd = "coqc -Q coq HV coq/%s/Props.v (after make -C coq)" % pid
        self.known = []
        if os.path.exists(KNOWN):
            self.known = [e for e in json.load(open(KNOWN))["findings"] if e["property"] == pid]

    # -- scale ----------------------------------------------------------------
    def n(self, quick, thorough):
        return thorough if self.tier == "thorough" else quick

    def subrng(self, tag):
        return random.Random("%s-%d-%s" % (self.pid, self.seed, tag))

    # -- bookkeeping -----------------------------------------------------------
    def count(self, key, k=1):
        self.hist[key] = self.hist.get(key, 0) + k

    def sample(self, s, limit=6):
        if len(self.samples) < limit:
            self.samples.append(jsonable(s))

    def nontriv(self, key):
        self.nontrivial.add(key if isinstance(key, (str, int)) else json.dumps(jsonable(key), sort_keys=True))

    # -- proof obligations -----------------------------------------------------
    def prove(self):
        """Re-check coq/<pid>/Props.v. A failure is a violation (no failing input yet; the
        property module's search may upgrade it)."""
        r = coqrun.check_obligations(self.pid)
        self.theorems = r["theorems"]
        self.obligations = len(r["theorems"])
        self.axioms = r["assumptions"]
        if r["ok"]:
            self.discharged = self.obligations
        else:
            failed = r.get("failed", "Props.v")
            idx = self.theorems.index(failed) if failed in self.theorems else 0
            self.discharged = idx
            self.violation("proof:%s" % failed,
                           "theorem %s of coq/%s/Props.v no longer checks" % (failed, self.pid),
                           {"kind": "proof", "theorem": failed, "log": r["log"][-3000:]}, nofail=True)
        if r["ok"] and self.tier == "thorough" and self.replay is None:
            # independent checker over Props.vo and all its dependencies; lists every axiom of every
            # loaded library (a superset of what Print Assumptions reports per theorem)
            k = coqrun.coqchk(self.pid)
            self.coqchk = k
            self.checker_cmd += " ; coqchk -o -Q coq HV HV.%s.Props" % self.pid
            self.notes.append("coqchk: %s in %.0fs; axioms of all loaded libraries: %s" %
                              ("ok" if k["ok"] else "FAILED", k["wall_s"], ", ".join(k["axioms"]) or "none"))
            if not k["ok"]:
                self.violation("proof:coqchk", "coqchk does not accept coq/%s/Props.vo" % self.pid,
                               {"kind": "proof", "theorem": "coqchk", "log": k["log_tail"]}, nofail=True)
        return r

    # -- verdicts ---------------------------------------------------------------
    def violation(self, key, what, data, nofail=False):
        """key: canonical identifier of the failing input class / call site."""
        for v in self.violations:
            if v["key"] == key:
                v["count"] = v.get("count", 1) + 1
                return
        self.violations.append(dict(key=key, what=what, data=jsonable(data), nofail=nofail, count=1))

    def disagree(self, key, what, data):
        self.corr_disagree += 1
        self.violation(key, what, data)

    def finish(self):
        os.makedirs(EVID, exist_ok=True)
        os.makedirs(REPLAYS, exist_ok=True)
        rc = 0
        lines = []
        real = []
        for v in self.violations:
            hit = None
            for e in self.known:
                if e.get("status") == "known" and (v["key"] == e["key"] or v["key"].startswith(e["key"] + ":")):
                    hit = e
                    break
            if hit is not None:
                if hit["key"] not in [h["key"] for h in self.known_hits]:
                    self.known_hits.append(hit)
                continue
            real.append(v)
        for e in self.known_hits:
            lines.append("KNOWN-FINDING: property=%s %s" % (self.pid, e["what"]))
        for i, v in enumerate(real):
            safe = "".join(c if c.isalnum() or c in "-_." else "_" for c in v["key"])[:80]
            path = os.path.join(REPLAYS, "%s-%s.json" % (self.pid, safe))
            with open(path, "w") as f:
                json.dump({"property": self.pid, "tier": self.tier, "seed": self.seed,
                           "key": v["key"], "what": v["what"], "data": v["data"],
                           "occurrences": v.get("count", 1),
                           "replay_cmd": "./check %s --replay %s" % (self.pid, path)}, f, indent=1)
            tail = " no-failing-input-found" if v["nofail"] else ""
            lines.append("VIOLATION property=%s replay=%s%s" % (self.pid, path, tail))
            lines.append("  # " + v["what"][:300])
            rc = 1
        wall = time.time() - self.t0
        trusted = ["Coq 8.16.1 kernel + vm_compute (no native_compute)",
                   "hand-written Gallina model coq/%s/Model.v tied to /repo by the correspondence "
                   "check of harness/props/%s.py (differential, sampled)" % (self.pid, self.pid.lower()),
                   "harness: generators, float->Q conversion, comparison, out-of-tree gfortran "
                   "build of the f2py extensions"]
        axs = sorted({a for l in self.axioms.values() for a in l})
        trusted.append("axioms reported by Print Assumptions over all theorems: " +
                       (", ".join(axs) if axs else "none (closed under the global context)"))
        trusted += self.trusted
        ev = {
            "property_id": self.pid, "tier": self.tier, "seed": self.seed, "level": "proof",
            "coverage": {
                "obligations": self.obligations, "discharged": self.discharged,
                "checker_cmd": self.checker_cmd, "trusted_base": trusted,
                "theorems": self.theorems, "axioms_per_theorem": self.axioms,
                "evaluations": self.corr_cases + self.explored,
                "distinct_nontrivial": len(self.nontrivial),
                "rule": getattr(self, "rule", ""),
                "samples": self.samples,
                "correspondence_cases": self.corr_cases,
                "correspondence_disagreements": self.corr_disagree,
                "explored_cases": self.explored,
                "input_distribution": self.hist,
                "clauses_proved": self.clauses_proved,
                "clauses_explored_only": self.clauses_explored,
                "known_findings_hit": [e["key"] for e in self.known_hits],
                "notes": self.notes,
            },
            "assumptions": self.assumptions,
            "wall_s": round(wall, 2),
            "violations": len(real),
        }
        if self.replay is None:   # a --replay run re-executes one case: it is not a coverage run
            with open(os.path.join(EVID, self.pid + ".json"), "w") as f:
                json.dump(ev, f, indent=1)
        for l in lines:
            print(l)
        print("%s %s tier=%s seed=%d obligations=%d/%d corr=%d (disagree %d) explored=%d "
              "nontrivial=%d wall=%.1fs" % (self.pid, "FAIL" if rc else "ok", self.tier, self.seed,
                                            self.discharged, self.obligations, self.corr_cases,
                                            self.corr_disagree, self.explored, len(self.nontrivial), wall))
        sys.stdout.flush()
        return rc


def guarded(ctx, tag, fn, *a, **k):
    """Run a harness stage; an unexpected exception in the harness/implementation is reported
    as a violation of kind 'stage-crash' rather than silently passing."""
    try:
        return fn(*a, **k)
    except Exception as e:  # noqa
        tb = traceback.format_exc()
        ctx.violation("crash:%s:%s" % (tag, type(e).__name__),
                      "stage %s raised %s: %s" % (tag, type(e).__name__, str(e)[:200]),
                      {"kind": "crash", "stage": tag, "traceback": tb[-3000:]}, nofail=True)
        return None

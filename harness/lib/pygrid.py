"""Fail-closed reader for the grid-construction code of holopy/core/metadata.py (source tie of C07 / C16).

What is read, from the CURRENT source text of the tree under test:

  make_coords(shape, spacing, z)   the dict display  dict([('z', ...), ('x', np.arange(shape[K]) * spacing[J]), ...])
                                   -> per key: the generic element of the axis as a function of the index
                                      (`np.arange(shape[K])` is the index `idx : R` ranging over zrange shape_K; which K is
                                      emitted as a Z), `spacing[J]` the parameter spacing_J, `ensure_array(v)` the identity.
                                      The only other statements allowed are the two scalar broadcasts
                                      `if np.isscalar(v): v = np.repeat(v, 2)` (a scalar read as the pair (v, v)) and the
                                      `to_return = ... ; return to_return` hand-over.
  data_grid(...)                   the list literal of  dims = ['z', 'x', 'y'] + list(extra_dims.keys()),  the positional
                                   arguments of the only call of make_coords, and the axis of np.expand_dims
  make_subset_data(...)            tot_pix = len(data.x) * len(data.y)   (lengths are opaque reals),
                                   the arguments of the only np.random.choice call (population, size, replace=...),
                                   the stacking call  flat(data).isel(flat=selection)

Anything else raises pysrc.Unsupported, which the tie stage reports as a broken tie, never as a pass."""
import ast
import os

from . import pysrc
from .pysrc import Unsupported


def _parse(repo, relpath):
    with open(os.path.join(repo, relpath)) as f:
        return ast.parse(f.read())


def _strlist(xs):
    return "[" + "; ".join('"%s"%%string' % x for x in xs) + "]"


class _Axis(ast.NodeTransformer):
    def __init__(self):
        self.axis = []

    def visit_Call(self, n):
        d = pysrc._dotted(n.func)
        if d == "np.arange":
            if n.keywords or len(n.args) != 1:
                raise Unsupported("np.arange with other than one positional argument")
            a = n.args[0]
            if not (isinstance(a, ast.Subscript) and isinstance(a.value, ast.Name) and a.value.id == "shape"
                    and isinstance(a.slice, ast.Constant) and isinstance(a.slice.value, int)):
                raise Unsupported("np.arange of something other than shape[K]: %s" % ast.unparse(a))
            self.axis.append(a.slice.value)
            return ast.Name(id="idx", ctx=ast.Load())
        if d == "ensure_array" and len(n.args) == 1 and not n.keywords:
            return self.visit(n.args[0])
        self.generic_visit(n)
        return n

    def visit_Subscript(self, n):
        if isinstance(n.value, ast.Name) and n.value.id == "spacing" and isinstance(n.slice, ast.Constant) \
                and n.slice.value in (0, 1):
            return ast.Name(id="spacing_%d" % n.slice.value, ctx=ast.Load())
        raise Unsupported("subscript %s" % ast.unparse(n))


def _is_scalar_broadcast(s):
    """if np.isscalar(v): v = np.repeat(v, 2)"""
    if not (isinstance(s, ast.If) and not s.orelse and len(s.body) == 1 and isinstance(s.test, ast.Call)
            and pysrc._dotted(s.test.func) == "np.isscalar" and len(s.test.args) == 1 and isinstance(s.test.args[0], ast.Name)):
        return False
    v = s.test.args[0].id
    b = s.body[0]
    return (v in ("shape", "spacing") and isinstance(b, ast.Assign) and len(b.targets) == 1
            and isinstance(b.targets[0], ast.Name) and b.targets[0].id == v
            and ast.unparse(b.value) in ("np.repeat(%s, 2)" % v, "[%s] * 2" % v, "(%s, %s)" % (v, v), "[%s, %s]" % (v, v)))


def make_coords(repo, relpath="holopy/core/metadata.py", name="make_coords_src"):
    fn = pysrc.find_function(_parse(repo, relpath), "make_coords")
    if [a.arg for a in fn.args.args] != ["shape", "spacing", "z"] or fn.args.vararg or fn.args.kwarg or fn.args.kwonlyargs:
        raise Unsupported("signature of make_coords changed")
    body = [s for s in fn.body if not (isinstance(s, ast.Expr) and isinstance(s.value, ast.Constant))]
    while body and _is_scalar_broadcast(body[0]):
        body = body[1:]
    disp = None
    if len(body) == 2 and isinstance(body[0], ast.Assign) and len(body[0].targets) == 1 and isinstance(body[0].targets[0], ast.Name) \
            and isinstance(body[1], ast.Return) and isinstance(body[1].value, ast.Name) and body[1].value.id == body[0].targets[0].id:
        disp = body[0].value
    elif len(body) == 1 and isinstance(body[0], ast.Return):
        disp = body[0].value
    if disp is None:
        raise Unsupported("make_coords is no longer [scalar broadcasts]; build a dict; return it")
    pairs = []
    if isinstance(disp, ast.Call) and pysrc._dotted(disp.func) == "dict" and len(disp.args) == 1 and not disp.keywords \
            and isinstance(disp.args[0], ast.List):
        for t in disp.args[0].elts:
            if not (isinstance(t, ast.Tuple) and len(t.elts) == 2 and isinstance(t.elts[0], ast.Constant) and isinstance(t.elts[0].value, str)):
                raise Unsupported("dict entry %s" % ast.unparse(t))
            pairs.append((t.elts[0].value, t.elts[1]))
    elif isinstance(disp, ast.Dict):
        for k, v in zip(disp.keys, disp.values):
            if not (isinstance(k, ast.Constant) and isinstance(k.value, str)):
                raise Unsupported("dict key")
            pairs.append((k.value, v))
    else:
        raise Unsupported("make_coords result is not a dict display")
    keys = [k for k, _ in pairs]
    if sorted(keys) != ["x", "y", "z"]:
        raise Unsupported("make_coords keys %r" % keys)
    sig = "(spacing_0 spacing_1 z : R)"
    out = "Definition %s_keys : list string := %s.\n" % (name, _strlist(keys))
    for k, e in pairs:
        ax = _Axis()
        e2 = ast.fix_missing_locations(ax.visit(e))
        tr = pysrc.Tr()
        env = frozenset(["spacing_0", "spacing_1", "z"] + (["idx"] if ax.axis else []))
        g = tr.ex(e2, env)
        if k == "z":
            if ax.axis:
                raise Unsupported("z axis built from np.arange")
            out += "Definition %s_z %s : R :=\n  %s.\n" % (name, sig, g)
        else:
            if len(ax.axis) != 1:
                raise Unsupported("axis %s uses %d np.arange calls" % (k, len(ax.axis)))
            out += "Definition %s_%s %s (idx : R) : R :=\n  %s.\n" % (name, k, sig, g)
            out += "Definition %s_%s_shape_index : Z := %d%%Z.\n" % (name, k, ax.axis[0])
    return out


def data_grid(repo, relpath="holopy/core/metadata.py", name="data_grid_src"):
    fn = pysrc.find_function(_parse(repo, relpath), "data_grid")
    dims = [n for n in ast.walk(fn) if isinstance(n, ast.Assign) and len(n.targets) == 1 and isinstance(n.targets[0], ast.Name)
            and n.targets[0].id == "dims"]
    if len(dims) != 1:
        raise Unsupported("%d assignments to dims in data_grid" % len(dims))
    v = dims[0].value
    if not (isinstance(v, ast.BinOp) and isinstance(v.op, ast.Add) and isinstance(v.left, ast.List)
            and all(isinstance(x, ast.Constant) and isinstance(x.value, str) for x in v.left.elts)
            and ast.unparse(v.right) == "list(extra_dims.keys())"):
        raise Unsupported("dims = %s" % ast.unparse(v))
    out = "Definition %s_dims : list string := %s.\n" % (name, _strlist([x.value for x in v.left.elts]))
    calls = [n for n in ast.walk(fn) if isinstance(n, ast.Call) and pysrc._dotted(n.func) == "make_coords"]
    if len(calls) != 1 or calls[0].keywords:
        raise Unsupported("data_grid no longer calls make_coords exactly once, positionally")
    out += "Definition %s_coords_args : list string := %s.\n" % (name, _strlist([ast.unparse(a) for a in calls[0].args]))
    ctor = [n for n in ast.walk(fn) if isinstance(n, ast.Call) and pysrc._dotted(n.func) == "xr.DataArray"]
    if len(ctor) != 1:
        raise Unsupported("data_grid no longer builds exactly one xr.DataArray")
    kw = {k.arg: ast.unparse(k.value) for k in ctor[0].keywords}
    out += "Definition %s_ctor : list string := %s.\n" % (
        name, _strlist([ast.unparse(a) for a in ctor[0].args] + ["%s=%s" % (k, kw[k]) for k in sorted(kw)]))
    exp = [n for n in ast.walk(fn) if isinstance(n, ast.Call) and pysrc._dotted(n.func) == "np.expand_dims"]
    if len(exp) != 1 or len(exp[0].args) != 1 or [k.arg for k in exp[0].keywords] != ["axis"] \
            or not isinstance(exp[0].keywords[0].value, ast.Constant) or not isinstance(exp[0].keywords[0].value.value, int):
        raise Unsupported("np.expand_dims call of data_grid")
    out += "Definition %s_expand_axis : Z := %d%%Z.\n" % (name, exp[0].keywords[0].value.value)
    return out


def make_subset_data(repo, relpath="holopy/core/metadata.py", name="subset_src"):
    fn = pysrc.find_function(_parse(repo, relpath), "make_subset_data")
    tp = [n for n in ast.walk(fn) if isinstance(n, ast.Assign) and len(n.targets) == 1 and isinstance(n.targets[0], ast.Name)
          and n.targets[0].id == "tot_pix"]
    if len(tp) != 1:
        raise Unsupported("%d assignments to tot_pix" % len(tp))
    tr = pysrc.Tr(opaque_exprs={"len(data.x)": "len_x", "len(data.y)": "len_y"})
    out = "Definition %s_tot_pix (len_x len_y : R) : R :=\n  %s.\n" % (name, tr.ex(tp[0].value, frozenset()))
    ch = [n for n in ast.walk(fn) if isinstance(n, ast.Call) and (pysrc._dotted(n.func) or "").endswith("random.choice")]
    if len(ch) != 1 or len(ch[0].args) != 2:
        raise Unsupported("make_subset_data no longer has exactly one np.random.choice(population, size, ...) call")
    kw = {k.arg: k.value for k in ch[0].keywords}
    if set(kw) != {"replace"} or not isinstance(kw["replace"], ast.Constant) or not isinstance(kw["replace"].value, bool):
        raise Unsupported("keywords of np.random.choice: %s" % sorted(kw))
    out += "Definition %s_choice : list string * bool := (%s, %s).\n" % (
        name, _strlist([ast.unparse(a) for a in ch[0].args]), "true" if kw["replace"].value else "false")
    # every statement between the draw and the return that rebinds `selection` would change which pixels are taken
    sel_assign = [n for n in ast.walk(fn) if isinstance(n, (ast.Assign, ast.AugAssign))
                  and any(isinstance(t, ast.Name) and t.id == "selection" for t in (n.targets if isinstance(n, ast.Assign) else [n.target]))]
    if len(sel_assign) != 1:
        raise Unsupported("selection is bound %d times" % len(sel_assign))
    sub = [n for n in ast.walk(fn) if isinstance(n, ast.Assign) and len(n.targets) == 1 and isinstance(n.targets[0], ast.Name)
           and n.targets[0].id == "subset"]
    if not sub:
        raise Unsupported("no assignment to subset")
    out += "Definition %s_take : list string := %s.\n" % (name, _strlist([ast.unparse(s.value) for s in sub]))
    od = [n for n in ast.walk(fn) if isinstance(n, ast.Assign) and ast.unparse(n.targets[0]) == "subset.attrs['original_dims']"]
    if len(od) != 1:
        raise Unsupported("original_dims assignment")
    out += "Definition %s_original_dims : string := \"%s\"%%string.\n" % (name, ast.unparse(od[0].value).replace('"', "'"))
    return out


def _decimal(src, node):
    """a float literal read as the decimal number its source text denotes (python floats are read as reals)"""
    from fractions import Fraction
    txt = ast.get_source_segment(src, node)
    try:
        fr = Fraction(txt)
    except (ValueError, TypeError):
        raise Unsupported("literal %r" % txt)
    return "(%d / %d)" % (fr.numerator, fr.denominator) if fr.denominator != 1 else "(%d)" % fr.numerator


def save_im_quant(repo, relpath="holopy/core/io/io.py", name="save_im_src"):
    """_save_im: the `if depth != 'float':` block.  The depth chain (8 -> uint8 with 8 bits, 16 / 32 -> int16 / int32 with
    depth - 1 bits, anything else refused) becomes  name_bits : Z -> option (Z * string);  the quantisation line
    `im = im * ((2**depth)-1) + .499999` becomes  name_quant (depth : Z) (im : R) : R  (2**depth read as IZR (2 ^ depth)),
    and the guard `if im.max() <= 1` and the `.astype(typestr)` truncation are emitted as text."""
    with open(os.path.join(repo, relpath)) as f:
        src = f.read()
    fn = pysrc.find_function(ast.parse(src), "_save_im")
    blk = [s for s in fn.body if isinstance(s, ast.If) and ast.unparse(s.test) == "depth != 'float'"]
    if len(blk) != 1 or blk[0].orelse or len(blk[0].body) != 2:
        raise Unsupported("the `if depth != 'float':` block of _save_im changed shape")
    chain, guard = blk[0].body
    arms = []
    node = chain
    while True:
        if not isinstance(node, ast.If):
            raise Unsupported("depth chain")
        vals = []
        t = node.test
        parts = t.values if isinstance(t, ast.BoolOp) and isinstance(t.op, ast.Or) else [t]
        for p in parts:
            if not (isinstance(p, ast.Compare) and isinstance(p.left, ast.Name) and p.left.id == "depth" and len(p.ops) == 1
                    and isinstance(p.ops[0], ast.Eq) and isinstance(p.comparators[0], ast.Constant)
                    and isinstance(p.comparators[0].value, int)):
                raise Unsupported("depth test %s" % ast.unparse(t))
            vals.append(p.comparators[0].value)
        bits, typ = None, None
        for s in node.body:
            if not (isinstance(s, ast.Assign) and len(s.targets) == 1 and isinstance(s.targets[0], ast.Name)):
                raise Unsupported("statement in depth chain: %s" % ast.unparse(s))
            if s.targets[0].id == "depth":
                u = ast.unparse(s.value).replace(" ", "")
                if u == "depth-1":
                    bits = "(Z.sub depth 1)"
                elif isinstance(s.value, ast.Constant) and isinstance(s.value.value, int):
                    bits = "(%d%%Z)" % s.value.value
                else:
                    raise Unsupported("depth = %s" % u)
            elif s.targets[0].id == "typestr":
                u = ast.unparse(s.value)
                if u == "'int' + str(depth)":
                    if bits is not None:
                        raise Unsupported("typestr computed after depth was rebound")
                    typ = "int"
                elif isinstance(s.value, ast.Constant) and isinstance(s.value.value, str):
                    typ = s.value.value
                else:
                    raise Unsupported("typestr = %s" % u)
            else:
                raise Unsupported("assignment to %s in depth chain" % s.targets[0].id)
        if typ is None:
            raise Unsupported("no typestr")
        arms.append((vals, bits or "depth", typ))
        if len(node.orelse) == 1 and isinstance(node.orelse[0], ast.If):
            node = node.orelse[0]
            continue
        if len(node.orelse) == 1 and isinstance(node.orelse[0], ast.Raise):
            break
        raise Unsupported("depth chain does not end in a refusal")
    out = "Definition %s_bits (depth : Z) : option (Z * string) :=\n" % name
    for vals, bits, typ in arms:
        out += "  if %s then Some (%s, \"%s\"%%string) else\n" % (" || ".join("(Z.eqb depth %d%%Z)" % v for v in vals), bits, typ)
    out += "  None.\n"
    if not (isinstance(guard, ast.If) and not guard.orelse and len(guard.body) == 2):
        raise Unsupported("quantisation guard")
    q, cast = guard.body
    if not (isinstance(q, ast.Assign) and ast.unparse(q.targets[0]) == "im"):
        raise Unsupported("quantisation line")

    def ex(e):
        if isinstance(e, ast.Name) and e.id == "im":
            return "im"
        if isinstance(e, ast.Constant) and isinstance(e.value, int) and not isinstance(e.value, bool):
            return "(%d)" % e.value
        if isinstance(e, ast.Constant) and isinstance(e.value, float):
            return _decimal(src, e)
        if isinstance(e, ast.BinOp) and isinstance(e.op, ast.Pow) and ast.unparse(e) == "2 ** depth":
            return "(IZR (Z.pow 2 depth))"
        if isinstance(e, ast.BinOp):
            for k, s in {ast.Add: "+", ast.Sub: "-", ast.Mult: "*", ast.Div: "/"}.items():
                if isinstance(e.op, k):
                    return "(%s %s %s)" % (ex(e.left), s, ex(e.right))
        raise Unsupported("expression %s" % ast.unparse(e))
    out += "Definition %s_quant (depth : Z) (im : R) : R :=\n  %s.\n" % (name, ex(q.value))
    out += "Definition %s_guard_cast : list string := %s.\n" % (name, _strlist([ast.unparse(guard.test), ast.unparse(cast)]))
    return out


# ---------------------------------------------------------------------------------------------------------------------
# to_vector (core/metadata.py): the normalisation of a polarisation vector, read per component over the list of components

def _vec_ex(e, src, names):
    """elementwise expression over the component list `l` with generic component `c`; `names`: scalar names in scope"""
    if isinstance(e, ast.Name):
        if e.id == "c":
            return "c"
        if e.id in names:
            return e.id
        raise Unsupported("name %s" % e.id)
    if isinstance(e, ast.Constant) and isinstance(e.value, int) and not isinstance(e.value, bool):
        return "(%d)" % e.value
    if isinstance(e, ast.Constant) and isinstance(e.value, float):
        return _decimal(src, e)
    if isinstance(e, ast.BinOp) and isinstance(e.op, ast.Pow) and isinstance(e.right, ast.Constant) and e.right.value == 2:
        b = _vec_ex(e.left, src, names)
        return "(%s * %s)" % (b, b)
    if isinstance(e, ast.BinOp):
        for k, s in {ast.Add: "+", ast.Sub: "-", ast.Mult: "*", ast.Div: "/"}.items():
            if isinstance(e.op, k):
                return "(%s %s %s)" % (_vec_ex(e.left, src, names), s, _vec_ex(e.right, src, names))
    if isinstance(e, ast.Call):
        d = pysrc._dotted(e.func)
        if d == "np.sqrt" and len(e.args) == 1 and not e.keywords:
            return "(sqrt %s)" % _vec_ex(e.args[0], src, names)
        if d == "np.abs" and len(e.args) == 1 and not e.keywords:
            return "(Rabs %s)" % _vec_ex(e.args[0], src, names)
        if d == "np.sum" and len(e.args) == 1 and not e.keywords:
            return "(vsum (fun c : R => %s) l)" % _vec_ex(e.args[0], src, names)
        if isinstance(e.func, ast.Attribute) and e.func.attr == "sum" and [ast.unparse(a) for a in e.args] == ["vector"] and not e.keywords:
            return "(vsum (fun c : R => %s) l)" % _vec_ex(e.func.value, src, names)
    raise Unsupported("expression %s" % ast.unparse(e))


def to_vector(repo, relpath="holopy/core/metadata.py", name="to_vector_src"):
    with open(os.path.join(repo, relpath)) as f:
        src = f.read()
    fn = pysrc.find_function(ast.parse(src), "to_vector")
    if [a.arg for a in fn.args.args] != ["c"]:
        raise Unsupported("signature of to_vector")
    body = [s for s in fn.body if not (isinstance(s, ast.Expr) and isinstance(s.value, ast.Constant))]
    out = "Definition vsum (f : R -> R) (l : list R) : R := fold_right (fun x a => f x + a) 0 l.\n"
    # --- the labelled branch: if hasattr(c, vector): norm = ...; if (<test>).all(): return c; return c / norm
    lab = [s for s in body if isinstance(s, ast.If) and ast.unparse(s.test) == "hasattr(c, vector)"]
    if len(lab) != 1 or lab[0].orelse or len(lab[0].body) != 3:
        raise Unsupported("labelled branch of to_vector changed shape")
    a, t, r = lab[0].body
    if not (isinstance(a, ast.Assign) and ast.unparse(a.targets[0]) == "norm"):
        raise Unsupported("labelled branch: first statement is not norm = ...")
    out += "Definition %s_lab_norm (l : list R) : R :=\n  %s.\n" % (name, _vec_ex(a.value, src, set()))
    if not (isinstance(t, ast.If) and not t.orelse and len(t.body) == 1 and isinstance(t.body[0], ast.Return)
            and ast.unparse(t.body[0].value) == "c" and isinstance(t.test, ast.Call) and isinstance(t.test.func, ast.Attribute)
            and not t.test.args and not t.test.keywords and isinstance(t.test.func.value, ast.Compare)
            and len(t.test.func.value.ops) == 1 and isinstance(t.test.func.value.ops[0], ast.Lt)):
        raise Unsupported("labelled branch: unit-length test %s" % ast.unparse(t)[:80])
    cmp_ = t.test.func.value
    out += "Definition %s_lab_unit (norm : R) : bool :=\n  Rltb %s %s.\n" % (
        name, _vec_ex(cmp_.left, src, {"norm"}), _vec_ex(cmp_.comparators[0], src, {"norm"}))
    out += "Definition %s_lab_reduce : string := \"%s\"%%string.\n" % (name, t.test.func.attr)
    if not isinstance(r, ast.Return):
        raise Unsupported("labelled branch: last statement")
    out += "Definition %s_lab_elem (norm : R) (c : R) : R :=\n  %s.\n" % (name, _vec_ex(r.value, src, {"norm"}))
    # --- the plain branch: c = np.array(c); if c.shape == (2,): c = np.append(c, 0); c = c / ...; return DataArray(c, ...)
    i = next((k for k, s in enumerate(body) if isinstance(s, ast.Assign) and ast.unparse(s) == "c = np.array(c)"), None)
    if i is None or len(body) != i + 4:
        raise Unsupported("plain branch of to_vector changed shape")
    pad, nrm, ret = body[i + 1:]
    if not (isinstance(pad, ast.If) and not pad.orelse and ast.unparse(pad.test) == "c.shape == (2,)" and len(pad.body) == 1
            and ast.unparse(pad.body[0]) == "c = np.append(c, 0)"):
        raise Unsupported("padding of a 2-vector: %s" % ast.unparse(pad)[:80])
    if not (isinstance(nrm, ast.Assign) and ast.unparse(nrm.targets[0]) == "c"):
        raise Unsupported("normalisation line")
    out += "Definition %s_elem (l : list R) (c : R) : R :=\n  %s.\n" % (name, _vec_ex(nrm.value, src, set()))
    if not (isinstance(ret, ast.Return) and isinstance(ret.value, ast.Call) and pysrc._dotted(ret.value.func) == "xr.DataArray"
            and [ast.unparse(x) for x in ret.value.args] == ["c"]):
        raise Unsupported("return of to_vector")
    kw = {k.arg: ast.unparse(k.value) for k in ret.value.keywords}
    out += "Definition %s_labels : list string := %s.\n" % (name, _strlist(["%s=%s" % (k, kw[k].replace('"', "'")) for k in sorted(kw)]))
    return out

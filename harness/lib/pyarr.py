"""Fail-closed translator for numpy *vector* code (elementwise arithmetic over equally long 1-D arrays followed by
`.sum()` reductions) to Gallina over R.  Companion of pysrc.py (which covers scalar straight-line code).

Reading of the source (this is the trusted part, stated in DESIGN 3.4b):
  * the array parameters are 1-D arrays of one common length; they are read as ONE list of tuples `cs`
    (element of `al` = first component, of `bl` = second ...).  A complex array is a pair of real lists.
  * an elementwise expression is read at a generic 0-based index `l0` (a Z) and the generic element `c`;
    `np.arange(lmax)` (with `lmax = <array>.shape[0]`) is the index itself; python ints stay in Z until they meet a
    float (`IZR`), `/` is real division; complex arithmetic is expanded into real and imaginary parts here, so that the
    generated term is plain real arithmetic (np.abs(z) = sqrt(re^2 + im^2), np.real, np.imag, np.conj);
  * `X.sum()` of an elementwise expression is `asum (fun l0 c => X) 0 cs` (defined in the tie header, a left-to-right
    sum); when X mentions the slices `a[:-1]` / `a[1:]` every array leaf of X must be sliced and the sum runs over
    `adjacent cs = combine cs (tl cs)` with `a[:-1]` the first and `a[1:]` the second member at index l0 (+1 for the
    index array under `[1:]`);
  * float rounding is ignored (real arithmetic), as everywhere in the models.
Anything else raises Unsupported (reported by the caller as a broken tie, never as a pass).
"""
import ast
import os

from .pysrc import Unsupported, _dotted, _num, find_function

RANK = {"Z": 0, "R": 1, "C": 2}


class V:
    """a translated value: ty in Z/R/C; code (Z/R) or (re, im) (C); arr = depends on the generic index/element"""
    def __init__(self, ty, code, arr):
        self.ty, self.code, self.arr = ty, code, arr


def toR(v):
    if v.ty == "Z":
        return V("R", "(IZR %s)" % v.code, v.arr)
    if v.ty == "R":
        return v
    raise Unsupported("complex value where a real one is needed")


def toC(v):
    if v.ty == "C":
        return v
    r = toR(v)
    return V("C", (r.code, "0"), r.arr)


class ArrTr:
    def __init__(self, arrays, tree=None, opaque=None, opaque_calls=(), size_attrs=(), identity_calls=(), identity_attrs=(),
                 inline=None, axis_name=None, axis_labels=None, passthrough=None, len_exprs=None):
        # arrays: list of (python name, 'R' | 'C') ; element tuple nests to the left: ((a, b), c) ...
        self.arrays = arrays
        self.env = {}          # local name -> ('ast', node) | ('val', V) | ('len',) | ('leaf', k)
        self.lets = []
        self.nsum = 0
        self.tree = tree
        self.opaque = dict(opaque or {})            # local name -> array number, for `name = <opaque call>(...)`
        self.opaque_calls = set(opaque_calls)       # dotted names of the calls that may produce such an array
        self.size_attrs = set(size_attrs)           # dotted names that denote the common array length (data.size)
        self.identity_calls = set(identity_calls)   # ensure_array / ensure_scalar: the identity on values
        self.identity_attrs = set(identity_attrs)   # .values of a DataArray
        self.inline = dict(inline or {})            # dotted call name -> (qualname of the method in the same file, its parameters)
        self.axis_name = axis_name                  # e.g. 'vector': the arrays are the components of fields along this axis
        self.axis_labels = list(axis_labels or [])  # its labels in order, e.g. ['x', 'y', 'z']
        self.restrict = None
        self.len_exprs = set(len_exprs or ())       # source texts that denote the common array length (e.g. 'nstop + 1')
        self.passthrough = dict(passthrough or {})  # call name -> index of the argument it returns with metadata attached (finalize)

    LEN = "(IZR (Z.of_nat (List.length cs)))"

    # ------------------------------------------------------------------ leaves
    def leaf(self, k, mode):
        """generic element of array parameter number k"""
        n = len(self.arrays)
        base = {None: "c", "lo": "(fst cc)", "hi": "(snd cc)"}[mode]
        acc = base
        # tuple ((..(a0, a1), a2) ..., a_{n-1})
        for _ in range(n - 1 - k):
            acc = "(fst %s)" % acc
        if k > 0:
            acc = "(snd %s)" % acc if n > 1 else acc
        elif n > 1:
            pass
        ty = self.arrays[k][1]
        if ty == "C":
            return V("C", ("(fst %s)" % acc, "(snd %s)" % acc), True)
        return V("R", acc, True)

    def has_slice(self, e, seen=()):
        for n in ast.walk(e):
            if isinstance(n, ast.Subscript):
                return True
            if isinstance(n, ast.Name) and n.id in self.env and self.env[n.id][0] == "ast" and n.id not in seen:
                if self.has_slice(self.env[n.id][1], seen + (n.id,)):
                    return True
        return False

    # ------------------------------------------------------------------ expressions
    def ex(self, e, mode):
        """mode: None (plain elementwise or scalar) | 'req' (inside an adjacent-sum: array leaves must be sliced)
        | 'lo' | 'hi' (under a slice)"""
        if isinstance(e, ast.Constant):
            if isinstance(e.value, bool):
                raise Unsupported("boolean constant")
            if isinstance(e.value, int):
                return V("Z", "(%d)" % e.value if e.value >= 0 else "(- %d)" % -e.value, False)
            return V("R", _num(e.value), False)
        if isinstance(e, ast.Name):
            names = [a for a, _ in self.arrays]
            if e.id in names:
                if mode == "req":
                    raise Unsupported("unsliced array %s inside a sum over adjacent elements" % e.id)
                return self.leaf(names.index(e.id), mode)
            if e.id in self.env:
                kind = self.env[e.id]
                if kind[0] == "val":
                    return kind[1]
                if kind[0] == "ast":
                    return self.ex(kind[1], mode)
                if kind[0] == "ignored":
                    raise Unsupported("use of the opaque argument %s" % e.id)
                if kind[0] == "leaf":
                    if mode == "req":
                        raise Unsupported("unsliced array %s inside a sum over adjacent elements" % e.id)
                    return self.leaf(kind[1], mode)
                return V("R", self.LEN, False)      # the common length, as a number
            raise Unsupported("unknown name %s" % e.id)
        if isinstance(e, ast.Attribute) and _dotted(e) in ("np.pi", "math.pi"):
            return V("R", "PI", False)
        if isinstance(e, ast.Attribute) and _dotted(e) in [a for a, _ in self.arrays]:
            if mode == "req":
                raise Unsupported("unsliced array %s inside a sum over adjacent elements" % _dotted(e))
            return self.leaf([a for a, _ in self.arrays].index(_dotted(e)), mode)
        if isinstance(e, ast.Attribute) and _dotted(e) in self.size_attrs:
            return V("R", self.LEN, False)
        if isinstance(e, ast.Attribute) and e.attr in self.identity_attrs:
            return self.ex(e.value, mode)
        if isinstance(e, ast.Subscript):
            if mode != "req":
                raise Unsupported("slice outside a .sum() over adjacent elements, or nested slice")
            s = e.slice
            if not isinstance(s, ast.Slice) or s.step is not None:
                raise Unsupported("subscript that is not a plain slice")
            neg1 = lambda n: isinstance(n, ast.UnaryOp) and isinstance(n.op, ast.USub) and \
                isinstance(n.operand, ast.Constant) and n.operand.value == 1 and not isinstance(n.operand.value, bool)  # noqa
            one = lambda n: isinstance(n, ast.Constant) and n.value == 1 and not isinstance(n.value, bool)  # noqa
            if s.lower is None and neg1(s.upper):
                return self.ex(e.value, "lo")
            if one(s.lower) and s.upper is None:
                return self.ex(e.value, "hi")
            raise Unsupported("slice other than [:-1] and [1:]")
        if isinstance(e, ast.UnaryOp):
            v = self.ex(e.operand, mode)
            if isinstance(e.op, ast.UAdd):
                return v
            if isinstance(e.op, ast.USub):
                if v.ty == "C":
                    return V("C", ("(- %s)" % v.code[0], "(- %s)" % v.code[1]), v.arr)
                return V(v.ty, "(- %s)%s" % (v.code, "%Z" if v.ty == "Z" else ""), v.arr)
            raise Unsupported("unary operator")
        if isinstance(e, ast.BinOp):
            return self.binop(e, mode)
        if isinstance(e, ast.Call):
            return self.call(e, mode)
        raise Unsupported("expression %s" % type(e).__name__)

    def binop(self, e, mode):
        if isinstance(e.op, ast.Pow):
            if not (isinstance(e.right, ast.Constant) and isinstance(e.right.value, int)
                    and not isinstance(e.right.value, bool) and 1 <= e.right.value <= 4):
                raise Unsupported("power with a non-small-integer exponent")
            b = self.ex(e.left, mode)
            if b.ty == "C":
                raise Unsupported("power of a complex value")
            if b.ty == "Z":
                return V("Z", "(" + " * ".join([b.code] * e.right.value) + ")%Z", b.arr)
            return V("R", "(" + " * ".join([b.code] * e.right.value) + ")", b.arr)
        a, b = self.ex(e.left, mode), self.ex(e.right, mode)
        arr = a.arr or b.arr
        if isinstance(e.op, ast.Mod):
            if a.ty == "Z" and b.ty == "Z" and isinstance(e.right, ast.Constant) and e.right.value > 0:
                return V("Z", "(%s mod %s)%%Z" % (a.code, b.code), arr)
            raise Unsupported("modulo other than integer % positive literal")
        if isinstance(e.op, ast.Div):
            if b.ty == "C":
                # (ar + i ai) / (br + i bi) = ((ar br + ai bi) + i (ai br - ar bi)) / (br^2 + bi^2)
                (ar, ai), (br, bi) = toC(a).code, b.code
                den = "(%s * %s + %s * %s)" % (br, br, bi, bi)
                return V("C", ("((%s * %s + %s * %s) / %s)" % (ar, br, ai, bi, den), "((%s * %s - %s * %s) / %s)" % (ai, br, ar, bi, den)), arr)
            d = toR(b).code
            if a.ty == "C":
                return V("C", ("(%s / %s)" % (a.code[0], d), "(%s / %s)" % (a.code[1], d)), arr)
            return V("R", "(%s / %s)" % (toR(a).code, d), arr)
        sym = {ast.Add: "+", ast.Sub: "-", ast.Mult: "*"}.get(type(e.op))
        if sym is None:
            raise Unsupported("binary operator %s" % type(e.op).__name__)
        top = max(a.ty, b.ty, key=RANK.get)
        if top == "Z":
            return V("Z", "(%s %s %s)%%Z" % (a.code, sym, b.code), arr)
        if top == "R":
            return V("R", "(%s %s %s)" % (toR(a).code, sym, toR(b).code), arr)
        if sym in "+-":
            x, y = toC(a), toC(b)
            return V("C", ("(%s %s %s)" % (x.code[0], sym, y.code[0]), "(%s %s %s)" % (x.code[1], sym, y.code[1])), arr)
        # product with at least one complex factor
        if a.ty != "C" or b.ty != "C":
            r, z = (a, b) if b.ty == "C" else (b, a)
            rc = toR(r).code
            return V("C", ("(%s * %s)" % (rc, z.code[0]), "(%s * %s)" % (rc, z.code[1])), arr)
        (ar, ai), (br, bi) = a.code, b.code
        return V("C", ("(%s * %s - %s * %s)" % (ar, br, ai, bi), "(%s * %s + %s * %s)" % (ar, bi, ai, br)), arr)

    def call(self, e, mode):
        # X.sel(vector=['x', 'y']) : the first two entries along the (only) axis, when that axis is declared as the 3-component
        # 'vector' axis of a field (axis_labels = ['x', 'y', 'z'])
        if isinstance(e.func, ast.Attribute) and e.func.attr == "sel" and not e.args and len(e.keywords) == 1 \
                and e.keywords[0].arg == self.axis_name and isinstance(e.keywords[0].value, ast.List) and self.axis_labels:
            labs = [getattr(x, "value", None) for x in e.keywords[0].value.elts]
            if labs != self.axis_labels[:len(labs)] or not labs:
                raise Unsupported("selection %r along %s" % (labs, self.axis_name))
            if self.restrict not in (None, len(labs)):
                raise Unsupported("two different selections along %s" % self.axis_name)
            self.restrict = len(labs)
            return self.ex(e.func.value, mode)
        if isinstance(e.func, ast.Attribute) and e.func.attr == "mean" and not e.keywords and len(e.args) == 1 \
                and isinstance(e.args[0], ast.Constant) and e.args[0].value == 0 and not (_dotted(e.func) or "").startswith("np."):
            # X.mean(0): the mean along the first axis (the list); one generic column of an N x 3 array is read
            if mode is not None:
                raise Unsupported("nested reduction")
            v = self.ex(e.func.value, None)
            if not v.arr or v.ty == "C":
                raise Unsupported(".mean(0) of something that is not a real array")
            self.nsum += 1
            nm = "sum%d" % self.nsum
            self.lets.append("let %s := asum (fun (l0 : Z) (c : @E@) => %s) 0 cs in\n  " % (nm, toR(v).code))
            return V("R", "(%s / %s)" % (nm, self.LEN), False)
        is_sum = isinstance(e.func, ast.Attribute) and e.func.attr == "sum" and not e.args \
            and not (_dotted(e.func) or "").startswith("np.")
        if is_sum and len(e.keywords) == 1 and e.keywords[0].arg == "dim" and isinstance(e.keywords[0].value, ast.Name) \
                and e.keywords[0].value.id == self.axis_name and self.axis_labels:
            pass        # .sum(dim=vector): the reduction over the declared axis
        elif e.keywords:
            raise Unsupported("keyword arguments")
        # method .sum()
        if is_sum:
            if mode is not None:
                raise Unsupported("nested reduction")
            operand = e.func.value
            adj = self.has_slice(operand)
            before = self.restrict
            self.restrict = None
            v = self.ex(operand, "req" if adj else None)
            if not v.arr:
                raise Unsupported(".sum() of a value that is not an array")
            whole = "cs" if self.restrict is None else "(firstn %d cs)" % self.restrict
            self.restrict = before
            binder, lst = ("(fun (l0 : Z) (cc : @E@ * @E@) => %s)", "(adjacent cs)") if adj else ("(fun (l0 : Z) (c : @E@) => %s)", whole)
            # each reduction is let-bound once (it is a scalar of the enclosing function, never under a binder)
            self.nsum += 1
            nm = "sum%d" % self.nsum
            if v.ty == "C":
                for suffix, p in zip(("_re", "_im"), v.code):
                    self.lets.append("let %s%s := asum %s 0 %s in\n  " % (nm, suffix, binder % p, lst))
                return V("C", (nm + "_re", nm + "_im"), False)
            self.lets.append("let %s := asum %s 0 %s in\n  " % (nm, binder % toR(v).code, lst))
            return V("R", nm, False)
        d = _dotted(e.func)
        if d in self.passthrough and len(e.args) > self.passthrough[d]:
            return self.ex(e.args[self.passthrough[d]], mode)
        if d in ("np.arange", "arange"):
            if len(e.args) == 1 and (isinstance(e.args[0], ast.Name) and self.env.get(e.args[0].id) == ("len",)
                                     or ast.unparse(e.args[0]) in self.len_exprs):
                if mode == "req":
                    raise Unsupported("unsliced index array inside a sum over adjacent elements")
                return V("Z", "(l0 + 1)%Z" if mode == "hi" else "l0", True)
            raise Unsupported("np.arange of something other than the array length")
        if d in self.inline:
            return self.inline_call(e, mode)
        if len(e.args) != 1:
            raise Unsupported("call %s" % d)
        if d in ("np.mean", "mean"):
            if mode is not None:
                raise Unsupported("nested reduction")
            v = self.ex(e.args[0], None)
            if not v.arr or v.ty == "C":
                raise Unsupported("np.mean of something that is not a real array")
            self.nsum += 1
            nm = "sum%d" % self.nsum
            self.lets.append("let %s := asum (fun (l0 : Z) (c : @E@) => %s) 0 cs in\n  " % (nm, toR(v).code))
            return V("R", "(%s / %s)" % (nm, self.LEN), False)
        v = self.ex(e.args[0], mode)
        if d in self.identity_calls:
            return v
        if d in ("np.log", "log"):
            return V("R", "(ln %s)" % toR(v).code, v.arr)
        if d in ("np.abs", "abs", "np.absolute"):
            if v.ty == "C":
                return V("R", "(sqrt (%s * %s + %s * %s))" % (v.code[0], v.code[0], v.code[1], v.code[1]), v.arr)
            return V("R", "(Rabs %s)" % toR(v).code, v.arr)
        if d in ("np.real", "real"):
            return V("R", toC(v).code[0], v.arr) if v.ty == "C" else toR(v)
        if d in ("np.imag", "imag"):
            return V("R", toC(v).code[1], v.arr)
        if d in ("np.conj", "conj", "np.conjugate"):
            z = toC(v)
            return V("C", (z.code[0], "(- %s)" % z.code[1]), v.arr)
        raise Unsupported("call %s" % d)

    def inline_call(self, e, mode):
        """a method of the same class whose body is [docstring] [name = <opaque call>(...)]* return <expr>: read with its
        parameters bound to the argument expressions"""
        qual, params = self.inline[_dotted(e.func)]
        fn = find_function(self.tree, qual)
        pyargs = [x.arg for x in fn.args.args if x.arg != "self"]
        if pyargs != list(params) or len(e.args) != len(params) or fn.args.defaults or fn.args.vararg or fn.args.kwarg:
            raise Unsupported("signature / call of %s" % qual)
        saved = dict(self.env)
        try:
            for pn, a in zip(params, e.args):
                if isinstance(a, ast.Name) and a.id in [n for n, _ in self.arrays]:
                    self.env[pn] = ("leaf", [n for n, _ in self.arrays].index(a.id))
                elif isinstance(a, ast.Name) and a.id in saved:
                    self.env[pn] = saved[a.id]
                elif isinstance(a, ast.Name):
                    self.env[pn] = ("ignored",)
                else:
                    raise Unsupported("argument of %s" % qual)
            for st in fn.body:
                if isinstance(st, ast.Expr) and isinstance(st.value, ast.Constant) and isinstance(st.value.value, str):
                    continue
                if self.opaque_assign(st):
                    continue
                if isinstance(st, ast.Return) and st.value is not None:
                    return self.ex(st.value, mode)
                raise Unsupported("statement %s in %s" % (type(st).__name__, qual))
            raise Unsupported("%s does not return" % qual)
        finally:
            self.env = saved

    def opaque_assign(self, s):
        if not (isinstance(s, ast.Assign) and len(s.targets) == 1):
            return False
        v = s.value
        if isinstance(v, ast.Subscript) and isinstance(v.slice, ast.Slice):
            v = v.value                                   # a slice of an opaque producer's result is opaque too
        if not (isinstance(v, ast.Call) and _dotted(v.func) in self.opaque_calls):
            return False
        t = s.targets[0]
        names = [t] if isinstance(t, ast.Name) else list(t.elts) if isinstance(t, ast.Tuple) else []
        if not names or not all(isinstance(n, ast.Name) and n.id in self.opaque for n in names):
            return False
        for n in names:
            self.env[n.id] = ("leaf", self.opaque[n.id])
        return True

    # ------------------------------------------------------------------ statements
    def body(self, stmts):
        for s in stmts:
            if isinstance(s, ast.Expr) and isinstance(s.value, ast.Constant) and isinstance(s.value.value, str):
                continue
            if self.opaque_assign(s):
                continue
            if isinstance(s, ast.Assign) and len(s.targets) == 1 and isinstance(s.targets[0], ast.Name) \
                    and _dotted(s.value) in self.size_attrs:
                self.env[s.targets[0].id] = ("len",)
                continue
            if isinstance(s, ast.Assign) and len(s.targets) == 1 and isinstance(s.targets[0], ast.Name):
                n = s.targets[0].id
                if n in [a for a, _ in self.arrays]:
                    raise Unsupported("assignment to an array parameter")
                # lmax = al.shape[0]
                v = s.value
                if isinstance(v, ast.Subscript) and isinstance(v.value, ast.Attribute) and v.value.attr == "shape" \
                        and isinstance(v.value.value, ast.Name) and v.value.value.id in [a for a, _ in self.arrays] \
                        and isinstance(v.slice, ast.Constant) and v.slice.value == 0:
                    self.env[n] = ("len",)
                    continue
                if self.has_slice(v):
                    # only legal below a .sum(); translate now to find out whether it is a scalar
                    val = self.ex(v, None)
                else:
                    val = self.ex(v, None)
                if val.arr:
                    self.env[n] = ("ast", v)         # elementwise: inlined at each use (re-read under the use's slice mode)
                else:
                    if val.ty == "C":
                        self.lets.append("let %s_re := %s in\n  let %s_im := %s in\n  " % (n, val.code[0], n, val.code[1]))
                        self.env[n] = ("val", V("C", (n + "_re", n + "_im"), False))
                    elif val.ty == "Z":
                        self.lets.append("let %s := %s in\n  " % (n, val.code))
                        self.env[n] = ("val", V("Z", n, False))
                    else:
                        self.lets.append("let %s := %s in\n  " % (n, val.code))
                        self.env[n] = ("val", V("R", n, False))
                continue
            if isinstance(s, ast.Return) and s.value is not None:
                r = s.value
                if isinstance(r, ast.Call) and _dotted(r.func) in ("array", "np.array") and len(r.args) == 1 \
                        and isinstance(r.args[0], (ast.List, ast.Tuple)) and not r.keywords:
                    vs = [self.ex(x, None) for x in r.args[0].elts]
                    if any(v.arr for v in vs):
                        raise Unsupported("array-valued element in the returned array")
                    return "".join(self.lets) + "[" + "; ".join(toR(v).code for v in vs) + "]", "list R"
                v = self.ex(r, None)
                if v.arr:
                    raise Unsupported("array-valued return")
                return "".join(self.lets) + toR(v).code, "R"
            raise Unsupported("statement %s" % type(s).__name__)
        raise Unsupported("path without a return")


def elem_type(arrays):
    ts = ["(R * R)" if k == "C" else "R" for _, k in arrays]
    t = ts[0]
    for x in ts[1:]:
        t = "(%s * %s)" % (t, x)
    return t


HEADER = """
Fixpoint asum {A : Type} (f : Z -> A -> R) (l : Z) (xs : list A) : R :=
  match xs with [] => 0 | x :: t => f l x + asum f (l + 1)%Z t end.
Definition adjacent {A : Type} (l : list A) : list (A * A) := combine l (tl l).
"""


def translate(repo, relpath, qualname, name, arrays, params=None, **opts):
    """arrays: [(python name, 'R' | 'C')]: by default exactly the function's parameters, in order.  With [params] (the
    function's full parameter list without self) the arrays may also be locals bound by an opaque call (opts['opaque']),
    and parameters that are not arrays may only be handed on to opaque / inlined calls.  Returns Gallina text defining
    `name (cs : list E) : R | list R` with E the tuple of the arrays' generic elements."""
    with open(os.path.join(repo, relpath)) as f:
        tree = ast.parse(f.read())
    fn = find_function(tree, qualname)
    a = fn.args
    if a.vararg or a.kwarg or a.kwonlyargs or a.posonlyargs or (a.defaults and params is None) \
            or not all(isinstance(dflt, ast.Constant) for dflt in a.defaults):
        raise Unsupported("signature of %s" % qualname)
    pyargs = [x.arg for x in a.args if x.arg != "self"]
    if pyargs != (list(params) if params is not None else [n for n, _ in arrays]):
        raise Unsupported("signature of %s is %r" % (qualname, pyargs))
    tr = ArrTr(arrays, tree=tree, **opts)
    for pn in pyargs:
        if pn not in [n for n, _ in arrays]:
            tr.env[pn] = ("ignored",)
    body, rty = tr.body(fn.body)
    E = elem_type(arrays)
    return "Definition %s (cs : list %s) : %s :=\n  %s.\n" % (name, E, rty, body.replace("@E@", E))


# ------------------------------------------------------------------------------------------------------------------
# scalar code around vector helpers (Mie.raw_cross_sections): pysrc's scalar translator plus three statement forms
#   name = self.<method>(...)                      the coefficient arrays, opaque: only handed on as name[0], name[1]
#   a, b, c = <vector helper>(name[0], name[1]) * <scalar>      elementwise scaling of the helper's result
#   <scalar helper>(name[0], name[1])              inside a scalar expression
#   if isinstance(x, T): raise ...                 an input guard: dropped (it does not change a returned value)
# ------------------------------------------------------------------------------------------------------------------
from . import pysrc as _pysrc     # noqa: E402


class MixedTr(_pysrc.Tr):
    def __init__(self, source_methods, vec_helpers, scalar_helpers, **kw):
        super().__init__(**kw)
        self.source_methods = set(source_methods)     # e.g. {"self._scat_coeffs"}
        self.vec_helpers = dict(vec_helpers)          # dotted python name -> (Gallina name, length)
        self.scalar_helpers = dict(scalar_helpers)    # dotted python name -> Gallina name
        self.sources = set()

    def _is_rows(self, args):
        """exactly (name[0], name[1]) with name a recorded coefficient source"""
        if len(args) != 2:
            return False
        for k, a in enumerate(args):
            if not (isinstance(a, ast.Subscript) and isinstance(a.value, ast.Name) and a.value.id in self.sources
                    and isinstance(a.slice, ast.Constant) and a.slice.value == k and not isinstance(a.slice.value, bool)):
                return False
        return args[0].value.id == args[1].value.id

    def ex(self, e, env):
        if isinstance(e, ast.Call) and _dotted(e.func) in self.scalar_helpers:
            if e.keywords or not self._is_rows(e.args):
                raise Unsupported("arguments of %s" % _dotted(e.func))
            return "(%s cs)" % self.scalar_helpers[_dotted(e.func)]
        return super().ex(e, env)

    def block(self, stmts, env, triples):
        if stmts:
            s, rest = stmts[0], stmts[1:]
            if isinstance(s, ast.If) and not s.orelse and len(s.body) >= 1 and isinstance(s.body[-1], ast.Raise) \
                    and isinstance(s.test, ast.Call) and _dotted(s.test.func) == "isinstance" \
                    and all(isinstance(b, (ast.Raise, ast.Assign)) for b in s.body):
                return self.block(rest, env, triples)
            if isinstance(s, ast.Assign) and len(s.targets) == 1 and isinstance(s.targets[0], ast.Name) \
                    and isinstance(s.value, ast.Call) and _dotted(s.value.func) in self.source_methods:
                self.sources.add(s.targets[0].id)
                return self.block(rest, env - {s.targets[0].id}, triples)
            if isinstance(s, ast.Assign) and len(s.targets) == 1 and isinstance(s.targets[0], ast.Tuple) \
                    and isinstance(s.value, ast.BinOp) and isinstance(s.value.op, ast.Mult) \
                    and isinstance(s.value.left, ast.Call) and _dotted(s.value.left.func) in self.vec_helpers:
                g, n = self.vec_helpers[_dotted(s.value.left.func)]
                call = s.value.left
                names = [t.id for t in s.targets[0].elts if isinstance(t, ast.Name)]
                if call.keywords or not self._is_rows(call.args) or len(names) != n or len(s.targets[0].elts) != n:
                    raise Unsupported("use of %s" % _dotted(call.func))
                scal = self.ex(s.value.right, env)
                out = "let vec_ := %s cs in\n  let scal_ := %s in\n  " % (g, scal)
                for k, nm in enumerate(names):
                    out += "let %s := (nth %d vec_ 0 * scal_) in\n  " % (nm, k)
                return out + self.block(rest, env | set(names), triples)
        return super().block(stmts, env, triples)


def translate_mixed(repo, relpath, qualname, name, params, arrays, source_methods, vec_helpers, scalar_helpers):
    """params: the scalar python parameters that the body may use, [(name, 'R')]; the function's other parameters are
    only handed to the coefficient source.  Result: `name (scalars...) (cs : list E) : list R | R`."""
    with open(os.path.join(repo, relpath)) as f:
        tree = ast.parse(f.read())
    fn = find_function(tree, qualname)
    pyargs = [x.arg for x in fn.args.args if x.arg != "self"]
    for p, _ in params:
        if p not in pyargs:
            raise Unsupported("parameter %s of %s" % (p, qualname))
    tr = MixedTr(source_methods, vec_helpers, scalar_helpers)
    body = tr.block(fn.body, frozenset(p for p, _ in params), set())
    rty = "list R" if body.rstrip().endswith("]") else "R"
    sig = " ".join("(%s : R)" % p for p, _ in params)
    return "Definition %s %s (cs : list %s) : %s :=\n  %s.\n" % (name, sig, elem_type(arrays), rty, body)


def translate_elementwise(repo, relpath, qualname, name, arrays, scalars, outputs, params, only_outputs=False, **opts):
    """The elementwise definitions of the arrays [outputs] inside [qualname], as ONE function of the generic index and element:
    `name <scalars> (l0 : Z) (c : E) : tuple of the outputs' generic elements` (complex outputs as pairs).  [scalars]: the
    function's scalar parameters [(name, 'R' | 'C')] (a complex one becomes name_re, name_im); the statements after the last
    output's assignment (the return with its slicing) are not read."""
    with open(os.path.join(repo, relpath)) as f:
        tree = ast.parse(f.read())
    fn = find_function(tree, qualname)
    pyargs = [x.arg for x in fn.args.args if x.arg != "self"]
    if pyargs != list(params) or fn.args.vararg or fn.args.kwarg or fn.args.kwonlyargs \
            or not all(isinstance(d, ast.Constant) for d in fn.args.defaults):
        raise Unsupported("signature of %s is %r" % (qualname, pyargs))
    tr = ArrTr(arrays, tree=tree, **opts)
    for pn in pyargs:
        tr.env[pn] = ("ignored",)
    sig = []
    for sn, ty in scalars:
        if ty == "C":
            tr.env[sn] = ("val", V("C", (sn + "_re", sn + "_im"), False))
            sig += ["(%s_re : R)" % sn, "(%s_im : R)" % sn]
        else:
            tr.env[sn] = ("val", V("R", sn, False))
            sig.append("(%s : R)" % sn)
    last = max([i for i, st in enumerate(fn.body) if isinstance(st, ast.Assign) and len(st.targets) == 1
                and isinstance(st.targets[0], ast.Name) and st.targets[0].id in outputs] or [-1])
    if last < 0:
        raise Unsupported("outputs %r are not assigned in %s" % (outputs, qualname))
    stmts = fn.body[:last + 1]
    if only_outputs:
        # only the assignments of the outputs themselves are read (what precedes them are guards and set-up that the outputs'
        # right-hand sides do not mention except through the declared arrays and scalars)
        stmts = [st for st in stmts if isinstance(st, ast.Assign) and len(st.targets) == 1 and isinstance(st.targets[0], ast.Name)
                 and st.targets[0].id in outputs]
    for st in stmts:
        if isinstance(st, ast.Expr) and isinstance(st.value, ast.Constant) and isinstance(st.value.value, str):
            continue
        if tr.opaque_assign(st):
            continue
        if isinstance(st, ast.Assign) and len(st.targets) == 1 and isinstance(st.targets[0], ast.Name):
            tr.env[st.targets[0].id] = ("ast", st.value)
            continue
        raise Unsupported("statement %s in %s" % (type(st).__name__, qualname))
    outs = []
    for o in outputs:
        if tr.env.get(o, ("",))[0] != "ast":
            raise Unsupported("output %s" % o)
        v = tr.ex(tr.env[o][1], None)
        outs.append("(%s, %s)" % v.code if v.ty == "C" else toR(v).code)
    E = elem_type(arrays)
    body = "(" + ", ".join(outs) + ")" if len(outs) > 1 else outs[0]
    if tr.lets:
        # reductions over the whole list (a mean) are scalars of the enclosing function: the list becomes a parameter
        return ("Definition %s %s (cs : list %s) (l0 : Z) (c : %s) :=\n  %s%s.\n" % (name, " ".join(sig), E, E, "".join(tr.lets), body)).replace("@E@", E)
    return "Definition %s %s (l0 : Z) (c : %s) :=\n  %s.\n" % (name, " ".join(sig), E, body.replace("@E@", E))


def translate_elementwise_return(repo, relpath, qualname, name, arrays, params, **opts):
    """A function whose body is [docstring] `return <elementwise expression with whole-array reductions>`: the generic element
    of the returned array, `name (cs : list E) (l0 : Z) (c : E) : R`."""
    with open(os.path.join(repo, relpath)) as f:
        tree = ast.parse(f.read())
    fn = find_function(tree, qualname)
    pyargs = [x.arg for x in fn.args.args if x.arg != "self"]
    if pyargs != list(params) or fn.args.vararg or fn.args.kwarg or fn.args.kwonlyargs or fn.args.defaults:
        raise Unsupported("signature of %s is %r" % (qualname, pyargs))
    body = [st for st in fn.body if not (isinstance(st, ast.Expr) and isinstance(st.value, ast.Constant) and isinstance(st.value.value, str))]
    if len(body) != 1 or not isinstance(body[0], ast.Return) or body[0].value is None:
        raise Unsupported("%s is not a single return statement" % qualname)
    tr = ArrTr(arrays, tree=tree, **opts)
    for pn in pyargs:
        if pn not in [n for n, _ in arrays]:
            tr.env[pn] = ("ignored",)
    v = tr.ex(body[0].value, None)
    if not v.arr or v.ty == "C":
        raise Unsupported("the return value of %s is not a real array" % qualname)
    E = elem_type(arrays)
    return ("Definition %s (cs : list %s) (l0 : Z) (c : %s) : R :=\n  %s%s.\n" % (name, E, E, "".join(tr.lets), toR(v).code)).replace("@E@", E)

"""Running Coq from the harness: build, proof obligations, model evaluation.

Model evaluation is done *inside the assistant*: the harness writes a cases file that
imports the property's Model.v, defines the case list as a Gallina literal and asks for
`Eval vm_compute in <expr>`; results are printed by Coq as lists of Z / bool which we parse.
"""
import os
import re
import subprocess
import time
from fractions import Fraction

VERIF = os.path.dirname(os.path.dirname(os.path.dirname(os.path.abspath(__file__))))
COQ = os.path.join(VERIF, "coq")
BUILD = os.path.join(VERIF, "build")
LOGICAL = "HV"
# scratch files of a run (generated .v files, child-process job files ...).  One root per tree under test, so that
# checks of scratch worktrees (seeded changes, proposed repairs) running at the same time as a check of /repo never
# share files; harness/main.py holds a lock per (tree, property) for the rest.
_TREE = os.path.realpath(os.environ.get("HOLOPY_REPO", "/repo"))
if _TREE == os.path.realpath("/repo"):
    RUN_ROOT = os.path.join(BUILD, "run")
else:
    import hashlib as _hl
    RUN_ROOT = os.path.join(BUILD, "alt", _hl.sha1(_TREE.encode()).hexdigest()[:10], "run")


def _run(cmd, cwd, timeout):
    t = time.time()
    try:
        r = subprocess.run(cmd, cwd=cwd, stdout=subprocess.PIPE, stderr=subprocess.STDOUT,
                           text=True, timeout=timeout)
        return r.returncode, r.stdout, time.time() - t
    except subprocess.TimeoutExpired as e:
        out = e.stdout if isinstance(e.stdout, str) else (e.stdout or b"").decode("utf8", "replace")
        return 124, (out or "") + "\nTIMEOUT after %ss" % timeout, time.time() - t


def _vfiles():
    out = []
    for root, _, files in os.walk(COQ):
        for f in files:
            if f.endswith(".v"):
                out.append(os.path.relpath(os.path.join(root, f), COQ))
    return sorted(out)


def make(targets=None, jobs=16, timeout=3000):
    """(Re)build the development (full .vo build, never -vos). Returns (ok, log).
    Serialised by a file lock so that concurrent checks do not run two makes at once."""
    import fcntl
    os.makedirs(BUILD, exist_ok=True)
    with open(os.path.join(BUILD, "make.lock"), "w") as lk:
        fcntl.flock(lk, fcntl.LOCK_EX)
        vs = _vfiles()
        stamp = os.path.join(COQ, ".vfiles")
        old = open(stamp).read() if os.path.exists(stamp) else ""
        if old != "\n".join(vs) or not os.path.exists(os.path.join(COQ, "Makefile")):
            rc, out, _ = _run(["coq_makefile", "-f", "_CoqProject", "-o", "Makefile"] + vs, COQ, 120)
            if rc != 0:
                return False, out
            open(stamp, "w").write("\n".join(vs))
        cmd = ["make", "-j%d" % jobs] + (targets or [])
        rc, out, dt = _run(cmd, COQ, timeout)
        return rc == 0, out


def props_file(pid):
    return os.path.join(COQ, pid, "Props.v")


THM_RE = re.compile(r"^\s*(Theorem|Corollary)\s+([A-Za-z0-9_']+)", re.M)


def check_obligations(pid, timeout=900):
    """Re-compile coq/<pid>/Props.v (always, so that Print Assumptions output is captured
    and the theorems are re-checked by the kernel on this run).

    Returns dict(ok, theorems=[names], assumptions={thm: [axioms]}, log, wall_s)."""
    src = props_file(pid)
    text = open(src).read()
    theorems = [m.group(2) for m in THM_RE.finditer(text)]
    targets = [pid + "/" + f[:-2] + ".vo" for f in ("Model.v", "Lemmas.v", "Findings.v")
               if os.path.exists(os.path.join(COQ, pid, f))]
    # Props.v may import other properties' files (e.g. C16 reuses C18's Welford lemmas)
    for m in re.finditer(r"\b(C\d\d)\.(Model|Lemmas|Findings)\b", text):
        t = "%s/%s.vo" % (m.group(1), m.group(2))
        if t not in targets and os.path.exists(os.path.join(COQ, t[:-1])):
            targets.append(t)
    ok, log = make(targets)
    if not ok:
        return dict(ok=False, theorems=theorems, assumptions={}, log=log, wall_s=0.0,
                    failed="make of %s dependencies" % pid)
    rc, out, dt = _run(["coqc", "-Q", ".", LOGICAL, os.path.join(pid, "Props.v")], COQ, timeout)
    assumptions = parse_assumptions(out, theorems)
    res = dict(ok=(rc == 0), theorems=theorems, assumptions=assumptions, log=out, wall_s=dt)
    if rc != 0:
        m = re.search(r'File "[^"]*", line (\d+)', out)
        failed = None
        if m:
            line = int(m.group(1))
            upto = "\n".join(text.split("\n")[:line])
            names = [mm.group(2) for mm in THM_RE.finditer(upto)]
            failed = names[-1] if names else None
        res["failed"] = failed or "Props.v"
    return res


def parse_assumptions(out, theorems):
    """Print Assumptions output appears in order, one block per theorem:
    'Closed under the global context' or 'Axioms:' followed by the axioms, each starting at
    column 0 with its name (the type may continue on indented lines)."""
    blocks = []
    cur = None
    for line in out.split("\n"):
        if line.startswith("Closed under the global context"):
            blocks.append([])
            cur = None
        elif line.startswith("Axioms:"):
            cur = []
            blocks.append(cur)
        elif cur is not None:
            m = re.match(r"^([A-Za-z_][A-Za-z0-9_.']*)\s*(:|$)", line)
            if m:
                cur.append(m.group(1))
            elif line and not line[0].isspace():
                cur = None
    res = {}
    for i, t in enumerate(theorems):
        res[t] = blocks[i] if i < len(blocks) else ["<not printed>"]
    return res


# ---------------------------------------------------------------------------
# literals

def zlit(n):
    n = int(n)
    return "(%d)%%Z" % n if n < 0 else "%d%%Z" % n


def qlit(x):
    """Exact rational literal of a python float / int / Fraction (as a Q)."""
    if isinstance(x, Fraction):
        fr = x
    elif isinstance(x, int):
        fr = Fraction(x)
    else:
        fr = Fraction(*float(x).as_integer_ratio())
    n, d = fr.numerator, fr.denominator
    return "(%s # %d)" % (("(%d)" % n) if n < 0 else str(n), d)


def blit(b):
    return "true" if b else "false"


def listlit(items):
    return "[" + "; ".join(items) + "]"


def strlit(s):
    return '"' + s.replace('"', '""') + '"'


# ---------------------------------------------------------------------------
# evaluation

HEADER = """From Coq Require Import ZArith QArith List Bool String.
Import ListNotations.
Open Scope Z_scope.
"""


def eval_files(pid, files, jobs=16, timeout=900):
    """files: list of (name, text). Compiles each with coqc in build/run/<pid>/, in parallel.
    Returns list of (name, rc, output)."""
    rundir = os.path.join(RUN_ROOT, pid)
    os.makedirs(rundir, exist_ok=True)
    for f in os.listdir(rundir):
        try:
            os.remove(os.path.join(rundir, f))
        except OSError:
            pass
    procs = []
    results = []
    pending = list(files)
    running = []
    t0 = time.time()
    while pending or running:
        while pending and len(running) < jobs:
            name, text = pending.pop(0)
            path = os.path.join(rundir, name + ".v")
            with open(path, "w") as f:
                f.write(text)
            # output goes to a file: a pipe that is only read after exit deadlocks beyond ~64 KB
            outf = open(os.path.join(rundir, name + ".out"), "w")
            p = subprocess.Popen(["coqc", "-Q", COQ, LOGICAL, "-Q", rundir, "HVRun", path],
                                 cwd=rundir, stdout=outf, stderr=subprocess.STDOUT, text=True)
            outf.close()
            running.append((name, p, time.time()))
        still = []
        for name, p, ts in running:
            if p.poll() is None:
                if time.time() - ts > timeout:
                    p.kill()
                    results.append((name, 124, "TIMEOUT"))
                else:
                    still.append((name, p, ts))
            else:
                with open(os.path.join(rundir, name + ".out")) as f:
                    results.append((name, p.returncode, f.read()))
        running = still
        if running:
            time.sleep(0.05)
    order = {n: i for i, (n, _) in enumerate(files)}
    results.sort(key=lambda r: order[r[0]])
    return results


def parse_eval_blocks(out):
    """Split coqc output into the '= value : type' blocks of successive Eval commands."""
    blocks = []
    cur = None
    for line in out.split("\n"):
        if line.startswith("     = "):
            if cur is not None:
                blocks.append(cur)
            cur = line[7:]
        elif cur is not None:
            if line.startswith("     : "):
                blocks.append(cur)
                cur = None
            else:
                cur += " " + line.strip()
    if cur is not None:
        blocks.append(cur)
    return [re.sub(r"\s+", " ", b).strip() for b in blocks]


def parse_zlist(block):
    """'[1; -2; 3]' (scope-less or with %Z) -> [1,-2,3]"""
    return [int(x) for x in re.findall(r"-?\d+", block.replace("%Z", ""))]


def run_mismatch_cases(pid, requires, case_exprs, chunk=300, jobs=16, defs=""):
    """Generic driver: each case_expr is a Gallina term of type bool that is true iff the model
    agrees with the implementation on that case (the implementation's observed result is part
    of the literal).  Returns (mismatch_indices, errors[list of str], n_files).
    `requires` e.g. 'From HV Require Import C20.Model.'"""
    files = []
    for k in range(0, len(case_exprs), chunk):
        part = case_exprs[k:k + chunk]
        text = HEADER + requires + "\n" + defs + "\n"
        text += "Definition cases : list bool :=\n " + listlit(["\n  (" + e + ")" for e in part]) + ".\n"
        text += ("Fixpoint bad (i : Z) (l : list bool) : list Z := match l with [] => [] | "
                 "b :: t => if b then bad (i+1) t else i :: bad (i+1) t end.\n")
        text += "Eval vm_compute in (bad %d cases).\n" % k
        files.append(("cases_%04d" % (k // chunk), text))
    res = eval_files(pid, files, jobs=jobs)
    mism, errors = [], []
    for name, rc, out in res:
        if rc != 0:
            errors.append("%s: rc=%d %s" % (name, rc, out[-1500:]))
            continue
        blocks = parse_eval_blocks(out)
        if not blocks:
            errors.append("%s: no Eval output: %s" % (name, out[-500:]))
            continue
        mism.extend(parse_zlist(blocks[-1].split(":")[0]))
    return mism, errors, len(files)


def coqchk(pid, timeout=1800):
    """Independent re-check of the compiled Props.vo and everything it depends on (thorough tier).
    Returns dict(ok, axioms=[...], unsafe=[...], wall_s, log_tail)."""
    rc, out, dt = _run(["coqchk", "-o", "-silent", "-Q", ".", LOGICAL, "%s.%s.Props" % (LOGICAL, pid)], COQ, timeout)
    axioms, unsafe, sec = [], [], None
    for line in out.split("\n"):
        t = line.strip()
        if t.startswith("* "):
            sec = t
            if "<none>" not in t and ("type-in-type" in t or "unsafe" in t or "positivity" in t) and t.endswith(":"):
                pass
            continue
        if not t:
            continue
        if sec and sec.startswith("* Axioms"):
            axioms.append(t)
        elif sec and ("type-in-type" in sec or "unsafe" in sec or "positivity" in sec) and "<none>" not in sec:
            unsafe.append(sec + " " + t)
    ok = rc == 0 and not unsafe
    return dict(ok=ok, axioms=axioms, unsafe=unsafe, wall_s=dt, log_tail=out[-1500:])

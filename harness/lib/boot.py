"""Boot the implementation from /repo's current working tree.

* builds the four f2py Fortran extension modules out-of-tree (cached by a hash of
  their sources) and injects them into sys.modules, so nothing is written to /repo;
* puts /repo first on sys.path, so `import holopy` is the working tree.

Use:  from harness.lib import boot; boot.boot()   (before importing holopy)
"""
import hashlib
import importlib.machinery
import importlib.util
import os
import shutil
import subprocess
import sys
import sysconfig
import warnings

REPO = os.environ.get("HOLOPY_REPO", "/repo")
VERIF = os.path.dirname(os.path.dirname(os.path.dirname(os.path.abspath(__file__))))
BUILD = os.path.join(VERIF, "build")

TH = "holopy/scattering/theory"
TP = "holopy/scattering/third_party"
MODULES = {
    # name: (package, sources, include dirs)
    "uts_scsmfo": ("holopy.scattering.theory.mie_f",
                   [TH + "/mie_f/uts_scsmfo.for", TP + "/SBESJY.F"], [TH + "/mie_f"]),
    "mieangfuncs": ("holopy.scattering.theory.mie_f",
                    [TH + "/mie_f/mieangfuncs.f90", TH + "/mie_f/uts_scsmfo.for",
                     TP + "/SBESJY.F", TP + "/csphjy.for"], [TH + "/mie_f"]),
    "scsmfo_min": ("holopy.scattering.theory.mie_f",
                   [TH + "/mie_f/scsmfo_min.for"], [TH + "/mie_f"]),
    "S": ("holopy.scattering.theory.tmatrix_f",
          [TH + "/tmatrix_f/S.f", TH + "/tmatrix_f/ampld.lp.f", TH + "/tmatrix_f/lpd.f"],
          [TH + "/tmatrix_f"]),
}
# files included by the sources (not listed as inputs) that still decide the build
EXTRA_HASHED = [TH + "/mie_f/scfodim.for", TH + "/tmatrix_f/ampld.par.f"]


def _sha(paths):
    h = hashlib.sha256()
    for p in paths:
        h.update(p.encode())
        with open(os.path.join(REPO, p), "rb") as f:
            h.update(f.read())
    return h.hexdigest()[:16]


def _run(cmd, cwd):
    r = subprocess.run(cmd, cwd=cwd, stdout=subprocess.PIPE, stderr=subprocess.STDOUT,
                       text=True)
    if r.returncode != 0:
        raise RuntimeError("build step failed: %s\n%s" % (" ".join(cmd), r.stdout[-4000:]))
    return r.stdout


def build_module(name):
    """Build one extension; returns path of the .so (cached)."""
    pkg, srcs, incs = MODULES[name]
    key = _sha(srcs + EXTRA_HASHED)
    outdir = os.path.join(BUILD, "ext", name + "-" + key)
    so = os.path.join(outdir, name + ".so")
    if os.path.exists(so):
        return so
    tmp = outdir + ".tmp%d" % os.getpid()
    shutil.rmtree(tmp, ignore_errors=True)
    os.makedirs(tmp)
    import numpy
    import numpy.f2py
    abss = [os.path.join(REPO, s) for s in srcs]
    _run([sys.executable, "-m", "numpy.f2py"] + abss + ["-m", name, "--lower",
                                                         "--build-dir", tmp], tmp)
    f2py_src = os.path.join(os.path.dirname(numpy.f2py.__file__), "src")
    pyinc = sysconfig.get_paths()["include"]
    npinc = numpy.get_include()
    cflags = ["-fPIC", "-O2", "-I" + pyinc, "-I" + npinc, "-I" + f2py_src,
              "-DNPY_NO_DEPRECATED_API=NPY_1_9_API_VERSION"]
    objs = []
    for c in [os.path.join(tmp, name + "module.c"), os.path.join(f2py_src, "fortranobject.c")]:
        o = os.path.join(tmp, os.path.basename(c) + ".o")
        _run(["gcc"] + cflags + ["-c", c, "-o", o], tmp)
        objs.append(o)
    fsrcs = list(abss)
    for extra in (name + "-f2pywrappers.f", name + "-f2pywrappers2.f90"):
        if os.path.exists(os.path.join(tmp, extra)):
            fsrcs.append(os.path.join(tmp, extra))
    fflags = ["-fPIC", "-O2", "-w", "-std=legacy"] + ["-I" + os.path.join(REPO, i) for i in incs]
    for i, f in enumerate(fsrcs):
        o = os.path.join(tmp, "f%d.o" % i)
        _run(["gfortran"] + fflags + ["-J", tmp, "-c", f, "-o", o], tmp)
        objs.append(o)
    _run(["gfortran", "-shared", "-o", os.path.join(tmp, name + ".so")] + objs +
         ["-lquadmath"], tmp)
    for f in os.listdir(tmp):
        if not f.endswith(".so"):
            os.remove(os.path.join(tmp, f))
    try:
        os.rename(tmp, outdir)
    except OSError:
        shutil.rmtree(tmp, ignore_errors=True)  # someone else built it meanwhile
    return so


def build_all():
    return {name: build_module(name) for name in MODULES}


def inject(sos):
    for name, so in sos.items():
        pkg = MODULES[name][0]
        full = pkg + "." + name
        if full in sys.modules:
            continue
        loader = importlib.machinery.ExtensionFileLoader(name, so)
        spec = importlib.util.spec_from_file_location(name, so, loader=loader)
        mod = importlib.util.module_from_spec(spec)
        loader.exec_module(mod)
        sys.modules[full] = mod


_BOOTED = False


def boot(solvers=True):
    """Make `import holopy` resolve to REPO's working tree, with compiled solvers."""
    global _BOOTED
    if _BOOTED:
        return
    os.environ.setdefault("PYTHONHASHSEED", "0")
    os.environ.setdefault("MPLBACKEND", "Agg")
    if REPO not in sys.path or sys.path[0] != REPO:
        sys.path.insert(0, REPO)
    if solvers:
        inject(build_all())
    warnings.filterwarnings("ignore", category=DeprecationWarning)
    warnings.filterwarnings("ignore", category=FutureWarning)
    _BOOTED = True
    import holopy  # noqa
    # attach the injected modules as attributes of their packages as an import would
    for name in MODULES:
        pkg = MODULES[name][0]
        full = pkg + "." + name
        if full in sys.modules and pkg in sys.modules:
            setattr(sys.modules[pkg], name, sys.modules[full])
    assert os.path.realpath(holopy.__file__).startswith(os.path.realpath(REPO)), holopy.__file__


if __name__ == "__main__":
    import time
    t = time.time()
    print(build_all())
    print("built in %.1fs" % (time.time() - t))

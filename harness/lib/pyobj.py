"""Fail-closed reader for the decision logic of holopy/core/holopy_object.py:HoloPyObject._iteritems (source tie of C15).

The loop body decides, per constructor argument, whether (name, value) is written.  It is read as a boolean function of four
facts about the argument:   item_is_none   (getattr(self, var, None) is None)
                            has_attr       (hasattr(self, var))
                            default_is_none / default_is_empty   (the signature's default is None / inspect.Parameter.empty;
                                                                  a name that is not a parameter reads as default None)
`x is None`, `x is not None`, `x is not inspect.Parameter.empty`, and / or / not and names bound earlier in the loop body are
supported; how the four facts are obtained (the getattr / defaults.get / signature expressions, the co_varnames[1:] slice) is
emitted as text and compared.  Anything else raises Unsupported."""
import ast
import os

from . import pysrc
from .pysrc import Unsupported

ATOMS = {"item": "item_is_none", "default": "default_is_none"}


def _b(e, env):
    if isinstance(e, ast.BoolOp):
        op = " && " if isinstance(e.op, ast.And) else " || "
        return "(" + op.join(_b(v, env) for v in e.values) + ")"
    if isinstance(e, ast.UnaryOp) and isinstance(e.op, ast.Not):
        return "(negb %s)" % _b(e.operand, env)
    if isinstance(e, ast.Name) and e.id in env:
        return e.id
    if isinstance(e, ast.Call) and ast.unparse(e) == "hasattr(self, var)":
        return "has_attr"
    if isinstance(e, ast.Compare) and len(e.ops) == 1 and isinstance(e.left, ast.Name) and e.left.id in ATOMS:
        rhs = ast.unparse(e.comparators[0])
        if rhs == "None":
            atom = ATOMS[e.left.id]
        elif rhs == "inspect.Parameter.empty" and e.left.id == "default":
            atom = "default_is_empty"
        else:
            raise Unsupported("comparison with %s" % rhs)
        if isinstance(e.ops[0], ast.Is):
            return atom
        if isinstance(e.ops[0], ast.IsNot):
            return "(negb %s)" % atom
    raise Unsupported("condition %s" % ast.unparse(e))


def iteritems(repo, relpath="holopy/core/holopy_object.py", name="iteritems_src"):
    with open(os.path.join(repo, relpath)) as f:
        tree = ast.parse(f.read())
    fn = pysrc.find_function(tree, "HoloPyObject._iteritems")
    body = [s for s in fn.body if not (isinstance(s, ast.Expr) and isinstance(s.value, ast.Constant))]
    if len(body) != 2 or not isinstance(body[0], ast.Assign) or not isinstance(body[1], ast.For):
        raise Unsupported("_iteritems is no longer `defaults = ...; for var in ...:`")
    loop = body[1]
    how = [ast.unparse(body[0]), "for %s in %s" % (ast.unparse(loop.target), ast.unparse(loop.iter))]
    env, lets = set(), []
    stmts = list(loop.body)
    while stmts and isinstance(stmts[0], ast.Assign) and len(stmts[0].targets) == 1 and isinstance(stmts[0].targets[0], ast.Name):
        s = stmts.pop(0)
        nm = s.targets[0].id
        if nm in ATOMS:
            how.append(ast.unparse(s))
        else:
            lets.append((nm, _b(s.value, env)))
            env.add(nm)
    if len(stmts) != 1 or not isinstance(stmts[0], ast.If) or stmts[0].orelse:
        raise Unsupported("the loop body no longer ends in one `if ...:` that yields")
    cond = _b(stmts[0].test, env)
    inner = stmts[0].body
    if not (isinstance(inner[-1], ast.Expr) and isinstance(inner[-1].value, ast.Yield) and ast.unparse(inner[-1].value.value) == "(var, item)"):
        raise Unsupported("the guarded block no longer yields (var, item)")
    how += [ast.unparse(s).replace("\n", " ") for s in inner[:-1]]
    expr = cond
    for nm, v in reversed(lets):
        expr = "(let %s := %s in %s)" % (nm, v, expr)
    out = "Definition %s_yields (item_is_none has_attr default_is_none default_is_empty : bool) : bool :=\n  %s.\n" % (name, expr)
    out += "Definition %s_how : list string := [%s].\n" % (name, "; ".join('"%s"%%string' % h.replace('"', "'") for h in how))
    return out

"""Source tie stage (shared): translate the named functions of /repo's current source with pysrc, append the
hand-written tie lemmas (coq/Cxx/SrcTie.v.in), compile, and account for the result in the check context.

  items: list of dicts  {file, qualname, name, params, rettype, calls?, consts?, self_attrs?}
  extra_defs(repo) -> str : further generated definitions (tables read from the source), may raise pysrc.Unsupported

Outcome:
  * every lemma/theorem of the tie file is a proof obligation of this run (re-checked against the code's text);
  * a function that can no longer be translated, or a lemma that no longer checks, is reported as
    `tie:src:<name>` with nofail=True: the property is no longer shown to hold for that function's source, and the
    replay file names the lemma / function.  The behavioural stages of the same run look for a concrete failing
    input; if they find one it is reported separately with its own replay."""
import os
import re

from . import pysrc
from .coqrun import eval_files, VERIF

HEADER = ("From Coq Require Import Reals List String Bool ZArith Lra.\n"
          "From HV Require Import Common.Generic.\n%s"
          "Import ListNotations.\nOpen Scope R_scope.\n")


def _names(text):
    return re.findall(r"^(?:Lemma|Theorem)\s+([A-Za-z0-9_']+)", text, flags=re.M)


def run(ctx, pid, imports, items, extra_defs=None):
    repo = os.environ.get("HOLOPY_REPO", "/repo")
    tpl_path = os.path.join(VERIF, "coq", pid, "SrcTie.v.in")
    tpl = open(tpl_path).read()
    names = _names(tpl)
    ctx.obligations += len(names)
    ctx.theorems += ["%s(source tie)" % n for n in names]
    gen = ""
    failed_fn = []
    for it in items:
        try:
            if it.get("fn"):                 # a custom translation (harness/lib/pyarr.py): repo -> Gallina text
                gen += it["fn"](repo)
                ctx.count("srctie:translated")
                continue
            if it.get("kwarg"):
                gen += pysrc.translate_kwarg(repo, it["file"], it["qualname"], it["kwarg"], it["name"], it["params"], it["rettype"],
                                             calls=it.get("calls"), consts=it.get("consts"))
                ctx.count("srctie:translated")
                continue
            gen += pysrc.translate(repo, it["file"], it["qualname"], it["name"], it["params"], it["rettype"],
                                   calls=it.get("calls"), consts=it.get("consts"), self_attrs=it.get("self_attrs"),
                                   state=it.get("state", ()), attrs=it.get("attrs"), opaque_exprs=it.get("opaque_exprs"),
                                   opaque_bools=it.get("opaque_bools"))
            ctx.count("srctie:translated")
        except (pysrc.Unsupported, SyntaxError, OSError) as e:
            failed_fn.append((it, str(e)))
    if extra_defs is not None:
        try:
            gen += extra_defs(repo)
        except (pysrc.Unsupported, SyntaxError, OSError, AttributeError, TypeError) as e:
            failed_fn.append((dict(file="(table)", qualname="(table)", name="table"), str(e)))
    if failed_fn:
        for it, msg in failed_fn:
            ctx.violation("tie:src:%s" % it["name"],
                          "source tie: %s:%s can no longer be translated to Gallina (%s); the theorems are no longer shown to hold "
                          "for its source text" % (it["file"], it["qualname"], msg),
                          dict(kind="tie", function=it["qualname"], file=it["file"], reason=msg,
                               tie_file="coq/%s/SrcTie.v.in" % pid), nofail=True)
        return False
    text = HEADER % imports + gen + tpl
    res = eval_files(pid + "-src", [("SrcTie", text)])
    _, rc, out = res[0]
    if rc == 0:
        ctx.discharged += len(names)
        axs = sorted(set(re.findall(r"^([A-Z][A-Za-z0-9_]*\.[A-Za-z0-9_.]+)\s*:", out, flags=re.M)))
        for n in names:
            ctx.axioms["%s(source tie)" % n] = axs
        ctx.checker_cmd += " ; coqc build/run/%s-src/SrcTie.v (source of %s translated by harness/lib/pysrc.py / pyarr.py + coq/%s/SrcTie.v.in; regenerated each run)" % (
            pid, ", ".join(sorted({it["file"] for it in items})), pid)
        return True
    # which lemma broke: the error message carries a line number of the generated file
    m = re.search(r'line (\d+), characters', out)
    broken = "SrcTie"
    if m:
        upto = "\n".join(text.split("\n")[:int(m.group(1))])
        found = _names(upto)
        defs = re.findall(r"^Definition\s+([A-Za-z0-9_']+)", upto, flags=re.M)
        if found:
            broken = found[-1]
            ctx.discharged += names.index(broken) if broken in names else 0
        elif defs:
            broken = defs[-1]
    ctx.violation("tie:src:%s" % broken,
                  "source tie: lemma %s of coq/%s/SrcTie.v.in no longer checks against the Gallina translation of the current "
                  "source (%s)" % (broken, pid, ", ".join(sorted({it["file"] for it in items}))),
                  dict(kind="tie", lemma=broken, tie_file="coq/%s/SrcTie.v.in" % pid, generated=gen[-3000:], log=out[-2500:]),
                  nofail=True)
    return False

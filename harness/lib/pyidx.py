"""Fail-closed reader for the index arithmetic of holopy/core/mapping.py:edit_map_indices (source tie of C11).

The `_parameter_` branch is read as a function of (indices : list Z) (old_index : Z) over unbounded python ints:
    x in indices                          -> zmem x indices
    indices[0]                            -> hd 0 indices          (python raises on an empty list: the lemma assumes non-empty)
    (np.array(indices) < x).sum()         -> zcount_lt x indices
    + - and integer literals, < <= == comparisons, if / elif / else assigning `new_index`
The prefix test `map_entry[:K] == P` and the result format `F.format(new_index)` are emitted as (K, P, F); the list branch
must be the comprehension that maps the function over the items with the SAME indices.  Anything else raises Unsupported."""
import ast
import os

from . import pysrc
from .pysrc import Unsupported

HEADER = ("Definition zmem (x : Z) (l : list Z) : bool := existsb (Z.eqb x) l.\n"
          "Definition zcount_lt (x : Z) (l : list Z) : Z := Z.of_nat (List.length (filter (fun i => Z.ltb i x) l)).\n")


def _ex(e, env):
    if isinstance(e, ast.Constant) and isinstance(e.value, int) and not isinstance(e.value, bool):
        return "(%d)%%Z" % e.value if e.value >= 0 else "(-%d)%%Z" % -e.value
    if isinstance(e, ast.Name):
        if e.id in env:
            return e.id
        raise Unsupported("unknown name %s" % e.id)
    if isinstance(e, ast.Subscript) and ast.unparse(e) == "indices[0]":
        return "(hd 0%Z indices)"
    if isinstance(e, ast.Call) and ast.unparse(e.func).endswith(".sum") and not e.args and not e.keywords:
        inner = e.func.value
        if isinstance(inner, ast.Compare) and len(inner.ops) == 1 and isinstance(inner.ops[0], ast.Lt) \
                and ast.unparse(inner.left) in ("np.array(indices)", "np.asarray(indices)"):
            return "(zcount_lt %s indices)" % _ex(inner.comparators[0], env)
        raise Unsupported("sum of %s" % ast.unparse(inner))
    if isinstance(e, ast.BinOp) and isinstance(e.op, (ast.Add, ast.Sub)):
        return "(Z.%s %s %s)" % ("add" if isinstance(e.op, ast.Add) else "sub", _ex(e.left, env), _ex(e.right, env))
    raise Unsupported("expression %s" % ast.unparse(e))


def _cond(t, env):
    if isinstance(t, ast.Compare) and len(t.ops) == 1:
        a, op, b = t.left, t.ops[0], t.comparators[0]
        if isinstance(op, ast.In) and isinstance(b, ast.Name) and b.id == "indices":
            return "(zmem %s indices)" % _ex(a, env)
        for k, f in ((ast.Lt, "Z.ltb"), (ast.LtE, "Z.leb"), (ast.Eq, "Z.eqb")):
            if isinstance(op, k):
                return "(%s %s %s)" % (f, _ex(a, env), _ex(b, env))
        if isinstance(op, ast.Gt):
            return "(Z.ltb %s %s)" % (_ex(b, env), _ex(a, env))
        if isinstance(op, ast.GtE):
            return "(Z.leb %s %s)" % (_ex(b, env), _ex(a, env))
    raise Unsupported("condition %s" % ast.unparse(t))


def _block(stmts, env, target):
    """statements ending with `target` bound in every path -> Gallina expression for its value"""
    env = set(env)
    if not stmts:
        raise Unsupported("%s not bound on some path" % target)
    s = stmts[0]
    if isinstance(s, ast.Assign) and len(s.targets) == 1 and isinstance(s.targets[0], ast.Name):
        nm = s.targets[0].id
        v = _ex(s.value, env)
        if nm == target and len(stmts) == 1:
            return v
        if nm == target:
            raise Unsupported("statements after the binding of %s" % target)
        return "(let %s := %s in %s)" % (nm, v, _block(stmts[1:], env | {nm}, target))
    if isinstance(s, ast.If) and len(stmts) == 1:
        if not s.orelse:
            raise Unsupported("if without else")
        return "(if %s then %s else %s)" % (_cond(s.test, env), _block(s.body, env, target), _block(s.orelse, env, target))
    raise Unsupported("statement %s" % ast.unparse(s)[:60])


def edit_map_indices(repo, relpath="holopy/core/mapping.py", name="edit_idx_src"):
    with open(os.path.join(repo, relpath)) as f:
        tree = ast.parse(f.read())
    fn = pysrc.find_function(tree, "edit_map_indices")
    if [a.arg for a in fn.args.args] != ["map_entry", "indices"]:
        raise Unsupported("signature of edit_map_indices")
    body = [s for s in fn.body if not (isinstance(s, ast.Expr) and isinstance(s.value, ast.Constant))]
    if len(body) != 1 or not isinstance(body[0], ast.If):
        raise Unsupported("edit_map_indices is no longer one if / elif / else")
    top = body[0]
    # list branch
    if ast.unparse(top.test) != "isinstance(map_entry, list)" or len(top.body) != 1 or not isinstance(top.body[0], ast.Return) \
            or ast.unparse(top.body[0].value) != "[edit_map_indices(item, indices) for item in map_entry]":
        raise Unsupported("list branch: %s" % ast.unparse(top.body[0])[:80])
    if len(top.orelse) != 1 or not isinstance(top.orelse[0], ast.If):
        raise Unsupported("no parameter branch")
    par = top.orelse[0]
    t = par.test
    if not (isinstance(t, ast.BoolOp) and isinstance(t.op, ast.And) and len(t.values) == 2
            and ast.unparse(t.values[0]) == "isinstance(map_entry, str)" and isinstance(t.values[1], ast.Compare)
            and len(t.values[1].ops) == 1 and isinstance(t.values[1].ops[0], ast.Eq)
            and isinstance(t.values[1].left, ast.Subscript) and ast.unparse(t.values[1].left.value) == "map_entry"
            and isinstance(t.values[1].left.slice, ast.Slice) and t.values[1].left.slice.lower is None
            and isinstance(t.values[1].left.slice.upper, ast.Constant) and t.values[1].left.slice.step is None
            and isinstance(t.values[1].comparators[0], ast.Constant) and isinstance(t.values[1].comparators[0].value, str)):
        raise Unsupported("parameter test %s" % ast.unparse(t))
    klen, prefix = t.values[1].left.slice.upper.value, t.values[1].comparators[0].value
    if len(par.orelse) != 1 or not isinstance(par.orelse[0], ast.Return) or ast.unparse(par.orelse[0].value) != "map_entry":
        raise Unsupported("the final else no longer returns map_entry unchanged")
    stmts = par.body
    if not (isinstance(stmts[0], ast.Assign) and ast.unparse(stmts[0].targets[0]) == "old_index"
            and ast.unparse(stmts[0].value) in ("int(map_entry.split('_')[-1])", "int(map_entry[%d:])" % klen)):
        raise Unsupported("old_index = %s" % ast.unparse(stmts[0].value))
    ret = stmts[-1]
    if not (isinstance(ret, ast.Return) and isinstance(ret.value, ast.Call) and isinstance(ret.value.func, ast.Attribute)
            and ret.value.func.attr == "format" and isinstance(ret.value.func.value, ast.Constant)
            and [ast.unparse(a) for a in ret.value.args] == ["new_index"] and not ret.value.keywords):
        raise Unsupported("return %s" % ast.unparse(ret)[:80])
    fmt = ret.value.func.value.value
    out = HEADER
    out += "Definition %s (indices : list Z) (old_index : Z) : Z :=\n  %s.\n" % (
        name, _block(stmts[1:-1], {"old_index"}, "new_index"))
    out += "Definition %s_tag : Z * string * string := (%d%%Z, \"%s\"%%string, \"%s\"%%string).\n" % (name, klen, prefix, fmt)
    return out

(** Models of defective code variants with computed witnesses. *)
From Coq Require Import ZArith QArith List Bool.
From HV Require Import Common.Generic C14.Model.
Import ListNotations.
Open Scope Q_scope.

(** BoundedGaussian.sample as the code stands (prior.py, sample()):
      out = np.where(out);  while np.any(out): ...
    [out] is a tuple of INDEX arrays, so the loop stops as soon as no out-of-bounds index is
    non-zero: a lone offender at index 0 is replaced once and returned without being checked.
    Witness: bounds [-1, 1], first draw 5, next draw 7: the sampler returns 7. *)
Theorem bounded_sample_asis_refuted :
  exists (lo hi : ebound Q) (n : nat) (stream r : list Q),
    bg_sample QO lo hi true n stream = Some r /\ existsb (outside QO lo hi) r = true.
Proof. exists (Fin (-1)), (Fin 1), 1%nat, [5; 7; 0], [7]. vm_compute. split; reflexivity. Qed.

(** same witness with size 3: entries 1 and 2 are fine, entry 0 is out of bounds *)
Theorem bounded_sample_asis_refuted_size3 :
  exists (stream r : list Q),
    bg_sample QO (Fin (-1)) (Fin 1) true 3 stream = Some r /\ existsb (outside QO (Fin (-1)) (Fin 1)) r = true.
Proof. exists [5; 0; (1#2); 7; 0], [7; 0; (1#2)]. vm_compute. split; reflexivity. Qed.

(** the intended loop on the same draws keeps going *)
Example bounded_sample_intended_same_draws :
  bg_sample QO (Fin (-1)) (Fin 1) false 1 [5; 7; 0] = Some [0].
Proof. vm_compute. reflexivity. Qed.

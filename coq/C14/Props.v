(** C14 property theorems: statements only; proofs are in Lemmas.v.
    Object of the theorems: the R instance of Model.v with the oracles instantiated by the
    real functions ([ln], [exp], [sqrt (2*PI)]) where the clause is about them, and universally
    quantified ([lnf], [expf], [s], [pw], [tr], base draws, the state threaded through the
    bases) where it is not.  The Q instance that is executed against the implementation
    decides supports and runs the resampling loop identically ([..._agrees_on_Q]). *)
From Coq Require Import ZArith List Bool Reals QArith Qreals Lra.
From Coquelicot Require Import Rbar Hierarchy RInt.
From HV Require Import Common.Generic C14.Model C14.Lemmas C14.Findings.
Import ListNotations.
Local Open Scope R_scope.

(** ** log-density = log of density (proper Uniform, Gaussian, BoundedGaussian; -inf <-> 0) *)
Theorem exp_lnprob_eq_prob :
  (forall lo hi g u p, uniform_ctor RO ln lo hi g = Ok u -> interval RO lo hi <> None ->
     exp_e (uniform_lnprob RO u p) = uniform_prob RO u p) /\
  (forall mu sd g p, gaussian_ctor RO ln (sqrt (2 * PI)) mu sd = Ok g ->
     exp (gaussian_lnprob RO g p) = gaussian_prob RO exp (sqrt (2 * PI)) g p) /\
  (forall mu sd lo hi b p, bgaussian_ctor RO ln (sqrt (2 * PI)) mu sd lo hi = Ok b ->
     exp_e (bgaussian_lnprob RO b p) = bgaussian_prob RO exp (sqrt (2 * PI)) b p).
Proof. exact exp_lnprob_all. Qed.
Print Assumptions exp_lnprob_eq_prob.

(* the improper Uniform (an infinite bound) is stated separately: prob = 1/inf = 0, lnprob = -1e6 inside *)
Theorem improper_uniform_constant : forall lnf lo hi g u p,
  uniform_ctor RO lnf lo hi g = Ok u -> interval RO lo hi = None ->
  uniform_prob RO u p = 0 /\
  (in_support lo hi p -> uniform_lnprob RO u p = Some (-1000000)) /\
  (~ in_support lo hi p -> uniform_lnprob RO u p = None).
Proof. exact uniform_improper. Qed.
Print Assumptions improper_uniform_constant.

Theorem gaussian_density_is_textbook : forall mu sd g p,
  gaussian_ctor RO ln (sqrt (2 * PI)) mu sd = Ok g ->
  gaussian_prob RO exp (sqrt (2 * PI)) g p = / (sd * sqrt (2 * PI)) * exp (- ((p - mu) ^ 2) / (2 * sd ^ 2)).
Proof. exact gaussian_prob_textbook. Qed.
Print Assumptions gaussian_density_is_textbook.

(** ** the Uniform density integrates to one over any interval that contains the support *)
Theorem uniform_integral_one : forall lnf a b g u A B,
  uniform_ctor RO lnf (Fin a) (Fin b) g = Ok u -> A <= a -> b <= B ->
  is_RInt (uniform_prob RO u) A B 1.
Proof. exact uniform_integral. Qed.
Print Assumptions uniform_integral_one.

(** ** density zero (log-density -inf) outside the declared support *)
Theorem zero_outside_support : forall expf s,
  (forall u p, ~ in_support (u_lo u) (u_hi u) p -> uniform_prob RO u p = 0 /\ uniform_lnprob RO u p = None) /\
  (forall b p, ~ in_support (bg_lo b) (bg_hi b) p ->
     bgaussian_prob RO expf s b p = 0 /\ bgaussian_lnprob RO b p = None).
Proof. exact zero_outside_all. Qed.
Print Assumptions zero_outside_support.

(** ** the guess lies in the support (given or default; all four bound cases) *)
Theorem default_guess_all_bound_cases : forall lo hi, elt lo hi -> in_support lo hi (default_guess RO lo hi).
Proof. exact default_guess_in_support. Qed.
Print Assumptions default_guess_all_bound_cases.
Theorem guess_in_support : forall lnf s,
  (forall lo hi g u, uniform_ctor RO lnf lo hi g = Ok u -> in_support (u_lo u) (u_hi u) (u_guess u)) /\
  (forall mu sd lo hi b, bgaussian_ctor RO lnf s mu sd lo hi = Ok b ->
     in_support (bg_lo b) (bg_hi b) (g_mu (bg_g b))).
Proof. exact guess_in_support_all. Qed.
Print Assumptions guess_in_support.

(** ** scale / unscale are inverse for every constructed prior *)
Theorem scale_inverse : forall lnf s,
  (forall lo hi g u x, uniform_ctor RO lnf lo hi g = Ok u ->
     unscale RO (u_scale u) (scale RO (u_scale u) x) = x /\ scale RO (u_scale u) (unscale RO (u_scale u) x) = x) /\
  (forall mu sd g x, gaussian_ctor RO lnf s mu sd = Ok g ->
     unscale RO (g_scale g) (scale RO (g_scale g) x) = x /\ scale RO (g_scale g) (unscale RO (g_scale g) x) = x) /\
  (forall mu sd lo hi b x, bgaussian_ctor RO lnf s mu sd lo hi = Ok b ->
     unscale RO (g_scale (bg_g b)) (scale RO (g_scale (bg_g b)) x) = x /\
     scale RO (g_scale (bg_g b)) (unscale RO (g_scale (bg_g b)) x) = x).
Proof. exact ctor_scale_inverse. Qed.
Print Assumptions scale_inverse.
Theorem scale_factor_rule : forall lnf s,
  (forall lo hi g u, uniform_ctor RO lnf lo hi g = Ok u ->
     u_scale u = if Rlt_dec (eps12 RO) (Rabs (u_guess u)) then Rabs (u_guess u)
                 else match interval RO lo hi with Some w => w / 10 | None => 1 end) /\
  (forall mu sd g, gaussian_ctor RO lnf s mu sd = Ok g ->
     g_scale g = if Rlt_dec (eps12 RO) (Rabs mu) then Rabs mu else sd).
Proof. exact scale_factor_values. Qed.
Print Assumptions scale_factor_rule.

(** ** bounds or widths that make no sense are rejected at construction - and nothing else is *)
Theorem ctor_rejects : forall lnf s,
  (forall lo hi g, uniform_ctor RO lnf lo hi g = Err ParamSpec <->
     (~ elt lo hi \/ match g with Some x => ~ in_support lo hi x | None => False end)) /\
  (forall mu sd, gaussian_ctor RO lnf s mu sd = Err ParamSpec <-> sd <= 0) /\
  (forall mu sd lo hi, bgaussian_ctor RO lnf s mu sd lo hi = Err ParamSpec <->
     (~ in_support lo hi mu \/ ebound_eqb RO lo hi = true \/ sd <= 0)).
Proof. exact ctor_rejects_all. Qed.
Print Assumptions ctor_rejects.
Theorem uniform_ctor_accepts : forall lnf lo hi g,
  (exists u, uniform_ctor RO lnf lo hi g = Ok u) <->
  (elt lo hi /\ match g with Some x => in_support lo hi x | None => True end).
Proof. exact uniform_ctor_accepts_iff. Qed.
Print Assumptions uniform_ctor_accepts.

(** ** derived priors: for EVERY operator / ufunc expression over numbers and priors, what
    Python's dispatch builds ([elab]) evaluates - threading any state through the bases left to
    right - to the same operations applied to what the bases yield ([denote]) *)
Theorem transformed_evaluates_as_written : forall pw tr (S : Type) (next : Z -> S -> R * S) s e,
  elab RO pw tr s = Ok e -> forall st, ev pw tr next e st = denote RO pw tr next s st.
Proof. exact elab_sem. Qed.
Print Assumptions transformed_evaluates_as_written.
Theorem transformed_guess : forall pw tr genv (s : sexpr R) e, elab RO pw tr s = Ok e ->
  guess RO pw tr genv e = fst (denote RO pw tr (fun i (_ : unit) => (genv i, tt)) s tt).
Proof. exact guess_elab. Qed.
Print Assumptions transformed_guess.
Theorem transformed_sample : forall pw tr (s : sexpr R) e draws, elab RO pw tr s = Ok e ->
  sample1 RO pw tr e draws = denote RO pw tr (next_draw 0) s draws.
Proof. exact sample_elab. Qed.
Print Assumptions transformed_sample.
(* size n: entry k of the sample = the expression on the k-th entries of the recorded base draws *)
Theorem transformed_sample_n : forall pw tr n (s : sexpr R) e draws, elab RO pw tr s = Ok e ->
  Forall (fun d => length d = n) draws ->
  length (fst (samplen RO pw tr n e draws)) = n /\
  forall k, (k < n)%nat ->
    nth k (fst (samplen RO pw tr n e draws)) 0 = fst (denote RO pw tr (next_draw 0) s (col k draws)).
Proof. exact samplen_elab. Qed.
Print Assumptions transformed_sample_n.

(** ** +0 and *1 return the prior itself; *0 and unsupported types raise *)
Theorem add0_mul1_identity : forall e : pexpr R, p_add RO e (ONum 0) = Ok e /\ p_mul RO e (ONum 1) = Ok e.
Proof. exact add0_mul1_all. Qed.
Print Assumptions add0_mul1_identity.
Theorem mul0_raises : forall e : pexpr R, p_mul RO e (ONum 0) = Err TypeErr.
Proof. exact Lemmas.mul0_raises. Qed.
Print Assumptions mul0_raises.
Theorem bad_type_raises : forall e : pexpr R,
  p_add RO e OBad = Err TypeErr /\ p_mul RO e OBad = Err TypeErr /\ p_sub RO e OBad = Err TypeErr /\
  p_div RO e OBad = Err TypeErr /\ p_rsub RO e OBad = Err TypeErr /\ p_rdiv RO e OBad = Err TypeErr.
Proof. exact Lemmas.bad_type_raises. Qed.
Print Assumptions bad_type_raises.
(* the same through Python's dispatch, number on either side, for any derived prior *)
Theorem dispatch_identities_and_refusals : forall pw tr (s : sexpr R) e,
  elab RO pw tr s = Ok e -> is_num e = false ->
  elab RO pw tr (SAdd s (SNum 0)) = Ok e /\ elab RO pw tr (SAdd (SNum 0) s) = Ok e /\
  elab RO pw tr (SSub s (SNum 0)) = Ok e /\
  elab RO pw tr (SMul s (SNum 1)) = Ok e /\ elab RO pw tr (SMul (SNum 1) s) = Ok e /\
  elab RO pw tr (SDiv s (SNum 1)) = Ok e /\
  elab RO pw tr (SMul s (SNum 0)) = Err TypeErr /\ elab RO pw tr (SMul (SNum 0) s) = Err TypeErr /\
  elab RO pw tr (SDiv (SNum 0) s) = Err TypeErr /\
  elab RO pw tr (SDiv s (SNum 0)) = Err ZeroDiv.
Proof. exact elab_identities. Qed.
Print Assumptions dispatch_identities_and_refusals.

(** ** samplers *)
(* the resampling loop (go on while ANY entry is out of bounds): whenever it returns, every
   entry lies in the bounds, the size is the requested one, and every entry is one of the draws *)
Theorem bounded_sample_in_support : forall lo hi n stream r,
  bg_sample RO lo hi false n stream = Some r ->
  Forall (in_support lo hi) r /\ length r = Nat.min n (length stream) /\ forall x, In x r -> In x stream.
Proof. exact bg_sample_in_support. Qed.
Print Assumptions bounded_sample_in_support.
Theorem uniform_sample_in_support : forall a b u, a < b -> 0 <= u < 1 ->
  a <= uniform_sample RO a b u < b /\ in_support (Fin a) (Fin b) (uniform_sample RO a b u).
Proof. exact Lemmas.uniform_sample_in_support. Qed.
Print Assumptions uniform_sample_in_support.
Theorem gaussian_sample_standardises : forall mu sd z, 0 < sd -> (gaussian_sample RO mu sd z - mu) / sd = z.
Proof. exact Lemmas.gaussian_sample_standardises. Qed.
Print Assumptions gaussian_sample_standardises.

(** ** ComplexPrior, updated(), generate_guess *)
Theorem complex_prob_is_product : forall re im pre pim,
  complex_prob RO exp re im pre pim = part_prob re pre * part_prob im pim.
Proof. exact complex_prob_product. Qed.
Print Assumptions complex_prob_is_product.
Theorem updated_inherits_bounds_and_widest_sd : forall lnf s bounds v plus minus extra r,
  updated RO lnf s bounds v plus minus extra = Ok r ->
  let sd := Rmax (Rmax plus minus) extra in
  match bounds, r with
  | Some (lo, hi), inr b => bg_lo b = lo /\ bg_hi b = hi /\ g_mu (bg_g b) = v /\ g_sd (bg_g b) = sd
  | None, inl g => g_mu g = v /\ g_sd g = sd
  | _, _ => False
  end.
Proof. exact updated_spec. Qed.
Print Assumptions updated_inherits_bounds_and_widest_sd.
Theorem generate_guess_scaling : forall g x s,
  scaled_sample RO g 1 x = x /\ scaled_sample RO g 0 x = g /\ scaled_sample RO g s g = g.
Proof. exact scaled_sample_spec. Qed.
Print Assumptions generate_guess_scaling.

(** ** what is executed (Q) is what is proved about (R): support decisions and the loop *)
Theorem support_test_agrees_on_Q : forall lo hi p, outside QO lo hi p = outside RO (eb2r lo) (eb2r hi) (Q2R p).
Proof. exact outside_QR. Qed.
Print Assumptions support_test_agrees_on_Q.
Theorem bounded_sample_agrees_on_Q : forall lo hi n stream,
  option_map (map Q2R) (bg_sample QO lo hi false n stream) =
  bg_sample RO (eb2r lo) (eb2r hi) false n (map Q2R stream).
Proof. exact bg_sample_QR. Qed.
Print Assumptions bounded_sample_agrees_on_Q.

(** non-vacuity: the hypotheses are satisfiable by concrete non-trivial objects *)
Example hyps_satisfiable :
  (exists u, uniform_ctor RO ln (Fin 1) (Fin 3) None = Ok u /\ interval RO (Fin 1) (Fin 3) <> None) /\
  (exists u, uniform_ctor RO ln (Fin 1) PosInf (Some 2) = Ok u /\ interval RO (Fin 1) (@PosInf R) = None) /\
  (exists g, gaussian_ctor RO ln (sqrt (2 * PI)) 1 2 = Ok g) /\
  (exists b, bgaussian_ctor RO ln (sqrt (2 * PI)) 1 2 (Fin 0) PosInf = Ok b) /\
  (exists e, elab QO (fun x _ => x) (fun _ x => x)
       (SDiv (SSub (SNum 3) (SMul (SP 0) (SNum 2))) (SU2 UMax (SP 1) (SNeg (SP 0))))%Q = Ok e /\ is_num e = false) /\
  (  bg_sample QO (Fin (-1)) (Fin 1) false 2 [5; 0; 7; (1#2)] = Some [(1#2); 0])%Q.
Proof.
  assert (L1 : Rleb 3 1 = false) by (apply Rleb_false; lra).
  assert (L2 : Rleb 2 0 = false) by (apply Rleb_false; lra).
  assert (L3 : Rltb 2 1 = false) by (apply Rltb_false; lra).
  assert (L4 : Rltb 1 0 = false) by (apply Rltb_false; lra).
  split; [|split; [|split; [|split; [|split]]]].
  - unfold uniform_ctor, ege. cbn [leb RO]. rewrite L1. eexists; split; [reflexivity|discriminate].
  - unfold uniform_ctor, ege, outside, lt_lo, gt_hi. cbn [ltb RO orb]. rewrite L3. eexists; split; reflexivity.
  - unfold gaussian_ctor. cbn [leb zero RO]. rewrite L2. eexists; reflexivity.
  - unfold bgaussian_ctor, gaussian_ctor, lt_lo, gt_hi, ebound_eqb. cbn [ltb leb zero RO orb]. rewrite L4, L2.
    eexists; reflexivity.
  - eexists; split; vm_compute; reflexivity.
  - vm_compute. reflexivity.
Qed.

(** C14 - priors: densities, supports, guesses, scaling, constructor validation, the
    operator / ufunc algebra that builds TransformedPriors, and the samplers as functions of
    the recorded base draws.  Executable model (no proofs here).
    Anchors: holopy/core/prior.py (Prior overloads, Uniform, Gaussian, BoundedGaussian,
    TransformedPrior, ComplexPrior, updated, generate_guess), holopy/core/mapping.py
    (transformed_prior).

    Oracles (enter as function arguments, never axioms): [lnf] = np.log, [expf] = np.exp,
    [s2pi] = np.sqrt(2*np.pi), [pw] = operator.pow, [tr] = transcendental numpy ufuncs,
    the base random draws (np.random.uniform / normal) as recorded lists. *)
From Coq Require Import ZArith List Bool.
From HV Require Import Common.Generic.
Import ListNotations.

Inductive err := ParamSpec | TypeErr | ZeroDiv | NotImpl.
Inductive res (A : Type) := Ok (a : A) | Err (e : err).
Arguments Ok {A}. Arguments Err {A}.

(** numpy ufuncs offered to [__array_ufunc__] by the generators; the first group is rational
    (executed exactly), the second is transcendental (oracle [tr]). *)
Inductive ufunc1 := UNeg | USquare | UAbs | URecip | USqrt | UExp | ULog.
Inductive ufunc2 := UAdd | USub | UMul | UDiv | UMax | UMin.
(** TransformedPrior.transformation: operator.add / operator.mul / operator.pow /
    prior._reciprocal / a numpy ufunc *)
Inductive fn1 := Recip | U1 (u : ufunc1).
Inductive fn2 := OpAdd | OpMul | OpPow | U2 (u : ufunc2).

Section Gen.
Context {T : Type} (O : Ops T).
Declare Scope t_scope. Delimit Scope t_scope with t.
Local Notation "x + y" := (add O x y) : t_scope. Local Notation "x * y" := (mul O x y) : t_scope.
Local Notation "x - y" := (sub O x y) : t_scope. Local Notation "- x" := (opp O x) : t_scope.
Local Notation "x / y" := (mul O x (inv O y)) : t_scope.
Local Notation "x <? y" := (ltb O x y) : t_scope. Local Notation "x <=? y" := (leb O x y) : t_scope.
Local Notation "x =? y" := (eqb O x y) : t_scope.
Local Notation "0" := (zero O) : t_scope. Local Notation "1" := (one O) : t_scope.
Local Open Scope t_scope.

(** * bounds: a float that may be +-inf *)
Inductive ebound := NegInf | Fin (x : T) | PosInf.

(** [p < lower_bound], [p > upper_bound] as Python evaluates them on floats incl. inf *)
Definition lt_lo (p : T) (lo : ebound) : bool :=
  match lo with NegInf => false | Fin a => p <? a | PosInf => true end.
Definition gt_hi (p : T) (hi : ebound) : bool :=
  match hi with PosInf => false | Fin b => b <? p | NegInf => true end.
Definition outside (lo hi : ebound) (p : T) : bool := lt_lo p lo || gt_hi p hi.
(** [lower_bound >= upper_bound] *)
Definition ege (lo hi : ebound) : bool :=
  match lo, hi with
  | PosInf, _ => true | _, NegInf => true
  | NegInf, _ => false | _, PosInf => false
  | Fin a, Fin b => b <=? a
  end.
Definition ebound_eqb (a b : ebound) : bool :=
  match a, b with NegInf, NegInf => true | PosInf, PosInf => true | Fin x, Fin y => x =? y | _, _ => false end.

Definition tabs (x : T) : T := if x <? 0 then - x else x.
Definition tmax (a b : T) : T := if a <? b then b else a.
Definition tmin (a b : T) : T := if b <? a then b else a.
(** the double 1e-12 = 0x1.19799812dea11p-40, exactly *)
Definition eps12 : T := ofZ O 4951760157141521 / ofZ O 4951760157141521099596496896.
Definition ten : T := ofZ O 10.
Definition two : T := ofZ O 2.
(** -1/EPS with EPS = 1e-6: the double -1000000.0 *)
Definition improper_lnprob : T := ofZ O (-1000000).

(** * Uniform *)
Record uniform := mkU { u_lo : ebound; u_hi : ebound; u_guess : T; u_scale : T; u_lnp : T }.

(** Uniform.interval, when finite *)
Definition interval (lo hi : ebound) : option T :=
  match lo, hi with Fin a, Fin b => Some (b - a) | _, _ => None end.
(** guess=None: midpoint / finite end / 0 *)
Definition default_guess (lo hi : ebound) : T :=
  match lo, hi with
  | Fin a, Fin b => (b + a) / two
  | Fin a, _ => a
  | _, Fin b => b
  | _, _ => 0
  end.
(** scale_factor of Uniform *)
Definition scale_of (g : T) (iv : option T) : T :=
  if eps12 <? tabs g then tabs g else match iv with Some w => w / ten | None => 1 end.

Section Oracles.
Variable lnf : T -> T.      (* np.log *)
Variable expf : T -> T.     (* np.exp (inside scipy.stats.norm.pdf) *)
Variable s2pi : T.          (* np.sqrt(2*np.pi) *)

Definition uniform_ctor (lo hi : ebound) (guess : option T) : res uniform :=
  if ege lo hi then Err ParamSpec else
  let iv := interval lo hi in
  let lnp := match iv with Some w => lnf (1 / w) | None => improper_lnprob end in
  match guess with
  | None => let g := default_guess lo hi in Ok (mkU lo hi g (scale_of g iv) lnp)
  | Some g => if outside lo hi g then Err ParamSpec else Ok (mkU lo hi g (scale_of g iv) lnp)
  end.

(** lnprob: None stands for -inf *)
Definition uniform_lnprob (u : uniform) (p : T) : option T :=
  if outside (u_lo u) (u_hi u) p then None else Some (u_lnp u).
(** prob: 1/interval; for an improper prior 1/inf = 0.0 *)
Definition uniform_prob (u : uniform) (p : T) : T :=
  if outside (u_lo u) (u_hi u) p then 0
  else match interval (u_lo u) (u_hi u) with Some w => 1 / w | None => 0 end.

(** * Gaussian *)
Record gaussian := mkG { g_mu : T; g_sd : T; g_norm : T; g_scale : T }.
Definition gaussian_ctor (mu sd : T) : res gaussian :=
  if sd <=? 0 then Err ParamSpec
  else Ok (mkG mu sd (- lnf (sd * s2pi)) (if eps12 <? tabs mu then tabs mu else sd)).
Definition gaussian_lnprob (g : gaussian) (p : T) : T :=
  g_norm g - ((p - g_mu g) * (p - g_mu g)) / (two * (g_sd g * g_sd g)).
(** scipy.stats.norm.pdf(p, mu, sd) = exp(-((p-mu)/sd)^2/2) / sqrt(2 pi) / sd *)
Definition gaussian_prob (g : gaussian) (p : T) : T :=
  expf (- (((p - g_mu g) / g_sd g) * ((p - g_mu g) / g_sd g)) / two) / (s2pi * g_sd g).

(** * BoundedGaussian *)
Record bgaussian := mkBG { bg_g : gaussian; bg_lo : ebound; bg_hi : ebound }.
Definition bgaussian_ctor (mu sd : T) (lo hi : ebound) : res bgaussian :=
  if lt_lo mu lo || gt_hi mu hi || ebound_eqb lo hi then Err ParamSpec
  else match gaussian_ctor mu sd with Ok g => Ok (mkBG g lo hi) | Err e => Err e end.
Definition bgaussian_lnprob (b : bgaussian) (p : T) : option T :=
  if outside (bg_lo b) (bg_hi b) p then None else Some (gaussian_lnprob (bg_g b) p).
Definition bgaussian_prob (b : bgaussian) (p : T) : T :=
  if outside (bg_lo b) (bg_hi b) p then 0 else gaussian_prob (bg_g b) p.

(** updated(prior, v, extra): sd = max(plus, minus, extra); BoundedGaussian iff the prior has
    bounds ([bounds] = Some (lo, hi)) *)
Definition updated_sd (plus minus extra : T) : T := tmax (tmax plus minus) extra.
Definition updated (bounds : option (ebound * ebound)) (vguess plus minus extra : T)
  : res (gaussian + bgaussian) :=
  let sd := updated_sd plus minus extra in
  match bounds with
  | Some (lo, hi) => match bgaussian_ctor vguess sd lo hi with Ok b => Ok (inr b) | Err e => Err e end
  | None => match gaussian_ctor vguess sd with Ok g => Ok (inl g) | Err e => Err e end
  end.
End Oracles.

(** Prior.scale / Prior.unscale *)
Definition scale (sf physical : T) : T := physical / sf.
Definition unscale (sf scaled : T) : T := scaled * sf.
(** generate_guess's scaled_sample *)
Definition scaled_sample (guess scaling raw : T) : T := guess + scaling * (raw - guess).
(** Uniform.sample = random.uniform(lo, hi) and Gaussian.sample = random.normal(mu, sd) as
    functions of the generator's standard draws (oracle): [u] from random_sample in [0,1),
    [z] from standard_normal *)
Definition uniform_sample (a b u : T) : T := a + (b - a) * u.
Definition gaussian_sample (mu sd z : T) : T := mu + sd * z.

(** * ComplexPrior: each part is a fixed number or a prior with its own lnprob *)
Definition oadd (a b : option T) : option T :=
  match a, b with Some x, Some y => Some (x + y) | _, _ => None end.
(** [part] = None for a fixed (numeric) part - the AttributeError branch gives 0 *)
Definition complex_lnprob (re im : option (T -> option T)) (pre pim : T) : option T :=
  oadd (match re with Some f => f pre | None => Some 0 end)
       (match im with Some f => f pim | None => Some 0 end).
Definition exp_ext (expf : T -> T) (l : option T) : T := match l with Some x => expf x | None => 0 end.
Definition complex_prob (expf : T -> T) re im pre pim : T := exp_ext expf (complex_lnprob re im pre pim).

(** * BoundedGaussian.sample: resampling loop over the recorded stream of normal draws.
    [val] = first draw of [size] values; every pass replaces the out-of-bounds entries, in
    index order, by the next values of the stream.  None = stream exhausted. *)
Section Loop.
Variables lo hi : ebound.
Fixpoint refill (val stream : list T) : option (list T * list T) :=
  match val with
  | [] => Some ([], stream)
  | v :: t =>
    if outside lo hi v then
      match stream with
      | [] => None
      | d :: s' => match refill t s' with Some (t', s'') => Some (d :: t', s'') | None => None end
      end
    else match refill t stream with Some (t', s'') => Some (v :: t', s'') | None => None end
  end.
Definition all_inside (val : list T) : bool := forallb (fun v => negb (outside lo hi v)) val.
(** the loop as the property needs it: go on while ANY entry is out of bounds *)
Fixpoint bg_loop (fuel : nat) (val stream : list T) : option (list T) :=
  match fuel with
  | 0%nat => None
  | S f => if all_inside val then Some val
           else match refill val stream with Some (val', s') => bg_loop f val' s' | None => None end
  end.
(** the loop as the code stands: [out = np.where(out)] turns the mask into a tuple of INDEX
    arrays and [while np.any(out)] then tests whether some out-of-bounds INDEX is non-zero;
    a lone offender at index 0 is replaced once and returned unchecked.  See Findings.v *)
Fixpoint out_idx (i : Z) (val : list T) : list Z :=
  match val with [] => [] | v :: t => if outside lo hi v then i :: out_idx (i + 1) t else out_idx (i + 1) t end.
Fixpoint bg_loop_asis (fuel : nat) (val stream : list T) : option (list T) :=
  match fuel with
  | 0%nat => None
  | S f => match refill val stream with
           | None => None
           | Some (val', s') =>
             if existsb (fun i => negb (Z.eqb i 0)) (out_idx 0 val) then bg_loop_asis f val' s'
             else Some val'
           end
  end.
(** sample(size): size None draws one value and returns a scalar (modelled as 1-list) *)
Definition bg_sample (asis : bool) (n : nat) (stream : list T) : option (list T) :=
  (if asis then bg_loop_asis else bg_loop) (S (length stream)) (firstn n stream) (skipn n stream).
End Loop.

(** * The algebra of derived priors *)
Inductive pexpr :=
| PNum (x : T)                      (* a plain number (not a Prior) *)
| PBase (id : Z)                    (* a base prior, by identity *)
| PT1 (f : fn1) (a : pexpr)         (* TransformedPrior(f, [a]) *)
| PT2 (f : fn2) (a b : pexpr).      (* TransformedPrior(f, [a, b]) *)

Definition is_num (e : pexpr) : bool := match e with PNum _ => true | _ => false end.

Section Funcs.
Variable pw : T -> T -> T.          (* operator.pow *)
Variable tr : ufunc1 -> T -> T.     (* np.sqrt / np.exp / np.log *)
Definition app1 (f : fn1) (x : T) : T :=
  match f with
  | Recip => 1 / x
  | U1 UNeg => - x | U1 USquare => x * x | U1 UAbs => tabs x | U1 URecip => 1 / x
  | U1 u => tr u x
  end.
Definition app2 (f : fn2) (x y : T) : T :=
  match f with
  | OpAdd => x + y | OpMul => x * y | OpPow => pw x y
  | U2 UAdd => x + y | U2 USub => x - y | U2 UMul => x * y | U2 UDiv => x / y
  | U2 UMax => tmax x y | U2 UMin => tmin x y
  end.

(** TransformedPrior.guess / .sample: one generic traversal.  [V] = what a base yields (a
    scalar, or a vector of [size] scalars), [S] = what is consumed (nothing / the recorded
    draws); bases are visited left to right, each OCCURRENCE asks [next] again. *)
Section Eval.
Context {V S : Type}.
Variables (num : T -> V) (ap1 : fn1 -> V -> V) (ap2 : fn2 -> V -> V -> V) (next : Z -> S -> V * S).
Fixpoint evalS (e : pexpr) (st : S) : V * S :=
  match e with
  | PNum x => (num x, st)
  | PBase i => next i st
  | PT1 f a => let '(x, s1) := evalS a st in (ap1 f x, s1)
  | PT2 f a b => let '(x, s1) := evalS a st in let '(y, s2) := evalS b s1 in (ap2 f x y, s2)
  end.
End Eval.

(** guess: every base contributes its own guess *)
Definition guess (genv : Z -> T) (e : pexpr) : T :=
  fst (evalS (fun x => x) app1 app2 (fun i (_ : unit) => (genv i, tt)) e tt).
(** sample(): one recorded draw per base occurrence *)
Definition next_draw (d : T) (_ : Z) (st : list T) : T * list T := (hd d st, tl st).
Definition sample1 (e : pexpr) (draws : list T) : T * list T :=
  evalS (fun x => x) app1 app2 (next_draw 0) e draws.
(** sample(n): one recorded vector of n draws per base occurrence; numbers are np.repeat-ed,
    the transformation is applied to the zip *)
Definition map2 (f : T -> T -> T) (a b : list T) : list T := map (fun xy => f (fst xy) (snd xy)) (combine a b).
Definition samplen (n : nat) (e : pexpr) (draws : list (list T)) : list T * list (list T) :=
  evalS (fun x => repeat x n) (fun f => map (app1 f)) (fun f => map2 (app2 f))
        (fun _ st => (hd (repeat 0 n) st, tl st)) e draws.
End Funcs.

(** * Operator overloads as smart constructors.  An operand is a number, a Prior or
    something else (str, None, list, complex for [*]). *)
Inductive operand := ONum (x : T) | OPrior (e : pexpr) | OBad.

(** Prior.__add__(self, value) *)
Definition p_add (self : pexpr) (v : operand) : res pexpr :=
  match v with
  | ONum x => if x =? 0 then Ok self else Ok (PT2 OpAdd self (PNum x))
  | OPrior e => Ok (PT2 OpAdd self e)
  | OBad => Err TypeErr
  end.
(** Prior.__mul__(self, value) *)
Definition p_mul (self : pexpr) (v : operand) : res pexpr :=
  match v with
  | ONum x => if x =? 0 then Err TypeErr else if x =? 1 then Ok self else Ok (PT2 OpMul self (PNum x))
  | OPrior e => Ok (PT2 OpMul self e)
  | OBad => Err TypeErr
  end.
(** __neg__ = self * -1 *)
Definition p_neg (self : pexpr) : res pexpr := p_mul self (ONum (opp O 1)).
(** -value for an operand (Python unary minus) *)
Definition o_neg (v : operand) : res operand :=
  match v with
  | ONum x => Ok (ONum (- x))
  | OPrior e => match p_neg e with Ok e' => Ok (OPrior e') | Err x => Err x end
  | OBad => Err TypeErr
  end.
(** __sub__ = self + (-value) *)
Definition p_sub (self : pexpr) (v : operand) : res pexpr :=
  match o_neg v with Ok nv => p_add self nv | Err x => Err x end.
(** __rsub__ = -self + value *)
Definition p_rsub (self : pexpr) (v : operand) : res pexpr :=
  match p_neg self with Ok ns => p_add ns v | Err x => Err x end.
(** __rtruediv__ = value * TransformedPrior(_reciprocal, self); for a number on the left
    Python falls back to __rmul__ of the reciprocal prior *)
Definition p_rdiv (self : pexpr) (v : operand) : res pexpr :=
  match v with
  | OPrior e => p_mul e (OPrior (PT1 Recip self))
  | other => p_mul (PT1 Recip self) other
  end.
(** __truediv__ = self * (1/value) *)
Definition p_div (self : pexpr) (v : operand) : res pexpr :=
  match v with
  | ONum x => if x =? 0 then Err ZeroDiv else p_mul self (ONum (1 / x))
  | OPrior e => match p_rdiv e (ONum 1) with Ok r => p_mul self (OPrior r) | Err x => Err x end
  | OBad => Err TypeErr
  end.

(** * Surface expressions: what the user writes with Python operators and numpy functions
    over numbers and priors; [elab] is what Python's dispatch builds from it. *)
Inductive sexpr :=
| SNum (x : T) | SP (id : Z)
| SAdd (a b : sexpr) | SSub (a b : sexpr) | SMul (a b : sexpr) | SDiv (a b : sexpr)
| SNeg (a : sexpr) | SPow (a b : sexpr)
| SU1 (u : ufunc1) (a : sexpr) | SU2 (u : ufunc2) (a b : sexpr).

Definition to_operand (e : pexpr) : operand := match e with PNum x => ONum x | _ => OPrior e end.

Section Elab.
Variable pw : T -> T -> T.
Variable tr : ufunc1 -> T -> T.
Definition bind {A B} (r : res A) (f : A -> res B) : res B := match r with Ok a => f a | Err e => Err e end.
(** binary dispatch: both numbers -> Python arithmetic; left is a Prior -> its method;
    otherwise the reflected method of the right operand *)
Definition e_add (a b : pexpr) : res pexpr :=
  match a, b with
  | PNum x, PNum y => Ok (PNum (x + y))
  | PNum x, _ => p_add b (ONum x)                  (* __radd__ *)
  | _, _ => p_add a (to_operand b)
  end.
Definition e_sub (a b : pexpr) : res pexpr :=
  match a, b with
  | PNum x, PNum y => Ok (PNum (x - y))
  | PNum x, _ => p_rsub b (ONum x)
  | _, _ => p_sub a (to_operand b)
  end.
Definition e_mul (a b : pexpr) : res pexpr :=
  match a, b with
  | PNum x, PNum y => Ok (PNum (x * y))
  | PNum x, _ => p_mul b (ONum x)                  (* __rmul__ *)
  | _, _ => p_mul a (to_operand b)
  end.
Definition e_div (a b : pexpr) : res pexpr :=
  match a, b with
  | PNum x, PNum y => if y =? 0 then Err ZeroDiv else Ok (PNum (x / y))
  | PNum x, _ => p_rdiv b (ONum x)
  | _, _ => p_div a (to_operand b)
  end.
Definition e_neg (a : pexpr) : res pexpr :=
  match a with PNum x => Ok (PNum (- x)) | _ => p_neg a end.
Definition e_pow (a b : pexpr) : res pexpr :=
  match a, b with
  | PNum x, PNum y => Ok (PNum (pw x y))
  | _, _ => Ok (PT2 OpPow a b)                     (* __pow__ / __rpow__: no simplification *)
  end.
Definition e_u1 (u : ufunc1) (a : pexpr) : res pexpr :=
  match a with PNum x => Ok (PNum (app1 tr (U1 u) x)) | _ => Ok (PT1 (U1 u) a) end.
Definition e_u2 (u : ufunc2) (a b : pexpr) : res pexpr :=
  match a, b with
  | PNum x, PNum y => Ok (PNum (app2 pw (U2 u) x y))
  | _, _ => Ok (PT2 (U2 u) a b)                    (* __array_ufunc__: args kept in order *)
  end.
Fixpoint elab (s : sexpr) : res pexpr :=
  match s with
  | SNum x => Ok (PNum x)
  | SP i => Ok (PBase i)
  | SAdd a b => bind (elab a) (fun ea => bind (elab b) (fun eb => e_add ea eb))
  | SSub a b => bind (elab a) (fun ea => bind (elab b) (fun eb => e_sub ea eb))
  | SMul a b => bind (elab a) (fun ea => bind (elab b) (fun eb => e_mul ea eb))
  | SDiv a b => bind (elab a) (fun ea => bind (elab b) (fun eb => e_div ea eb))
  | SNeg a => bind (elab a) e_neg
  | SPow a b => bind (elab a) (fun ea => bind (elab b) (fun eb => e_pow ea eb))
  | SU1 u a => bind (elab a) (e_u1 u)
  | SU2 u a b => bind (elab a) (fun ea => bind (elab b) (fun eb => e_u2 u ea eb))
  end.

(** what the expression MEANS: the same operations on the values the bases yield,
    left to right *)
Section Denote.
Context {S : Type}.
Variable next : Z -> S -> T * S.
Fixpoint denote (s : sexpr) (st : S) : T * S :=
  match s with
  | SNum x => (x, st)
  | SP i => next i st
  | SAdd a b => let '(x, s1) := denote a st in let '(y, s2) := denote b s1 in (x + y, s2)
  | SSub a b => let '(x, s1) := denote a st in let '(y, s2) := denote b s1 in (x - y, s2)
  | SMul a b => let '(x, s1) := denote a st in let '(y, s2) := denote b s1 in (x * y, s2)
  | SDiv a b => let '(x, s1) := denote a st in let '(y, s2) := denote b s1 in (x / y, s2)
  | SNeg a => let '(x, s1) := denote a st in (- x, s1)
  | SPow a b => let '(x, s1) := denote a st in let '(y, s2) := denote b s1 in (pw x y, s2)
  | SU1 u a => let '(x, s1) := denote a st in (app1 tr (U1 u) x, s1)
  | SU2 u a b => let '(x, s1) := denote a st in let '(y, s2) := denote b s1 in (app2 pw (U2 u) x y, s2)
  end.
End Denote.
End Elab.

(** mapping.transformed_prior(transformation, base_priors): a TransformedPrior if any base is
    a Prior, otherwise the transformation applied at once *)
Definition transformed_prior2 (pw : T -> T -> T) (f : fn2) (a b : pexpr) : pexpr :=
  match a, b with PNum x, PNum y => PNum (app2 pw f x y) | _, _ => PT2 f a b end.

(** structural comparison used by the correspondence (numbers up to [close]) *)
Section Cmp.
Variable close : T -> T -> bool.
Definition fn1_eqb (f g : fn1) : bool :=
  match f, g with
  | Recip, Recip => true
  | U1 UNeg, U1 UNeg | U1 USquare, U1 USquare | U1 UAbs, U1 UAbs | U1 URecip, U1 URecip
  | U1 USqrt, U1 USqrt | U1 UExp, U1 UExp | U1 ULog, U1 ULog => true
  | _, _ => false
  end.
Definition fn2_eqb (f g : fn2) : bool :=
  match f, g with
  | OpAdd, OpAdd | OpMul, OpMul | OpPow, OpPow => true
  | U2 UAdd, U2 UAdd | U2 USub, U2 USub | U2 UMul, U2 UMul | U2 UDiv, U2 UDiv
  | U2 UMax, U2 UMax | U2 UMin, U2 UMin => true
  | _, _ => false
  end.
Fixpoint pexpr_eqb (a b : pexpr) : bool :=
  match a, b with
  | PNum x, PNum y => close x y
  | PBase i, PBase j => Z.eqb i j
  | PT1 f a1, PT1 g b1 => fn1_eqb f g && pexpr_eqb a1 b1
  | PT2 f a1 a2, PT2 g b1 b2 => fn2_eqb f g && pexpr_eqb a1 b1 && pexpr_eqb a2 b2
  | _, _ => false
  end.
Definition res_pexpr_eqb (a b : res pexpr) : bool :=
  match a, b with
  | Ok x, Ok y => pexpr_eqb x y
  | Err ParamSpec, Err ParamSpec | Err TypeErr, Err TypeErr | Err ZeroDiv, Err ZeroDiv
  | Err NotImpl, Err NotImpl => true
  | _, _ => false
  end.
End Cmp.
End Gen.

Arguments ebound T : clear implicits. Arguments uniform T : clear implicits.
Arguments gaussian T : clear implicits. Arguments bgaussian T : clear implicits.
Arguments pexpr T : clear implicits. Arguments sexpr T : clear implicits.
Arguments operand T : clear implicits.
Arguments NegInf {T}. Arguments PosInf {T}. Arguments Fin {T}.
Arguments PNum {T}. Arguments PBase {T}. Arguments PT1 {T}. Arguments PT2 {T}.
Arguments SNum {T}. Arguments SP {T}. Arguments SAdd {T}. Arguments SSub {T}. Arguments SMul {T}.
Arguments SDiv {T}. Arguments SNeg {T}. Arguments SPow {T}. Arguments SU1 {T}. Arguments SU2 {T}.
Arguments ONum {T}. Arguments OPrior {T}. Arguments OBad {T}.

(** C14 - proofs.  Object of the theorems: the R instance of Model.v with the oracles
    instantiated by the real functions (ln, exp, sqrt (2 PI)) or left universally quantified
    (pow, transcendental ufuncs, base draws). *)
From Coq Require Import ZArith List Bool Reals QArith Qreals Lra Lia Psatz.
From Coquelicot Require Import Rbar Hierarchy RInt.
From HV Require Import Common.Generic C14.Model.
Import ListNotations.
Local Open Scope R_scope.

Ltac ro := cbn [zero one add mul sub opp inv ltb leb eqb ofZ RO] in *.

(** * supports *)
Definition in_support (lo hi : ebound R) (p : R) : Prop :=
  match lo with NegInf => True | Fin a => a <= p | PosInf => False end /\
  match hi with PosInf => True | Fin b => p <= b | NegInf => False end.
(** lower < upper on the extended line *)
Definition elt (lo hi : ebound R) : Prop :=
  match lo, hi with
  | PosInf, _ => False | _, NegInf => False
  | NegInf, _ => True | _, PosInf => True
  | Fin a, Fin b => a < b
  end.

Lemma outside_false lo hi p : outside RO lo hi p = false <-> in_support lo hi p.
Proof. unfold outside, in_support, lt_lo, gt_hi. rewrite orb_false_iff. ro.
  destruct lo, hi; try rewrite !Rltb_false; intuition (try discriminate; try lra). Qed.
Lemma outside_true lo hi p : outside RO lo hi p = true <-> ~ in_support lo hi p.
Proof. rewrite <- outside_false. destruct (outside RO lo hi p); intuition congruence. Qed.
Lemma ege_false lo hi : ege RO lo hi = false <-> elt lo hi.
Proof. unfold ege, elt. ro. destruct lo, hi; try rewrite Rleb_false; intuition (try discriminate; try lra). Qed.

Lemma eps12_pos : 0 < eps12 RO.
Proof. unfold eps12. ro. apply Rmult_lt_0_compat; [|apply Rinv_0_lt_compat]; apply IZR_lt; lia. Qed.
Lemma tabs_abs x : tabs RO x = Rabs x.
Proof. unfold tabs. ro. unfold Rabs. destruct (Rltb x 0) eqn:E.
  - apply Rltb_true in E. destruct (Rcase_abs x); lra.
  - apply Rltb_false in E. destruct (Rcase_abs x); lra. Qed.

(** * Uniform: constructor *)
Lemma uniform_ctor_ok lnf lo hi g u :
  uniform_ctor RO lnf lo hi g = Ok u ->
  elt lo hi /\ u_lo u = lo /\ u_hi u = hi /\
  u_guess u = match g with Some x => x | None => default_guess RO lo hi end /\
  match g with Some x => in_support lo hi x | None => True end /\
  u_scale u = scale_of RO (u_guess u) (interval RO lo hi) /\
  u_lnp u = match interval RO lo hi with Some w => lnf (1 / w) | None => -1000000 end.
Proof. unfold uniform_ctor. destruct (ege RO lo hi) eqn:E; [discriminate|]. apply ege_false in E.
  assert (L : match interval RO lo hi with Some w => lnf (one RO * / w) | None => improper_lnprob RO end =
              match interval RO lo hi with Some w => lnf (1 / w) | None => -1000000 end).
  { destruct (interval RO lo hi); reflexivity. }
  destruct g as [x|].
  - destruct (outside RO lo hi x) eqn:Eo; [discriminate|]. apply outside_false in Eo.
    intros H; inversion H; subst; cbn [u_lo u_hi u_guess u_scale u_lnp].
    split; [exact E|]. do 4 (split; [auto|]). split; [reflexivity|exact L].
  - intros H; inversion H; subst; cbn [u_lo u_hi u_guess u_scale u_lnp].
    split; [exact E|]. do 4 (split; [auto|]). split; [reflexivity|exact L]. Qed.

Lemma uniform_ctor_accepts_iff lnf lo hi g :
  (exists u, uniform_ctor RO lnf lo hi g = Ok u) <->
  (elt lo hi /\ match g with Some x => in_support lo hi x | None => True end).
Proof. split.
  - intros [u H]. apply uniform_ctor_ok in H. tauto.
  - intros [H1 H2]. unfold uniform_ctor. apply ege_false in H1. rewrite H1. destruct g as [x|].
    + apply outside_false in H2. rewrite H2. eexists; reflexivity.
    + eexists; reflexivity. Qed.
Lemma uniform_ctor_rejects_iff lnf lo hi g :
  uniform_ctor RO lnf lo hi g = Err ParamSpec <->
  (~ elt lo hi \/ match g with Some x => ~ in_support lo hi x | None => False end).
Proof. unfold uniform_ctor. destruct (ege RO lo hi) eqn:E.
  - split; [intros _; left; rewrite <- ege_false; congruence|reflexivity].
  - apply ege_false in E. destruct g as [x|].
    + destruct (outside RO lo hi x) eqn:Eo.
      * apply outside_true in Eo. tauto.
      * apply outside_false in Eo. split; [discriminate|tauto].
    + split; [discriminate|tauto]. Qed.

(** the default guess lies in the support: all four bound cases *)
Lemma default_guess_in_support lo hi : elt lo hi -> in_support lo hi (default_guess RO lo hi).
Proof. unfold elt, in_support, default_guess, two. ro. destruct lo, hi; intros H; try tauto; try lra; try (split; lra). Qed.
Lemma uniform_guess_in_support lnf lo hi g u :
  uniform_ctor RO lnf lo hi g = Ok u -> in_support (u_lo u) (u_hi u) (u_guess u).
Proof. intros H. apply uniform_ctor_ok in H. destruct H as (He & -> & -> & -> & Hg & _).
  destruct g; [exact Hg|apply default_guess_in_support, He]. Qed.

Lemma interval_pos lo hi w : elt lo hi -> interval RO lo hi = Some w -> 0 < w.
Proof. unfold elt, interval. ro. destruct lo, hi; intros H E; inversion E; subst; lra. Qed.
Lemma scale_of_pos g lo hi : elt lo hi -> 0 < scale_of RO g (interval RO lo hi).
Proof. intros He. unfold scale_of. ro. destruct (Rltb (eps12 RO) (tabs RO g)) eqn:E.
  - apply Rltb_true in E. pose proof eps12_pos. lra.
  - destruct (interval RO lo hi) as [w|] eqn:Ei; [|lra]. apply (interval_pos _ _ _ He) in Ei.
    unfold ten. ro. lra. Qed.
Lemma uniform_scale_pos lnf lo hi g u : uniform_ctor RO lnf lo hi g = Ok u -> 0 < u_scale u.
Proof. intros H. apply uniform_ctor_ok in H. destruct H as (He & _ & _ & _ & _ & -> & _).
  apply scale_of_pos, He. Qed.

(** * Uniform: densities *)
Definition exp_e := exp_ext RO exp.
Lemma uniform_exp_lnprob lo hi g u p : uniform_ctor RO ln lo hi g = Ok u ->
  interval RO lo hi <> None -> exp_e (uniform_lnprob RO u p) = uniform_prob RO u p.
Proof. intros H Hi. pose proof (uniform_ctor_ok _ _ _ _ _ H) as (He & Hl & Hh & _ & _ & _ & Hlnp).
  unfold uniform_lnprob, uniform_prob. rewrite Hl, Hh. destruct (outside RO lo hi p); [reflexivity|].
  destruct (interval RO lo hi) as [w|] eqn:Ei; [|congruence]. cbn. rewrite Hlnp. ro.
  apply exp_ln. apply (interval_pos _ _ _ He) in Ei. apply Rmult_lt_0_compat; [lra|apply Rinv_0_lt_compat, Ei]. Qed.
Lemma uniform_improper lnf lo hi g u p : uniform_ctor RO lnf lo hi g = Ok u -> interval RO lo hi = None ->
  uniform_prob RO u p = 0 /\
  (in_support lo hi p -> uniform_lnprob RO u p = Some (-1000000)) /\
  (~ in_support lo hi p -> uniform_lnprob RO u p = None).
Proof. intros H Hi. pose proof (uniform_ctor_ok _ _ _ _ _ H) as (He & Hl & Hh & _ & _ & _ & Hlnp).
  unfold uniform_lnprob, uniform_prob. rewrite Hl, Hh, Hi in *. ro. repeat split.
  - destruct (outside RO lo hi p); reflexivity.
  - intros Hs. apply outside_false in Hs. rewrite Hs, Hlnp. reflexivity.
  - intros Hs. apply outside_true in Hs. rewrite Hs. reflexivity. Qed.
Lemma uniform_zero_outside u p : ~ in_support (u_lo u) (u_hi u) p ->
  uniform_prob RO u p = 0 /\ uniform_lnprob RO u p = None.
Proof. intros H. apply outside_true in H. unfold uniform_prob, uniform_lnprob. rewrite H. ro. auto. Qed.
Lemma uniform_prob_inside lnf a b g u p : uniform_ctor RO lnf (Fin a) (Fin b) g = Ok u ->
  a <= p <= b -> uniform_prob RO u p = / (b - a).
Proof. intros H Hp. pose proof (uniform_ctor_ok _ _ _ _ _ H) as (He & Hl & Hh & _).
  unfold uniform_prob. rewrite Hl, Hh.
  assert (E : outside RO (Fin a) (Fin b) p = false) by (apply outside_false; unfold in_support; lra).
  rewrite E. cbn. lra. Qed.

(** integral of the density over any interval containing the support is 1 *)
Lemma is_RInt_const_on (f : R -> R) a b c : a <= b -> (forall x, a < x < b -> f x = c) ->
  is_RInt f a b ((b - a) * c).
Proof. intros Hab Hf. apply (is_RInt_ext (fun _ => c)).
  - intros x. rewrite Rmin_left, Rmax_right by lra. intros Hx. symmetry. apply Hf, Hx.
  - apply (is_RInt_const a b c). Qed.
Lemma uniform_integral lnf a b g u A B : uniform_ctor RO lnf (Fin a) (Fin b) g = Ok u ->
  A <= a -> b <= B -> is_RInt (uniform_prob RO u) A B 1.
Proof. intros H HA HB. pose proof (uniform_ctor_ok _ _ _ _ _ H) as (He & Hl & Hh & _). cbn in He.
  assert (I1 : is_RInt (uniform_prob RO u) A a ((a - A) * 0)).
  { apply is_RInt_const_on; [lra|]. intros x Hx. apply uniform_zero_outside. rewrite Hl, Hh. unfold in_support. lra. }
  assert (I2 : is_RInt (uniform_prob RO u) a b ((b - a) * / (b - a))).
  { apply is_RInt_const_on; [lra|]. intros x Hx. apply (uniform_prob_inside _ _ _ _ _ _ H). lra. }
  assert (I3 : is_RInt (uniform_prob RO u) b B ((B - b) * 0)).
  { apply is_RInt_const_on; [lra|]. intros x Hx. apply uniform_zero_outside. rewrite Hl, Hh. unfold in_support. lra. }
  pose proof (is_RInt_Chasles _ _ _ _ _ _ I1 (is_RInt_Chasles _ _ _ _ _ _ I2 I3)) as I.
  match type of I with is_RInt _ _ _ ?l => replace 1 with l; [exact I|] end.
  unfold plus; cbn. field. lra. Qed.

(** * Gaussian *)
Lemma gaussian_ctor_ok lnf s2pi mu sd g : gaussian_ctor RO lnf s2pi mu sd = Ok g ->
  0 < sd /\ g_mu g = mu /\ g_sd g = sd /\ g_norm g = - lnf (sd * s2pi) /\ 0 < g_scale g.
Proof. unfold gaussian_ctor. destruct (leb RO sd (zero RO)) eqn:E; [discriminate|].
  change (Rleb sd 0 = false) in E. apply Rleb_false in E.
  intros H; inversion H; subst; cbn [g_mu g_sd g_norm g_scale]. repeat split; auto.
  match goal with |- context [if ?c then _ else _] => destruct c eqn:E2 end; [|exact E].
  apply Rltb_true in E2. pose proof eps12_pos as P. unfold eps12 in P. ro. lra. Qed.
Lemma gaussian_ctor_rejects_iff lnf s2pi mu sd : gaussian_ctor RO lnf s2pi mu sd = Err ParamSpec <-> sd <= 0.
Proof. unfold gaussian_ctor. ro. destruct (Rleb sd 0) eqn:E.
  - apply Rleb_true in E. tauto.
  - apply Rleb_false in E. split; [discriminate|lra]. Qed.

Lemma gaussian_exp_lnprob s2pi mu sd g p : 0 < s2pi -> gaussian_ctor RO ln s2pi mu sd = Ok g ->
  exp (gaussian_lnprob RO g p) = gaussian_prob RO exp s2pi g p.
Proof. intros Hs H. apply gaussian_ctor_ok in H. destruct H as (Hsd & Hmu & Hsd' & Hn & _).
  unfold gaussian_lnprob, gaussian_prob, two. rewrite Hmu, Hsd', Hn. ro.
  unfold Rminus. rewrite exp_plus, exp_Ropp, exp_ln by (apply Rmult_lt_0_compat; lra).
  rewrite Rmult_comm. f_equal; [|f_equal; lra].
  f_equal. field. lra. Qed.

(** * BoundedGaussian *)
Lemma bgaussian_ctor_ok lnf s2pi mu sd lo hi b : bgaussian_ctor RO lnf s2pi mu sd lo hi = Ok b ->
  in_support lo hi mu /\ ebound_eqb RO lo hi = false /\ bg_lo b = lo /\ bg_hi b = hi /\
  gaussian_ctor RO lnf s2pi mu sd = Ok (bg_g b).
Proof. unfold bgaussian_ctor. destruct (lt_lo RO mu lo || gt_hi RO mu hi) eqn:E; [discriminate|].
  destruct (ebound_eqb RO lo hi) eqn:E2; [discriminate|]. cbn [orb].
  destruct (gaussian_ctor RO lnf s2pi mu sd); [|discriminate]. intros H; inversion H; subst; cbn.
  repeat split; auto; apply (outside_false lo hi mu); exact E. Qed.
Lemma bgaussian_ctor_rejects_iff lnf s2pi mu sd lo hi :
  bgaussian_ctor RO lnf s2pi mu sd lo hi = Err ParamSpec <->
  (~ in_support lo hi mu \/ ebound_eqb RO lo hi = true \/ sd <= 0).
Proof. unfold bgaussian_ctor. fold (outside RO lo hi mu). destruct (outside RO lo hi mu) eqn:E.
  - apply outside_true in E. cbn. tauto.
  - apply outside_false in E. cbn [orb]. destruct (ebound_eqb RO lo hi); [tauto|].
    destruct (gaussian_ctor RO lnf s2pi mu sd) eqn:Eg.
    + apply gaussian_ctor_ok in Eg. split; [discriminate|]. intros [?|[?|?]]; try tauto; try discriminate; lra.
    + destruct e; unfold gaussian_ctor in Eg; destruct (leb RO sd (zero RO)) eqn:E3; try discriminate.
      ro. apply Rleb_true in E3. tauto. Qed.
Lemma bgaussian_guess_in_support lnf s2pi mu sd lo hi b : bgaussian_ctor RO lnf s2pi mu sd lo hi = Ok b ->
  in_support (bg_lo b) (bg_hi b) (g_mu (bg_g b)).
Proof. intros H. apply bgaussian_ctor_ok in H. destruct H as (Hs & _ & -> & -> & Hg).
  apply gaussian_ctor_ok in Hg. destruct Hg as (_ & -> & _). exact Hs. Qed.
Lemma bgaussian_exp_lnprob s2pi mu sd lo hi b p : 0 < s2pi -> bgaussian_ctor RO ln s2pi mu sd lo hi = Ok b ->
  exp_e (bgaussian_lnprob RO b p) = bgaussian_prob RO exp s2pi b p.
Proof. intros Hs H. apply bgaussian_ctor_ok in H. destruct H as (_ & _ & _ & _ & Hg).
  unfold bgaussian_lnprob, bgaussian_prob. destruct (outside RO (bg_lo b) (bg_hi b) p); [reflexivity|].
  cbn. apply (gaussian_exp_lnprob _ _ _ _ _ Hs Hg). Qed.
Lemma bgaussian_zero_outside expf s2pi b p : ~ in_support (bg_lo b) (bg_hi b) p ->
  bgaussian_prob RO expf s2pi b p = 0 /\ bgaussian_lnprob RO b p = None.
Proof. intros H. apply outside_true in H. unfold bgaussian_prob, bgaussian_lnprob. rewrite H. ro. auto. Qed.

(** updated(): sd is the largest of the three; bounds are inherited *)
Lemma tmax_spec a b : tmax RO a b = Rmax a b.
Proof. unfold tmax. ro. unfold Rmax. destruct (Rltb a b) eqn:E.
  - apply Rltb_true in E. destruct (Rle_dec a b); lra.
  - apply Rltb_false in E. destruct (Rle_dec a b); lra. Qed.
Lemma tmin_spec a b : tmin RO a b = Rmin a b.
Proof. unfold tmin. ro. unfold Rmin. destruct (Rltb b a) eqn:E.
  - apply Rltb_true in E. destruct (Rle_dec a b); lra.
  - apply Rltb_false in E. destruct (Rle_dec a b); lra. Qed.
Lemma updated_spec lnf s2pi bounds v plus minus extra r :
  updated RO lnf s2pi bounds v plus minus extra = Ok r ->
  let sd := Rmax (Rmax plus minus) extra in
  match bounds, r with
  | Some (lo, hi), inr b => bg_lo b = lo /\ bg_hi b = hi /\ g_mu (bg_g b) = v /\ g_sd (bg_g b) = sd
  | None, inl g => g_mu g = v /\ g_sd g = sd
  | _, _ => False
  end.
Proof. unfold updated, updated_sd. rewrite !tmax_spec. destruct bounds as [[lo hi]|].
  - destruct (bgaussian_ctor _ _ _ _ _ _ _) eqn:E; [|discriminate]. intros H; inversion H; subst. cbn.
    apply bgaussian_ctor_ok in E. destruct E as (_ & _ & -> & -> & Hg). apply gaussian_ctor_ok in Hg. tauto.
  - destruct (gaussian_ctor _ _ _ _ _) eqn:E; [|discriminate]. intros H; inversion H; subst. cbn.
    apply gaussian_ctor_ok in E. tauto. Qed.

(** * scale / unscale *)
Lemma scale_unscale sf x : sf <> 0 -> unscale RO sf (scale RO sf x) = x /\ scale RO sf (unscale RO sf x) = x.
Proof. intros H. unfold scale, unscale. ro. split; field; exact H. Qed.
Lemma scaled_sample_spec g x s : scaled_sample RO g 1 x = x /\ scaled_sample RO g 0 x = g /\
  scaled_sample RO g s g = g.
Proof. unfold scaled_sample. ro. repeat split; ring. Qed.

(** * ComplexPrior *)
Definition part_prob (f : option (R -> option R)) (p : R) : R :=
  match f with Some f => exp_e (f p) | None => 1 end.
Lemma complex_prob_product re im pre pim :
  complex_prob RO exp re im pre pim = part_prob re pre * part_prob im pim.
Proof. unfold complex_prob, complex_lnprob, part_prob, exp_e, exp_ext, oadd. ro.
  destruct re as [f|], im as [h|]; try destruct (f pre); try destruct (h pim);
    rewrite ?exp_plus, ?exp_0; lra. Qed.

(** * the resampling loop *)
Section LoopR.
Variables lo hi : ebound R.
Lemma refill_spec : forall val stream val' s', refill RO lo hi val stream = Some (val', s') ->
  length val' = length val /\ (forall x, In x val' -> (In x val /\ in_support lo hi x) \/ In x stream) /\
  (forall x, In x s' -> In x stream).
Proof. induction val as [|v t IH]; intros stream val' s' H; simpl in H.
  - inversion H; subst. repeat split; auto. intros x [].
  - destruct (outside RO lo hi v) eqn:E.
    + destruct stream as [|d s0]; [discriminate|]. destruct (refill RO lo hi t s0) as [[t' s'']|] eqn:Er; [|discriminate].
      inversion H; subst. destruct (IH _ _ _ Er) as (H1 & H2 & H3). simpl. repeat split.
      * lia.
      * intros x [<-|Hx]; [right; left; reflexivity|]. destruct (H2 x Hx) as [[? ?]|?]; [left; tauto|right; right; assumption].
      * intros x Hx. right. apply H3, Hx.
    + destruct (refill RO lo hi t stream) as [[t' s'']|] eqn:Er; [|discriminate].
      inversion H; subst. destruct (IH _ _ _ Er) as (H1 & H2 & H3). simpl. repeat split.
      * lia.
      * intros x [<-|Hx]; [left; split; [left; reflexivity|apply outside_false, E]|].
        destruct (H2 x Hx) as [[? ?]|?]; [left; tauto|right; assumption].
      * exact H3. Qed.
Lemma all_inside_spec val : all_inside RO lo hi val = true <-> Forall (in_support lo hi) val.
Proof. unfold all_inside. rewrite forallb_forall, Forall_forall. split; intros H x Hx.
  - apply outside_false. specialize (H x Hx). destruct (outside RO lo hi x); [discriminate|reflexivity].
  - apply H in Hx. apply outside_false in Hx. rewrite Hx. reflexivity. Qed.
Lemma bg_loop_spec : forall fuel val stream r, bg_loop RO lo hi fuel val stream = Some r ->
  Forall (in_support lo hi) r /\ length r = length val /\ (forall x, In x r -> In x val \/ In x stream).
Proof. induction fuel as [|f IH]; intros val stream r H; simpl in H; [discriminate|].
  destruct (all_inside RO lo hi val) eqn:E.
  - inversion H; subst. apply all_inside_spec in E. auto.
  - destruct (refill RO lo hi val stream) as [[val' s']|] eqn:Er; [|discriminate].
    destruct (refill_spec _ _ _ _ Er) as (H1 & H2 & H3). destruct (IH _ _ _ H) as (G1 & G2 & G3).
    repeat split; [exact G1|lia|]. intros x Hx. destruct (G3 x Hx) as [Hv|Hs]; [|right; apply H3, Hs].
    destruct (H2 x Hv) as [[? ?]|?]; tauto. Qed.
(** values already inside are kept (no draw is consumed for them) *)
Lemma bg_loop_fix fuel val stream : Forall (in_support lo hi) val ->
  bg_loop RO lo hi (S fuel) val stream = Some val.
Proof. intros H. simpl. apply all_inside_spec in H. rewrite H. reflexivity. Qed.
End LoopR.
Lemma bg_sample_in_support lo hi n stream r : bg_sample RO lo hi false n stream = Some r ->
  Forall (in_support lo hi) r /\ length r = Nat.min n (length stream) /\ forall x, In x r -> In x stream.
Proof. unfold bg_sample. intros H. apply bg_loop_spec in H. destruct H as (H1 & H2 & H3).
  rewrite firstn_length in H2. repeat split; auto. intros x Hx. destruct (H3 x Hx) as [Hi|Hi].
  - rewrite <- (firstn_skipn n stream). apply in_or_app; left; exact Hi.
  - rewrite <- (firstn_skipn n stream). apply in_or_app; right; exact Hi. Qed.

(** * the algebra of derived priors *)
Lemma Reqb_refl x : Reqb x x = true. Proof. apply Reqb_true. reflexivity. Qed.
Lemma Reqb_false x y : Reqb x y = false <-> x <> y.
Proof. unfold Reqb. destruct (Req_EM_T x y); split; intros; try discriminate; try tauto; reflexivity. Qed.
Lemma Reqb_1_0 : Reqb 1 0 = false. Proof. apply Reqb_false. lra. Qed.
Lemma Reqb_m1_0 : Reqb (Ropp 1) 0 = false. Proof. apply Reqb_false. lra. Qed.
Lemma Reqb_m1_1 : Reqb (Ropp 1) 1 = false. Proof. apply Reqb_false. lra. Qed.

Section Alg.
Variables (pw : R -> R -> R) (tr : ufunc1 -> R -> R).
Context {S : Type} (next : Z -> S -> R * S).
Definition ev : pexpr R -> S -> R * S := evalS (fun x : R => x) (app1 RO tr) (app2 RO pw) next.
Definition oev (v : operand R) (st : S) : R * S :=
  match v with ONum x => (x, st) | OPrior e => ev e st | OBad => (0, st) end.

Lemma ev_PT2 f a b st : ev (PT2 f a b) st =
  let '(x, s1) := ev a st in let '(y, s2) := ev b s1 in (app2 RO pw f x y, s2).
Proof. reflexivity. Qed.
Lemma ev_PT1 f a st : ev (PT1 f a) st = let '(x, s1) := ev a st in (app1 RO tr f x, s1).
Proof. reflexivity. Qed.
Lemma ev_PNum x st : ev (PNum x) st = (x, st). Proof. reflexivity. Qed.
Lemma oev_to_operand e st : oev (to_operand e) st = ev e st.
Proof. destruct e; reflexivity. Qed.

Ltac pair_ring := match goal with |- (_, _) = (_, _) => f_equal; try (unfold Rdiv; ring) end.

Lemma p_add_sem self v e st : p_add RO self v = Ok e ->
  ev e st = let '(x, s1) := ev self st in let '(y, s2) := oev v s1 in (x + y, s2).
Proof. destruct v as [x|e'|]; cbn [p_add]; ro.
  - destruct (Reqb x 0) eqn:E; intros H; inversion H; subst.
    + apply Reqb_true in E. subst. cbn [oev]. destruct (ev e st). pair_ring.
    + rewrite ev_PT2. cbn [oev]. destruct (ev self st). rewrite ev_PNum. reflexivity.
  - intros H; inversion H; subst. rewrite ev_PT2. cbn [oev]. reflexivity.
  - discriminate. Qed.
Lemma p_mul_sem self v e st : p_mul RO self v = Ok e ->
  ev e st = let '(x, s1) := ev self st in let '(y, s2) := oev v s1 in (x * y, s2).
Proof. destruct v as [x|e'|]; cbn [p_mul]; ro.
  - destruct (Reqb x 0) eqn:E; [discriminate|]. destruct (Reqb x 1) eqn:E1; intros H; inversion H; subst.
    + apply Reqb_true in E1. subst. cbn [oev]. destruct (ev e st). pair_ring.
    + rewrite ev_PT2. cbn [oev]. destruct (ev self st). rewrite ev_PNum. reflexivity.
  - intros H; inversion H; subst. rewrite ev_PT2. cbn [oev]. reflexivity.
  - discriminate. Qed.
Lemma p_neg_sem self e st : p_neg RO self = Ok e ->
  ev e st = let '(x, s1) := ev self st in (- x, s1).
Proof. unfold p_neg. intros H. rewrite (p_mul_sem _ _ _ st H). cbn [oev]. ro.
  destruct (ev self st). pair_ring. Qed.
Lemma o_neg_sem v nv st : o_neg RO v = Ok nv -> oev nv st = let '(y, s) := oev v st in (- y, s).
Proof. destruct v as [x|e'|]; cbn [o_neg].
  - intros H; inversion H; subst. reflexivity.
  - destruct (p_neg RO e') eqn:E; [|discriminate]. intros H; inversion H; subst. cbn [oev].
    apply (p_neg_sem _ _ st E).
  - discriminate. Qed.
Lemma p_sub_sem self v e st : p_sub RO self v = Ok e ->
  ev e st = let '(x, s1) := ev self st in let '(y, s2) := oev v s1 in (x - y, s2).
Proof. unfold p_sub. destruct (o_neg RO v) as [nv|] eqn:E; [|discriminate]. intros H.
  rewrite (p_add_sem _ _ _ st H). destruct (ev self st) as [x s1]. rewrite (o_neg_sem _ _ s1 E).
  destruct (oev v s1). pair_ring. Qed.
Lemma p_rsub_sem self y e st : p_rsub RO self (ONum y) = Ok e ->
  ev e st = let '(x, s1) := ev self st in (y - x, s1).
Proof. unfold p_rsub. destruct (p_neg RO self) as [ns|] eqn:E; [|discriminate]. intros H.
  rewrite (p_add_sem _ _ _ st H). rewrite (p_neg_sem _ _ st E). destruct (ev self st) as [x s1].
  cbn [oev]. pair_ring. Qed.
Lemma p_rdiv_sem self y e st : p_rdiv RO self (ONum y) = Ok e ->
  ev e st = let '(x, s1) := ev self st in (y / x, s1).
Proof. unfold p_rdiv. intros H. rewrite (p_mul_sem _ _ _ st H). rewrite ev_PT1.
  destruct (ev self st) as [x s1]. cbn [oev app1]. ro. pair_ring. Qed.
Lemma p_div_sem self v e st : p_div RO self v = Ok e ->
  ev e st = let '(x, s1) := ev self st in let '(y, s2) := oev v s1 in (x / y, s2).
Proof. destruct v as [x|e'|]; cbn [p_div]; ro.
  - destruct (Reqb x 0) eqn:E; [discriminate|]. intros H. rewrite (p_mul_sem _ _ _ st H).
    destruct (ev self st) as [x0 s1]. cbn [oev]. pair_ring.
  - unfold p_rdiv. cbn [p_mul]. ro. rewrite Reqb_1_0, Reqb_refl. cbn [p_mul]. intros H.
    inversion H; subst. rewrite ev_PT2. destruct (ev self st) as [x0 s1]. cbn [oev]. rewrite ev_PT1.
    destruct (ev e' s1) as [y s2]. cbn [app1 app2]. ro. pair_ring.
  - discriminate. Qed.

(** binary dispatch *)
Ltac nonnum a := destruct a; try discriminate.
Lemma e_add_sem a b e st : e_add RO a b = Ok e ->
  ev e st = let '(x, s1) := ev a st in let '(y, s2) := ev b s1 in (x + y, s2).
Proof. intros H.
  assert (G : forall a', is_num a' = false -> p_add RO a' (to_operand b) = Ok e ->
     ev e st = let '(x, s1) := ev a' st in let '(y, s2) := ev b s1 in (x + y, s2)).
  { intros a' _ H'. rewrite (p_add_sem _ _ _ st H'). destruct (ev a' st) as [x s1].
    rewrite oev_to_operand. reflexivity. }
  destruct a as [x| | |]; try (apply G; [reflexivity|exact H]).
  destruct b as [y| | |]; cbn [e_add] in H;
    try (rewrite (p_add_sem _ _ _ st H), ev_PNum; cbn [oev];
         match goal with |- context [ev ?b st] => destruct (ev b st) end; pair_ring).
  inversion H; subst. reflexivity. Qed.
Lemma e_mul_sem a b e st : e_mul RO a b = Ok e ->
  ev e st = let '(x, s1) := ev a st in let '(y, s2) := ev b s1 in (x * y, s2).
Proof. intros H.
  assert (G : forall a', is_num a' = false -> p_mul RO a' (to_operand b) = Ok e ->
     ev e st = let '(x, s1) := ev a' st in let '(y, s2) := ev b s1 in (x * y, s2)).
  { intros a' _ H'. rewrite (p_mul_sem _ _ _ st H'). destruct (ev a' st) as [x s1].
    rewrite oev_to_operand. reflexivity. }
  destruct a as [x| | |]; try (apply G; [reflexivity|exact H]).
  destruct b as [y| | |]; cbn [e_mul] in H;
    try (rewrite (p_mul_sem _ _ _ st H), ev_PNum; cbn [oev];
         match goal with |- context [ev ?b st] => destruct (ev b st) end; pair_ring).
  inversion H; subst. reflexivity. Qed.
Lemma e_sub_sem a b e st : e_sub RO a b = Ok e ->
  ev e st = let '(x, s1) := ev a st in let '(y, s2) := ev b s1 in (x - y, s2).
Proof. intros H.
  assert (G : forall a', is_num a' = false -> p_sub RO a' (to_operand b) = Ok e ->
     ev e st = let '(x, s1) := ev a' st in let '(y, s2) := ev b s1 in (x - y, s2)).
  { intros a' _ H'. rewrite (p_sub_sem _ _ _ st H'). destruct (ev a' st) as [x s1].
    rewrite oev_to_operand. reflexivity. }
  destruct a as [x| | |]; try (apply G; [reflexivity|exact H]).
  destruct b as [y| | |]; cbn [e_sub] in H;
    try (rewrite (p_rsub_sem _ _ _ st H), ev_PNum;
         match goal with |- context [ev ?b st] => destruct (ev b st) end; reflexivity).
  inversion H; subst. reflexivity. Qed.
Lemma e_div_sem a b e st : e_div RO a b = Ok e ->
  ev e st = let '(x, s1) := ev a st in let '(y, s2) := ev b s1 in (x / y, s2).
Proof. intros H.
  assert (G : forall a', is_num a' = false -> p_div RO a' (to_operand b) = Ok e ->
     ev e st = let '(x, s1) := ev a' st in let '(y, s2) := ev b s1 in (x / y, s2)).
  { intros a' _ H'. rewrite (p_div_sem _ _ _ st H'). destruct (ev a' st) as [x s1].
    rewrite oev_to_operand. reflexivity. }
  destruct a as [x| | |]; try (apply G; [reflexivity|exact H]).
  destruct b as [y| | |]; cbn [e_div] in H;
    try (rewrite (p_rdiv_sem _ _ _ st H), ev_PNum;
         match goal with |- context [ev ?b st] => destruct (ev b st) end; reflexivity).
  ro. destruct (Reqb y 0); [discriminate|]. inversion H; subst. reflexivity. Qed.
Lemma e_neg_sem a e st : e_neg RO a = Ok e -> ev e st = let '(x, s1) := ev a st in (- x, s1).
Proof. destruct a; cbn [e_neg]; try apply p_neg_sem. intros H; inversion H; subst. reflexivity. Qed.
Lemma e_pow_sem a b e st : e_pow pw a b = Ok e ->
  ev e st = let '(x, s1) := ev a st in let '(y, s2) := ev b s1 in (pw x y, s2).
Proof. destruct a, b; cbn [e_pow]; intros H; inversion H; subst; reflexivity. Qed.
Lemma e_u1_sem u a e st : e_u1 RO tr u a = Ok e ->
  ev e st = let '(x, s1) := ev a st in (app1 RO tr (U1 u) x, s1).
Proof. destruct a; cbn [e_u1]; intros H; inversion H; subst; reflexivity. Qed.
Lemma e_u2_sem u a b e st : e_u2 RO pw u a b = Ok e ->
  ev e st = let '(x, s1) := ev a st in let '(y, s2) := ev b s1 in (app2 RO pw (U2 u) x y, s2).
Proof. destruct a, b; cbn [e_u2]; intros H; inversion H; subst; reflexivity. Qed.

(** for every operator expression: what Python's dispatch builds evaluates to the same
    operations applied to what the bases yield *)
Theorem elab_sem : forall s e, elab RO pw tr s = Ok e -> forall st, ev e st = denote RO pw tr next s st.
Proof.
  induction s as [x|i|a IHa b IHb|a IHa b IHb|a IHa b IHb|a IHa b IHb|a IHa|a IHa b IHb|u a IHa|u a IHa b IHb];
    intros e H st; cbn [elab bind] in H; cbn [denote];
    try (destruct (elab RO pw tr a) as [ea|] eqn:Ea; [|discriminate]; cbn [bind] in H);
    try (destruct (elab RO pw tr b) as [eb|] eqn:Eb; [|discriminate]; cbn [bind] in H).
  - inversion H; subst. reflexivity.
  - inversion H; subst. reflexivity.
  - rewrite (e_add_sem _ _ _ st H), (IHa _ eq_refl). destruct (denote RO pw tr next a st). rewrite (IHb _ eq_refl). reflexivity.
  - rewrite (e_sub_sem _ _ _ st H), (IHa _ eq_refl). destruct (denote RO pw tr next a st). rewrite (IHb _ eq_refl). reflexivity.
  - rewrite (e_mul_sem _ _ _ st H), (IHa _ eq_refl). destruct (denote RO pw tr next a st). rewrite (IHb _ eq_refl). reflexivity.
  - rewrite (e_div_sem _ _ _ st H), (IHa _ eq_refl). destruct (denote RO pw tr next a st). rewrite (IHb _ eq_refl). reflexivity.
  - rewrite (e_neg_sem _ _ st H), (IHa _ eq_refl). reflexivity.
  - rewrite (e_pow_sem _ _ _ st H), (IHa _ eq_refl). destruct (denote RO pw tr next a st). rewrite (IHb _ eq_refl). reflexivity.
  - rewrite (e_u1_sem _ _ _ st H), (IHa _ eq_refl). reflexivity.
  - rewrite (e_u2_sem _ _ _ _ st H), (IHa _ eq_refl). destruct (denote RO pw tr next a st). rewrite (IHb _ eq_refl). reflexivity.
Qed.
End Alg.

(** * identities and refusals of the overloads *)
Lemma add0_identity (e : pexpr R) : p_add RO e (ONum 0) = Ok e.
Proof. cbn [p_add]. ro. rewrite Reqb_refl. reflexivity. Qed.
Lemma mul1_identity (e : pexpr R) : p_mul RO e (ONum 1) = Ok e.
Proof. cbn [p_mul]. ro. rewrite Reqb_1_0, Reqb_refl. reflexivity. Qed.
Lemma mul0_raises (e : pexpr R) : p_mul RO e (ONum 0) = Err TypeErr.
Proof. cbn [p_mul]. ro. rewrite Reqb_refl. reflexivity. Qed.
Lemma bad_type_raises (e : pexpr R) :
  p_add RO e OBad = Err TypeErr /\ p_mul RO e OBad = Err TypeErr /\ p_sub RO e OBad = Err TypeErr /\
  p_div RO e OBad = Err TypeErr /\ p_rsub RO e OBad = Err TypeErr /\ p_rdiv RO e OBad = Err TypeErr.
Proof. repeat split; try reflexivity.
  unfold p_rsub, p_neg. cbn [p_mul]. ro. rewrite Reqb_m1_0, Reqb_m1_1. reflexivity. Qed.
(** the same through Python's dispatch, on either side, for any derived prior *)
Lemma elab_identities pw tr (s : sexpr R) e : elab RO pw tr s = Ok e -> is_num e = false ->
  elab RO pw tr (SAdd s (SNum 0)) = Ok e /\ elab RO pw tr (SAdd (SNum 0) s) = Ok e /\
  elab RO pw tr (SSub s (SNum 0)) = Ok e /\
  elab RO pw tr (SMul s (SNum 1)) = Ok e /\ elab RO pw tr (SMul (SNum 1) s) = Ok e /\
  elab RO pw tr (SDiv s (SNum 1)) = Ok e /\
  elab RO pw tr (SMul s (SNum 0)) = Err TypeErr /\ elab RO pw tr (SMul (SNum 0) s) = Err TypeErr /\
  elab RO pw tr (SDiv (SNum 0) s) = Err TypeErr /\
  elab RO pw tr (SDiv s (SNum 0)) = Err ZeroDiv.
Proof. intros H Hn. cbn [elab bind]. rewrite H. cbn [bind].
  assert (E0 : Reqb (- 0) 0 = true) by (apply Reqb_true; lra).
  assert (E1 : Reqb (1 * / 1) 0 = false) by (apply Reqb_false; rewrite Rinv_1; lra).
  assert (E2 : Reqb (1 * / 1) 1 = true) by (apply Reqb_true; rewrite Rinv_1; lra).
  destruct e; try discriminate; cbn [e_add e_sub e_mul e_div to_operand p_add p_sub p_mul p_div p_rdiv o_neg]; ro;
    rewrite ?Reqb_refl, ?Reqb_1_0, ?E0, ?E1, ?E2; cbn [p_add p_mul]; ro; rewrite ?Reqb_refl, ?Reqb_1_0, ?E0, ?E1, ?E2;
    repeat split; reflexivity. Qed.

(** * guess and samples of a derived prior *)
Lemma nth_repeat_lt {A} (x d : A) n k : (k < n)%nat -> nth k (repeat x n) d = x.
Proof. revert k; induction n as [|n IH]; intros k Hk; [lia|]. destruct k; simpl; [reflexivity|apply IH; lia]. Qed.

Section Vec.
Variables (pw : R -> R -> R) (tr : ufunc1 -> R -> R).
Definition col (k : nat) (draws : list (list R)) : list R := map (fun d => nth k d 0) draws.
Lemma samplen_spec n e : forall draws, Forall (fun d => length d = n) draws ->
  let '(r, rest) := samplen RO pw tr n e draws in
  length r = n /\ Forall (fun d => length d = n) rest /\
  forall k, (k < n)%nat -> sample1 RO pw tr e (col k draws) = (nth k r 0, col k rest).
Proof. unfold samplen, sample1. induction e as [x|i|f a IHa|f a IHa b IHb]; intros draws HF; cbn [evalS].
  - split; [apply repeat_length|]. split; [exact HF|]. intros k Hk. rewrite nth_repeat_lt by exact Hk. reflexivity.
  - destruct draws as [|d t]; cbn [hd tl].
    + split; [apply repeat_length|]. split; [constructor|]. intros k Hk. cbn. rewrite nth_repeat_lt by exact Hk. reflexivity.
    + inversion HF; subst. split; [reflexivity|]. split; [assumption|]. intros k Hk. reflexivity.
  - specialize (IHa draws HF). destruct (evalS _ _ _ _ a draws) as [r rest]. destruct IHa as (L & F & P).
    split; [rewrite map_length; exact L|]. split; [exact F|]. intros k Hk. rewrite (P k Hk).
    f_equal. rewrite (nth_indep (map (app1 RO tr f) r) 0 (app1 RO tr f 0)) by (rewrite map_length; lia). rewrite map_nth. reflexivity.
  - specialize (IHa draws HF). destruct (evalS _ _ _ _ a draws) as [ra rest1]. destruct IHa as (La & Fa & Pa).
    specialize (IHb rest1 Fa). destruct (evalS _ _ _ _ b rest1) as [rb rest2]. destruct IHb as (Lb & Fb & Pb).
    unfold map2. split; [rewrite map_length, combine_length; lia|]. split; [exact Fb|]. intros k Hk.
    rewrite (Pa k Hk), (Pb k Hk). f_equal.
    rewrite (nth_indep (map (fun xy : R * R => app2 RO pw f (fst xy) (snd xy)) (combine ra rb)) 0
                       ((fun xy : R * R => app2 RO pw f (fst xy) (snd xy)) (0, 0)))
      by (rewrite map_length, combine_length; lia).
    rewrite (map_nth (fun xy : R * R => app2 RO pw f (fst xy) (snd xy))). rewrite combine_nth by lia. reflexivity. Qed.
End Vec.

(** guess of whatever an operator expression builds = the expression on the base guesses *)
Lemma guess_elab pw tr genv (s : sexpr R) e : elab RO pw tr s = Ok e ->
  guess RO pw tr genv e = fst (denote RO pw tr (fun i (_ : unit) => (genv i, tt)) s tt).
Proof. intros H. unfold guess. f_equal. apply (elab_sem pw tr _ s e H). Qed.
Lemma sample_elab pw tr (s : sexpr R) e draws : elab RO pw tr s = Ok e ->
  sample1 RO pw tr e draws = denote RO pw tr (next_draw 0) s draws.
Proof. intros H. apply (elab_sem pw tr _ s e H). Qed.

(** * Q instance computes what the R instance is proved about (decisions and rational parts) *)
Definition eb2r (b : ebound Q) : ebound R := match b with NegInf => NegInf | PosInf => PosInf | Fin x => Fin (Q2R x) end.
Lemma outside_QR lo hi p : outside QO lo hi p = outside RO (eb2r lo) (eb2r hi) (Q2R p).
Proof. unfold outside, lt_lo, gt_hi. destruct lo, hi; cbn [eb2r]; q2r. Qed.
Lemma ege_QR lo hi : ege QO lo hi = ege RO (eb2r lo) (eb2r hi).
Proof. unfold ege. destruct lo, hi; cbn [eb2r]; q2r. Qed.
Lemma refill_QR lo hi : forall val stream,
  option_map (fun p => (map Q2R (fst p), map Q2R (snd p))) (refill QO lo hi val stream) =
  refill RO (eb2r lo) (eb2r hi) (map Q2R val) (map Q2R stream).
Proof. induction val as [|v t IH]; intros stream; cbn [refill map]; [reflexivity|].
  rewrite <- outside_QR. destruct (outside QO lo hi v).
  - destruct stream as [|d s0]; [reflexivity|]. cbn [map]. rewrite <- IH.
    destruct (refill QO lo hi t s0) as [[t' s'']|]; reflexivity.
  - rewrite <- IH. destruct (refill QO lo hi t stream) as [[t' s'']|]; reflexivity. Qed.
Lemma all_inside_QR lo hi val : all_inside QO lo hi val = all_inside RO (eb2r lo) (eb2r hi) (map Q2R val).
Proof. unfold all_inside. induction val as [|v t IH]; cbn [forallb map]; [reflexivity|].
  rewrite outside_QR, IH. reflexivity. Qed.
Lemma bg_loop_QR lo hi : forall fuel val stream,
  option_map (map Q2R) (bg_loop QO lo hi fuel val stream) =
  bg_loop RO (eb2r lo) (eb2r hi) fuel (map Q2R val) (map Q2R stream).
Proof. induction fuel as [|f IH]; intros val stream; cbn [bg_loop]; [reflexivity|].
  rewrite <- all_inside_QR. destruct (all_inside QO lo hi val); [reflexivity|].
  rewrite <- refill_QR. destruct (refill QO lo hi val stream) as [[val' s']|]; cbn [option_map fst snd]; [apply IH|reflexivity]. Qed.

(** * base samplers as functions of the generator's standard draws *)
Lemma s2pi_pos : 0 < sqrt (2 * PI).
Proof. apply sqrt_lt_R0. pose proof PI_RGT_0. lra. Qed.
Lemma uniform_sample_in_support a b u : a < b -> 0 <= u < 1 ->
  a <= uniform_sample RO a b u < b /\ in_support (Fin a) (Fin b) (uniform_sample RO a b u).
Proof. intros H Hu. unfold uniform_sample, in_support. ro. repeat split; nra. Qed.
Lemma gaussian_sample_standardises mu sd z : 0 < sd -> (gaussian_sample RO mu sd z - mu) / sd = z.
Proof. unfold gaussian_sample. ro. intros. field. lra. Qed.

(** * scale / unscale of constructed priors (the scale factor is never 0) *)
Lemma ctor_scale_inverse lnf s :
  (forall lo hi g u x, uniform_ctor RO lnf lo hi g = Ok u ->
     unscale RO (u_scale u) (scale RO (u_scale u) x) = x /\ scale RO (u_scale u) (unscale RO (u_scale u) x) = x) /\
  (forall mu sd g x, gaussian_ctor RO lnf s mu sd = Ok g ->
     unscale RO (g_scale g) (scale RO (g_scale g) x) = x /\ scale RO (g_scale g) (unscale RO (g_scale g) x) = x) /\
  (forall mu sd lo hi b x, bgaussian_ctor RO lnf s mu sd lo hi = Ok b ->
     unscale RO (g_scale (bg_g b)) (scale RO (g_scale (bg_g b)) x) = x /\
     scale RO (g_scale (bg_g b)) (unscale RO (g_scale (bg_g b)) x) = x).
Proof. repeat split; intros.
  1,2: apply scale_unscale; pose proof (uniform_scale_pos _ _ _ _ _ H); lra.
  1,2: apply scale_unscale; apply gaussian_ctor_ok in H; lra.
  1,2: apply scale_unscale; apply bgaussian_ctor_ok in H; destruct H as (_ & _ & _ & _ & H);
       apply gaussian_ctor_ok in H; lra. Qed.
(** the scale factors themselves, as the constructors compute them *)
Lemma scale_factor_values lnf s :
  (forall lo hi g u, uniform_ctor RO lnf lo hi g = Ok u ->
     u_scale u = if Rlt_dec (eps12 RO) (Rabs (u_guess u)) then Rabs (u_guess u)
                 else match interval RO lo hi with Some w => w / 10 | None => 1 end) /\
  (forall mu sd g, gaussian_ctor RO lnf s mu sd = Ok g ->
     g_scale g = if Rlt_dec (eps12 RO) (Rabs mu) then Rabs mu else sd).
Proof. split; intros.
  - apply uniform_ctor_ok in H. destruct H as (_ & _ & _ & _ & _ & -> & _). unfold scale_of. rewrite tabs_abs. ro.
    unfold Rltb. destruct (Rlt_dec (eps12 RO) (Rabs (u_guess u))); [reflexivity|]. destruct (interval RO lo hi); reflexivity.
  - unfold gaussian_ctor in H. destruct (leb RO sd (zero RO)); [discriminate|]. injection H as <-. cbn [g_scale].
    rewrite tabs_abs. unfold eps12. ro. unfold Rltb. destruct (Rlt_dec _ (Rabs mu)); reflexivity. Qed.

(** * closed forms (used by the interval-enclosure correspondence and as the textbook densities) *)
Lemma gaussian_lnprob_closed s mu sd g p : gaussian_ctor RO ln s mu sd = Ok g ->
  gaussian_lnprob RO g p = - ln (sd * s) - (p - mu) * (p - mu) / (2 * (sd * sd)).
Proof. intros H. apply gaussian_ctor_ok in H. destruct H as (_ & Hm & Hs & Hn & _).
  unfold gaussian_lnprob, two. rewrite Hm, Hs, Hn. ro. reflexivity. Qed.
Lemma gaussian_prob_closed lnf s mu sd g p : gaussian_ctor RO lnf s mu sd = Ok g ->
  gaussian_prob RO exp s g p = exp (- (((p - mu) / sd) * ((p - mu) / sd)) / 2) / (s * sd).
Proof. intros H. apply gaussian_ctor_ok in H. destruct H as (_ & Hm & Hs & _).
  unfold gaussian_prob, two. rewrite Hm, Hs. ro. reflexivity. Qed.
Lemma uniform_lnprob_inside a b g u p : uniform_ctor RO ln (Fin a) (Fin b) g = Ok u -> a <= p <= b ->
  uniform_lnprob RO u p = Some (ln (1 / (b - a))).
Proof. intros H Hp. pose proof (uniform_ctor_ok _ _ _ _ _ H) as (He & Hl & Hh & _ & _ & _ & Hlnp).
  unfold uniform_lnprob. rewrite Hl, Hh.
  assert (E : outside RO (Fin a) (Fin b) p = false) by (apply outside_false; unfold in_support; lra).
  rewrite E, Hlnp. reflexivity. Qed.
(** the Gaussian density is the textbook one *)
Lemma gaussian_prob_textbook mu sd g p : gaussian_ctor RO ln (sqrt (2 * PI)) mu sd = Ok g ->
  gaussian_prob RO exp (sqrt (2 * PI)) g p = / (sd * sqrt (2 * PI)) * exp (- ((p - mu) ^ 2) / (2 * sd ^ 2)).
Proof. intros H. rewrite (gaussian_prob_closed _ _ _ _ _ _ H). apply gaussian_ctor_ok in H. destruct H as (Hsd & _).
  pose proof s2pi_pos. unfold Rdiv. rewrite Rmult_comm. f_equal; [f_equal; ring|]. f_equal. field. lra. Qed.

(** * the property's clauses, collected *)
Lemma exp_lnprob_all :
  (forall lo hi g u p, uniform_ctor RO ln lo hi g = Ok u -> interval RO lo hi <> None ->
     exp_e (uniform_lnprob RO u p) = uniform_prob RO u p) /\
  (forall mu sd g p, gaussian_ctor RO ln (sqrt (2 * PI)) mu sd = Ok g ->
     exp (gaussian_lnprob RO g p) = gaussian_prob RO exp (sqrt (2 * PI)) g p) /\
  (forall mu sd lo hi b p, bgaussian_ctor RO ln (sqrt (2 * PI)) mu sd lo hi = Ok b ->
     exp_e (bgaussian_lnprob RO b p) = bgaussian_prob RO exp (sqrt (2 * PI)) b p).
Proof. repeat split; intros.
  - eapply uniform_exp_lnprob; eauto.
  - eapply gaussian_exp_lnprob; [apply s2pi_pos|eauto].
  - eapply bgaussian_exp_lnprob; [apply s2pi_pos|eauto]. Qed.
Lemma zero_outside_all expf s :
  (forall u p, ~ in_support (u_lo u) (u_hi u) p -> uniform_prob RO u p = 0 /\ uniform_lnprob RO u p = None) /\
  (forall b p, ~ in_support (bg_lo b) (bg_hi b) p ->
     bgaussian_prob RO expf s b p = 0 /\ bgaussian_lnprob RO b p = None).
Proof. split; intros; [apply uniform_zero_outside|apply bgaussian_zero_outside]; assumption. Qed.
Lemma guess_in_support_all lnf s :
  (forall lo hi g u, uniform_ctor RO lnf lo hi g = Ok u -> in_support (u_lo u) (u_hi u) (u_guess u)) /\
  (forall mu sd lo hi b, bgaussian_ctor RO lnf s mu sd lo hi = Ok b ->
     in_support (bg_lo b) (bg_hi b) (g_mu (bg_g b))).
Proof. split; intros; [eapply uniform_guess_in_support|eapply bgaussian_guess_in_support]; eauto. Qed.
Lemma ctor_rejects_all lnf s :
  (forall lo hi g, uniform_ctor RO lnf lo hi g = Err ParamSpec <->
     (~ elt lo hi \/ match g with Some x => ~ in_support lo hi x | None => False end)) /\
  (forall mu sd, gaussian_ctor RO lnf s mu sd = Err ParamSpec <-> sd <= 0) /\
  (forall mu sd lo hi, bgaussian_ctor RO lnf s mu sd lo hi = Err ParamSpec <->
     (~ in_support lo hi mu \/ ebound_eqb RO lo hi = true \/ sd <= 0)).
Proof. split; [|split]; intros;
  [apply uniform_ctor_rejects_iff|apply gaussian_ctor_rejects_iff|apply bgaussian_ctor_rejects_iff]. Qed.
Lemma add0_mul1_all (e : pexpr R) : p_add RO e (ONum 0) = Ok e /\ p_mul RO e (ONum 1) = Ok e.
Proof. split; [apply add0_identity|apply mul1_identity]. Qed.

(** sample(n) of whatever an operator expression builds: entry k = the expression on the k-th
    entries of the base draws *)
Lemma samplen_elab pw tr n (s : sexpr R) e draws : elab RO pw tr s = Ok e ->
  Forall (fun d => length d = n) draws ->
  length (fst (samplen RO pw tr n e draws)) = n /\
  forall k, (k < n)%nat ->
    nth k (fst (samplen RO pw tr n e draws)) 0 = fst (denote RO pw tr (next_draw 0) s (col k draws)).
Proof. intros H HF. pose proof (samplen_spec pw tr n e draws HF) as P.
  destruct (samplen RO pw tr n e draws) as [r rest]. destruct P as (L & _ & P). split; [exact L|].
  intros k Hk. cbn [fst]. rewrite <- (sample_elab pw tr s e _ H). rewrite (P k Hk). reflexivity. Qed.

Lemma bg_sample_QR lo hi n stream :
  option_map (map Q2R) (bg_sample QO lo hi false n stream) =
  bg_sample RO (eb2r lo) (eb2r hi) false n (map Q2R stream).
Proof. unfold bg_sample. rewrite map_length, firstn_map, skipn_map. apply bg_loop_QR. Qed.

(** * enclosure entry points: the correspondence check states its numeric goals on the model
    itself and reduces them by these lemmas to closed real expressions for [interval] *)
Lemma gaussian_lnprob_enclosure mu sd p y tol : 0 < sd ->
  Rabs ((- ln (sd * sqrt (2 * PI)) - (p - mu) * (p - mu) / (2 * (sd * sd))) - y) <= tol ->
  exists g, gaussian_ctor RO ln (sqrt (2 * PI)) mu sd = Ok g /\ Rabs (gaussian_lnprob RO g p - y) <= tol.
Proof. intros Hsd H. destruct (gaussian_ctor RO ln (sqrt (2 * PI)) mu sd) as [g|e] eqn:E.
  - exists g. split; [reflexivity|]. rewrite (gaussian_lnprob_closed _ _ _ _ p E). exact H.
  - destruct e; unfold gaussian_ctor in E; destruct (leb RO sd (zero RO)) eqn:E3; try discriminate.
    ro. apply Rleb_true in E3. lra. Qed.
Lemma gaussian_prob_enclosure mu sd p y tol : 0 < sd ->
  Rabs (exp (- (((p - mu) / sd) * ((p - mu) / sd)) / 2) / (sqrt (2 * PI) * sd) - y) <= tol ->
  exists g, gaussian_ctor RO ln (sqrt (2 * PI)) mu sd = Ok g /\
            Rabs (gaussian_prob RO exp (sqrt (2 * PI)) g p - y) <= tol.
Proof. intros Hsd H. destruct (gaussian_ctor RO ln (sqrt (2 * PI)) mu sd) as [g|e] eqn:E.
  - exists g. split; [reflexivity|]. rewrite (gaussian_prob_closed _ _ _ _ _ p E). exact H.
  - destruct e; unfold gaussian_ctor in E; destruct (leb RO sd (zero RO)) eqn:E3; try discriminate.
    ro. apply Rleb_true in E3. lra. Qed.
Lemma uniform_lnprob_enclosure a b p y tol : a < b -> a <= p <= b ->
  Rabs (ln (1 / (b - a)) - y) <= tol ->
  exists u, uniform_ctor RO ln (Fin a) (Fin b) None = Ok u /\
            match uniform_lnprob RO u p with Some l => Rabs (l - y) <= tol | None => False end.
Proof. intros Hab Hp H. destruct (proj2 (uniform_ctor_accepts_iff ln (Fin a) (Fin b) None)) as [u Hu].
  { split; [exact Hab|exact I]. }
  exists u. split; [exact Hu|]. rewrite (uniform_lnprob_inside _ _ _ _ _ Hu Hp). exact H. Qed.

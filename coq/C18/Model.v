(** C18 - image-processing identities.  Executable model (no proofs here).
    Anchors: core/process/img_proc.py (normalize, detrend, zero_filter, subimage, bg_correct),
    core/io/io.py (Accumulator), core/prior.py (make_center_priors arithmetic).
    Pure-number logic is generic over [Ops T] (run on Q, proved on R); the crop is discrete
    (Z slice arithmetic, round-half-even on Q, polymorphic pixel type).
    Oracles (not modelled): scipy gaussian_filter / sobel and the Hough vote of center_find
    (explored only), numpy sqrt in Accumulator.std (enters as the relation s*s = m2/n). *)
From Coq Require Import ZArith QArith Qround List Bool.
From HV Require Import Common.Generic.
Import ListNotations.

Section Gen.
Context {T : Type} (O : Ops T).
Declare Scope t_scope. Delimit Scope t_scope with t.
Local Notation "x + y" := (add O x y) : t_scope. Local Notation "x * y" := (mul O x y) : t_scope.
Local Notation "x - y" := (sub O x y) : t_scope. Local Notation "- x" := (opp O x) : t_scope.
Local Notation "x / y" := (mul O x (inv O y)) : t_scope.
Local Notation "x <? y" := (ltb O x y) : t_scope. Local Notation "x <=? y" := (leb O x y) : t_scope.
Local Open Scope t_scope.

Definition tnat (k : nat) : T := ofZ O (Z.of_nat k).
Definition two : T := one O + one O.

Fixpoint tsum (l : list T) : T := match l with [] => zero O | x :: t => x + tsum t end.
Definition tlen (l : list T) : T := tnat (length l).
Definition tmean (l : list T) : T := tsum l / tlen l.

(** ** normalize: image * 1.0 / image.sum() * image.size   (flattened pixel list) *)
Definition normalize (l : list T) : list T :=
  let s := tsum l in let n := tlen l in map (fun v => v * one O / s * n) l.

(** ** images as total functions of (row index along x, column index along y) with explicit sizes *)
Definition image : Type := nat -> nat -> T.
Definition tabulate {A} (nx ny : nat) (g : nat -> nat -> A) : list (list A) :=
  map (fun i => map (fun j => g i j) (seq 0 ny)) (seq 0 nx).
Definition getpix (rows : list (list T)) : image := fun i j => nth j (nth i rows []) (zero O).
Definition getc (l : list T) : nat -> T := fun i => nth i l (zero O).

Fixpoint seq_opt {A} (l : list (option A)) : option (list A) :=
  match l with
  | [] => Some []
  | None :: _ => None
  | Some x :: t => match seq_opt t with Some r => Some (x :: r) | None => None end
  end.
Definition all_some {A} (l : list (list (option A))) : option (list (list A)) := seq_opt (map seq_opt l).

(** ** zero_filter
    filtered = where(image > 0, image, nan); interpolate_na(dim=x), interpolate_na(dim=y) (1-D linear
    interpolation in the COORDINATE between the nearest valid neighbours, no extrapolation);
    mean over the two results skipping NaN; BadImage if a NaN is left. *)
Fixpoint prev_pos (v : nat -> T) (i : nat) : option nat :=
  match i with
  | 0%nat => None
  | S k => if zero O <? v k then Some k else prev_pos v k
  end.
Fixpoint next_pos (v : nat -> T) (i fuel : nat) : option nat :=
  match fuel with
  | 0%nat => None
  | S fu => if zero O <? v (S i) then Some (S i) else next_pos v (S i) fu
  end.
(** numpy.interp: slope = (fp[j+1]-fp[j])/(xp[j+1]-xp[j]); slope*(x - xp[j]) + fp[j] *)
Definition interp1 (n : nat) (xc : nat -> T) (v : nat -> T) (i : nat) : option T :=
  if zero O <? v i then Some (v i)
  else match prev_pos v i, next_pos v i (n - 1 - i) with
       | Some a, Some b => Some ((v b - v a) / (xc b - xc a) * (xc i - xc a) + v a)
       | _, _ => None
       end.
Definition zf_pix (nx ny : nat) (xc yc : nat -> T) (f : image) (i j : nat) : option T :=
  match interp1 nx xc (fun i' => f i' j) i, interp1 ny yc (fun j' => f i j') j with
  | Some p, Some q => Some ((p + q) / two)
  | Some p, None => Some p
  | None, Some q => Some q
  | None, None => None
  end.
(** None = BadImage raised *)
Definition zero_filter (nx ny : nat) (xc yc : nat -> T) (f : image) : option (list (list T)) :=
  all_some (tabulate nx ny (zf_pix nx ny xc yc f)).

(** ** bg_correct: (raw - df) / zero_filter(bg - df); df = 0 when not given *)
Definition imsub (f g : image) : image := fun i j => f i j - g i j.
Definition zero_img : image := fun _ _ => zero O.
Definition bgc_pix (nx ny : nat) (xc yc : nat -> T) (raw bg df : image) (i j : nat) : option T :=
  match zf_pix nx ny xc yc (imsub bg df) i j with
  | Some d => Some ((raw i j - df i j) / d)
  | None => None
  end.
Fixpoint tlist_eqb (a b : list T) : bool :=
  match a, b with
  | [], [] => true
  | x :: a', y :: b' => eqb O x y && tlist_eqb a' b'
  | _, _ => false
  end.
Fixpoint zl_eqb (a b : list Z) : bool :=
  match a, b with
  | [], [] => true
  | x :: a', y :: b' => Z.eqb x y && zl_eqb a' b'
  | _, _ => false
  end.
(** raw.shape == bg.shape == df.shape and list(spacing raw) == list(spacing bg) == list(spacing df) *)
Definition bg_guard (sr sb sd : list Z) (pr pb pd : list T) : bool :=
  zl_eqb sr sb && zl_eqb sb sd && tlist_eqb pr pb && tlist_eqb pb pd.
(** None = BadImage (guard or dead corner) *)
Definition bg_correct (guard : bool) (nx ny : nat) (xc yc : nat -> T) (raw bg df : image)
  : option (list (list T)) :=
  if guard then all_some (tabulate nx ny (bgc_pix nx ny xc yc raw bg df)) else None.
(** noise_sd of the result: raw's, or bg's when raw's is None *)
Definition bg_noise (raw_sd bg_sd : option T) : option T :=
  match raw_sd with Some s => Some s | None => bg_sd end.

(** ** detrend = dt along y after dt along x;  dt = scipy.signal.detrend(type='linear'):
    subtract the least-squares line (normal equations on the index 0..n-1; any affine
    re-parametrisation of the index, such as scipy's (k+1)/n, gives the same residual) *)
Definition idx_sum (n : nat) (g : nat -> T) : T := tsum (map g (seq 0 n)).
Definition dt_seq (n : nat) (v : nat -> T) (k : nat) : T :=
  let s0 := tnat n in
  let s1 := idx_sum n tnat in
  let s2 := idx_sum n (fun i => tnat i * tnat i) in
  let sv := idx_sum n v in
  let skv := idx_sum n (fun i => tnat i * v i) in
  let b := (s0 * skv - s1 * sv) / (s0 * s2 - s1 * s1) in
  let a := (sv - b * s1) / s0 in
  v k - (a + b * tnat k).
Definition detrend (nx ny : nat) (f : image) : image :=
  fun i j => dt_seq ny (fun j' => dt_seq nx (fun i' => f i' j') i) j.
Definition plane (a b c : T) : image := fun i j => a + b * tnat i + c * tnat j.
Definition imadd (f g : image) : image := fun i j => f i j + g i j.

(** ** Accumulator (Welford).  state = (n, running_mean, running_var[= sum of squared deviations]) *)
Definition acc : Type := (Z * T * T)%type.
Definition acc_init : acc := (0%Z, zero O, zero O).
Definition push (a : acc) (x : T) : acc :=
  let '(n, m, v) := a in
  let n' := (n + 1)%Z in
  if Z.eqb n' 1 then (n', x * zero O + x, x * zero O)
  else
    let v' := v + (x - m) * (x - (m + (x - m) / ofZ O n')) in
    let m' := m + (x - m) / ofZ O n' in
    (n', m', v').
Definition acc_mean (a : acc) : T := let '(n, m, v) := a in m.   (* 0.0 when nothing pushed *)
(** std() = None when n = 0, else sqrt(var / n): [acc_var] is the argument of that sqrt *)
Definition acc_var (a : acc) : option T :=
  let '(n, m, v) := a in if Z.eqb n 0 then None else Some (v / ofZ O n).
Definition push_all (l : list T) : acc := fold_left push l acc_init.
(** batch values *)
Definition batch_m2 (l : list T) : T := tsum (map (fun x => (x - tmean l) * (x - tmean l)) l).
Definition batch_var (l : list T) : T := batch_m2 l / tlen l.

(** ** make_center_priors arithmetic: Gaussian(center_find*spacing + origin, uncertainty*spacing) per axis,
    Uniform(0, max(extent_x, extent_y) * z_range_extents) *)
Definition center_prior (cf sp org unc : T) : T * T := (cf * sp + org, unc * sp).
Fixpoint diffs (l : list T) : list T :=
  match l with
  | x :: ((y :: _) as t) => (y - x) :: diffs t
  | _ => []
  end.
Definition extent (l : list T) : T :=
  match l with
  | x0 :: _ :: _ => last l (zero O) - x0 + tsum (diffs l) / tnat (length l - 1)
  | _ => zero O
  end.
Definition tmax (a b : T) : T := if a <? b then b else a.
Definition z_range (xs ys : list T) (zre : T) : T * T := (zero O, tmax (extent xs) (extent ys) * zre).
End Gen.

(** ** subimage: np.round (half to even) and python slice arithmetic *)
Definition rhe (q : Q) : Z :=
  let f := Qfloor q in
  match Qcompare (q - inject_Z f) (1 # 2) with
  | Lt => f
  | Gt => (f + 1)%Z
  | Eq => if Z.even f then f else (f + 1)%Z
  end.
(** extent = slice(int(round(c - s/2)), int(round(c + s/2))) with c = round(center) *)
Definition crop_extent (c : Q) (s : Z) : Z * Z :=
  let ci := inject_Z (rhe c) in
  (rhe (ci - inject_Z s / 2), rhe (ci + inject_Z s / 2))%Q.
(** python slice(lo, hi) on a sequence of length n: negative indices count from the end, then clip *)
Definition slice_norm (n i : Z) : Z := if (i <? 0)%Z then Z.max (i + n) 0 else Z.min i n.
Definition pyslice {A} (lo hi : Z) (l : list A) : list A :=
  let n := Z.of_nat (length l) in
  let a := slice_norm n lo in let b := slice_norm n hi in
  firstn (Z.to_nat (b - a)) (skipn (Z.to_nat a) l).

Record cimage (C A : Type) := mkC { cxs : list C; cys : list C; cpix : list (list A) }.
Arguments mkC {C A}. Arguments cxs {C A}. Arguments cys {C A}. Arguments cpix {C A}.
Definition crop {C A} (im : cimage C A) (ex ey : Z * Z) : cimage C A :=
  mkC (pyslice (fst ex) (snd ex) (cxs im)) (pyslice (fst ey) (snd ey) (cys im))
      (map (pyslice (fst ey) (snd ey)) (pyslice (fst ex) (snd ex) (cpix im))).
(** argument handling: scalar shape is repeated ndim times; a sequence must have ndim entries
    (AssertionError otherwise); extents are built from zip(center, shape); the first goes to x, the
    second to y (IndexError if fewer than two). None = an exception is raised. *)
Definition crop_args (ndim : nat) (center : list Q) (shape : Z + list Z) : option ((Z * Z) * (Z * Z)) :=
  let sh := match shape with inl s => repeat s ndim | inr l => l end in
  if negb (Nat.eqb (length sh) ndim) then None
  else match map (fun cs => crop_extent (fst cs) (snd cs)) (combine center sh) with
       | ex :: ey :: _ => Some (ex, ey)
       | _ => None
       end.
Definition subimage {C A} (ndim : nat) (im : cimage C A) (center : list Q) (shape : Z + list Z)
  : option (cimage C A) :=
  match crop_args ndim center shape with Some (ex, ey) => Some (crop im ex ey) | None => None end.

(** ** second executable instance: the same rational field with every result reduced to lowest terms.
    Long folds (Welford pushes, least-squares sums) square the denominators at every step on [QO];
    [QOr] keeps them small.  Both instances are linked to [RO] by the same lemma (Lemmas.v, [Link]). *)
Definition QOr : Ops Q :=
  mkOps Q 0%Q 1%Q (fun a b => Qred (a + b)) (fun a b => Qred (a * b)) (fun a b => Qred (a - b)) Qopp
        (fun a => Qred (/ a)) Qltb Qle_bool Qeq_bool (fun z => inject_Z z).

From Coq Require Import ZArith List Bool Reals QArith Lra.
From HV Require Import Common.Generic C18.Model C18.Lemmas.

(** C18 property theorems: statements only; proofs are in Lemmas.v.
    [RO] instance = object of the theorems; the [QO] instance that the correspondence executes against the
    implementation computes the same values (the [*_agrees_on_Q] theorems; unconditional because 1/0 = 0 in
    both instances).  Indices: an image is a total function of (row i along x, column j along y) with explicit
    sizes nx, ny; pixel (S i, S j) with S (S i) < nx is an interior pixel. *)
From Coq Require Import ZArith QArith Qround Qabs Qreals Reals List Bool Lra Lia Permutation.
From HV Require Import Common.Generic Common.Cmp C18.Model C18.Lemmas.
Import ListNotations.
Local Open Scope R_scope.

(** ** normalize  (sum <> 0 is the property's own premise: the mean must exist) *)
Theorem normalize_mean1 : forall l : list R, tsum RO l <> 0 -> tmean RO (normalize RO l) = 1.
Proof. exact normalize_mean1. Qed.
Print Assumptions normalize_mean1.

Theorem normalize_idem : forall l : list R, tsum RO l <> 0 -> normalize RO (normalize RO l) = normalize RO l.
Proof. exact normalize_idem. Qed.
Print Assumptions normalize_idem.

(* any non-zero factor, in particular every positive one *)
Theorem normalize_scale_inv : forall (l : list R) c, c <> 0 -> tsum RO l <> 0 ->
  normalize RO (map (fun v => c * v) l) = normalize RO l.
Proof. exact normalize_scale_inv. Qed.
Print Assumptions normalize_scale_inv.

(** ** bg_correct *)
Theorem bg_formula : forall nx ny xc yc (raw bg df : image (T:=R)),
  (forall i j, (i < nx)%nat -> (j < ny)%nat -> 0 < bg i j - df i j) ->
  bg_correct RO true nx ny xc yc raw bg df =
  Some (tabulate nx ny (fun i j => (raw i j - df i j) / (bg i j - df i j))).
Proof. exact bg_formula. Qed.
Print Assumptions bg_formula.

(* pixelwise, also when other background pixels are dead *)
Theorem bg_formula_pixel : forall nx ny xc yc (raw bg df : image (T:=R)) i j, 0 < bg i j - df i j ->
  bgc_pix RO nx ny xc yc raw bg df i j = Some ((raw i j - df i j) / (bg i j - df i j)).
Proof. exact bg_pix_formula. Qed.
Print Assumptions bg_formula_pixel.

Theorem bg_self_one : forall nx ny xc yc (raw : image (T:=R)),
  (forall i j, (i < nx)%nat -> (j < ny)%nat -> 0 < raw i j) ->
  bg_correct RO true nx ny xc yc raw raw (zero_img RO) = Some (tabulate nx ny (fun _ _ => 1)).
Proof. exact bg_self_one. Qed.
Print Assumptions bg_self_one.

(* refusals: shape/spacing guard, and a background that is dead in a corner *)
Theorem bg_refusals : forall nx ny xc yc (raw bg df : image (T:=R)),
  bg_correct RO false nx ny xc yc raw bg df = None /\
  forall g i j, is_corner nx ny i j -> (i < nx)%nat -> (j < ny)%nat -> bg i j - df i j <= 0 ->
     bg_correct RO g nx ny xc yc raw bg df = None.
Proof. intros. split; [apply bg_guard_false|intros g i j; apply bg_dead_corner]. Qed.
Print Assumptions bg_refusals.

(** ** subimage *)
(* whatever the extents (fitting, clipped, wrapped by negative indices): every retained pixel keeps its value
   and both physical coordinates; the result is again a well-formed image of the predicted size *)
Theorem crop_values_coords : forall (C A : Type) (im : cimage C A) ex ey (dc : C) (da : A), cwf im ->
  let out := crop im ex ey in
  let ax := sl_lo (fst ex) (cxs im) in let ay := sl_lo (fst ey) (cys im) in
  cwf out /\
  length (cxs out) = sl_len (fst ex) (snd ex) (cxs im) /\
  length (cys out) = sl_len (fst ey) (snd ey) (cys im) /\
  forall p q, (p < length (cxs out))%nat -> (q < length (cys out))%nat ->
    nth p (cxs out) dc = nth (ax + p) (cxs im) dc /\
    nth q (cys out) dc = nth (ay + q) (cys im) dc /\
    nth q (nth p (cpix out) []) da = nth (ay + q) (nth (ax + p) (cpix im) []) da.
Proof. exact @crop_values_coords. Qed.
Print Assumptions crop_values_coords.

(* all centres (any rational: integer, half-integer, ...) and all even sizes that fit: exactly 2h pixels
   starting at round_half_even(c) - h *)
Theorem crop_fits_even : forall (A : Type) (l : list A) c h,
  (0 <= h)%Z -> (0 <= rhe c - h)%Z -> (rhe c + h <= Z.of_nat (length l))%Z ->
  let e := crop_extent c (2 * h) in
  sl_lo (fst e) l = Z.to_nat (rhe c - h) /\ sl_len (fst e) (snd e) l = Z.to_nat (2 * h).
Proof. exact @crop_fits_even. Qed.
Print Assumptions crop_fits_even.

Theorem crop_extent_even_odd : forall c h,
  crop_extent c (2 * h) = ((rhe c - h)%Z, (rhe c + h)%Z) /\
  crop_extent c (2 * h + 1) =
    (if Z.even (rhe c - h) then ((rhe c - h)%Z, (rhe c + h)%Z) else ((rhe c - h - 1)%Z, (rhe c + h + 1)%Z)).
Proof. intros. split; [apply crop_extent_even|apply crop_extent_odd]. Qed.
Print Assumptions crop_extent_even_odd.

(* np.round as modelled: a nearest integer, the even one at a tie, identity on integers *)
Theorem round_half_even_spec : forall q : Q,
  (Qabs (q - inject_Z (rhe q)) <= 1#2)%Q /\
  ((q - inject_Z (Qfloor q) == 1#2)%Q -> Z.even (rhe q) = true) /\
  forall z, rhe (inject_Z z) = z.
Proof. intros q. split; [apply rhe_nearest|split; [apply rhe_tie_even|apply rhe_int]]. Qed.
Print Assumptions round_half_even_spec.

Theorem subimage_arguments : forall (C A : Type) (im : cimage C A) ndim,
  (forall cx cy rest s, (2 <= ndim)%nat ->
     subimage ndim im (cx :: cy :: rest) (inl s) = Some (crop im (crop_extent cx s) (crop_extent cy s))) /\
  (forall center l, length l <> ndim -> subimage ndim im center (inr l) = None).
Proof. intros. split; [intros; apply subimage_scalar; assumption|intros; apply subimage_bad_arity; assumption]. Qed.
Print Assumptions subimage_arguments.

(** ** zero_filter  ([midway c i]: coordinate i+1 lies midway between i and i+2, e.g. any uniform grid) *)
Theorem zf_positive_kept : forall nx ny xc yc (f : image (T:=R)) i j, 0 < f i j ->
  zf_pix RO nx ny xc yc f i j = Some (f i j).
Proof. exact zf_positive_kept. Qed.
Print Assumptions zf_positive_kept.

Theorem zf_isolated_interior : forall nx ny xc yc (f : image (T:=R)) i j,
  f (S i) (S j) <= 0 -> 0 < f i (S j) -> 0 < f (S (S i)) (S j) -> 0 < f (S i) j -> 0 < f (S i) (S (S j)) ->
  (S (S i) < nx)%nat -> (S (S j) < ny)%nat -> midway xc i -> midway yc j ->
  zf_pix RO nx ny xc yc f (S i) (S j) =
  Some ((f i (S j) + f (S (S i)) (S j) + f (S i) j + f (S i) (S (S j))) / 4).
Proof. exact zf_isolated_interior. Qed.
Print Assumptions zf_isolated_interior.

(* the four edges: first/last row (i = 0 / nx <= S i), first/last column *)
Theorem zf_edge : forall nx ny xc yc (f : image (T:=R)),
  (forall i j, (i = 0%nat \/ (nx <= S i)%nat) ->
     f i (S j) <= 0 -> 0 < f i j -> 0 < f i (S (S j)) -> (S (S j) < ny)%nat -> midway yc j ->
     zf_pix RO nx ny xc yc f i (S j) = Some ((f i j + f i (S (S j))) / 2)) /\
  (forall i j, (j = 0%nat \/ (ny <= S j)%nat) ->
     f (S i) j <= 0 -> 0 < f i j -> 0 < f (S (S i)) j -> (S (S i) < nx)%nat -> midway xc i ->
     zf_pix RO nx ny xc yc f (S i) j = Some ((f i j + f (S (S i)) j) / 2)).
Proof. intros. split; intros i j [->|H].
  - apply zf_edge_x0. - apply zf_edge_x1, H. - apply zf_edge_y0. - apply zf_edge_y1, H. Qed.
Print Assumptions zf_edge.

Theorem zf_corner_rejected : forall nx ny xc yc (f : image (T:=R)) i j,
  is_corner nx ny i j -> (i < nx)%nat -> (j < ny)%nat -> f i j <= 0 -> zero_filter RO nx ny xc yc f = None.
Proof. exact zf_corner_rejected. Qed.
Print Assumptions zf_corner_rejected.

(* the returned image is the per-pixel result; one unfillable pixel refuses the image; a clean image is unchanged *)
Theorem zero_filter_image : forall nx ny xc yc (f : image (T:=R)),
  (forall rows, zero_filter RO nx ny xc yc f = Some rows ->
     forall i j, (i < nx)%nat -> (j < ny)%nat -> zf_pix RO nx ny xc yc f i j = Some (getpix RO rows i j)) /\
  (forall i j, (i < nx)%nat -> (j < ny)%nat -> zf_pix RO nx ny xc yc f i j = None ->
     zero_filter RO nx ny xc yc f = None) /\
  ((forall i j, (i < nx)%nat -> (j < ny)%nat -> 0 < f i j) -> zero_filter RO nx ny xc yc f = Some (tabulate nx ny f)).
Proof. intros. split; [apply zero_filter_sound|split; [apply zero_filter_refuses|apply zero_filter_all_positive]]. Qed.
Print Assumptions zero_filter_image.

(** ** detrend *)
(* with the 1-D detrender as an oracle constrained by three hypotheses *)
Theorem detrend_plane_oracle : forall dt : nat -> (nat -> R) -> nat -> R,
  (forall n u v k, dt n (fun i => u i + v i) k = dt n u k + dt n v k) ->
  (forall n u v k, (forall i, (i < n)%nat -> u i = v i) -> u k = v k -> dt n u k = dt n v k) ->
  (forall n a b k, (k < n)%nat -> dt n (fun i => a + b * tnat RO i) k = 0) ->
  forall nx ny f a b c i j, (i < nx)%nat -> (j < ny)%nat ->
    detrend_with dt nx ny (imadd RO f (plane RO a b c)) i j = detrend_with dt nx ny f i j.
Proof. exact detrend_with_plane. Qed.
Print Assumptions detrend_plane_oracle.

(* the least-squares line residual (the model of scipy.signal.detrend that the correspondence executes)
   satisfies the three hypotheses for every length *)
Theorem lsq_detrender_meets_oracle_hyps :
  (forall n u v k, dt_seq RO n (fun i => u i + v i) k = dt_seq RO n u k + dt_seq RO n v k) /\
  (forall n u v k, (forall i, (i < n)%nat -> u i = v i) -> u k = v k -> dt_seq RO n u k = dt_seq RO n v k) /\
  (forall n a b k, (k < n)%nat -> dt_seq RO n (fun i => a + b * tnat RO i) k = 0).
Proof. split; [exact dt_seq_add|split; [exact dt_seq_ext|exact dt_seq_affine]]. Qed.
Print Assumptions lsq_detrender_meets_oracle_hyps.

Theorem detrend_plane : forall nx ny (f : image (T:=R)) a b c i j, (i < nx)%nat -> (j < ny)%nat ->
  detrend RO nx ny (imadd RO f (plane RO a b c)) i j = detrend RO nx ny f i j /\
  detrend RO nx ny (plane RO a b c) i j = 0.
Proof. intros. split; [apply detrend_plane|apply detrend_of_plane]; assumption. Qed.
Print Assumptions detrend_plane.

(** ** Accumulator *)
Theorem welford_equals_batch : forall l : list R, l <> [] ->
  acc_mean (push_all RO l) = tmean RO l /\ acc_var RO (push_all RO l) = Some (batch_var RO l).
Proof. exact welford_mean_var. Qed.
Print Assumptions welford_equals_batch.

Theorem welford_order_independent : forall l l' : list R, Permutation l l' ->
  acc_mean (push_all RO l) = acc_mean (push_all RO l') /\ acc_var RO (push_all RO l) = acc_var RO (push_all RO l').
Proof. exact welford_order. Qed.
Print Assumptions welford_order_independent.

Theorem welford_nothing_pushed : acc_mean (push_all RO []) = 0 /\ acc_var RO (push_all RO []) = None.
Proof. exact welford_empty. Qed.
Print Assumptions welford_nothing_pushed.

(** ** make_center_priors *)
(* mean = centre*spacing + origin, sd = uncertainty*spacing; if the finder is within [unc] pixels of the true
   pixel position t, the true physical position is within one sd of the prior mean *)
Theorem center_prior_arith : forall cf sp org unc t, 0 < sp -> Rabs (cf - t) <= unc ->
  let '(mu, sd) := center_prior RO cf sp org unc in
  mu = cf * sp + org /\ sd = unc * sp /\ Rabs (mu - (t * sp + org)) <= sd.
Proof. exact center_prior_covers. Qed.
Print Assumptions center_prior_arith.

Theorem extent_is_span_plus_mean_step : forall (x y : R) t,
  extent RO (x :: y :: t) = (last (x :: y :: t) 0 - x) * (1 + / tnat RO (S (length t))).
Proof. exact extent_formula. Qed.
Print Assumptions extent_is_span_plus_mean_step.

(** ** the executed instances are the proved one: [QO] (plain rationals) and [QOr] (fractions reduced after
    every operation; used for long folds) both commute with Q2R, and any such instance computes, through every
    model function, the image under Q2R of what the R instance computes *)
Theorem executed_instances_are_homomorphic : hom QO /\ hom QOr.
Proof. split; [exact hom_QO|exact hom_QOr]. Qed.
Print Assumptions executed_instances_are_homomorphic.

Theorem model_agrees_on_Q : forall O : Ops Q, hom O ->
  (forall l, map Q2R (normalize O l) = normalize RO (map Q2R l)) /\
  (forall nx ny xc yc f, option_map (map (map Q2R)) (zero_filter O nx ny xc yc f)
                         = zero_filter RO nx ny (cQ2R xc) (cQ2R yc) (imQ2R f)) /\
  (forall g nx ny xc yc raw bg df, option_map (map (map Q2R)) (bg_correct O g nx ny xc yc raw bg df)
                         = bg_correct RO g nx ny (cQ2R xc) (cQ2R yc) (imQ2R raw) (imQ2R bg) (imQ2R df)) /\
  (forall nx ny f i j, Q2R (detrend O nx ny f i j) = detrend RO nx ny (imQ2R f) i j) /\
  (forall l, accQ2R (push_all O l) = push_all RO (map Q2R l)) /\
  (forall a, Q2R (acc_mean a) = acc_mean (accQ2R a) /\ option_map Q2R (acc_var O a) = acc_var RO (accQ2R a)) /\
  (forall cf sp org unc, (let '(mu, sd) := center_prior O cf sp org unc in (Q2R mu, Q2R sd))
                         = center_prior RO (Q2R cf) (Q2R sp) (Q2R org) (Q2R unc)).
Proof. intros O H. split; [exact (normalize_Q_R O H)|]. split; [exact (zero_filter_Q_R O H)|].
  split; [exact (bg_correct_Q_R O H)|]. split; [exact (detrend_Q_R O H)|]. split; [exact (push_all_Q_R O H)|].
  split; [intros a; split; [apply acc_mean_Q_R|apply (acc_var_Q_R O H)]|exact (center_prior_Q_R O H)]. Qed.
Print Assumptions model_agrees_on_Q.

(** ** non-vacuity: the hypotheses are satisfiable by concrete non-trivial objects (run on the Q instance) *)
Example hyps_satisfiable :
  (* an isolated interior dead pixel on a uniform 3x3 grid is replaced by the mean of its four neighbours *)
  option_eqb (list_eqb qlist_eqb)
     (zero_filter QO 3%nat 3%nat (getc QO [0; 1#2; 1]%Q) (getc QO [0; 1#2; 1]%Q)
        (getpix QO [[1; 2; 3]; [4; 0; 8]; [5; 6; 7]]%Q)) (Some [[1; 2; 3]; [4; 5; 8]; [5; 6; 7]]%Q) = true /\
  (* a dead corner is refused *)
  zero_filter QO 2%nat 2%nat (getc QO [0; 1]%Q) (getc QO [0; 1]%Q) (getpix QO [[0; 2]; [4; 1]]%Q) = None /\
  (* midway holds on a uniform grid, is_corner on the last pixel *)
  midway (fun k => 3 + 0.5 * tnat RO k) 0%nat /\ is_corner 4%nat 5%nat 3%nat 4%nat /\
  (* a fitting even crop on a half-integer centre (2.5 rounds to 2), well-formed image *)
  crop_extent (5#2) 2 = (1, 3)%Z /\ cwf (mkC [0; 1; 2; 3]%Q [0; 1; 2]%Q [[1; 2; 3]; [4; 5; 6]; [7; 8; 9]; [10; 11; 12]]%Z) /\
  subimage 3%nat (mkC [0; 1; 2; 3]%Q [0; 1; 2]%Q [[1; 2; 3]; [4; 5; 6]; [7; 8; 9]; [10; 11; 12]]%Z) [5#2; 1; 0]%Q (inl 2%Z)
    = Some (mkC [1; 2]%Q [0; 1]%Q [[4; 5]; [7; 8]]%Z) /\
  (* normalize with non-zero sum; Welford on a non-empty stream *)
  tsum RO [1; 2; 3] <> 0 /\ qlist_eqb (normalize QO [1; 2; 3]%Q) [1#2; 1; 3#2]%Q = true /\
  Qeq_bool (acc_mean (push_all QO [1; 2; 6]%Q)) 3 = true /\
  (* detrend of a plane sampled on 3x4 is 0 at a sample point *)
  Qeq_bool (detrend QO 3%nat 4%nat (plane QO 5 (1#2) (-3))%Q 1%nat 2%nat) 0 = true.
Proof.
  split; [vm_compute; reflexivity|]. split; [vm_compute; reflexivity|].
  split; [split; unfold tnat; simpl; lra|].
  split; [split; right; reflexivity|].
  split; [vm_compute; reflexivity|]. split; [split; [reflexivity|repeat constructor]|].
  split; [vm_compute; reflexivity|]. split; [simpl; lra|].
  split; [vm_compute; reflexivity|]. split; vm_compute; reflexivity.
Qed.

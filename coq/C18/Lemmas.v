(** C18 - proofs.  R instance = object of the theorems; Q instance = what the correspondence executes;
    the [_Q_R] lemmas at the end show they compute the same values. *)
From Coq Require Import ZArith QArith Qround Qreals Qabs Reals List Bool Lra Lia Psatz Permutation Morphisms.
From HV Require Import Common.Generic C18.Model.
Import ListNotations.
Local Open Scope R_scope.

Ltac ro := cbn [zero one add mul sub opp inv ltb leb eqb ofZ RO] in *.

(** * sums *)
Lemma tsum_app (a b : list R) : tsum RO (a ++ b) = tsum RO a + tsum RO b.
Proof. induction a as [|x t IH]; simpl; ro; [lra|rewrite IH; lra]. Qed.

Lemma tsum_map_scal {A} (g : A -> R) c (l : list A) :
  tsum RO (map (fun v => g v * c) l) = tsum RO (map g l) * c.
Proof. induction l as [|x t IH]; simpl; ro; [lra|rewrite IH; lra]. Qed.

Lemma tsum_map_add {A} (g h : A -> R) (l : list A) :
  tsum RO (map (fun v => g v + h v) l) = tsum RO (map g l) + tsum RO (map h l).
Proof. induction l as [|x t IH]; simpl; ro; [lra|rewrite IH; lra]. Qed.

Lemma tsum_perm (a b : list R) : Permutation a b -> tsum RO a = tsum RO b.
Proof. induction 1; simpl; ro; lra. Qed.

Lemma tnat_S k : tnat RO (S k) = tnat RO k + 1.
Proof. unfold tnat; ro. rewrite Nat2Z.inj_succ, succ_IZR. reflexivity. Qed.
Lemma tnat_0 : tnat RO 0 = 0. Proof. reflexivity. Qed.
Lemma tnat_nonneg k : 0 <= tnat RO k.
Proof. unfold tnat; ro. apply IZR_le. lia. Qed.
Lemma tnat_pos k : (0 < k)%nat -> 0 < tnat RO k.
Proof. intros H. unfold tnat; ro. apply IZR_lt. lia. Qed.
Lemma tnat_ge k m : (m <= k)%nat -> tnat RO m <= tnat RO k.
Proof. intros H. unfold tnat; ro. apply IZR_le. lia. Qed.

(** * normalize *)
Lemma tlen_nonzero (l : list R) : tsum RO l <> 0 -> tlen RO l <> 0.
Proof. intros H. destruct l as [|x t]; [exfalso; apply H; reflexivity|].
  unfold tlen. pose proof (tnat_pos (length (x :: t)) ltac:(simpl; lia)). lra. Qed.

Lemma normalize_as_scal (l : list R) :
  normalize RO l = map (fun v => v * (/ tsum RO l * tlen RO l)) l.
Proof. unfold normalize. apply map_ext. intros v. ro. ring. Qed.

Lemma normalize_length (l : list R) : length (normalize RO l) = length l.
Proof. unfold normalize. apply map_length. Qed.

Lemma normalize_sum (l : list R) : tsum RO l <> 0 -> tsum RO (normalize RO l) = tlen RO l.
Proof. intros H. rewrite normalize_as_scal.
  rewrite (tsum_map_scal (fun v => v)), map_id. field. exact H. Qed.

Lemma normalize_mean1 (l : list R) : tsum RO l <> 0 -> tmean RO (normalize RO l) = 1.
Proof. intros H. unfold tmean. rewrite normalize_sum by exact H.
  unfold tlen. rewrite normalize_length. ro. apply Rinv_r. apply (tlen_nonzero l H). Qed.

Lemma normalize_idem (l : list R) : tsum RO l <> 0 -> normalize RO (normalize RO l) = normalize RO l.
Proof. intros H. rewrite (normalize_as_scal (normalize RO l)).
  rewrite normalize_sum by exact H. unfold tlen at 1 2. rewrite normalize_length. fold (tlen RO l).
  rewrite <- (map_id (normalize RO l)) at 2. apply map_ext. intros v. field. apply tlen_nonzero, H. Qed.

Lemma normalize_scale_inv (l : list R) c : c <> 0 -> tsum RO l <> 0 ->
  normalize RO (map (fun v => c * v) l) = normalize RO l.
Proof. intros Hc H. rewrite !normalize_as_scal. rewrite map_map. unfold tlen. rewrite map_length.
  replace (tsum RO (map (fun v => c * v) l)) with (tsum RO l * c).
  - apply map_ext. intros v. field. split; assumption.
  - rewrite <- (map_id l) at 1. rewrite <- (tsum_map_scal (fun v => v)). f_equal. apply map_ext. intros; ring. Qed.

(** the hypothesis cannot be dropped: a zero-sum image is sent to a zero image (1/0 = 0 in the model;
    inf/nan in numpy) *)

(** * all_some / tabulate *)
Lemma seq_opt_inv {A} (l : list (option A)) r : seq_opt l = Some r -> l = map Some r.
Proof. revert r; induction l as [|[x|] t IH]; intros r H; simpl in H.
  - inversion H; reflexivity.
  - destruct (seq_opt t) as [r'|]; [|discriminate]. inversion H; subst. simpl. f_equal. apply IH. reflexivity.
  - discriminate. Qed.
Lemma seq_opt_Some {A} (r : list A) : seq_opt (map Some r) = Some r.
Proof. induction r as [|x t IH]; simpl; [reflexivity|rewrite IH; reflexivity]. Qed.
Lemma seq_opt_None {A} (l : list (option A)) : In None l -> seq_opt l = None.
Proof. induction l as [|[x|] t IH]; intros H; simpl; [destruct H| |reflexivity].
  destruct H as [H|H]; [discriminate|]. rewrite (IH H). reflexivity. Qed.

Lemma nth_map_seq {A} (g : nat -> A) n k d : (k < n)%nat -> nth k (map g (seq 0 n)) d = g k.
Proof. intros H. rewrite (nth_indep _ d (g 0%nat)) by (rewrite map_length, seq_length; exact H).
  rewrite (map_nth g (seq 0 n) 0%nat k). rewrite seq_nth by exact H. reflexivity. Qed.

Lemma tabulate_nth {A} nx ny (g : nat -> nat -> A) i j d d' : (i < nx)%nat -> (j < ny)%nat ->
  nth j (nth i (tabulate nx ny g) d') d = g i j.
Proof. intros Hi Hj. unfold tabulate. rewrite nth_map_seq by exact Hi. apply nth_map_seq, Hj. Qed.

Lemma all_some_total {A} nx ny (g : nat -> nat -> option A) (h : nat -> nat -> A) :
  (forall i j, (i < nx)%nat -> (j < ny)%nat -> g i j = Some (h i j)) ->
  all_some (tabulate nx ny g) = Some (tabulate nx ny h).
Proof. intros H. unfold all_some, tabulate. rewrite map_map.
  rewrite (map_ext_in _ (fun i => Some (map (fun j => h i j) (seq 0 ny)))).
  - rewrite <- (map_map (fun i => map (fun j => h i j) (seq 0 ny)) Some). apply seq_opt_Some.
  - intros i Hi. apply in_seq in Hi.
    rewrite (map_ext_in _ (fun j => Some (h i j))).
    + rewrite <- (map_map (fun j => h i j) Some). apply seq_opt_Some.
    + intros j Hj. apply in_seq in Hj. apply H; lia. Qed.

Lemma all_some_none {A} nx ny (g : nat -> nat -> option A) i j :
  (i < nx)%nat -> (j < ny)%nat -> g i j = None -> all_some (tabulate nx ny g) = None.
Proof. intros Hi Hj H. unfold all_some, tabulate. apply seq_opt_None. rewrite map_map.
  apply in_map_iff. exists i. split; [|apply in_seq; lia].
  apply seq_opt_None. apply in_map_iff. exists j. split; [exact H|apply in_seq; lia]. Qed.

Lemma all_some_sound {A} nx ny (g : nat -> nat -> option A) rows d :
  all_some (tabulate nx ny g) = Some rows ->
  forall i j, (i < nx)%nat -> (j < ny)%nat -> g i j = Some (nth j (nth i rows []) d).
Proof. intros H i j Hi Hj. unfold all_some in H. apply seq_opt_inv in H.
  assert (E : nth i (map seq_opt (tabulate nx ny g)) None = nth i (map Some rows) None) by (rewrite H; reflexivity).
  assert (Li : (i < length (tabulate nx ny g))%nat) by (unfold tabulate; rewrite map_length, seq_length; exact Hi).
  rewrite (nth_indep _ None (seq_opt [])) in E by (rewrite map_length; exact Li).
  rewrite (map_nth seq_opt) in E.
  assert (Lr : (i < length rows)%nat).
  { apply (f_equal (@length _)) in H. rewrite !map_length in H. rewrite <- H. exact Li. }
  rewrite (nth_indep _ None (Some [])) in E by (rewrite map_length; exact Lr).
  rewrite (map_nth Some) in E. apply seq_opt_inv in E.
  rewrite <- (tabulate_nth nx ny g i j None [] Hi Hj). rewrite E.
  assert (Lj : (j < length (nth i rows []))%nat).
  { apply (f_equal (@length _)) in E. rewrite map_length in E. rewrite <- E.
    unfold tabulate. rewrite nth_map_seq by exact Hi. rewrite map_length, seq_length. exact Hj. }
  rewrite (nth_indep _ None (Some d)) by (rewrite map_length; exact Lj).
  apply (map_nth Some). Qed.

(** * zero_filter *)
Lemma interp1_pos n xc (v : nat -> R) i : 0 < v i -> interp1 RO n xc v i = Some (v i).
Proof. intros H. unfold interp1; ro. rewrite (proj2 (Rltb_true _ _) H). reflexivity. Qed.

Lemma interp1_first n xc (v : nat -> R) : v 0%nat <= 0 -> interp1 RO n xc v 0 = None.
Proof. intros H. unfold interp1; ro. rewrite (proj2 (Rltb_false _ _) H). reflexivity. Qed.

Lemma interp1_last n xc (v : nat -> R) i : v i <= 0 -> (n <= S i)%nat -> interp1 RO n xc v i = None.
Proof. intros H Hn. unfold interp1; ro. rewrite (proj2 (Rltb_false _ _) H).
  replace (n - 1 - i)%nat with 0%nat by lia. simpl. destruct (prev_pos RO v i); reflexivity. Qed.

(** isolated dead sample between two live ones: numpy.interp's two-point formula *)
Lemma interp1_gap1 n xc (v : nat -> R) i : v (S i) <= 0 -> 0 < v i -> 0 < v (S (S i)) -> (S (S i) < n)%nat ->
  interp1 RO n xc v (S i) =
  Some ((v (S (S i)) - v i) / (xc (S (S i)) - xc i) * (xc (S i) - xc i) + v i).
Proof. intros H0 Ha Hb Hn. unfold interp1; ro. rewrite (proj2 (Rltb_false _ _) H0).
  simpl prev_pos; ro. rewrite (proj2 (Rltb_true _ _) Ha).
  destruct (n - 1 - S i)%nat as [|fu] eqn:E; [lia|]. simpl next_pos; ro.
  rewrite (proj2 (Rltb_true _ _) Hb). reflexivity. Qed.

(** ... which is the mean of the two neighbours when the dead sample sits midway between them *)
Lemma interp1_gap1_mid n xc (v : nat -> R) i : v (S i) <= 0 -> 0 < v i -> 0 < v (S (S i)) -> (S (S i) < n)%nat ->
  xc (S (S i)) - xc (S i) = xc (S i) - xc i -> xc (S i) <> xc i ->
  interp1 RO n xc v (S i) = Some ((v i + v (S (S i))) / 2).
Proof. intros H0 Ha Hb Hn Hs Hd. rewrite interp1_gap1 by assumption. f_equal.
  assert (E : xc (S (S i)) = 2 * xc (S i) - xc i) by lra. rewrite E. field. lra. Qed.

Lemma zf_positive_kept nx ny xc yc (f : image (T:=R)) i j : 0 < f i j ->
  zf_pix RO nx ny xc yc f i j = Some (f i j).
Proof. intros H. unfold zf_pix. rewrite !interp1_pos by exact H. f_equal. unfold two; ro. field. Qed.

Definition midway (xc : nat -> R) (i : nat) : Prop :=
  xc (S (S i)) - xc (S i) = xc (S i) - xc i /\ xc (S i) <> xc i.

Lemma zf_isolated_interior nx ny xc yc (f : image (T:=R)) i j :
  f (S i) (S j) <= 0 -> 0 < f i (S j) -> 0 < f (S (S i)) (S j) -> 0 < f (S i) j -> 0 < f (S i) (S (S j)) ->
  (S (S i) < nx)%nat -> (S (S j) < ny)%nat -> midway xc i -> midway yc j ->
  zf_pix RO nx ny xc yc f (S i) (S j) =
  Some ((f i (S j) + f (S (S i)) (S j) + f (S i) j + f (S i) (S (S j))) / 4).
Proof. intros H0 H1 H2 H3 H4 Hx Hy [Mx Mx'] [My My']. unfold zf_pix.
  rewrite (interp1_gap1_mid nx xc (fun i' => f i' (S j)) i) by assumption.
  rewrite (interp1_gap1_mid ny yc (fun j' => f (S i) j') j) by assumption.
  f_equal. unfold two; ro. field. Qed.

(** edges: no bracket across the edge, so only the interpolation along the edge contributes *)
Lemma zf_edge_x0 nx ny xc yc (f : image (T:=R)) j :
  f 0%nat (S j) <= 0 -> 0 < f 0%nat j -> 0 < f 0%nat (S (S j)) -> (S (S j) < ny)%nat -> midway yc j ->
  zf_pix RO nx ny xc yc f 0 (S j) = Some ((f 0%nat j + f 0%nat (S (S j))) / 2).
Proof. intros H0 H1 H2 Hy [My My']. unfold zf_pix.
  rewrite (interp1_first nx xc (fun i' => f i' (S j))) by exact H0.
  rewrite (interp1_gap1_mid ny yc (fun j' => f 0%nat j') j) by assumption. reflexivity. Qed.
Lemma zf_edge_x1 nx ny xc yc (f : image (T:=R)) i j : (nx <= S i)%nat ->
  f i (S j) <= 0 -> 0 < f i j -> 0 < f i (S (S j)) -> (S (S j) < ny)%nat -> midway yc j ->
  zf_pix RO nx ny xc yc f i (S j) = Some ((f i j + f i (S (S j))) / 2).
Proof. intros Hi H0 H1 H2 Hy [My My']. unfold zf_pix.
  rewrite (interp1_last nx xc (fun i' => f i' (S j)) i) by assumption.
  rewrite (interp1_gap1_mid ny yc (fun j' => f i j') j) by assumption. reflexivity. Qed.
Lemma zf_edge_y0 nx ny xc yc (f : image (T:=R)) i :
  f (S i) 0%nat <= 0 -> 0 < f i 0%nat -> 0 < f (S (S i)) 0%nat -> (S (S i) < nx)%nat -> midway xc i ->
  zf_pix RO nx ny xc yc f (S i) 0 = Some ((f i 0%nat + f (S (S i)) 0%nat) / 2).
Proof. intros H0 H1 H2 Hx [Mx Mx']. unfold zf_pix.
  rewrite (interp1_gap1_mid nx xc (fun i' => f i' 0%nat) i) by assumption.
  rewrite (interp1_first ny yc (fun j' => f (S i) j')) by exact H0. reflexivity. Qed.
Lemma zf_edge_y1 nx ny xc yc (f : image (T:=R)) i j : (ny <= S j)%nat ->
  f (S i) j <= 0 -> 0 < f i j -> 0 < f (S (S i)) j -> (S (S i) < nx)%nat -> midway xc i ->
  zf_pix RO nx ny xc yc f (S i) j = Some ((f i j + f (S (S i)) j) / 2).
Proof. intros Hj H0 H1 H2 Hx [Mx Mx']. unfold zf_pix.
  rewrite (interp1_gap1_mid nx xc (fun i' => f i' j) i) by assumption.
  rewrite (interp1_last ny yc (fun j' => f (S i) j') j) by assumption. reflexivity. Qed.

(** corners: no bracket on either axis *)
Definition is_corner (nx ny i j : nat) : Prop := (i = 0%nat \/ nx = S i) /\ (j = 0%nat \/ ny = S j).
Lemma zf_corner_pix nx ny xc yc (f : image (T:=R)) i j : is_corner nx ny i j -> f i j <= 0 ->
  zf_pix RO nx ny xc yc f i j = None.
Proof. intros [Hi Hj] H0. unfold zf_pix.
  assert (E1 : interp1 RO nx xc (fun i' => f i' j) i = None).
  { destruct Hi as [->|Hi]; [apply interp1_first; exact H0|apply interp1_last; [exact H0|lia]]. }
  assert (E2 : interp1 RO ny yc (fun j' => f i j') j = None).
  { destruct Hj as [->|Hj]; [apply interp1_first; exact H0|apply interp1_last; [exact H0|lia]]. }
  rewrite E1, E2. reflexivity. Qed.
Lemma zf_corner_rejected nx ny xc yc (f : image (T:=R)) i j : is_corner nx ny i j -> (i < nx)%nat -> (j < ny)%nat ->
  f i j <= 0 -> zero_filter RO nx ny xc yc f = None.
Proof. intros Hc Hi Hj H0. unfold zero_filter. apply (all_some_none nx ny _ i j Hi Hj).
  apply zf_corner_pix; assumption. Qed.

(** whole-image readings of the result *)
Lemma zero_filter_sound nx ny xc yc (f : image (T:=R)) rows : zero_filter RO nx ny xc yc f = Some rows ->
  forall i j, (i < nx)%nat -> (j < ny)%nat -> zf_pix RO nx ny xc yc f i j = Some (getpix RO rows i j).
Proof. intros H i j Hi Hj. unfold getpix. apply (all_some_sound nx ny _ rows (zero RO) H i j Hi Hj). Qed.
Lemma zero_filter_refuses nx ny xc yc (f : image (T:=R)) i j : (i < nx)%nat -> (j < ny)%nat ->
  zf_pix RO nx ny xc yc f i j = None -> zero_filter RO nx ny xc yc f = None.
Proof. intros Hi Hj H. apply (all_some_none nx ny _ i j Hi Hj H). Qed.
Lemma zero_filter_all_positive nx ny xc yc (f : image (T:=R)) :
  (forall i j, (i < nx)%nat -> (j < ny)%nat -> 0 < f i j) ->
  zero_filter RO nx ny xc yc f = Some (tabulate nx ny f).
Proof. intros H. apply all_some_total. intros i j Hi Hj. apply zf_positive_kept, H; assumption. Qed.

(** * bg_correct *)
Lemma bg_pix_formula nx ny xc yc (raw bg df : image (T:=R)) i j : 0 < bg i j - df i j ->
  bgc_pix RO nx ny xc yc raw bg df i j = Some ((raw i j - df i j) / (bg i j - df i j)).
Proof. intros H. unfold bgc_pix. rewrite zf_positive_kept by (unfold imsub; ro; exact H). reflexivity. Qed.

Lemma bg_formula nx ny xc yc (raw bg df : image (T:=R)) :
  (forall i j, (i < nx)%nat -> (j < ny)%nat -> 0 < bg i j - df i j) ->
  bg_correct RO true nx ny xc yc raw bg df =
  Some (tabulate nx ny (fun i j => (raw i j - df i j) / (bg i j - df i j))).
Proof. intros H. unfold bg_correct. apply all_some_total. intros i j Hi Hj. apply bg_pix_formula, H; assumption. Qed.

Lemma bg_self_one nx ny xc yc (raw : image (T:=R)) :
  (forall i j, (i < nx)%nat -> (j < ny)%nat -> 0 < raw i j) ->
  bg_correct RO true nx ny xc yc raw raw (zero_img RO) = Some (tabulate nx ny (fun _ _ => 1)).
Proof. intros H. unfold bg_correct. apply all_some_total. intros i j Hi Hj.
  rewrite bg_pix_formula by (unfold zero_img; ro; specialize (H i j Hi Hj); lra).
  f_equal. unfold zero_img; ro. specialize (H i j Hi Hj). field. lra. Qed.

Lemma bg_guard_false nx ny xc yc (raw bg df : image (T:=R)) : bg_correct RO false nx ny xc yc raw bg df = None.
Proof. reflexivity. Qed.

Lemma bg_dead_corner nx ny xc yc (raw bg df : image (T:=R)) g i j : is_corner nx ny i j -> (i < nx)%nat -> (j < ny)%nat ->
  bg i j - df i j <= 0 -> bg_correct RO g nx ny xc yc raw bg df = None.
Proof. intros Hc Hi Hj H. destruct g; [|reflexivity]. unfold bg_correct.
  apply (all_some_none nx ny _ i j Hi Hj). unfold bgc_pix.
  rewrite zf_corner_pix by (try assumption; unfold imsub; ro; exact H). reflexivity. Qed.

(** * detrend *)
Lemma idx_sum_S n (g : nat -> R) : idx_sum RO (S n) g = idx_sum RO n g + g n.
Proof. unfold idx_sum. rewrite seq_S, map_app, tsum_app. simpl; ro. lra. Qed.
Lemma idx_sum_ext n (g h : nat -> R) : (forall i, (i < n)%nat -> g i = h i) -> idx_sum RO n g = idx_sum RO n h.
Proof. intros H. unfold idx_sum. f_equal. apply map_ext_in. intros i Hi. apply in_seq in Hi. apply H. lia. Qed.
Lemma idx_sum_add n (g h : nat -> R) : idx_sum RO n (fun i => g i + h i) = idx_sum RO n g + idx_sum RO n h.
Proof. apply tsum_map_add. Qed.
Lemma idx_sum_scal n (g : nat -> R) c : idx_sum RO n (fun i => c * g i) = c * idx_sum RO n g.
Proof. unfold idx_sum. rewrite <- (Rmult_comm (tsum RO (map g (seq 0 n)))), <- tsum_map_scal.
  f_equal. apply map_ext. intros; ring. Qed.
Lemma idx_sum_const n c : idx_sum RO n (fun _ => c) = c * tnat RO n.
Proof. induction n as [|n IH]; [unfold idx_sum, tnat; simpl; ro; ring|].
  rewrite idx_sum_S, IH, tnat_S. ring. Qed.

Lemma sum1_closed n : 2 * idx_sum RO n (tnat RO) = tnat RO n * (tnat RO n - 1).
Proof. induction n as [|n IH]; [unfold idx_sum, tnat; simpl; ro; ring|].
  rewrite idx_sum_S, tnat_S, Rmult_plus_distr_l, IH. ring. Qed.
Lemma sum2_closed n :
  6 * idx_sum RO n (fun i => tnat RO i * tnat RO i) = (tnat RO n - 1) * tnat RO n * (2 * tnat RO n - 1).
Proof. induction n as [|n IH]; [unfold idx_sum, tnat; simpl; ro; ring|].
  rewrite idx_sum_S, tnat_S, Rmult_plus_distr_l, IH. ring. Qed.

(** the normal-equation determinant n*S2 - S1^2 = n^2 (n^2-1) / 12 is non-zero from two samples on *)
Lemma lsq_det n : (2 <= n)%nat ->
  tnat RO n * idx_sum RO n (fun i => tnat RO i * tnat RO i) - idx_sum RO n (tnat RO) * idx_sum RO n (tnat RO) <> 0.
Proof. intros Hn. set (N := tnat RO n). set (S1 := idx_sum RO n (tnat RO)).
  set (S2 := idx_sum RO n (fun i => tnat RO i * tnat RO i)).
  assert (H1 : 2 * S1 = N * (N - 1)) by apply sum1_closed.
  assert (H2 : 6 * S2 = (N - 1) * N * (2 * N - 1)) by apply sum2_closed.
  assert (HN : 2 <= N) by (apply (tnat_ge n 2 Hn)).
  assert (E : 12 * (N * S2 - S1 * S1) = N * N * (N - 1) * (N + 1)).
  { replace (12 * (N * S2 - S1 * S1)) with (2 * N * (6 * S2) - 3 * ((2 * S1) * (2 * S1))) by ring.
    rewrite H1, H2. ring. }
  assert (P : 0 < N * N * (N - 1) * (N + 1)).
  { apply Rmult_lt_0_compat; [apply Rmult_lt_0_compat; [apply Rmult_lt_0_compat|]|]; lra. }
  lra. Qed.

Lemma dt_seq_ext n (u v : nat -> R) k : (forall i, (i < n)%nat -> u i = v i) -> u k = v k ->
  dt_seq RO n u k = dt_seq RO n v k.
Proof. intros H Hk. unfold dt_seq. rewrite Hk. rewrite (idx_sum_ext n u v H).
  rewrite (idx_sum_ext n (fun i => mul RO (tnat RO i) (u i)) (fun i => mul RO (tnat RO i) (v i)))
    by (intros i Hi; rewrite (H i Hi); reflexivity).
  reflexivity. Qed.

Lemma dt_seq_add n (u v : nat -> R) k :
  dt_seq RO n (fun i => u i + v i) k = dt_seq RO n u k + dt_seq RO n v k.
Proof. unfold dt_seq; ro. rewrite idx_sum_add.
  rewrite (idx_sum_ext n (fun i => tnat RO i * (u i + v i)) (fun i => tnat RO i * u i + tnat RO i * v i))
    by (intros; ring).
  rewrite idx_sum_add. ring. Qed.

Lemma dt_seq_scal n (u : nat -> R) c k : dt_seq RO n (fun i => c * u i) k = c * dt_seq RO n u k.
Proof. unfold dt_seq; ro. rewrite idx_sum_scal.
  rewrite (idx_sum_ext n (fun i => tnat RO i * (c * u i)) (fun i => c * (tnat RO i * u i))) by (intros; ring).
  rewrite idx_sum_scal. ring. Qed.

(** the least-squares line through an affine sequence is that sequence *)
Lemma dt_seq_affine n a b k : (k < n)%nat -> dt_seq RO n (fun i => a + b * tnat RO i) k = 0.
Proof. intros Hk. destruct (le_lt_dec 2 n) as [Hn|Hn].
  - pose proof (lsq_det n Hn) as HD. assert (HN : tnat RO n <> 0) by (pose proof (tnat_pos n ltac:(lia)); lra).
    unfold dt_seq; ro.
    rewrite idx_sum_add, idx_sum_const, idx_sum_scal.
    rewrite (idx_sum_ext n (fun i => tnat RO i * (a + b * tnat RO i))
                           (fun i => a * tnat RO i + b * (tnat RO i * tnat RO i))) by (intros; ring).
    rewrite idx_sum_add, !idx_sum_scal.
    set (N := tnat RO n) in *. set (S1 := idx_sum RO n (tnat RO)) in *.
    set (S2 := idx_sum RO n (fun i => tnat RO i * tnat RO i)) in *.
    field. split; assumption.
  - assert (n = 1%nat) by lia. subst n. assert (k = 0%nat) by lia. subst k.
    unfold dt_seq, idx_sum; simpl; ro. unfold tnat; simpl; ro. rewrite Rinv_1. ring. Qed.

(** detrend with the 1-D detrender as an ORACLE: any [dt] that is additive, depends only on the samples
    it is given, and annihilates affine sequences removes every plane.  (scipy.signal.detrend enters
    this way; the model's least-squares [dt_seq] is shown to satisfy the three hypotheses.) *)
Section DetrendOracle.
Variable dt : nat -> (nat -> R) -> nat -> R.
Hypothesis dt_add : forall n u v k, dt n (fun i => u i + v i) k = dt n u k + dt n v k.
Hypothesis dt_ext : forall n u v k, (forall i, (i < n)%nat -> u i = v i) -> u k = v k -> dt n u k = dt n v k.
Hypothesis dt_affine : forall n a b k, (k < n)%nat -> dt n (fun i => a + b * tnat RO i) k = 0.
Definition detrend_with (nx ny : nat) (f : image (T:=R)) : image (T:=R) :=
  fun i j => dt ny (fun j' => dt nx (fun i' => f i' j') i) j.

Lemma detrend_with_plane_x nx (f : image (T:=R)) a b c i j' : (i < nx)%nat ->
  dt nx (fun i' => imadd RO f (plane RO a b c) i' j') i = dt nx (fun i' => f i' j') i.
Proof. intros Hi. unfold imadd, plane; ro. rewrite dt_add.
  rewrite (dt_ext nx (fun i' => a + b * tnat RO i' + c * tnat RO j') (fun i' => (a + c * tnat RO j') + b * tnat RO i'))
    by (intros; ring).
  rewrite dt_affine by exact Hi. ring. Qed.

Lemma detrend_with_plane nx ny f a b c i j : (i < nx)%nat -> (j < ny)%nat ->
  detrend_with nx ny (imadd RO f (plane RO a b c)) i j = detrend_with nx ny f i j.
Proof. intros Hi Hj. unfold detrend_with. apply dt_ext; intros; apply detrend_with_plane_x; exact Hi. Qed.

Lemma detrend_with_of_plane nx ny a b c i j : (i < nx)%nat -> (j < ny)%nat ->
  detrend_with nx ny (plane RO a b c) i j = 0.
Proof. intros Hi Hj. unfold detrend_with.
  rewrite (dt_ext ny _ (fun j' => 0 + 0 * tnat RO j')).
  - apply dt_affine, Hj.
  - intros j' _. unfold plane; ro.
    rewrite (dt_ext nx _ (fun i' => (a + c * tnat RO j') + b * tnat RO i')) by (intros; ring).
    rewrite dt_affine by exact Hi. ring.
  - unfold plane; ro.
    rewrite (dt_ext nx _ (fun i' => (a + c * tnat RO j) + b * tnat RO i')) by (intros; ring).
    rewrite dt_affine by exact Hi. ring. Qed.
End DetrendOracle.

Lemma detrend_is_detrend_with nx ny f : detrend RO nx ny f = detrend_with (dt_seq RO) nx ny f.
Proof. reflexivity. Qed.

Lemma detrend_plane nx ny (f : image (T:=R)) a b c i j : (i < nx)%nat -> (j < ny)%nat ->
  detrend RO nx ny (imadd RO f (plane RO a b c)) i j = detrend RO nx ny f i j.
Proof. apply (detrend_with_plane (dt_seq RO) dt_seq_add dt_seq_ext dt_seq_affine). Qed.
Lemma detrend_of_plane nx ny a b c i j : (i < nx)%nat -> (j < ny)%nat -> detrend RO nx ny (plane RO a b c) i j = 0.
Proof. apply (detrend_with_of_plane (dt_seq RO) dt_seq_ext dt_seq_affine). Qed.

(** * Accumulator (Welford) *)
Definition sumsq (l : list R) : R := tsum RO (map (fun x => x * x) l).
Definition acc_inv (a : acc (T:=R)) (l : list R) : Prop :=
  let '(n, m, v) := a in
  n = Z.of_nat (length l) /\ (l <> [] -> IZR n * m = tsum RO l /\ v = sumsq l - IZR n * m * m).

Lemma sumsq_app l x : sumsq (l ++ [x]) = sumsq l + x * x.
Proof. unfold sumsq. rewrite map_app, tsum_app. simpl; ro. lra. Qed.

Lemma push_inv a l x : acc_inv a l -> acc_inv (push RO a x) (l ++ [x]).
Proof. destruct a as [[n m] v]. intros [Hn Hl]. unfold push.
  destruct (Z.eqb_spec (n + 1) 1) as [E|E].
  - assert (l = []) by (destruct l; [reflexivity|cbn [length] in Hn; lia]). subst l. simpl. ro.
    split; [lia|]. intros _. unfold sumsq; simpl; ro. rewrite E. split; ring.
  - assert (Hne : l <> []) by (intros ->; cbn [length] in Hn; lia). destruct (Hl Hne) as [Hm Hv].
    unfold acc_inv. rewrite app_length, tsum_app, sumsq_app. simpl length. simpl tsum. ro.
    assert (HN : 1 <= IZR n) by (apply IZR_le; destruct l; [congruence|cbn [length] in Hn; lia]).
    rewrite plus_IZR. split; [lia|]. intros _. rewrite Hv. rewrite <- Hm. split; field; lra. Qed.

Lemma push_all_inv_gen l2 : forall a l1, acc_inv a l1 -> acc_inv (fold_left (push RO) l2 a) (l1 ++ l2).
Proof. induction l2 as [|x t IH]; intros a l1 H; simpl.
  - rewrite app_nil_r; exact H.
  - replace (l1 ++ x :: t) with ((l1 ++ [x]) ++ t) by (rewrite <- app_assoc; reflexivity). apply IH, push_inv, H. Qed.
Lemma push_all_inv l : acc_inv (push_all RO l) l.
Proof. apply (push_all_inv_gen l (acc_init RO) []). simpl. split; [reflexivity|congruence]. Qed.

Lemma batch_m2_expand (l : list R) m :
  tsum RO (map (fun x => (x - m) * (x - m)) l) = sumsq l - 2 * m * tsum RO l + tlen RO l * m * m.
Proof. unfold sumsq, tlen. induction l as [|x t IH]; simpl map; simpl tsum; simpl length; ro.
  - rewrite tnat_0. ring.
  - rewrite IH, tnat_S. ring. Qed.

Lemma welford_batch (l : list R) : l <> [] ->
  let '(n, m, v) := push_all RO l in
  n = Z.of_nat (length l) /\ m = tmean RO l /\ v = batch_m2 RO l.
Proof. intros Hne. pose proof (push_all_inv l) as H. destruct (push_all RO l) as [[n m] v].
  destruct H as [Hn Hl]. destruct (Hl Hne) as [Hm Hv].
  assert (HN : tlen RO l <> 0).
  { unfold tlen. pose proof (tnat_pos (length l)). destruct l; [congruence|simpl in *; lia || (specialize (H ltac:(lia)); lra)]. }
  assert (EN : IZR n = tlen RO l) by (rewrite Hn; reflexivity).
  assert (Em : m = tmean RO l). { unfold tmean; ro. rewrite <- Hm, EN. field. exact HN. }
  split; [exact Hn|]. split; [exact Em|].
  unfold batch_m2; ro. rewrite batch_m2_expand. rewrite <- Em, Hv, <- Hm, EN. ring. Qed.

Lemma welford_mean_var (l : list R) : l <> [] ->
  acc_mean (push_all RO l) = tmean RO l /\ acc_var RO (push_all RO l) = Some (batch_var RO l).
Proof. intros Hne. pose proof (welford_batch l Hne) as H. destruct (push_all RO l) as [[n m] v].
  destruct H as [Hn [Hm Hv]]. split; [exact Hm|]. unfold acc_var.
  destruct (Z.eqb_spec n 0) as [E|E]; [destruct l; [congruence|cbn [length] in Hn; lia]|].
  unfold batch_var, tlen, tnat. rewrite Hv, Hn. reflexivity. Qed.

Lemma welford_empty : acc_mean (push_all RO []) = 0 /\ acc_var RO (push_all RO []) = None.
Proof. split; reflexivity. Qed.

Lemma batch_perm (l l' : list R) : Permutation l l' ->
  tmean RO l = tmean RO l' /\ batch_var RO l = batch_var RO l'.
Proof. intros P. assert (Em : tmean RO l = tmean RO l').
  { unfold tmean, tlen. rewrite (tsum_perm _ _ P), (Permutation_length P). reflexivity. }
  split; [exact Em|]. unfold batch_var, batch_m2, tlen. rewrite Em, (Permutation_length P).
  f_equal. apply tsum_perm. apply Permutation_map, P. Qed.

Lemma welford_order (l l' : list R) : Permutation l l' ->
  acc_mean (push_all RO l) = acc_mean (push_all RO l') /\ acc_var RO (push_all RO l) = acc_var RO (push_all RO l').
Proof. intros P. destruct l as [|x t].
  - apply Permutation_nil in P. subst. split; reflexivity.
  - assert (H1 : x :: t <> []) by congruence.
    assert (H2 : l' <> []) by (intros ->; apply Permutation_sym, Permutation_nil in P; congruence).
    destruct (welford_mean_var _ H1) as [A1 B1]. destruct (welford_mean_var _ H2) as [A2 B2].
    destruct (batch_perm _ _ P) as [Em Ev]. rewrite A1, A2, B1, B2, Em, Ev. split; reflexivity. Qed.

(** * make_center_priors *)
Lemma center_prior_covers cf sp org unc t : 0 < sp -> Rabs (cf - t) <= unc ->
  let '(mu, sd) := center_prior RO cf sp org unc in
  mu = cf * sp + org /\ sd = unc * sp /\ Rabs (mu - (t * sp + org)) <= sd.
Proof. intros Hs H. unfold center_prior; ro. split; [reflexivity|]. split; [reflexivity|].
  replace (cf * sp + org - (t * sp + org)) with ((cf - t) * sp) by ring.
  rewrite Rabs_mult, (Rabs_right sp) by lra. apply Rmult_le_compat_r; lra. Qed.

Lemma diffs_telescope (x : R) l : tsum RO (diffs RO (x :: l)) = last (x :: l) 0 - x.
Proof. revert x; induction l as [|y t IH]; intros x; [simpl; ro; lra|].
  replace (diffs RO (x :: y :: t)) with (sub RO y x :: diffs RO (y :: t)) by reflexivity.
  cbn [tsum]. rewrite IH. ro. change (last (x :: y :: t) 0) with (last (y :: t) 0). lra. Qed.

(** get_extents: (last - first) + mean spacing; on n >= 2 equally spaced samples that is n * spacing *)
Lemma extent_formula (x y : R) t :
  extent RO (x :: y :: t) = (last (x :: y :: t) 0 - x) * (1 + / tnat RO (S (length t))).
Proof. unfold extent. rewrite diffs_telescope. ro. simpl length. replace (S (S (length t)) - 1)%nat with (S (length t)) by lia. ring. Qed.

(** * subimage: rounding, slices, crop *)
Local Open Scope Q_scope.
Lemma Qfloor_bounds q : inject_Z (Qfloor q) <= q /\ q < inject_Z (Qfloor q) + 1.
Proof. split; [apply Qfloor_le|]. pose proof (Qlt_floor q) as H. rewrite inject_Z_plus in H. exact H. Qed.

Lemma rhe_cases q : let f := Qfloor q in
  (q - inject_Z f < 1#2 /\ rhe q = f) \/
  (1#2 < q - inject_Z f /\ rhe q = (f + 1)%Z) \/
  (q - inject_Z f == 1#2 /\ rhe q = (if Z.even f then f else (f + 1)%Z)).
Proof. intros f. unfold rhe. fold f. destruct (Qcompare_spec (q - inject_Z f) (1#2)) as [H|H|H].
  - right; right. split; [exact H|reflexivity].
  - left. split; [exact H|reflexivity].
  - right; left. split; [exact H|reflexivity]. Qed.

(** np.round returns a nearest integer ... *)
Lemma rhe_nearest q : Qabs (q - inject_Z (rhe q)) <= 1#2.
Proof. destruct (Qfloor_bounds q) as [L U]. apply Qabs_Qle_condition.
  destruct (rhe_cases q) as [[H ->]|[[H ->]|[H E]]].
  - split; lra.
  - rewrite inject_Z_plus. change (inject_Z 1) with 1. split; lra.
  - rewrite E. destruct (Z.even (Qfloor q)); [|rewrite inject_Z_plus; change (inject_Z 1) with 1]; split; lra. Qed.
(** ... and at a tie the even one *)
Lemma rhe_tie_even q : q - inject_Z (Qfloor q) == 1#2 -> Z.even (rhe q) = true.
Proof. intros T. destruct (rhe_cases q) as [[H _]|[[H _]|[_ E]]]; [lra|lra|].
  rewrite E. destruct (Z.even (Qfloor q)) eqn:Ev; [exact Ev|].
  rewrite Z.even_add, Ev. reflexivity. Qed.
Lemma rhe_int z : rhe (inject_Z z) = z.
Proof. destruct (rhe_cases (inject_Z z)) as [[H E]|[[H E]|[H E]]]; rewrite Qfloor_Z in *.
  - exact E. - lra. - lra. Qed.
#[export] Instance rhe_proper : Proper (Qeq ==> eq) rhe.
Proof. intros q q' H. unfold rhe. cbv zeta.
  assert (F : Qfloor q = Qfloor q') by (apply Qfloor_comp, H). rewrite F.
  assert (Cm : (q - inject_Z (Qfloor q') ?= 1#2) = (q' - inject_Z (Qfloor q') ?= 1#2)) by (rewrite H; reflexivity).
  rewrite Cm. reflexivity. Qed.

(** even size 2h on a rounded centre c: exactly [c-h, c+h) *)
Lemma crop_extent_even c h : crop_extent c (2 * h) = ((rhe c - h)%Z, (rhe c + h)%Z).
Proof. unfold crop_extent.
  assert (E1 : inject_Z (rhe c) - inject_Z (2 * h) / 2 == inject_Z (rhe c - h)).
  { unfold Z.sub. rewrite inject_Z_plus, inject_Z_opp, inject_Z_mult. change (inject_Z 2) with 2. field. }
  assert (E2 : inject_Z (rhe c) + inject_Z (2 * h) / 2 == inject_Z (rhe c + h)).
  { rewrite inject_Z_plus, inject_Z_mult. change (inject_Z 2) with 2. field. }
  rewrite E1, E2, !rhe_int. reflexivity. Qed.

(** odd size 2h+1: both ends are ties, rounded to even, so the crop has 2h or 2h+2 pixels, never 2h+1
    (the docstring demands even shapes; this is what the code does with an odd one) *)
Lemma crop_extent_odd c h :
  crop_extent c (2 * h + 1) =
  if Z.even (rhe c - h) then ((rhe c - h)%Z, (rhe c + h)%Z) else ((rhe c - h - 1)%Z, (rhe c + h + 1)%Z).
Proof. unfold crop_extent. set (ci := rhe c).
  assert (E1 : inject_Z ci - inject_Z (2 * h + 1) / 2 == inject_Z (ci - h - 1) + (1#2)).
  { unfold Z.sub. rewrite !inject_Z_plus, !inject_Z_opp, inject_Z_mult. change (inject_Z 2) with 2.
    change (inject_Z 1) with 1. field. }
  assert (E2 : inject_Z ci + inject_Z (2 * h + 1) / 2 == inject_Z (ci + h) + (1#2)).
  { rewrite !inject_Z_plus, inject_Z_mult. change (inject_Z 2) with 2. change (inject_Z 1) with 1. field. }
  rewrite E1, E2.
  assert (Half : forall z, rhe (inject_Z z + (1#2)) = if Z.even z then z else (z + 1)%Z).
  { intros z. assert (F : Qfloor (inject_Z z + (1#2)) = z).
    { pose proof (Qfloor_le (inject_Z z + (1#2))) as L. pose proof (Qlt_floor (inject_Z z + (1#2))) as U.
      assert (A1 : (Qfloor (inject_Z z + (1#2)) < z + 1)%Z).
      { rewrite Zlt_Qlt, inject_Z_plus. change (inject_Z 1) with 1. lra. }
      assert (A2 : (z < Qfloor (inject_Z z + (1#2)) + 1)%Z).
      { rewrite Zlt_Qlt. lra. }
      lia. }
    destruct (rhe_cases (inject_Z z + (1#2))) as [[H _]|[[H _]|[_ E]]]; rewrite F in *; [lra|lra|exact E]. }
  rewrite !Half.
  replace (ci - h - 1)%Z with (Z.pred (ci - h)) by lia. rewrite Z.even_pred, <- Z.negb_even.
  replace (Z.even (ci + h)) with (Z.even (ci - h)) by (replace (ci + h)%Z with (ci - h + 2 * h)%Z by lia;
     rewrite Z.even_add_mul_2; reflexivity).
  destruct (Z.even (ci - h)); simpl; f_equal; unfold Z.pred; lia. Qed.
Local Close Scope Q_scope.
Local Open Scope nat_scope.

Lemma nth_firstn_lt {A} (l : list A) m k d : k < m -> nth k (firstn m l) d = nth k l d.
Proof. revert m k; induction l as [|x t IH]; intros m k H; [rewrite firstn_nil; reflexivity|].
  destruct m; [lia|]. destruct k; [reflexivity|]. simpl. apply IH. lia. Qed.
Lemma nth_skipn_add {A} (l : list A) a k d : nth k (skipn a l) d = nth (a + k) l d.
Proof. revert l; induction a as [|a IH]; intros l; [reflexivity|].
  destruct l; [destruct k; reflexivity|]. simpl. apply IH. Qed.

Lemma slice_norm_range n i : (0 <= n)%Z -> (0 <= slice_norm n i <= n)%Z.
Proof. intros H. unfold slice_norm. destruct (Z.ltb_spec i 0); lia. Qed.
Lemma slice_norm_fit n i : (0 <= i <= n)%Z -> slice_norm n i = i.
Proof. intros H. unfold slice_norm. destruct (Z.ltb_spec i 0); lia. Qed.

Definition sl_lo {A} (lo : Z) (l : list A) : nat := Z.to_nat (slice_norm (Z.of_nat (length l)) lo).
Definition sl_len {A} (lo hi : Z) (l : list A) : nat :=
  Z.to_nat (slice_norm (Z.of_nat (length l)) hi - slice_norm (Z.of_nat (length l)) lo).

Lemma pyslice_length {A} lo hi (l : list A) : length (pyslice lo hi l) = sl_len lo hi l.
Proof. unfold pyslice, sl_len. rewrite firstn_length, skipn_length.
  pose proof (slice_norm_range (Z.of_nat (length l)) lo ltac:(lia)).
  pose proof (slice_norm_range (Z.of_nat (length l)) hi ltac:(lia)). lia. Qed.

(** every retained element is the source element at offset + position: python's slice never moves data *)
Lemma pyslice_nth {A} lo hi (l : list A) k d : k < sl_len lo hi l ->
  nth k (pyslice lo hi l) d = nth (sl_lo lo l + k) l d.
Proof. intros H. unfold pyslice. rewrite nth_firstn_lt by exact H. apply nth_skipn_add. Qed.

Definition cwf {C A} (im : cimage C A) : Prop :=
  length (cpix im) = length (cxs im) /\ Forall (fun r => length r = length (cys im)) (cpix im).

Lemma Forall_firstn {A} (P : A -> Prop) l m : Forall P l -> Forall P (firstn m l).
Proof. intros H. apply Forall_forall. intros x Hx. rewrite Forall_forall in H. apply H.
  rewrite <- (firstn_skipn m l). apply in_or_app. left; exact Hx. Qed.
Lemma Forall_skipn {A} (P : A -> Prop) l m : Forall P l -> Forall P (skipn m l).
Proof. intros H. apply Forall_forall. intros x Hx. rewrite Forall_forall in H. apply H.
  rewrite <- (firstn_skipn m l). apply in_or_app. right; exact Hx. Qed.

Lemma crop_values_coords {C A} (im : cimage C A) ex ey (dc : C) (da : A) : cwf im ->
  let out := crop im ex ey in
  let ax := sl_lo (fst ex) (cxs im) in let ay := sl_lo (fst ey) (cys im) in
  cwf out /\
  length (cxs out) = sl_len (fst ex) (snd ex) (cxs im) /\
  length (cys out) = sl_len (fst ey) (snd ey) (cys im) /\
  forall p q, p < length (cxs out) -> q < length (cys out) ->
    nth p (cxs out) dc = nth (ax + p) (cxs im) dc /\
    nth q (cys out) dc = nth (ay + q) (cys im) dc /\
    nth q (nth p (cpix out) []) da = nth (ay + q) (nth (ax + p) (cpix im) []) da.
Proof. intros [W1 W2]. cbv zeta. unfold crop, cwf. cbn [cxs cys cpix].
  assert (Lx : length (pyslice (fst ex) (snd ex) (cpix im)) = sl_len (fst ex) (snd ex) (cxs im)).
  { rewrite pyslice_length. unfold sl_len. rewrite W1. reflexivity. }
  split; [split|split; [|split]].
  - rewrite map_length, Lx, pyslice_length. reflexivity.
  - apply Forall_forall. intros r Hr. apply in_map_iff in Hr. destruct Hr as [r0 [<- Hr0]].
    rewrite !pyslice_length. unfold sl_len.
    assert (E : length r0 = length (cys im)).
    { rewrite Forall_forall in W2. apply W2. unfold pyslice in Hr0.
      eapply (proj1 (Forall_forall _ _) (Forall_firstn (fun x => In x (cpix im)) _ _
               (Forall_skipn _ _ _ (proj2 (Forall_forall (fun x => In x (cpix im)) (cpix im)) (fun x H => H))))).
      exact Hr0. }
    rewrite E. reflexivity.
  - apply pyslice_length.
  - apply pyslice_length.
  - intros p q Hp Hq. rewrite pyslice_length in Hp, Hq.
    split; [apply pyslice_nth, Hp|]. split; [apply pyslice_nth, Hq|].
    rewrite (nth_indep _ [] (pyslice (fst ey) (snd ey) [])) by (rewrite map_length, Lx; exact Hp).
    rewrite (map_nth (pyslice (fst ey) (snd ey))).
    assert (Hp' : p < sl_len (fst ex) (snd ex) (cpix im)) by (unfold sl_len in *; rewrite W1; exact Hp).
    rewrite (pyslice_nth (fst ex) (snd ex) (cpix im) p [] Hp').
    assert (Ex : sl_lo (fst ex) (cpix im) = sl_lo (fst ex) (cxs im)) by (unfold sl_lo; rewrite W1; reflexivity).
    rewrite Ex. set (r := nth (sl_lo (fst ex) (cxs im) + p) (cpix im) []).
    assert (Er : length r = length (cys im)).
    { rewrite Forall_forall in W2. apply W2. apply nth_In. rewrite W1.
      unfold sl_lo, sl_len in *. pose proof (slice_norm_range (Z.of_nat (length (cxs im))) (fst ex) ltac:(lia)).
      pose proof (slice_norm_range (Z.of_nat (length (cxs im))) (snd ex) ltac:(lia)). lia. }
    assert (Hq' : q < sl_len (fst ey) (snd ey) r) by (unfold sl_len in *; rewrite Er; exact Hq).
    rewrite pyslice_nth by exact Hq'. unfold sl_lo. rewrite Er. reflexivity. Qed.

(** a fitting crop of even size on any (fractional, half-integer, ...) centre: exactly s pixels from rhe c - s/2 *)
Lemma crop_fits_even {A} (l : list A) c h : (0 <= h)%Z -> (0 <= rhe c - h)%Z -> (rhe c + h <= Z.of_nat (length l))%Z ->
  let e := crop_extent c (2 * h) in
  sl_lo (fst e) l = Z.to_nat (rhe c - h) /\ sl_len (fst e) (snd e) l = Z.to_nat (2 * h).
Proof. intros Hh Hlo Hhi. cbv zeta. rewrite crop_extent_even. cbn [fst snd]. unfold sl_lo, sl_len.
  rewrite !slice_norm_fit by lia. split; [reflexivity|f_equal; lia]. Qed.

Lemma subimage_scalar {C A} (im : cimage C A) ndim cx cy rest s : (2 <= ndim)%nat ->
  subimage ndim im (cx :: cy :: rest) (inl s) = Some (crop im (crop_extent cx s) (crop_extent cy s)).
Proof. intros H. unfold subimage, crop_args. rewrite repeat_length, Nat.eqb_refl. simpl negb. cbv iota.
  destruct ndim as [|[|n]]; [lia|lia|]. reflexivity. Qed.
Lemma subimage_bad_arity {C A} (im : cimage C A) ndim center l : length l <> ndim ->
  subimage ndim im center (inr l) = None.
Proof. intros H. unfold subimage, crop_args. apply Nat.eqb_neq in H. rewrite H. reflexivity. Qed.

(** * the executed instances ([QO], and [QOr] = [QO] with reduced fractions) compute the same values as the
      R instance the theorems are about.  Stated once for any [Ops Q] whose operations commute with [Q2R];
      unconditional, because 1/0 = 0 in Q and in R ([Rinv_0]). *)
Local Open Scope R_scope.
Lemma Q2R_inv' q : Q2R (/ q) = / Q2R q.
Proof. destruct (Qeq_dec q 0) as [E|E]; [|apply Q2R_inv, E].
  assert (E' : (/ q == 0)%Q) by (rewrite E; reflexivity).
  rewrite (Qeq_eqR _ _ E'), (Qeq_eqR _ _ E), Generic.Q2R_0, Rinv_0. reflexivity. Qed.
Lemma Q2R_Qred q : Q2R (Qred q) = Q2R q.
Proof. apply Qeq_eqR, Qred_correct. Qed.

Record hom (O : Ops Q) : Prop := mkHom {
  h_zero : Q2R (zero O) = 0; h_one : Q2R (one O) = 1;
  h_add : forall a b, Q2R (add O a b) = Q2R a + Q2R b;
  h_mul : forall a b, Q2R (mul O a b) = Q2R a * Q2R b;
  h_sub : forall a b, Q2R (sub O a b) = Q2R a - Q2R b;
  h_opp : forall a, Q2R (opp O a) = - Q2R a;
  h_inv : forall a, Q2R (inv O a) = / Q2R a;
  h_ltb : forall a b, ltb O a b = Rltb (Q2R a) (Q2R b);
  h_leb : forall a b, leb O a b = Rleb (Q2R a) (Q2R b);
  h_eqb : forall a b, eqb O a b = Reqb (Q2R a) (Q2R b);
  h_ofZ : forall z, Q2R (ofZ O z) = IZR z }.

Lemma hom_QO : hom QO.
Proof. constructor; intros; cbn [zero one add mul sub opp inv ltb leb eqb ofZ QO];
  autorewrite with q2r; try reflexivity. apply Q2R_inv'. Qed.
Lemma hom_QOr : hom QOr.
Proof. constructor; intros; cbn [zero one add mul sub opp inv ltb leb eqb ofZ QOr];
  rewrite ?Q2R_Qred; autorewrite with q2r; try reflexivity. apply Q2R_inv'. Qed.

Section Link.
Variable O : Ops Q.
Hypothesis H : hom O.
Ltac hq := ro; repeat first
  [ rewrite (h_add O H) | rewrite (h_mul O H) | rewrite (h_sub O H) | rewrite (h_opp O H) | rewrite (h_inv O H)
  | rewrite (h_ltb O H) | rewrite (h_leb O H) | rewrite (h_eqb O H) | rewrite (h_ofZ O H)
  | rewrite (h_zero O H) | rewrite (h_one O H) ]; try reflexivity.

Lemma tnat_Q_R k : Q2R (tnat O k) = tnat RO k.
Proof. unfold tnat. hq. Qed.
Lemma tsum_Q_R l : Q2R (tsum O l) = tsum RO (map Q2R l).
Proof. induction l as [|x t IH]; simpl; hq. rewrite IH. reflexivity. Qed.

Lemma normalize_Q_R l : map Q2R (normalize O l) = normalize RO (map Q2R l).
Proof. unfold normalize, tlen. rewrite !map_map, map_length. apply map_ext. intros v. hq.
  rewrite tsum_Q_R, tnat_Q_R. reflexivity. Qed.

Lemma prev_pos_Q_R (v : nat -> Q) i : prev_pos O v i = prev_pos RO (fun k => Q2R (v k)) i.
Proof. induction i as [|i IH]; simpl; [reflexivity|]. hq. rewrite IH. reflexivity. Qed.
Lemma next_pos_Q_R (v : nat -> Q) fuel : forall i, next_pos O v i fuel = next_pos RO (fun k => Q2R (v k)) i fuel.
Proof. induction fuel as [|fu IH]; intros i; simpl; [reflexivity|]. hq. rewrite IH. reflexivity. Qed.

Lemma interp1_Q_R n (xc v : nat -> Q) i :
  option_map Q2R (interp1 O n xc v i) = interp1 RO n (fun k => Q2R (xc k)) (fun k => Q2R (v k)) i.
Proof. unfold interp1. rewrite <- prev_pos_Q_R, <- next_pos_Q_R. hq.
  destruct (Rltb 0 (Q2R (v i))); [reflexivity|].
  destruct (prev_pos O v i); destruct (next_pos O v i (n - 1 - i)); simpl; try reflexivity. f_equal. hq. Qed.

Definition imQ2R (f : image (T:=Q)) : image (T:=R) := fun i j => Q2R (f i j).
Definition cQ2R (c : nat -> Q) : nat -> R := fun i => Q2R (c i).

Lemma zf_pix_Q_R nx ny xc yc (f : image (T:=Q)) i j :
  option_map Q2R (zf_pix O nx ny xc yc f i j) = zf_pix RO nx ny (cQ2R xc) (cQ2R yc) (imQ2R f) i j.
Proof. unfold zf_pix, imQ2R, cQ2R.
  pose proof (interp1_Q_R nx xc (fun i' => f i' j) i) as H1. pose proof (interp1_Q_R ny yc (fun j' => f i j') j) as H2.
  cbv beta in H1, H2. rewrite <- H1, <- H2.
  destruct (interp1 O nx xc (fun i' => f i' j) i); destruct (interp1 O ny yc (fun j' => f i j') j); simpl;
    try reflexivity. f_equal. unfold two. hq. Qed.

Lemma seq_opt_map {A B} (g : A -> B) (l : list (option A)) :
  seq_opt (map (option_map g) l) = option_map (map g) (seq_opt l).
Proof. induction l as [|[x|] t IH]; simpl; [reflexivity| |reflexivity].
  rewrite IH. destruct (seq_opt t); reflexivity. Qed.
Lemma all_some_map {A B} (g : A -> B) nx ny (h : nat -> nat -> option A) :
  all_some (tabulate nx ny (fun i j => option_map g (h i j))) = option_map (map (map g)) (all_some (tabulate nx ny h)).
Proof. unfold all_some, tabulate. rewrite <- seq_opt_map. f_equal. rewrite !map_map. apply map_ext. intros i.
  rewrite <- seq_opt_map. f_equal. rewrite map_map. reflexivity. Qed.
Lemma all_some_ext {A} nx ny (g h : nat -> nat -> option A) : (forall i j, g i j = h i j) ->
  all_some (tabulate nx ny g) = all_some (tabulate nx ny h).
Proof. intros E. unfold all_some, tabulate. do 2 f_equal. apply map_ext. intros i. apply map_ext. intros j. apply E. Qed.

Lemma zero_filter_Q_R nx ny xc yc (f : image (T:=Q)) :
  option_map (map (map Q2R)) (zero_filter O nx ny xc yc f) = zero_filter RO nx ny (cQ2R xc) (cQ2R yc) (imQ2R f).
Proof. unfold zero_filter. rewrite <- all_some_map. apply all_some_ext. intros. apply zf_pix_Q_R. Qed.

Lemma interp1_ext_R n xc (u v : nat -> R) i : (forall k, u k = v k) -> interp1 RO n xc u i = interp1 RO n xc v i.
Proof. intros E. unfold interp1. rewrite E.
  assert (P : forall m, prev_pos RO u m = prev_pos RO v m) by (induction m as [|m IH]; simpl; [reflexivity|rewrite E, IH; reflexivity]).
  assert (N : forall fu m, next_pos RO u m fu = next_pos RO v m fu)
    by (induction fu as [|fu IH]; intros m; simpl; [reflexivity|rewrite E, IH; reflexivity]).
  rewrite P, N. destruct (prev_pos RO v i); destruct (next_pos RO v i (n - 1 - i)); try reflexivity. rewrite !E. reflexivity. Qed.
Lemma zf_pix_ext_R nx ny xc yc (f g : image (T:=R)) i j : (forall a b, f a b = g a b) ->
  zf_pix RO nx ny xc yc f i j = zf_pix RO nx ny xc yc g i j.
Proof. intros E. unfold zf_pix.
  rewrite (interp1_ext_R nx xc (fun i' => f i' j) (fun i' => g i' j)) by (intros; apply E).
  rewrite (interp1_ext_R ny yc (fun j' => f i j') (fun j' => g i j')) by (intros; apply E). reflexivity. Qed.

Lemma bgc_pix_Q_R nx ny xc yc (raw bg df : image (T:=Q)) i j :
  option_map Q2R (bgc_pix O nx ny xc yc raw bg df i j)
  = bgc_pix RO nx ny (cQ2R xc) (cQ2R yc) (imQ2R raw) (imQ2R bg) (imQ2R df) i j.
Proof. unfold bgc_pix.
  rewrite (zf_pix_ext_R nx ny (cQ2R xc) (cQ2R yc) (imsub RO (imQ2R bg) (imQ2R df)) (imQ2R (imsub O bg df)))
    by (intros; unfold imsub, imQ2R; hq).
  rewrite <- zf_pix_Q_R. destruct (zf_pix O nx ny xc yc (imsub O bg df) i j); simpl; [|reflexivity].
  f_equal. unfold imQ2R. hq. Qed.

Lemma bg_correct_Q_R g nx ny xc yc (raw bg df : image (T:=Q)) :
  option_map (map (map Q2R)) (bg_correct O g nx ny xc yc raw bg df)
  = bg_correct RO g nx ny (cQ2R xc) (cQ2R yc) (imQ2R raw) (imQ2R bg) (imQ2R df).
Proof. unfold bg_correct. destruct g; [|reflexivity]. rewrite <- all_some_map. apply all_some_ext. intros. apply bgc_pix_Q_R. Qed.

Lemma idx_sum_Q_R n (g : nat -> Q) (h : nat -> R) : (forall i, Q2R (g i) = h i) -> Q2R (idx_sum O n g) = idx_sum RO n h.
Proof. intros E. unfold idx_sum. rewrite tsum_Q_R, map_map. f_equal. apply map_ext. exact E. Qed.

Lemma dt_seq_Q_R n (v : nat -> Q) k : Q2R (dt_seq O n v k) = dt_seq RO n (cQ2R v) k.
Proof. unfold dt_seq, cQ2R. hq. rewrite !tnat_Q_R.
  rewrite (idx_sum_Q_R n (tnat O) (tnat RO)) by apply tnat_Q_R.
  rewrite (idx_sum_Q_R n (fun i => mul O (tnat O i) (tnat O i)) (fun i => tnat RO i * tnat RO i))
    by (intros; hq; rewrite !tnat_Q_R; reflexivity).
  rewrite (idx_sum_Q_R n v (fun i => Q2R (v i))) by reflexivity.
  rewrite (idx_sum_Q_R n (fun i => mul O (tnat O i) (v i)) (fun i => tnat RO i * Q2R (v i)))
    by (intros; hq; rewrite !tnat_Q_R; reflexivity).
  reflexivity. Qed.

Lemma detrend_Q_R nx ny (f : image (T:=Q)) i j : Q2R (detrend O nx ny f i j) = detrend RO nx ny (imQ2R f) i j.
Proof. unfold detrend. rewrite dt_seq_Q_R. unfold cQ2R.
  apply dt_seq_ext; intros; apply dt_seq_Q_R. Qed.

Definition accQ2R (a : acc (T:=Q)) : acc (T:=R) := let '(n, m, v) := a in (n, Q2R m, Q2R v).
Lemma push_Q_R a x : accQ2R (push O a x) = push RO (accQ2R a) (Q2R x).
Proof. destruct a as [[n m] v]. unfold push, accQ2R. destruct (Z.eqb (n + 1) 1); (f_equal; [f_equal|]); hq. Qed.
Lemma push_all_Q_R l : accQ2R (push_all O l) = push_all RO (map Q2R l).
Proof. unfold push_all. assert (G : forall a, accQ2R (fold_left (push O) l a) = fold_left (push RO) (map Q2R l) (accQ2R a)).
  { induction l as [|x t IH]; intros a; simpl; [reflexivity|]. rewrite IH, push_Q_R. reflexivity. }
  rewrite G. unfold acc_init, accQ2R. hq. Qed.
Lemma acc_mean_Q_R (a : acc (T:=Q)) : Q2R (acc_mean a) = acc_mean (accQ2R a).
Proof. destruct a as [[n m] v]. reflexivity. Qed.
Lemma acc_var_Q_R a : option_map Q2R (acc_var O a) = acc_var RO (accQ2R a).
Proof. destruct a as [[n m] v]. unfold acc_var, accQ2R. destruct (Z.eqb n 0); simpl; [reflexivity|]. f_equal. hq. Qed.

Lemma center_prior_Q_R cf sp org unc :
  (let '(mu, sd) := center_prior O cf sp org unc in (Q2R mu, Q2R sd)) = center_prior RO (Q2R cf) (Q2R sp) (Q2R org) (Q2R unc).
Proof. unfold center_prior. f_equal; hq. Qed.
End Link.

From Coq Require Import ZArith List Bool Reals QArith Qreals Lra Lia Psatz.
From HV Require Import Common.Generic C18.Model.
Import ListNotations.

(** C12 - posterior = prior x Gaussian likelihood.  Executable model (no proofs here).
    Anchors: inference/model.py (_lnprior, _lnposterior, _lnlike, _find_noise, _find_optics,
    AlphaModel/ExactModel._forward, LimitOverlaps.check), core/prior.py (lnprob of Uniform /
    Gaussian / BoundedGaussian - the only kinds that reach Model._parameters: Complex and
    Transformed priors are split into their base priors by the Mapper), core/utils.py (LnpostWrapper).

    Numbers live in a generic carrier [T] (R for the theorems, Q for execution).  ln, sqrt and pi
    are ORACLE LEAVES: Section variables here; the theorems instantiate them with the real
    functions, the harness with a table of the values python's math library returned.
    The forward calculation (calc_holo / the user's calc_func), the scatterer builder (C11) and
    the random pixel selection are oracles too (abstract functions).
    Extended values: [None] is minus infinity. *)
From Coq Require Import ZArith List Bool.
From HV Require Import Common.Generic.
Import ListNotations.

Section Gen.
Context {T : Type} (O : Ops T).
Declare Scope t_scope. Delimit Scope t_scope with t.
Local Notation "x + y" := (add O x y) : t_scope. Local Notation "x * y" := (mul O x y) : t_scope.
Local Notation "x - y" := (sub O x y) : t_scope. Local Notation "- x" := (opp O x) : t_scope.
Local Notation "x / y" := (mul O x (inv O y)) : t_scope.
Local Notation "x <? y" := (ltb O x y) : t_scope. Local Notation "x <=? y" := (leb O x y) : t_scope.
Local Open Scope t_scope.

Variable ln : T -> T.
Variable sqrt : T -> T.
Variable pi : T.

Definition two : T := one O + one O.
Definition sq (x : T) : T := x * x.
Definition tsum (l : list T) : T := fold_right (fun x a => x + a) (zero O) l.
Definition tlen {A} (l : list A) : T := ofZ O (Z.of_nat (length l)).

(** * extended values: None = -inf *)
Definition ext : Type := option T.
Definition eadd (a b : ext) : ext := match a, b with Some x, Some y => Some (x + y) | _, _ => None end.
(** python's [sum(list)]: starts from 0 and adds from the left *)
Definition esum (l : list ext) : ext := fold_left eadd l (Some (zero O)).

(** * priors (core/prior.py).  A bound [None] is an infinite bound (-inf for lo, +inf for hi). *)
Inductive prior :=
| Uniform (lo hi : option T)
| Gaussian (mu sd : T)
| BoundedGaussian (mu sd : T) (lo hi : option T).

(** "p < self.lower_bound or p > self.upper_bound" *)
Definition outside (lo hi : option T) (p : T) : bool :=
  (match lo with Some l => p <? l | None => false end) || (match hi with Some h => h <? p | None => false end).
(** Uniform.__init__: finite interval -> log(1/interval), else -1/EPS with EPS = 1e-6 *)
Definition improper_const : T := ofZ O (-1000000).
Definition uniform_lnprob (lo hi : option T) : T :=
  match lo, hi with Some l, Some h => ln (one O / (h - l)) | _, _ => improper_const end.
(** Gaussian: -log(sd*sqrt(2 pi)) - (p-mu)^2/(2 sd^2) *)
Definition gauss_lnprob (mu sd p : T) : T :=
  - ln (sd * sqrt (two * pi)) - sq (p - mu) / (two * sq sd).
Definition lnprob (pr : prior) (p : T) : ext :=
  match pr with
  | Uniform lo hi => if outside lo hi p then None else Some (uniform_lnprob lo hi)
  | Gaussian mu sd => Some (gauss_lnprob mu sd p)
  | BoundedGaussian mu sd lo hi => if outside lo hi p then None else Some (gauss_lnprob mu sd p)
  end.
Definition out_of_support (pr : prior) (p : T) : bool :=
  match pr with Uniform lo hi => outside lo hi p | Gaussian _ _ => false | BoundedGaussian _ _ lo hi => outside lo hi p end.
Definition is_uniform (pr : prior) : bool := match pr with Uniform _ _ => true | _ => false end.

(** * parameter slots: a constant or "_parameter_i" (read_map on a leaf) *)
Inductive slot := Const (v : T) | Par (i : nat).
Definition read (vals : list T) (s : slot) : T := match s with Const v => v | Par i => nth i vals (zero O) end.

(** * scatterer: built by an oracle (C11's read_map + from_parameters); the constructor raises
      InvalidScatterer iff some radius is negative (C20's sphere_ctor). *)
Section Scat.
Context {Sc : Type}.
Variable mk_scat : list T -> Sc.
Variable radii : Sc -> list T.
Definition scat_from_pars (vals : list T) : option Sc :=
  let s := mk_scat vals in if existsb (fun r => r <? zero O) (radii s) then None else Some s.

(** LimitOverlaps.check: s.largest_overlap() <= (np.min(s.r) * 2) * fraction *)
Definition tmin (a b : T) : T := if b <? a then b else a.
Definition minl (l : list T) : T := match l with [] => zero O | x :: t => fold_left tmin t x end.
Definition limit_overlaps_check (largest : Sc -> T) (fraction : T) (s : Sc) : bool :=
  largest s <=? (minl (radii s) * two) * fraction.

(** _lnprior: invalid scatterer -> -inf; first failing constraint -> -inf; else sum of lnprob over
    zip(parameters, values) *)
Definition lnprior (constraints : list (Sc -> bool)) (priors : list prior) (vals : list T) : ext :=
  match scat_from_pars vals with
  | None => None
  | Some s => if forallb (fun c => c s) constraints
              then esum (map (fun pv => lnprob (fst pv) (snd pv)) (combine priors vals))
              else None
  end.

(** * noise and optics precedence *)
Inductive noise_val := NScalar (s : T) | NArray (l : list T).
Inductive nslot := NConst (v : noise_val) | NPar (i : nat).
Definition read_noise (vals : list T) (s : nslot) : noise_val :=
  match s with NConst v => v | NPar i => NScalar (nth i vals (zero O)) end.

Inductive err := MissingNoise | MissingNoiseNonUniform | MissingOptics (key : Z) | InvalidScattererErr.
Inductive res (A : Type) := Ok (a : A) | Err (e : err).
Arguments Ok {A}. Arguments Err {A}.

(** _find_noise.  [m]: the model's noise_sd (None = None).  [d]: the data's attribute:
    None = the data has no such attribute, Some None = attribute present with value None. *)
Definition find_noise (priors : list prior) (vals : list T) (m : option nslot) (d : option (option noise_val))
  : res noise_val :=
  let v : res (option noise_val) :=
    match m with
    | Some s => Ok (Some (read_noise vals s))
    | None => match d with Some a => Ok a | None => Err MissingNoise end
    end in
  match v with
  | Err e => Err e
  | Ok (Some nv) => Ok nv
  | Ok None => if forallb is_uniform priors then Ok (NScalar (one O)) else Err MissingNoiseNonUniform
  end.

(** optics values: scalar (index, wavelength) or 2-vector (polarization) *)
Inductive oval := OS (v : T) | OV (a b : T).
Inductive oslot := OConst (v : oval) | OPar (i : nat).
Definition read_o (vals : list T) (s : oslot) : oval :=
  match s with OConst v => v | OPar i => OS (nth i vals (zero O)) end.
Definition find_one (key : Z) (vals : list T) (m : option oslot) (d : option (option oval)) : res oval :=
  match m with
  | Some s => Ok (read_o vals s)
  | None => match d with Some (Some v) => Ok v | _ => Err (MissingOptics key) end
  end.
Record optics := mkOptics { o_index : oval; o_wavelen : oval; o_pol : oval }.
Definition mopt : Type := (option oslot * option oslot * option oslot)%type.
Definition dopt : Type := (option (option oval) * option (option oval) * option (option oval))%type.
(** dict comprehension over OPTICS_KEYS[:-1]: medium_index, illum_wavelen, illum_polarization, in order *)
Definition find_optics (vals : list T) (m : mopt) (d : dopt) : res optics :=
  let '(m1, m2, m3) := m in let '(d1, d2, d3) := d in
  match find_one 0 vals m1 d1 with Err e => Err e | Ok a =>
  match find_one 1 vals m2 d2 with Err e => Err e | Ok b =>
  match find_one 2 vals m3 d3 with Err e => Err e | Ok c => Ok (mkOptics a b c) end end end.

(** * likelihood: -N/2 log(2 pi) - N mean(log sd) - 1/2 sum(((f-d)/sd)^2) *)
Definition noise_list (nv : noise_val) : list T := match nv with NScalar s => [s] | NArray l => l end.
Definition sig_list (nv : noise_val) (n : nat) : list T := match nv with NScalar s => repeat s n | NArray l => l end.
Fixpoint res2 (fs ds ss : list T) : list T :=
  match fs, ds, ss with
  | f :: fs', d :: ds', s :: ss' => sq ((f - d) / s) :: res2 fs' ds' ss'
  | _, _, _ => []
  end.
Definition lnlike_fin (nv : noise_val) (ds fs : list T) : T :=
  let N := tlen ds in
  - (N / two) * ln (two * pi)
  - N * (tsum (map ln (noise_list nv)) / tlen (noise_list nv))
  - (one O / two) * tsum (res2 fs ds (sig_list nv (length ds))).
(** the forward model returns a hologram, or -inf when the solver refuses (then every residual is
    -inf and the likelihood is -inf) *)
Definition lnlike_val (nv : noise_val) (ds : list T) (f : option (list T)) : ext :=
  match f with None => None | Some fs => Some (lnlike_fin nv ds fs) end.

(** * forward model = the hologram calculation on substituted scatterer / theory / optics / alpha *)
Context {Th Det : Type}.
Variable mk_theory : list T -> Th.
Variable calc_holo : Det -> Sc -> Th -> optics -> T -> option (list T).   (* last argument: scaling *)
Variable calc_func : Det -> Sc -> Th -> optics -> option (list T).        (* ExactModel's function *)
Inductive mkind := Alpha (a : slot) | Exact.

Record model := mkModel {
  m_kind : mkind; m_priors : list prior; m_constraints : list (Sc -> bool);
  m_noise : option nslot; m_optics : mopt }.
(** what the data / detector carries: pixel values and the attributes *)
Record data := mkData { d_det : Det; d_vals : list T; d_noise : option (option noise_val); d_optics : dopt }.

(** _forward with a CALL COUNTER [c] for the forward oracle: optics first (may raise
    MissingParameter), then the scatterer (may raise InvalidScatterer), then the calculation. *)
Definition forward (M : model) (vals : list T) (D : data) (c : Z) : res (option (list T)) * Z :=
  match find_optics vals (m_optics M) (d_optics D) with
  | Err e => (Err e, c)
  | Ok op =>
    match scat_from_pars vals with
    | None => (Err InvalidScattererErr, c)
    | Some s =>
      (Ok (match m_kind M with
           | Alpha a => calc_holo (d_det D) s (mk_theory vals) op (read vals a)
           | Exact => calc_func (d_det D) s (mk_theory vals) op
           end), (c + 1)%Z)
    end
  end.

(** _lnlike: noise first, then the residuals (one forward call) *)
Definition lnlike (M : model) (vals : list T) (D : data) (c : Z) : res ext * Z :=
  match find_noise (m_priors M) vals (m_noise M) (d_noise D) with
  | Err e => (Err e, c)
  | Ok nv =>
    match forward M vals D c with
    | (Err e, c') => (Err e, c')
    | (Ok f, c') => (Ok (lnlike_val nv (d_vals D) f), c')
    end
  end.

(** make_subset_data: [sel] = the pixel indices drawn by the RNG oracle; [dsub] restricts a detector *)
Variable dsub : Det -> list nat -> Det.
Definition subset (D : data) (sel : list nat) : data :=
  mkData (dsub (d_det D) sel) (map (fun i => nth i (d_vals D) (zero O)) sel) (d_noise D) (d_optics D).

(** _lnposterior *)
Definition lnposterior (M : model) (vals : list T) (D : data) (pixels : option (list nat)) (c : Z) : res ext * Z :=
  match lnprior (m_constraints M) (m_priors M) vals with
  | None => (Ok None, c)
  | Some lp =>
    let D' := match pixels with Some sel => subset D sel | None => D end in
    match lnlike M vals D' c with
    | (Err e, c') => (Err e, c')
    | (Ok ll, c') => (Ok (eadd (Some lp) ll), c')
    end
  end.

(** * LnpostWrapper.evaluate: prefactor * lnposterior, prefactor = -1 if minus else 1 *)
Inductive wext := WNegInf | WFin (x : T) | WPosInf.
Definition wrap (minus : bool) (v : ext) : wext :=
  match v with
  | None => if minus then WPosInf else WNegInf
  | Some x => WFin ((if minus then - one O else one O) * x)
  end.
Definition wrapper_evaluate (minus : bool) (M : model) (vals : list T) (D : data) (pixels : option (list nat)) (c : Z)
  : res wext * Z :=
  match lnposterior M vals D pixels c with
  | (Err e, c') => (Err e, c')
  | (Ok v, c') => (Ok (wrap minus v), c')
  end.
End Scat.
End Gen.

Arguments prior T : clear implicits. Arguments slot T : clear implicits.
Arguments noise_val T : clear implicits. Arguments nslot T : clear implicits.
Arguments oval T : clear implicits. Arguments oslot T : clear implicits.
Arguments optics T : clear implicits. Arguments wext T : clear implicits.
Arguments res A : clear implicits.
Arguments Ok {A}. Arguments Err {A}.

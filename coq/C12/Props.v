(** C12 property theorems: statements only; proofs are in Lemmas.v.
    R instance of Model.v with the oracle leaves instantiated by the real [ln], [sqrt], [PI].
    The forward calculation [calc_holo]/[calc_func], the scatterer builder [mk_scat] (with its radii),
    the theory builder and the pixel-subset restriction [dsub] are universally quantified oracles:
    every statement holds whatever they return.  [None] is minus infinity. *)
From Coq Require Import ZArith List Bool Reals QArith Qreals Lra.
From HV Require Import Common.Generic C12.Model C12.Lemmas.
Import ListNotations.
Local Open Scope R_scope.

(* likelihood = sum over pixels of the log of the normal density of d_i about f_i with sd s_i,
   for every pixel list (per-pixel noise) *)
Theorem lnlike_is_gauss_logpdf : forall ds fs ss, length fs = length ds -> length ss = length ds ->
  Forall (fun s => 0 < s) ss ->
  lnlike_fin RO ln PI (NArray ss) ds fs = tsum RO (gauss_terms fs ds ss).
Proof. exact lnlike_array_gauss. Qed.
Print Assumptions lnlike_is_gauss_logpdf.

(* scalar noise: the same with s_i = s *)
Theorem lnlike_scalar_is_gauss_logpdf : forall ds fs s, length fs = length ds -> 0 < s ->
  lnlike_fin RO ln PI (NScalar s) ds fs = tsum RO (gauss_terms fs ds (repeat s (length ds))).
Proof. exact lnlike_scalar_gauss. Qed.
Print Assumptions lnlike_scalar_is_gauss_logpdf.

(* each term really is ln of the N(f, s) density at d *)
Theorem gauss_term_is_log_normal_density : forall d f s, 0 < s ->
  ln (gpdf d f s) = ln (/ (s * sqrt (2 * PI)) * exp (- ((d - f) / s) ^ 2 / 2)).
Proof. intros. reflexivity. Qed.
Print Assumptions gauss_term_is_log_normal_density.

(* log-posterior = log-prior + log-likelihood (with whatever the likelihood returns, incl. errors and -inf) *)
Theorem posterior_sum : forall (Sc Th Det : Type) mk_scat radii mk_theory calc_holo calc_func dsub
    (M : @model R Sc) vals (D : @data R Det) px c lp,
  lnprior RO ln sqrt PI mk_scat radii (m_constraints M) (m_priors M) vals = Some lp ->
  lnposterior RO ln sqrt PI mk_scat radii mk_theory calc_holo calc_func dsub M vals D px c =
  match lnlike RO ln PI mk_scat radii mk_theory calc_holo calc_func (Th:=Th) M vals (pick dsub D px) c with
  | (Ok ll, c') => (Ok (eadd RO (Some lp) ll), c')
  | (Err e, c') => (Err e, c')
  end.
Proof. intros Sc Th Det mk_scat radii mk_theory calc_holo calc_func dsub. exact (lnposterior_sum mk_scat radii mk_theory calc_holo calc_func dsub). Qed.
Print Assumptions posterior_sum.

(* the fully explicit form: prior finite, noise and optics available => exactly one forward call and
   lnposterior = lnprior + lnlike(noise, data (or its subset), calc(substituted scatterer, theory, optics, alpha)) *)
Theorem posterior_explicit : forall (Sc Th Det : Type) mk_scat radii mk_theory calc_holo calc_func dsub
    (M : @model R Sc) vals (D : @data R Det) px c lp nv op s,
  lnprior RO ln sqrt PI mk_scat radii (m_constraints M) (m_priors M) vals = Some lp ->
  find_noise RO (m_priors M) vals (m_noise M) (d_noise D) = Ok nv ->
  find_optics RO vals (m_optics M) (d_optics D) = Ok op ->
  scat_from_pars RO mk_scat radii vals = Some s ->
  let D' := pick dsub D px in
  let f := match m_kind M with
           | Alpha a => calc_holo (d_det D') (mk_scat vals) (mk_theory vals : Th) op (read RO vals a)
           | Exact => calc_func (d_det D') (mk_scat vals) (mk_theory vals) op
           end in
  lnposterior RO ln sqrt PI mk_scat radii mk_theory calc_holo calc_func dsub M vals D px c
  = (Ok (eadd RO (Some lp) (lnlike_val RO ln PI nv (d_vals D') f)), (c + 1)%Z).
Proof. intros Sc Th Det mk_scat radii mk_theory calc_holo calc_func dsub. exact (lnposterior_full mk_scat radii mk_theory calc_holo calc_func dsub). Qed.
Print Assumptions posterior_explicit.

(* log-prior is -inf iff the scatterer is invalid (a negative radius), a constraint fails, or a value is
   outside its prior's support *)
Theorem prior_neg_inf_iff : forall (Sc : Type) (mk_scat : list R -> Sc) radii cs ps vals,
  lnprior RO ln sqrt PI mk_scat radii cs ps vals = None <->
  (exists r, In r (radii (mk_scat vals)) /\ r < 0)
  \/ (exists c, In c cs /\ c (mk_scat vals) = false)
  \/ (exists p v, In (p, v) (combine ps vals) /\ out_of_support RO p v = true).
Proof. intros Sc mk_scat radii. exact (lnprior_none_iff mk_scat radii). Qed.
Print Assumptions prior_neg_inf_iff.

Theorem out_of_support_iff : forall lo hi mu sd p,
  (out_of_support RO (Uniform lo hi) p = true <-> (exists l, lo = Some l /\ p < l) \/ (exists h, hi = Some h /\ h < p)) /\
  (out_of_support RO (BoundedGaussian mu sd lo hi) p = true <-> (exists l, lo = Some l /\ p < l) \/ (exists h, hi = Some h /\ h < p)) /\
  out_of_support RO (Gaussian mu sd) p = false.
Proof. intros. split; [apply outside_iff|split; [apply outside_iff|reflexivity]]. Qed.
Print Assumptions out_of_support_iff.

(* otherwise it is the sum of the parameters' log-densities *)
Theorem prior_is_sum_of_lnprob : forall (Sc : Type) (mk_scat : list R -> Sc) radii cs ps vals,
  (forall r, In r (radii (mk_scat vals)) -> 0 <= r) ->
  (forall c, In c cs -> c (mk_scat vals) = true) ->
  (forall p v, In (p, v) (combine ps vals) -> out_of_support RO p v = false) ->
  lnprior RO ln sqrt PI mk_scat radii cs ps vals
  = Some (tsum RO (map (fun pv => lnprob_fin (fst pv) (snd pv)) (combine ps vals))).
Proof. intros Sc mk_scat radii. exact (lnprior_finite_sum mk_scat radii). Qed.
Print Assumptions prior_is_sum_of_lnprob.

Theorem lnprob_is_log_density : forall mu sd l h p, 0 < sd ->
  lnprob_fin (Gaussian mu sd) p = ln (gpdf p mu sd) /\
  lnprob_fin (BoundedGaussian mu sd l h) p = ln (gpdf p mu sd) /\   (* documented as unnormalised *)
  lnprob_fin (Uniform (Some mu) (Some sd)) p = ln (1 / (sd - mu)).
Proof. intros. split; [apply gauss_lnprob_is_ln_density; assumption|split; [apply gauss_lnprob_is_ln_density; assumption|reflexivity]]. Qed.
Print Assumptions lnprob_is_log_density.

(* prior -inf => posterior -inf and the forward oracle's call counter is unchanged *)
Theorem no_forward_when_neg_inf : forall (Sc Th Det : Type) mk_scat radii mk_theory calc_holo calc_func dsub
    (M : @model R Sc) vals (D : @data R Det) px c,
  lnprior RO ln sqrt PI mk_scat radii (m_constraints M) (m_priors M) vals = None ->
  lnposterior RO ln sqrt PI mk_scat radii (mk_theory : list R -> Th) calc_holo calc_func dsub M vals D px c = (Ok None, c).
Proof. intros Sc Th Det mk_scat radii mk_theory calc_holo calc_func dsub. exact (lnposterior_neg_inf mk_scat radii mk_theory calc_holo calc_func dsub). Qed.
Print Assumptions no_forward_when_neg_inf.

(* in general: a finite posterior costs exactly one forward call, an error none, -inf at most one *)
Theorem forward_call_count : forall (Sc Th Det : Type) mk_scat radii mk_theory calc_holo calc_func dsub
    (M : @model R Sc) vals (D : @data R Det) px c,
  match lnposterior RO ln sqrt PI mk_scat radii (mk_theory : list R -> Th) calc_holo calc_func dsub M vals D px c with
  | (Ok None, c') => c' = c \/ c' = (c + 1)%Z
  | (Ok (Some _), c') => c' = (c + 1)%Z
  | (Err _, c') => c' = c
  end.
Proof. intros Sc Th Det mk_scat radii mk_theory calc_holo calc_func dsub. exact (lnposterior_counter mk_scat radii mk_theory calc_holo calc_func dsub). Qed.
Print Assumptions forward_call_count.

(* noise: the model's value, else the data's attribute, else MissingParameter; a None value means 1 for
   all-Uniform models and MissingParameter otherwise *)
Theorem noise_precedence : forall ps vals m d,
  (forall s, m = Some s -> find_noise RO ps vals m d = Ok (read_noise RO vals s)) /\
  (forall nv, m = None -> d = Some (Some nv) -> find_noise RO ps vals m d = Ok nv) /\
  (m = None -> d = None -> find_noise RO ps vals m d = Err MissingNoise) /\
  (m = None -> d = Some None ->
     find_noise RO ps vals m d = if forallb is_uniform ps then Ok (NScalar 1) else Err MissingNoiseNonUniform).
Proof. exact find_noise_table. Qed.
Print Assumptions noise_precedence.

(* optics, per key: the model's value, else the data's (non-None) attribute, else MissingParameter;
   all three found <-> Ok; the first missing key in the order index, wavelength, polarization is reported *)
Theorem optics_precedence : forall key vals m d,
  (forall s, m = Some s -> find_one RO key vals m d = Ok (read_o RO vals s)) /\
  (forall v, m = None -> d = Some (Some v) -> find_one RO key vals m d = Ok v) /\
  (m = None -> (d = None \/ d = Some None) -> find_one RO key vals m d = Err (MissingOptics key)).
Proof. exact find_one_table. Qed.
Print Assumptions optics_precedence.

Theorem optics_all_keys : forall vals m1 m2 m3 d1 d2 d3 op,
  find_optics RO vals (m1, m2, m3) (d1, d2, d3) = Ok op <->
  find_one RO 0 vals m1 d1 = Ok (o_index op) /\ find_one RO 1 vals m2 d2 = Ok (o_wavelen op)
  /\ find_one RO 2 vals m3 d3 = Ok (o_pol op).
Proof. exact find_optics_ok. Qed.
Print Assumptions optics_all_keys.

(* LnpostWrapper: + posterior, or - posterior (then -inf becomes +inf); same number of forward calls *)
Theorem wrapper_sign : forall (Sc Th Det : Type) mk_scat radii mk_theory calc_holo calc_func dsub
    minus (M : @model R Sc) vals (D : @data R Det) px c,
  wrapper_evaluate RO ln sqrt PI mk_scat radii (mk_theory : list R -> Th) calc_holo calc_func dsub minus M vals D px c =
  match lnposterior RO ln sqrt PI mk_scat radii mk_theory calc_holo calc_func dsub M vals D px c with
  | (Ok v, c') => (Ok (if minus then match v with None => WPosInf | Some x => WFin (- x) end
                       else match v with None => WNegInf | Some x => WFin x end), c')
  | (Err e, c') => (Err e, c')
  end.
Proof. intros. rewrite wrapper_is_signed_posterior.
  destruct (lnposterior _ _ _ _ _ _ _ _ _ _ _ _ _ _ _) as [[v|e] c']; [|reflexivity].
  destruct (wrap_spec v) as [H1 H2]. destruct minus; [rewrite H2|rewrite H1]; reflexivity. Qed.
Print Assumptions wrapper_sign.

(* forward = the hologram calculation applied to the substituted scatterer, theory, optics (and alpha),
   after the optics lookup and scatterer validation; one counted call *)
Theorem forward_is_calc_holo : forall (Sc Th Det : Type) mk_scat radii mk_theory calc_holo calc_func
    (M : @model R Sc) vals (D : @data R Det) c op s,
  find_optics RO vals (m_optics M) (d_optics D) = Ok op -> scat_from_pars RO mk_scat radii vals = Some s ->
  forward RO mk_scat radii mk_theory calc_holo calc_func M vals D c =
  (Ok (match m_kind M with
       | Alpha a => calc_holo (d_det D) (mk_scat vals) (mk_theory vals : Th) op (read RO vals a)
       | Exact => calc_func (d_det D) (mk_scat vals) (mk_theory vals) op
       end), (c + 1)%Z).
Proof. intros Sc Th Det mk_scat radii mk_theory calc_holo calc_func. exact (forward_value mk_scat radii mk_theory calc_holo calc_func). Qed.
Print Assumptions forward_is_calc_holo.

(* ExactModel with its default calc_func (= calc_holo, scaling 1) is AlphaModel with alpha = 1 *)
Theorem exact_default_is_alpha_one : forall (Sc Th Det : Type) mk_scat radii mk_theory
    (calc_holo : Det -> Sc -> Th -> optics R -> R -> option (list R)) calc_func ps cs mn mo vals (D : @data R Det) c,
  (forall d s t o, calc_func d s t o = calc_holo d s t o 1) ->
  forward RO mk_scat radii mk_theory calc_holo calc_func (mkModel Exact ps cs mn mo) vals D c
  = forward RO mk_scat radii mk_theory calc_holo calc_func (mkModel (Alpha (Const 1)) ps cs mn mo) vals D c.
Proof. intros Sc Th Det mk_scat radii mk_theory calc_holo calc_func. exact (Lemmas.exact_default_is_alpha_one mk_scat radii mk_theory calc_holo calc_func). Qed.
Print Assumptions exact_default_is_alpha_one.

(* LimitOverlaps.check: largest overlap <= fraction of the smallest diameter *)
Theorem limit_overlaps_spec : forall (Sc : Type) (radii : Sc -> list R) largest fraction s x t,
  radii s = x :: t ->
  (limit_overlaps_check RO radii largest fraction s = true <-> largest s <= (minl RO (x :: t) * 2) * fraction) /\
  In (minl RO (x :: t)) (x :: t) /\ (forall y, In y (x :: t) -> minl RO (x :: t) <= y).
Proof. intros Sc radii largest fraction s x t E. split; [rewrite <- E; apply limit_overlaps_iff|apply minl_spec]. Qed.
Print Assumptions limit_overlaps_spec.

(* what vm_compute runs (Q instance, any ln oracle commuting with Q2R) is the value the theorems speak about *)
Theorem lnlike_agrees_on_Q : forall (lnq : Q -> Q) (lnr : R -> R) piq, (forall x, Q2R (lnq x) = lnr (Q2R x)) ->
  forall nv ds fs, Forall (fun s => ~ (s == 0)%Q) (noise_list nv) -> noise_list nv <> [] ->
  Q2R (lnlike_fin QO lnq piq nv ds fs) = lnlike_fin RO lnr (Q2R piq) (nvQ2R nv) (map Q2R ds) (map Q2R fs).
Proof. exact lnlike_fin_Q_R. Qed.
Print Assumptions lnlike_agrees_on_Q.

(* non-vacuity: the hypotheses are satisfiable by concrete objects, and both branches of the
   short-circuit are inhabited on the executable instance *)
Example hyps_satisfiable :
  (length [1; 2] = length [0; 3] /\ length [1; 1 / 2] = length [0; 3] /\ Forall (fun s => 0 < s) [1; 1 / 2]) /\
  (let M := mkModel (Alpha (Par 1)) [Uniform (Some 0) (Some 2); Uniform (Some 0) None]%Q [] (Some (NConst (NScalar 1%Q)))
                    (Some (OConst (OS 1%Q)), Some (OConst (OS 1%Q)), Some (OConst (OV 1%Q 0%Q))) in
   let D := mkData tt [1; 2]%Q None (None, None, None) in
   let calc := fun (_ : unit) (s : list Q) (_ : unit) (_ : optics Q) (a : Q) => Some (map (fun r => r * a)%Q [1; 1]%Q) in
   let run := lnposterior QO (fun _ => 0%Q) (fun _ => 1%Q) 3%Q (fun v => [nth 0 v 0%Q]) (fun s => s)
                          (fun _ => tt) calc (fun _ _ _ _ => None) (fun d _ => d) M in
   snd (run [1; 1]%Q D None 5%Z) = 6%Z /\ run [3; 1]%Q D None 5%Z = (Ok None, 5%Z) /\
   run [(-1); 1]%Q D None 5%Z = (Ok None, 5%Z)).
Proof. split; [repeat split; try reflexivity; repeat constructor; lra|vm_compute; repeat split; reflexivity]. Qed.

(** C12 proofs.  The oracle leaves ln / sqrt / pi of Model.v are instantiated with the real
    functions [ln], [sqrt], [PI]; forward calculation, scatterer builder, theory builder and pixel
    selection stay universally quantified (the theorems hold for every such oracle). *)
From Coq Require Import ZArith List Bool Reals QArith Qreals Lra Lia.
From HV Require Import Common.Generic C12.Model.
Import ListNotations.
Local Open Scope R_scope.

(** * extended sums *)
Lemma fold_eadd_none (l : list (option R)) : fold_left (eadd RO) l None = None.
Proof. induction l as [|x t IH]; simpl; [reflexivity|exact IH]. Qed.

Lemma fold_eadd_none_iff (l : list (option R)) a :
  fold_left (eadd RO) l a = None <-> a = None \/ In None l.
Proof. revert a; induction l as [|x t IH]; intros a; simpl.
  - split; [intros H; left; exact H|intros [H|[]]; exact H].
  - rewrite IH. destruct a as [a|], x as [x|]; simpl; split; intros H.
    + destruct H as [H|H]; [discriminate|right; right; exact H].
    + destruct H as [H|[H|H]]; [discriminate|discriminate|right; exact H].
    + right; left; reflexivity.
    + left; reflexivity.
    + left; reflexivity.
    + left; reflexivity.
    + left; reflexivity.
    + left; reflexivity. Qed.

Lemma esum_none_iff (l : list (option R)) : esum RO l = None <-> In None l.
Proof. unfold esum. rewrite fold_eadd_none_iff. split; [intros [H|H]; [discriminate|exact H]|intros H; right; exact H]. Qed.

Lemma fold_eadd_some (xs : list R) a :
  fold_left (eadd RO) (map Some xs) (Some a) = Some (a + tsum RO xs).
Proof. revert a; induction xs as [|x t IH]; intros a; simpl.
  - f_equal. lra.
  - rewrite IH. f_equal. simpl. lra. Qed.

Lemma esum_some (xs : list R) : esum RO (map Some xs) = Some (tsum RO xs).
Proof. unfold esum. rewrite fold_eadd_some. f_equal. simpl. lra. Qed.

(** * lnprob: -inf exactly outside the support *)
Definition lnprob_fin (pr : prior R) (p : R) : R :=
  match pr with
  | Uniform lo hi => uniform_lnprob RO ln lo hi
  | Gaussian mu sd => gauss_lnprob RO ln sqrt PI mu sd p
  | BoundedGaussian mu sd _ _ => gauss_lnprob RO ln sqrt PI mu sd p
  end.

Lemma lnprob_cases pr p :
  lnprob RO ln sqrt PI pr p = if out_of_support RO pr p then None else Some (lnprob_fin pr p).
Proof. destruct pr; simpl; try reflexivity. Qed.

Lemma lnprob_none_iff pr p : lnprob RO ln sqrt PI pr p = None <-> out_of_support RO pr p = true.
Proof. rewrite lnprob_cases. destruct (out_of_support RO pr p); split; intros; try reflexivity; discriminate. Qed.

Lemma outside_iff lo hi p :
  outside RO lo hi p = true <-> (exists l, lo = Some l /\ p < l) \/ (exists h, hi = Some h /\ h < p).
Proof. unfold outside. rewrite orb_true_iff. split; intros [H|H].
  - left. destruct lo as [l|]; [|discriminate]. exists l. split; [reflexivity|]. apply Rltb_true. exact H.
  - right. destruct hi as [h|]; [|discriminate]. exists h. split; [reflexivity|]. apply Rltb_true. exact H.
  - destruct H as (l & -> & H). left. apply Rltb_true. exact H.
  - destruct H as (h & -> & H). right. apply Rltb_true. exact H. Qed.

(** the finite branches are the logarithms of the densities (C14 proves more; this is the part C12 uses) *)
Definition gpdf (x mu s : R) : R := / (s * sqrt (2 * PI)) * exp (- ((x - mu) / s) ^ 2 / 2).

Lemma ln_gpdf x mu s : 0 < s -> ln (gpdf x mu s) = - ln (s * sqrt (2 * PI)) - (x - mu) * (x - mu) / (2 * (s * s)).
Proof.
  intros Hs. unfold gpdf. assert (H2pi : 0 < 2 * PI) by (pose proof PI_RGT_0; lra).
  assert (Hsq : 0 < sqrt (2 * PI)) by (apply sqrt_lt_R0; lra).
  assert (Hp : 0 < s * sqrt (2 * PI)) by (apply Rmult_lt_0_compat; lra).
  rewrite ln_mult; [|apply Rinv_0_lt_compat; exact Hp|apply exp_pos].
  rewrite ln_exp, ln_Rinv by exact Hp. field. lra. Qed.

Lemma ln_gpdf_split x mu s : 0 < s ->
  ln (gpdf x mu s) = - / 2 * ln (2 * PI) - ln s - / 2 * (((x - mu) / s) * ((x - mu) / s)).
Proof.
  intros Hs. rewrite ln_gpdf by exact Hs.
  assert (H2pi : 0 < 2 * PI) by (pose proof PI_RGT_0; lra).
  assert (Hsq : 0 < sqrt (2 * PI)) by (apply sqrt_lt_R0; lra).
  rewrite ln_mult by lra.
  assert (Hls : ln (sqrt (2 * PI)) = / 2 * ln (2 * PI)).
  { assert (E : ln (sqrt (2 * PI) * sqrt (2 * PI)) = ln (2 * PI)) by (rewrite sqrt_def by lra; reflexivity).
    rewrite ln_mult in E by lra. lra. }
  rewrite Hls. field. lra. Qed.

Lemma gauss_lnprob_is_ln_density mu sd p : 0 < sd -> gauss_lnprob RO ln sqrt PI mu sd p = ln (gpdf p mu sd).
Proof. intros H. rewrite ln_gpdf by exact H. unfold gauss_lnprob, two, sq. simpl. reflexivity. Qed.

Lemma uniform_lnprob_is_ln_density l h : uniform_lnprob RO ln (Some l) (Some h) = ln (1 / (h - l)).
Proof. reflexivity. Qed.

(** * likelihood = sum of Gaussian log-densities *)
Fixpoint gauss_terms (fs ds ss : list R) : list R :=
  match fs, ds, ss with
  | f :: fs', d :: ds', s :: ss' => ln (gpdf d f s) :: gauss_terms fs' ds' ss'
  | _, _, _ => []
  end.

Lemma tlen_cons {A} (x : A) (l : list A) : tlen RO (x :: l) = tlen RO l + 1.
Proof. unfold tlen. cbn [ofZ RO]. change (length (x :: l)) with (S (length l)). rewrite Nat2Z.inj_succ, succ_IZR. reflexivity. Qed.
Lemma tlen_nil {A} : tlen RO (@nil A) = 0.
Proof. reflexivity. Qed.
Lemma tlen_nonneg {A} (l : list A) : 0 <= tlen RO l.
Proof. unfold tlen. simpl. apply IZR_le. lia. Qed.

Lemma gauss_terms_sum : forall fs ds ss, length fs = length ds -> length ss = length ds ->
  Forall (fun s => 0 < s) ss ->
  tsum RO (gauss_terms fs ds ss)
  = - (tlen RO ds / 2) * ln (2 * PI) - tsum RO (map ln ss) - / 2 * tsum RO (res2 RO fs ds ss).
Proof.
  induction fs as [|f fs IH]; intros ds ss Hf Hs Hpos.
  - destruct ds; [|discriminate]. destruct ss; [|discriminate]. unfold tlen. simpl. lra.
  - destruct ds as [|d ds]; [discriminate|]. destruct ss as [|s ss]; [discriminate|].
    inversion Hpos as [|? ? Hs0 Hpos']; subst.
    simpl gauss_terms. simpl res2. simpl map. simpl tsum in *.
    rewrite (IH ds ss) by (simpl in *; try lia; assumption).
    rewrite ln_gpdf_split by exact Hs0. rewrite tlen_cons. unfold sq. simpl. lra. Qed.

Lemma lnlike_array_gauss : forall ds fs ss, length fs = length ds -> length ss = length ds ->
  Forall (fun s => 0 < s) ss ->
  lnlike_fin RO ln PI (NArray ss) ds fs = tsum RO (gauss_terms fs ds ss).
Proof.
  intros ds fs ss Hf Hs Hpos. rewrite gauss_terms_sum by assumption.
  unfold lnlike_fin, noise_list, sig_list, two. cbn [zero one add mul sub opp inv RO].
  assert (EL : tlen RO ss = tlen RO ds) by (unfold tlen; rewrite Hs; reflexivity).
  rewrite EL. destruct ds as [|d ds].
  - destruct ss; [|discriminate]. destruct fs; [|discriminate]. unfold tlen. simpl. lra.
  - assert (0 < tlen RO (d :: ds)) by (rewrite tlen_cons; pose proof (tlen_nonneg ds); lra).
    replace (1 + 1) with 2 by lra. field. lra. Qed.

Lemma map_ln_repeat s n : tsum RO (map ln (repeat s n)) = INR n * ln s.
Proof. induction n as [|n IH]; [simpl; lra|]. rewrite S_INR. simpl repeat. simpl map. simpl tsum in *. rewrite IH. lra. Qed.

Lemma lnlike_scalar_array ds fs s :
  lnlike_fin RO ln PI (NScalar s) ds fs = lnlike_fin RO ln PI (NArray (repeat s (length ds))) ds fs.
Proof.
  unfold lnlike_fin, noise_list, sig_list. f_equal. f_equal.
  rewrite map_ln_repeat. unfold tlen. rewrite repeat_length. cbn [zero one add mul sub opp inv ofZ RO map tsum fold_right length].
  rewrite <- INR_IZR_INZ. destruct (length ds) as [|n].
  - simpl. lra.
  - assert (0 < INR (S n)) by (apply lt_0_INR; lia). change (Z.of_nat 1) with 1%Z. field. lra. Qed.

Lemma lnlike_scalar_gauss : forall ds fs s, length fs = length ds -> 0 < s ->
  lnlike_fin RO ln PI (NScalar s) ds fs = tsum RO (gauss_terms fs ds (repeat s (length ds))).
Proof.
  intros ds fs s Hf Hs. rewrite lnlike_scalar_array. apply lnlike_array_gauss; [exact Hf|apply repeat_length|].
  apply Forall_forall. intros x Hx. apply repeat_spec in Hx. subst. exact Hs. Qed.

(** * LimitOverlaps *)
Lemma tmin_le a b : tmin RO a b <= a /\ tmin RO a b <= b /\ (tmin RO a b = a \/ tmin RO a b = b).
Proof. unfold tmin. simpl. destruct (Rltb b a) eqn:E.
  - apply Rltb_true in E. repeat split; try lra; try (right; reflexivity).
  - apply Rltb_false in E. repeat split; try lra; try (left; reflexivity). Qed.

Lemma fold_tmin_spec (l : list R) a :
  fold_left (tmin RO) l a <= a /\ (forall x, In x l -> fold_left (tmin RO) l a <= x)
  /\ (fold_left (tmin RO) l a = a \/ In (fold_left (tmin RO) l a) l).
Proof. revert a; induction l as [|y t IH]; intros a; simpl.
  - split; [lra|split; [intros x []|left; reflexivity]].
  - destruct (IH (tmin RO a y)) as (H1 & H2 & H3). destruct (tmin_le a y) as (M1 & M2 & M3).
    repeat split.
    + lra.
    + intros x [<-|Hx]; [lra|apply H2; exact Hx].
    + destruct H3 as [H3|H3]; [|right; right; exact H3]. destruct M3 as [M3|M3].
      * left. rewrite H3. exact M3.
      * right. left. rewrite H3, M3. reflexivity. Qed.

Lemma minl_spec (x : R) (t : list R) :
  In (minl RO (x :: t)) (x :: t) /\ forall y, In y (x :: t) -> minl RO (x :: t) <= y.
Proof. unfold minl. destruct (fold_tmin_spec t x) as (H1 & H2 & H3). split.
  - destruct H3 as [H3|H3]; [left; symmetry; exact H3|right; exact H3].
  - intros y [<-|Hy]; [exact H1|apply H2; exact Hy]. Qed.

(** * everything that mentions the scatterer / forward oracles *)
Section Oracles.
Context {Sc Th Det : Type}.
Variable mk_scat : list R -> Sc.
Variable radii : Sc -> list R.
Variable mk_theory : list R -> Th.
Variable calc_holo : Det -> Sc -> Th -> optics R -> R -> option (list R).
Variable calc_func : Det -> Sc -> Th -> optics R -> option (list R).
Variable dsub : Det -> list nat -> Det.

Notation scatR := (scat_from_pars RO mk_scat radii).
Notation lnpriorR := (lnprior RO ln sqrt PI mk_scat radii).
Notation forwardR := (forward RO mk_scat radii mk_theory calc_holo calc_func).
Notation lnlikeR := (lnlike RO ln PI mk_scat radii mk_theory calc_holo calc_func).
Notation lnpostR := (lnposterior RO ln sqrt PI mk_scat radii mk_theory calc_holo calc_func dsub).
Notation wrapperR := (wrapper_evaluate RO ln sqrt PI mk_scat radii mk_theory calc_holo calc_func dsub).

Lemma limit_overlaps_iff largest fraction s :
  limit_overlaps_check RO radii largest fraction s = true
  <-> largest s <= (minl RO (radii s) * 2) * fraction.
Proof. unfold limit_overlaps_check, two. simpl. apply Rleb_true. Qed.

Lemma scat_invalid_iff vals : scatR vals = None <-> exists r, In r (radii (mk_scat vals)) /\ r < 0.
Proof. unfold scat_from_pars. destruct (existsb _ _) eqn:E.
  - split; [intros _|reflexivity]. apply existsb_exists in E. destruct E as (r & Hr & Hlt).
    exists r. split; [exact Hr|]. apply Rltb_true. exact Hlt.
  - split; [discriminate|]. intros (r & Hr & Hlt). exfalso.
    assert (existsb (fun r => ltb RO r (zero RO)) (radii (mk_scat vals)) = true).
    { apply existsb_exists. exists r. split; [exact Hr|]. apply Rltb_true. exact Hlt. }
    congruence. Qed.

Lemma scat_valid_eq vals s : scatR vals = Some s -> s = mk_scat vals.
Proof. unfold scat_from_pars. destruct (existsb _ _); [discriminate|]. intros H. inversion H. reflexivity. Qed.

Lemma lnprior_none_iff cs ps vals :
  lnpriorR cs ps vals = None <->
  (exists r, In r (radii (mk_scat vals)) /\ r < 0)
  \/ (exists c, In c cs /\ c (mk_scat vals) = false)
  \/ (exists p v, In (p, v) (combine ps vals) /\ out_of_support RO p v = true).
Proof.
  unfold lnprior. destruct (scatR vals) as [s|] eqn:ES.
  - pose proof (scat_valid_eq _ _ ES) as ->.
    assert (NI : ~ exists r, In r (radii (mk_scat vals)) /\ r < 0).
    { intros H. apply scat_invalid_iff in H. congruence. }
    destruct (forallb (fun c => c (mk_scat vals)) cs) eqn:EC.
    + rewrite esum_none_iff, in_map_iff. split.
      * intros ((p, v) & Hl & Hin). right. right. exists p, v. split; [exact Hin|].
        apply lnprob_none_iff. exact Hl.
      * intros [H|[H|H]]; [contradiction| |].
        -- destruct H as (c & Hc & Hf). rewrite forallb_forall in EC. rewrite (EC c Hc) in Hf. discriminate.
        -- destruct H as (p & v & Hin & Ho). exists (p, v). split; [|exact Hin]. apply lnprob_none_iff. exact Ho.
    + split; [intros _|reflexivity]. right. left.
      assert (H : forallb (fun c => c (mk_scat vals)) cs <> true) by congruence.
      rewrite forallb_forall in H.
      destruct (existsb (fun c => negb (c (mk_scat vals))) cs) eqn:EX.
      * apply existsb_exists in EX. destruct EX as (c & Hc & Hn). exists c. split; [exact Hc|].
        apply negb_true_iff. exact Hn.
      * exfalso. apply H. intros c Hc. destruct (c (mk_scat vals)) eqn:Ec; [reflexivity|].
        assert (existsb (fun c => negb (c (mk_scat vals))) cs = true).
        { apply existsb_exists. exists c. split; [exact Hc|]. rewrite Ec. reflexivity. }
        congruence.
  - split; [intros _|reflexivity]. left. apply scat_invalid_iff. exact ES. Qed.

Lemma map_lnprob_in_support : forall (l : list (prior R * R)),
  (forall p v, In (p, v) l -> out_of_support RO p v = false) ->
  map (fun pv => lnprob RO ln sqrt PI (fst pv) (snd pv)) l
  = map Some (map (fun pv => lnprob_fin (fst pv) (snd pv)) l).
Proof. induction l as [|[p v] t IH]; intros H; [reflexivity|]. simpl. f_equal.
  - rewrite lnprob_cases. rewrite (H p v (or_introl eq_refl)). reflexivity.
  - apply IH. intros p' v' Hin. apply H. right. exact Hin. Qed.

Lemma lnprior_finite_sum cs ps vals :
  (forall r, In r (radii (mk_scat vals)) -> 0 <= r) ->
  (forall c, In c cs -> c (mk_scat vals) = true) ->
  (forall p v, In (p, v) (combine ps vals) -> out_of_support RO p v = false) ->
  lnpriorR cs ps vals = Some (tsum RO (map (fun pv => lnprob_fin (fst pv) (snd pv)) (combine ps vals))).
Proof.
  intros Hr Hc Hs. unfold lnprior. destruct (scatR vals) as [s|] eqn:ES.
  - pose proof (scat_valid_eq _ _ ES) as ->.
    assert (EC : forallb (fun c => c (mk_scat vals)) cs = true) by (apply forallb_forall; exact Hc).
    rewrite EC. rewrite map_lnprob_in_support by exact Hs. apply esum_some.
  - exfalso. apply scat_invalid_iff in ES. destruct ES as (r & Hin & Hlt). specialize (Hr r Hin). lra. Qed.

(** * noise / optics precedence *)
Lemma find_noise_table ps vals m d :
  (forall s, m = Some s -> find_noise RO ps vals m d = Ok (read_noise RO vals s)) /\
  (forall nv, m = None -> d = Some (Some nv) -> find_noise RO ps vals m d = Ok nv) /\
  (m = None -> d = None -> find_noise RO ps vals m d = Err MissingNoise) /\
  (m = None -> d = Some None ->
     find_noise RO ps vals m d = if forallb is_uniform ps then Ok (NScalar 1) else Err MissingNoiseNonUniform).
Proof. repeat split; intros; subst; reflexivity. Qed.

Lemma find_one_table key vals m d :
  (forall s, m = Some s -> find_one RO key vals m d = Ok (read_o RO vals s)) /\
  (forall v, m = None -> d = Some (Some v) -> find_one RO key vals m d = Ok v) /\
  (m = None -> (d = None \/ d = Some None) -> find_one RO key vals m d = Err (MissingOptics key)).
Proof. repeat split; intros; subst; try reflexivity. destruct H0; subst; reflexivity. Qed.

Lemma find_optics_ok vals m1 m2 m3 d1 d2 d3 op :
  find_optics RO vals (m1, m2, m3) (d1, d2, d3) = Ok op <->
  find_one RO 0 vals m1 d1 = Ok (o_index op) /\ find_one RO 1 vals m2 d2 = Ok (o_wavelen op)
  /\ find_one RO 2 vals m3 d3 = Ok (o_pol op).
Proof. unfold find_optics.
  destruct (find_one RO 0 vals m1 d1) as [a|e1]; [|split; [discriminate|intros (H & _); discriminate]].
  destruct (find_one RO 1 vals m2 d2) as [b|e2]; [|split; [discriminate|intros (_ & H & _); discriminate]].
  destruct (find_one RO 2 vals m3 d3) as [c|e3]; [|split; [discriminate|intros (_ & _ & H); discriminate]].
  split.
  - intros H. inversion H. simpl. repeat split.
  - intros (Ha & Hb & Hc). inversion Ha. inversion Hb. inversion Hc. destruct op. reflexivity. Qed.

Lemma find_optics_first_missing vals m1 m2 m3 d1 d2 d3 e :
  find_optics RO vals (m1, m2, m3) (d1, d2, d3) = Err e <->
  find_one RO 0 vals m1 d1 = Err e
  \/ (exists a, find_one RO 0 vals m1 d1 = Ok a /\ find_one RO 1 vals m2 d2 = Err e)
  \/ (exists a b, find_one RO 0 vals m1 d1 = Ok a /\ find_one RO 1 vals m2 d2 = Ok b /\ find_one RO 2 vals m3 d3 = Err e).
Proof. unfold find_optics.
  destruct (find_one RO 0 vals m1 d1) as [a|e1];
    [destruct (find_one RO 1 vals m2 d2) as [b|e2]; [destruct (find_one RO 2 vals m3 d3) as [c|e3]|]|];
  (split; [intros H; inversion H; subst; eauto 8
          |intros [H|[(a' & H1 & H2)|(a' & b' & H1 & H2 & H3)]]; try discriminate; congruence]). Qed.

(** * forward: call counter *)
Lemma forward_counter M vals D c :
  match forwardR M vals D c with
  | (Ok _, c') => c' = (c + 1)%Z
  | (Err _, c') => c' = c
  end.
Proof. unfold forward. destruct (find_optics _ _ _ _); [|reflexivity].
  destruct (scatR vals); reflexivity. Qed.

Lemma forward_value M vals D c op s :
  find_optics RO vals (m_optics M) (d_optics D) = Ok op -> scatR vals = Some s ->
  forwardR M vals D c =
  (Ok (match m_kind M with
       | Alpha a => calc_holo (d_det D) (mk_scat vals) (mk_theory vals) op (read RO vals a)
       | Exact => calc_func (d_det D) (mk_scat vals) (mk_theory vals) op
       end), (c + 1)%Z).
Proof. intros Ho Hs. unfold forward. rewrite Ho, Hs. rewrite (scat_valid_eq _ _ Hs). reflexivity. Qed.

Lemma lnlike_counter M vals D c :
  match lnlikeR M vals D c with
  | (Ok _, c') => c' = (c + 1)%Z
  | (Err _, c') => c' = c
  end.
Proof. unfold lnlike. destruct (find_noise _ _ _ _ _); [|reflexivity].
  pose proof (forward_counter M vals D c) as H.
  destruct (forwardR M vals D c) as [[f|e] c']; exact H. Qed.

(** * posterior *)
Lemma lnposterior_neg_inf M vals D px c :
  lnpriorR (m_constraints M) (m_priors M) vals = None -> lnpostR M vals D px c = (Ok None, c).
Proof. intros H. unfold lnposterior. rewrite H. reflexivity. Qed.

Definition pick (D : @data R Det) (px : option (list nat)) : @data R Det :=
  match px with Some sel => subset RO dsub D sel | None => D end.

Lemma lnposterior_sum M vals D px c lp :
  lnpriorR (m_constraints M) (m_priors M) vals = Some lp ->
  lnpostR M vals D px c =
  match lnlikeR M vals (pick D px) c with
  | (Ok ll, c') => (Ok (eadd RO (Some lp) ll), c')
  | (Err e, c') => (Err e, c')
  end.
Proof. intros H. unfold lnposterior, pick. rewrite H. destruct px; destruct (lnlikeR _ _ _ _) as [[?|?] ?]; reflexivity. Qed.

Lemma lnposterior_counter M vals D px c :
  match lnpostR M vals D px c with
  | (Ok None, c') => c' = c \/ c' = (c + 1)%Z
  | (Ok (Some _), c') => c' = (c + 1)%Z
  | (Err _, c') => c' = c
  end.
Proof. unfold lnposterior. destruct (lnpriorR _ _ vals) as [lp|]; [|left; reflexivity].
  set (D' := match px with Some sel => subset RO dsub D sel | None => D end).
  pose proof (lnlike_counter M vals D' c) as H.
  destruct (lnlikeR M vals D' c) as [[[ll|]|e] c']; simpl; try exact H. right. exact H. Qed.

(** one forward call and the full formula when everything is available *)
Lemma lnposterior_full M vals D px c lp nv op s :
  lnpriorR (m_constraints M) (m_priors M) vals = Some lp ->
  find_noise RO (m_priors M) vals (m_noise M) (d_noise D) = Ok nv ->
  find_optics RO vals (m_optics M) (d_optics D) = Ok op ->
  scatR vals = Some s ->
  let D' := pick D px in
  let f := match m_kind M with
           | Alpha a => calc_holo (d_det D') (mk_scat vals) (mk_theory vals) op (read RO vals a)
           | Exact => calc_func (d_det D') (mk_scat vals) (mk_theory vals) op
           end in
  lnpostR M vals D px c = (Ok (eadd RO (Some lp) (lnlike_val RO ln PI nv (d_vals D') f)), (c + 1)%Z).
Proof.
  intros Hp Hn Ho Hs D' f. rewrite (lnposterior_sum _ _ _ _ _ _ Hp). fold D'.
  unfold lnlike.
  assert (EN : d_noise D' = d_noise D) by (unfold D', pick; destruct px; reflexivity).
  assert (EO : d_optics D' = d_optics D) by (unfold D', pick; destruct px; reflexivity).
  rewrite EN, Hn. rewrite (forward_value M vals D' c op s); [reflexivity|rewrite EO; exact Ho|exact Hs]. Qed.

(** * wrapper *)
Lemma wrap_spec (v : option R) :
  wrap RO false v = match v with None => WNegInf | Some x => WFin x end /\
  wrap RO true v = match v with None => WPosInf | Some x => WFin (- x) end.
Proof. destruct v as [x|]; simpl; split; try reflexivity; f_equal; lra. Qed.

Lemma wrapper_is_signed_posterior minus M vals D px c :
  wrapperR minus M vals D px c =
  match lnpostR M vals D px c with
  | (Ok v, c') => (Ok (wrap RO minus v), c')
  | (Err e, c') => (Err e, c')
  end.
Proof. unfold wrapper_evaluate. destruct (lnpostR M vals D px c) as [[v|e] c']; reflexivity. Qed.

(** * forward = calc_holo on the substituted objects; ExactModel's default calc_func (calc_holo,
      whose scaling defaults to 1) coincides with an AlphaModel with alpha = 1 *)
Lemma exact_default_is_alpha_one ps cs mn mo vals D c :
  (forall d s t o, calc_func d s t o = calc_holo d s t o 1) ->
  forwardR (mkModel Exact ps cs mn mo) vals D c = forwardR (mkModel (Alpha (Const 1)) ps cs mn mo) vals D c.
Proof. intros H. unfold forward. simpl. destruct (find_optics _ _ _ _); [|reflexivity].
  destruct (scatR vals); [|reflexivity]. rewrite H. reflexivity. Qed.
End Oracles.

(** * the Q instance (what vm_compute runs) computes the same likelihood value *)
Section QR.
Variable lnq : Q -> Q. Variable lnr : R -> R. Variable piq : Q.
Hypothesis ln_link : forall x, Q2R (lnq x) = lnr (Q2R x).

Lemma Q2R_tsum (l : list Q) : Q2R (tsum QO l) = tsum RO (map Q2R l).
Proof. induction l as [|x t IH]; simpl; [apply Q2R_0|]. rewrite Q2R_plus, IH. reflexivity. Qed.

Lemma Q2R_tlen {A} (l : list A) : Q2R (tlen QO l) = tlen RO l.
Proof. unfold tlen. simpl. apply Q2R_inject_Z. Qed.

Lemma Q2R_two : Q2R (two QO) = two RO.
Proof. unfold two. simpl. rewrite Q2R_plus, Q2R_1. reflexivity. Qed.

Lemma res2_link : forall fs ds ss, Forall (fun s => ~ (s == 0)%Q) ss ->
  map Q2R (res2 QO fs ds ss) = res2 RO (map Q2R fs) (map Q2R ds) (map Q2R ss).
Proof. induction fs as [|f fs IH]; intros ds ss H; [reflexivity|].
  destruct ds as [|d ds]; [reflexivity|]. destruct ss as [|s ss]; [reflexivity|].
  inversion H; subst. simpl. f_equal; [|apply IH; assumption].
  unfold sq. simpl. rewrite !Q2R_mult, Q2R_minus, Q2R_inv by assumption. reflexivity. Qed.

Definition nvQ2R (nv : noise_val Q) : noise_val R :=
  match nv with NScalar s => NScalar (Q2R s) | NArray l => NArray (map Q2R l) end.

Lemma map_ln_link (l : list Q) : map Q2R (map lnq l) = map lnr (map Q2R l).
Proof. rewrite !map_map. apply map_ext. intros x. apply ln_link. Qed.

Lemma map_repeat {A B} (g : A -> B) x n : map g (repeat x n) = repeat (g x) n.
Proof. induction n; simpl; [reflexivity|f_equal; assumption]. Qed.

Lemma lnlike_fin_Q_R nv ds fs :
  Forall (fun s => ~ (s == 0)%Q) (noise_list nv) -> noise_list nv <> [] ->
  Q2R (lnlike_fin QO lnq piq nv ds fs) = lnlike_fin RO lnr (Q2R piq) (nvQ2R nv) (map Q2R ds) (map Q2R fs).
Proof.
  intros Hnz Hne. unfold lnlike_fin.
  assert (H2 : ~ (two QO == 0)%Q) by (unfold two; simpl; discriminate).
  assert (HL : ~ (tlen QO (noise_list nv) == 0)%Q).
  { unfold tlen. simpl. destruct (noise_list nv); [congruence|]. simpl length. unfold inject_Z, Qeq. simpl. lia. }
  assert (HS : Forall (fun s => ~ (s == 0)%Q) (sig_list nv (length ds))).
  { destruct nv as [s|l]; simpl in *; [|exact Hnz]. inversion Hnz; subst.
    apply Forall_forall. intros x Hx. apply repeat_spec in Hx. subst. assumption. }
  assert (EN : noise_list (nvQ2R nv) = map Q2R (noise_list nv)) by (destruct nv; reflexivity).
  assert (ES : sig_list (nvQ2R nv) (length (map Q2R ds)) = map Q2R (sig_list nv (length ds))).
  { rewrite map_length. destruct nv; simpl; [rewrite map_repeat|]; reflexivity. }
  cbn [zero one add mul sub opp inv QO RO].
  rewrite !Q2R_minus, !Q2R_mult, Q2R_opp, !Q2R_mult, !Q2R_inv by assumption.
  rewrite !Q2R_tsum, !Q2R_tlen, Q2R_two, Q2R_1, ln_link, Q2R_mult, Q2R_two.
  rewrite map_ln_link, res2_link by exact HS. rewrite EN, ES.
  unfold tlen. rewrite !map_length. reflexivity. Qed.
End QR.

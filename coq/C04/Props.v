(** C04 property theorems: statements only; proofs are in Lemmas.v.
    R instance = object of the theorems.  [pi] is an arbitrary real (the theorems do not depend on its value);
    [cb] is the cube-root oracle of Tmatrix._parse_args, constrained only by positive homogeneity
    (met by the real cube root: real_oracles_are_homogeneous). *)
From Coq Require Import ZArith List Bool Reals QArith Qreals Lra.
From HV Require Import Common.Generic C04.Model C04.Lemmas.
Import ListNotations.
Local Open Scope R_scope.

(* every length (vacuum wavelength, radii / axes, centres, detector coordinates) times s > 0:
   everything ImageFormation hands to a theory and everything the theory forms from it is unchanged *)
Theorem scale_invariant : forall (pi : R) (cb : R -> R),
  (forall s v, 0 < s -> cb (s * s * s * v) = s * cb v) ->
  forall th c s, 0 < s -> dimensionless RO pi cb th (scale RO s c) = dimensionless RO pi cb th c.
Proof. exact scale_invariant_lemma. Qed.
Print Assumptions scale_invariant.

(* (n, n_m, lambda) -> (n / n_m, 1, lambda / n_m) *)
Theorem index_equivalence : forall (pi : R) (cb : R -> R) th c,
  dimensionless RO pi cb th (index_subst RO c) = dimensionless RO pi cb th c.
Proof. exact index_equivalence_lemma. Qed.
Print Assumptions index_equivalence.

(* consequence for any calculation that is a function of the dimensionless tuple
   (the hypothesis validated by the correspondence / exploration stages of harness/props/c04.py) *)
Theorem results_unit_agnostic : forall (pi : R) (cb : R -> R) (Out : Type)
  (calc : theory R -> cfg R -> Out) (F : theory R -> list (dl R) -> Out),
  (forall s v, 0 < s -> cb (s * s * s * v) = s * cb v) ->
  (forall th c, calc th c = F th (dimensionless RO pi cb th c)) ->
  forall th c, (forall s, 0 < s -> calc th (scale RO s c) = calc th c) /\ calc th (index_subst RO c) = calc th c.
Proof. exact results_invariant_lemma. Qed.
Print Assumptions results_unit_agnostic.

Theorem wavevector_scales_inversely : forall pi nm lam s, s <> 0 ->
  wavevec RO pi nm (s * lam) = wavevec RO pi nm lam / s.
Proof. exact wavevec_scale. Qed.
Print Assumptions wavevector_scales_inversely.

Theorem wavevector_index_substitution : forall pi nm lam, wavevec RO pi 1 (lam * / nm) = wavevec RO pi nm lam.
Proof. exact wavevec_index. Qed.
Print Assumptions wavevector_index_substitution.

Theorem handoff_scale_invariant : forall k c p s, s <> 0 ->
  handoff1 RO (k / s) (vscale RO s c) (vscale RO s p) = handoff1 RO k c p /\
  phase_arg RO (k / s) (vscale RO s c) = phase_arg RO k c.
Proof. intros k c p s Hs. split; [apply handoff1_scale, Hs|apply phase_arg_scale, Hs]. Qed.
Print Assumptions handoff_scale_invariant.

(* cross sections scale with s^2, the asymmetry parameter does not change *)
Theorem cross_section_s2 : forall pi k qs qe g s, s <> 0 ->
  cs_mie RO pi (k / s) qs qe g =
  let '(cscat, cabs, cext, asym) := cs_mie RO pi k qs qe g in (s * s * cscat, s * s * cabs, s * s * cext, asym).
Proof. exact cs_mie_scale. Qed.
Print Assumptions cross_section_s2.

Theorem cross_section_s2_multisphere : forall pi k qs fwd integ s, s <> 0 ->
  cs_multi RO pi (k / s) qs fwd integ =
  let '(cscat, cabs, cext, asym) := cs_multi RO pi k qs fwd integ in (s * s * cscat, s * s * cabs, s * s * cext, asym).
Proof. exact cs_multi_scale. Qed.
Print Assumptions cross_section_s2_multisphere.

(* T-matrix argument tuple: axi and lam scale with s, eps and axi/lam do not change *)
Theorem tmatrix_args_scale : forall (pi : R) (cb : R -> R),
  (forall s v, 0 < s -> cb (s * s * s * v) = s * cb v) ->
  forall k nm p s, 0 < s ->
  let t := tm_raw RO pi cb k nm p in let t' := tm_raw RO pi cb (k / s) nm (scale_p RO s p) in
  tm_axi t' = s * tm_axi t /\ tm_lam t' = s * tm_lam t /\ tm_eps t' = tm_eps t /\
  tm_axi t' / tm_lam t' = tm_axi t / tm_lam t.
Proof. exact tm_raw_scale. Qed.
Print Assumptions tmatrix_args_scale.

(* the Fortran amplitudes are lengths; multiplied by 2 pi / lam they are scale free *)
Theorem tmatrix_output_dimensionless : forall pi lam amp s, s <> 0 ->
  tm_out RO pi (s * lam) (s * amp) = tm_out RO pi lam amp.
Proof. exact tm_out_scale. Qed.
Print Assumptions tmatrix_output_dimensionless.

(* calc_scat_matrix hands over UNscaled lengths; only the angles are used, and they are scale free *)
Theorem scat_matrix_angles_scale_invariant : forall (wr : R -> R) c s, 0 < s ->
  scat_matrix_angles RO sqrt atan2R wr (scale RO s c) = scat_matrix_angles RO sqrt atan2R wr c.
Proof. intros wr c s Hs. apply (scat_matrix_angles_scale sqrt atan2R wr sqrt_homog atan2R_homog c s Hs). Qed.
Print Assumptions scat_matrix_angles_scale_invariant.

Theorem scat_matrix_angles_index_invariant : forall (wr : R -> R) c,
  scat_matrix_angles RO sqrt atan2R wr (index_subst RO c) = scat_matrix_angles RO sqrt atan2R wr c.
Proof. intros. apply scat_matrix_angles_index. Qed.
Print Assumptions scat_matrix_angles_index_invariant.

(* cartesian -> spherical / cylindrical: radial parts are homogeneous of degree 1, angles of degree 0 *)
Theorem coordinate_transforms_homogeneous : forall (wr : R -> R) s v, 0 < s ->
  to_sph RO sqrt atan2R wr (vscale RO s v) = (let '(r,th,ph) := to_sph RO sqrt atan2R wr v in (s * r, th, ph)) /\
  to_cyl RO sqrt atan2R wr (vscale RO s v) = (let '(rho,ph,z) := to_cyl RO sqrt atan2R wr v in (s * rho, ph, s * z)).
Proof. intros wr s v Hs. split; [apply (to_sph_scale sqrt atan2R wr sqrt_homog atan2R_homog s v Hs)
                                |apply (to_cyl_scale sqrt atan2R wr sqrt_homog atan2R_homog s v Hs)]. Qed.
Print Assumptions coordinate_transforms_homogeneous.

(* the homogeneity hypotheses are met by the real cube root, square root and atan2 *)
Theorem real_oracles_are_homogeneous :
  (forall s v, 0 < s -> cbrtR (s * s * s * v) = s * cbrtR v) /\
  (forall s q, 0 < s -> sqrt (s * s * q) = s * sqrt q) /\
  (forall s y x, 0 < s -> atan2R (s * y) (s * x) = atan2R y x).
Proof. exact real_oracles_homogeneous. Qed.
Print Assumptions real_oracles_are_homogeneous.

Theorem wavevec_agrees_on_Q : forall pi nm lam : Q, ~ (nm == 0)%Q -> ~ (lam == 0)%Q -> ~ (pi == 0)%Q ->
  Q2R (wavevec QO pi nm lam) = wavevec RO (Q2R pi) (Q2R nm) (Q2R lam).
Proof. exact wavevec_Q_R. Qed.
Print Assumptions wavevec_agrees_on_Q.

Theorem handoff_agrees_on_Q : forall k c p, vQ2R (handoff1 QO k c p) = handoff1 RO (Q2R k) (vQ2R c) (vQ2R p).
Proof. exact handoff1_Q_R. Qed.
Print Assumptions handoff_agrees_on_Q.

(* non-vacuity: the oracle hypothesis is satisfiable (real cube root) and the model is non-trivial on a
   concrete two-sphere Mie-superposition configuration (two hand-overs, 2 detector points each) *)
Example hyps_satisfiable :
  (exists cb : R -> R, (forall s v, 0 < s -> cb (s * s * s * v) = s * cb v) /\ cb (2 * 2 * 2) = 2) /\
  map (fun d => (length (d_pos d), map Qred (p_x (d_par d))))
      (dimensionless QO (3#1)%Q (fun v => v) Mie
         (mkCfg (4#3)%Q (2#3)%Q
                (Many [Sph [(3#2, 0)%Q] [(1#2)%Q] (0, 0, 5)%Q; Sph [(3#2, 0)%Q] [1%Q] (1, 1, 6)%Q])
                (DCart [(0,0,0)%Q; (1,0,0)%Q])))
  = [(2%nat, [(6#1)%Q]); (2%nat, [(12#1)%Q])].
Proof. split.
  - exists cbrtR. split; [exact cbrtR_homog|]. apply cbrtR_cube. lra.
  - vm_compute. reflexivity. Qed.

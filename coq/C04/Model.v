(** C04 - results depend only on dimensionless ratios.  Executable model (no proofs here).
    Anchors: imageformation.py (get_wavevec_from, _transform_to_desired_coordinates, _get_field_from,
    calculate_scattering_matrix, superposition), interface.py (calc_cross_sections wavevector),
    theory/mie.py (_scat_coeffs, raw_cross_sections), theory/multisphere.py (_scsmfo_setup,
    _calc_cext/_calc_cscat/_calc_asym prefactors), theory/tmatrix.py (_parse_args, _run_tmat),
    theory/mielens.py / lens.py (index_ratio, size_parameter, lens angle), core/math.py
    (cartesian -> spherical / cylindrical).

    Oracles (arguments, never re-implemented): [pi] (np.pi), [cbrt] (x ** (1/3.)),
    [sqrtf], [atan2f], [wrapf] (np.sqrt, np.arctan2, % (2 pi)). *)
From Coq Require Import ZArith List Bool.
From HV Require Import Common.Generic.
Import ListNotations.

Section Gen.
Context {T : Type} (O : Ops T).
Declare Scope t_scope. Delimit Scope t_scope with t.
Local Notation "x + y" := (add O x y) : t_scope. Local Notation "x * y" := (mul O x y) : t_scope.
Local Notation "x - y" := (sub O x y) : t_scope. Local Notation "- x" := (opp O x) : t_scope.
Local Notation "x / y" := (mul O x (inv O y)) : t_scope.
Local Open Scope t_scope.

Variable pi : T.            (* np.pi *)
Variable cbrt : T -> T.     (* v ** (1/3.) *)

Definition two : T := one O + one O.
Definition three : T := two + one O.
Definition vec : Type := (T * T * T)%type.
Definition cplx : Type := (T * T)%type.
Definition cdiv (n : cplx) (d : T) : cplx := (fst n / d, snd n / d).
Definition vscale (s : T) (v : vec) : vec := let '(a,b,c) := v in (s * a, s * b, s * c).
Definition vsub (a b : vec) : vec := let '(a1,a2,a3) := a in let '(b1,b2,b3) := b in (a1-b1, a2-b2, a3-b3).
Definition vadd (a b : vec) : vec := let '(a1,a2,a3) := a in let '(b1,b2,b3) := b in (a1+b1, a2+b2, a3+b3).
Definition vzero : vec := (zero O, zero O, zero O).

(** get_wavevec_from(schema) = 2*pi / (illum_wavelen / medium_index); calc_cross_sections uses the same expression *)
Definition wavevec (nm lam : T) : T := (two * pi) / (lam / nm).

(** _transform_to_desired_coordinates, cartesian detector:
    [wavevec*(x - origin[0]), wavevec*(y - origin[1]), wavevec*(origin[2] - z)] *)
Definition handoff1 (k : T) (c p : vec) : vec :=
  let '(cx,cy,cz) := c in let '(px,py,pz) := p in (k * (px - cx), k * (py - cy), k * (cz - pz)).
(** spherical detector (detector_points(r, theta, phi)): [r*wavevec, theta, phi]; the origin is not used *)
Definition handoff_sph1 (k : T) (p : vec) : vec := let '(r,th,ph) := p in (r * k, th, ph).
(** _get_field_from: phase = exp(-1j * wavevector * scatterer.center[2]) *)
Definition phase_arg (k : T) (c : vec) : T := let '(_,_,cz) := c in k * cz.

Inductive detector := DCart (pts : list vec) | DSph (pts : list vec).
Definition positions (k : T) (c : vec) (d : detector) : list vec :=
  match d with DCart pts => map (handoff1 k c) pts | DSph pts => map (handoff_sph1 k) pts end.

(** scatterers.  Sph: (layered) sphere, one index and one outer radius per layer. *)
Inductive particle :=
| Sph (ns : list cplx) (rs : list T) (c : vec)
| Spheroid (n : cplx) (rxy rz : T) (rot : vec) (c : vec)
| Cyl (n : cplx) (d h : T) (rot : vec) (c : vec).
Inductive scatterer := One (p : particle) | Many (ps : list particle).

Definition pcenter (p : particle) : vec :=
  match p with Sph _ _ c => c | Spheroid _ _ _ _ c => c | Cyl _ _ _ _ c => c end.
Definition vsum (l : list vec) : vec := fold_right vadd vzero l.
(** Spheres.center = centers.mean(0) *)
Definition vmean (l : list vec) : vec :=
  let n := ofZ O (Z.of_nat (length l)) in let '(x,y,z) := vsum l in (x / n, y / n, z / n).
Definition center (sc : scatterer) : vec :=
  match sc with One p => pcenter p | Many ps => vmean (map pcenter ps) end.

Inductive theory := Mie | Multi | Tmat | MieLens (angle : T) (aberr : list T) | Lens (angle : T) (inner : theory).

Definition is_sph (p : particle) : bool := match p with Sph _ _ _ => true | _ => false end.
Definition is_uniform_sph (p : particle) : bool := match p with Sph [_] [_] _ => true | _ => false end.
Fixpoint can_handle (th : theory) (sc : scatterer) : bool :=
  match th with
  | Mie | MieLens _ _ => match sc with One p => is_sph p | Many _ => false end
  | Multi => match sc with One p => is_uniform_sph p | Many ps => forallb is_uniform_sph ps end
  | Tmat => match sc with One _ => true | Many _ => false end
  | Lens _ inner => can_handle inner sc
  end.

(** what a theory forms from (scatterer, medium_wavevec, medium_index) *)
Record params := mkPar { p_x : list T; p_m : list cplx; p_geo : list vec; p_shape : list T; p_np : Z }.

(** Tmatrix._parse_args: (axi, rat, lam, mrr, mri, eps, NP, alpha, beta) as handed to the Fortran routine *)
Definition deg (a : T) : T := a * ofZ O 180 / pi.
Definition tm_raw (k nm : T) (p : particle) : (T * T * T * T * T * T * Z * T * T) :=
  let lam := (two * pi) / k in
  match p with
  | Sph ns rs _ => let r := hd (zero O) rs in let n := hd (zero O, zero O) ns in
      (one O * cbrt (r * (r * r)), one O, lam, fst n / nm, snd n / nm, r / r, (-1)%Z, deg (zero O), deg (zero O))
  | Spheroid n rxy rz (_, r1, r2) _ =>
      (one O * cbrt (rz * (rxy * rxy)), one O, lam, fst n / nm, snd n / nm, rxy / rz, (-1)%Z, deg r2, deg r1)
  | Cyl n d h (_, r1, r2) _ => let rxy := d / two in let rz := h / two in
      ((three / two) * cbrt (rz * (rxy * rxy)), one O, lam, fst n / nm, snd n / nm, rxy / rz, (-2)%Z, deg r2, deg r1)
  end.
(** the dimensionless content of that tuple: size ratio axi/lam, shape eps, relative index, NP, Euler angles *)
Definition tm_params (k nm : T) (p : particle) : params :=
  let '(axi, rat, lam, mrr, mri, eps, np, alpha, beta) := tm_raw k nm p in
  mkPar [rat * axi / lam] [(mrr, mri)] [] [eps; alpha; beta] np.
(** _run_tmat: the Fortran amplitudes (lengths) are multiplied by -2j*pi/med_wavelen *)
Definition tm_out (lam : T) (s_amp : T) : T := (two * pi / lam) * s_amp.

Definition members (sc : scatterer) : list particle := match sc with One p => [p] | Many ps => ps end.
Definition radii (p : particle) : list T := match p with Sph _ rs _ => rs | _ => [] end.
Definition indices (p : particle) : list cplx := match p with Sph ns _ _ => ns | _ => [] end.

Fixpoint params_of (th : theory) (k nm : T) (sc : scatterer) : params :=
  match th with
  | Mie =>      (* Mie._scat_coeffs: x_arr = medium_wavevec * r ; m_arr = n / medium_index *)
      let p := hd (Sph [] [] vzero) (members sc) in
      mkPar (map (fun r => k * r) (radii p)) (map (fun n => cdiv n nm) (indices p)) [] [] 0%Z
  | MieLens angle aberr =>   (* index_ratio = n / medium_index ; size_parameter = medium_wavevec * r *)
      let p := hd (Sph [] [] vzero) (members sc) in
      mkPar (map (fun r => k * r) (radii p)) (map (fun n => cdiv n nm) (indices p)) [] (angle :: aberr) 0%Z
  | Multi =>    (* _scsmfo_setup: (centers - centers.mean(0)) * k, z negated; m = n / medium_index; r * k *)
      let ps := members sc in let cen := vmean (map pcenter ps) in
      mkPar (map (fun p => hd (zero O) (radii p) * k) ps)
            (map (fun p => cdiv (hd (zero O, zero O) (indices p)) nm) ps)
            (map (fun p => let '(x,y,z) := vsub (pcenter p) cen in (x * k, y * k, - one O * (z * k))) ps) [] 0%Z
  | Tmat => tm_params k nm (hd (Sph [] [] vzero) (members sc))
  | Lens angle inner =>
      let q := params_of inner k nm sc in mkPar (p_x q) (p_m q) (p_geo q) (angle :: p_shape q) (p_np q)
  end.

(** everything a theory call can depend on: positions handed over, phase argument, particle parameters *)
Record dl := mkDl { d_pos : list vec; d_phase : T; d_par : params }.
Record cfg := mkCfg { c_nm : T; c_lam : T; c_sc : scatterer; c_det : detector }.

Definition one_dl (th : theory) (k nm : T) (det : detector) (sc : scatterer) : dl :=
  mkDl (positions k (center sc) det) (phase_arg k (center sc)) (params_of th k nm sc).
(** _calculate_single_color_scattered_field: the theory is called on the whole scatterer if it can handle it,
    else on each component (superposition); [] = TheoryNotCompatibleError *)
Definition dimensionless (th : theory) (c : cfg) : list dl :=
  let k := wavevec (c_nm c) (c_lam c) in
  if can_handle th (c_sc c) then [one_dl th k (c_nm c) (c_det c) (c_sc c)]
  else match c_sc c with
       | Many ps => if forallb (fun p => can_handle th (One p)) ps
                    then map (fun p => one_dl th k (c_nm c) (c_det c) (One p)) ps else []
       | One _ => [] end.

(** calculate_scattering_matrix: positions are transformed with wavevec = 1 (lengths stay lengths); only the
    angles of the spherical positions are used by raw_scat_matrs *)
Section Coords.
Variables (sqrtf : T -> T) (atan2f : T -> T -> T) (wrapf : T -> T).
Definition to_sph (v : vec) : vec :=
  let '(x,y,z) := v in (sqrtf (x*x + y*y + z*z), atan2f (sqrtf (x*x + y*y)) z, wrapf (atan2f y x)).
Definition to_cyl (v : vec) : vec := let '(x,y,z) := v in (sqrtf (x*x + y*y), wrapf (atan2f y x), z).
Definition angles (v : vec) : T * T := let '(_,th,ph) := v in (th, ph).
Definition scat_matrix_angles (c : cfg) : list (T * T) :=
  match c_det c with
  | DCart pts => map (fun p => angles (to_sph (handoff1 (one O) (center (c_sc c)) p))) pts
  | DSph pts => map angles pts
  end.
End Coords.

(** the two transformations of the property *)
Definition scale_p (s : T) (p : particle) : particle :=
  match p with
  | Sph ns rs c => Sph ns (map (fun r => s * r) rs) (vscale s c)
  | Spheroid n rxy rz rot c => Spheroid n (s * rxy) (s * rz) rot (vscale s c)
  | Cyl n d h rot c => Cyl n (s * d) (s * h) rot (vscale s c)
  end.
Definition scale_sc (s : T) (sc : scatterer) : scatterer :=
  match sc with One p => One (scale_p s p) | Many ps => Many (map (scale_p s) ps) end.
Definition scale_det (s : T) (d : detector) : detector :=
  match d with DCart pts => DCart (map (vscale s) pts)
             | DSph pts => DSph (map (fun p : vec => let '(r,th,ph) := p in (s * r, th, ph)) pts) end.
Definition scale (s : T) (c : cfg) : cfg :=
  mkCfg (c_nm c) (s * c_lam c) (scale_sc s (c_sc c)) (scale_det s (c_det c)).

Definition sub_p (nm : T) (p : particle) : particle :=
  match p with
  | Sph ns rs c => Sph (map (fun n => cdiv n nm) ns) rs c
  | Spheroid n rxy rz rot c => Spheroid (cdiv n nm) rxy rz rot c
  | Cyl n d h rot c => Cyl (cdiv n nm) d h rot c
  end.
Definition sub_sc (nm : T) (sc : scatterer) : scatterer :=
  match sc with One p => One (sub_p nm p) | Many ps => Many (map (sub_p nm) ps) end.
(** (n, n_m, lambda) -> (n/n_m, 1, lambda/n_m) *)
Definition index_subst (c : cfg) : cfg :=
  mkCfg (one O) (c_lam c / c_nm c) (sub_sc (c_nm c) (c_sc c)) (c_det c).

(** cross sections.  Mie.raw_cross_sections: (qscat, qext) * 2 pi / k^2 ; cabs = cext - cscat ;
    asym = 4 pi / (k^2 cscat) * g.   Result order [cscat, cabs, cext, asym]. *)
Definition cs_mie (k qs qe g : T) : T * T * T * T :=
  let pre := (two * pi) / (k * k) in
  let cscat := qs * pre in let cext := qe * pre in
  (cscat, cext - cscat, cext, (two * two * pi) / (k * k * cscat) * g).
(** Multisphere: cext = 4 pi / k^2 * fwd ; cscat = qscat * 4 pi / k^2 ; asym = (integral / k^2) / cscat *)
Definition cs_multi (k qs fwd integ : T) : T * T * T * T :=
  let cext := (two * two * pi) / (k * k) * fwd in
  let cscat := qs * (two * two) * pi / (k * k) in
  (cscat, cext - cscat, cext, (integ / (k * k)) / cscat).
End Gen.

Arguments vec T : clear implicits. Arguments cplx T : clear implicits.
Arguments particle T : clear implicits. Arguments scatterer T : clear implicits.
Arguments detector T : clear implicits. Arguments theory T : clear implicits.
Arguments params T : clear implicits. Arguments dl T : clear implicits. Arguments cfg T : clear implicits.
Arguments Sph {T}. Arguments Spheroid {T}. Arguments Cyl {T}. Arguments One {T}. Arguments Many {T}.
Arguments DCart {T}. Arguments DSph {T}.
Arguments Mie {T}. Arguments Multi {T}. Arguments Tmat {T}. Arguments MieLens {T}. Arguments Lens {T}.
Arguments mkPar {T}. Arguments mkDl {T}. Arguments mkCfg {T}.
Arguments p_x {T}. Arguments p_m {T}. Arguments p_geo {T}. Arguments p_shape {T}. Arguments p_np {T}.
Arguments d_pos {T}. Arguments d_phase {T}. Arguments d_par {T}.
Arguments c_nm {T}. Arguments c_lam {T}. Arguments c_sc {T}. Arguments c_det {T}.

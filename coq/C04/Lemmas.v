From Coq Require Import ZArith List Bool Reals QArith Qreals Lra Lia Psatz Nsatz.
From HV Require Import Common.Generic C04.Model.
Import ListNotations.
Local Open Scope R_scope.

Ltac rsimp := cbn [add mul sub opp inv one zero ofZ RO] in *.
Ltac invnorm := unfold Rdiv in *; repeat rewrite Rinv_mult; repeat rewrite Rinv_inv; try rewrite Rinv_1.
(** closes polynomial identities in s, /s (with s <> 0) and arbitrary other inverses *)
Ltac gen_inv := repeat match goal with |- context [/ ?x] => let v := fresh "iv" in set (v := / x) in *; clearbody v end.
Ltac solve_s s Hs :=
  invnorm; let Hi := fresh "Hi" in pose proof (Rinv_r s Hs) as Hi;
  let is := fresh "is" in set (is := / s) in *; clearbody is; gen_inv; nsatz.

(** * real instances of the oracles, with the homogeneity facts the theorems use *)
Definition cbrtR (v : R) : R :=
  if Rlt_dec 0 v then Rpower v (/3) else if Rlt_dec v 0 then - Rpower (- v) (/3) else 0.
Lemma Rpower_cube s v : 0 < s -> 0 < v -> Rpower (s * s * s * v) (/3) = s * Rpower v (/3).
Proof. intros Hs Hv. unfold Rpower.
  assert (0 < s * s) by nra. assert (0 < s * s * s) by nra.
  rewrite (ln_mult (s*s*s) v), (ln_mult (s*s) s), (ln_mult s s) by assumption.
  replace (/ 3 * (ln s + ln s + ln s + ln v)) with (ln s + / 3 * ln v) by field.
  rewrite exp_plus, exp_ln by assumption. reflexivity. Qed.
Lemma cbrtR_homog s v : 0 < s -> cbrtR (s * s * s * v) = s * cbrtR v.
Proof. intros Hs. unfold cbrtR. assert (H3 : 0 < s * s * s) by (assert (0 < s * s) by nra; nra).
  destruct (Rlt_dec 0 v) as [Hv|Hv].
  - destruct (Rlt_dec 0 (s*s*s*v)) as [_|C]; [apply Rpower_cube; assumption|exfalso; apply C; nra].
  - destruct (Rlt_dec 0 (s*s*s*v)) as [C|_]; [exfalso; nra|].
    destruct (Rlt_dec v 0) as [Hn|Hn].
    + destruct (Rlt_dec (s*s*s*v) 0) as [_|C]; [|exfalso; apply C; nra].
      replace (- (s*s*s*v)) with (s*s*s*(-v)) by ring. rewrite Rpower_cube by lra. ring.
    + destruct (Rlt_dec (s*s*s*v) 0) as [C|_]; [exfalso; nra|ring]. Qed.
Lemma cbrtR_cube v : 0 < v -> cbrtR (v * v * v) = v.
Proof. intros Hv. replace (v*v*v) with (v*v*v*1) by ring. rewrite cbrtR_homog by assumption.
  unfold cbrtR. destruct (Rlt_dec 0 1); [|lra]. unfold Rpower. rewrite ln_1, Rmult_0_r, exp_0. ring. Qed.

Lemma sqrt_homog s q : 0 < s -> sqrt (s * s * q) = s * sqrt q.
Proof. intros Hs. rewrite sqrt_mult_alt by nra. rewrite sqrt_square by lra. reflexivity. Qed.

Definition atan2R (y x : R) : R :=
  if Rlt_dec 0 x then atan (y / x)
  else if Rlt_dec x 0 then (if Rle_dec 0 y then atan (y / x) + PI else atan (y / x) - PI)
  else if Rlt_dec 0 y then PI / 2 else if Rlt_dec y 0 then - PI / 2 else 0.
Lemma atan2R_homog s y x : 0 < s -> atan2R (s * y) (s * x) = atan2R y x.
Proof. intros Hs. unfold atan2R.
  assert (E : s * y / (s * x) = y / x).
  { assert (Hn : s <> 0) by lra. solve_s s Hn. }
  rewrite E.
  repeat match goal with
         | |- context [Rlt_dec ?a ?b] => destruct (Rlt_dec a b)
         | |- context [Rle_dec ?a ?b] => destruct (Rle_dec a b)
         end; try reflexivity; exfalso; nra. Qed.

(** * elementary scaling facts *)
Section S.
Variable pi : R.
Variable cb : R -> R.
Hypothesis cb_homog : forall s v, 0 < s -> cb (s * s * s * v) = s * cb v.

Lemma wavevec_scale nm lam s : s <> 0 -> wavevec RO pi nm (s * lam) = wavevec RO pi nm lam / s.
Proof. intros Hs. unfold wavevec, two. rsimp. solve_s s Hs. Qed.

Lemma wavevec_index nm lam : wavevec RO pi 1 (lam * / nm) = wavevec RO pi nm lam.
Proof. unfold wavevec, two. rsimp. invnorm. ring. Qed.

Lemma handoff1_scale k c p s : s <> 0 ->
  handoff1 RO (k / s) (vscale RO s c) (vscale RO s p) = handoff1 RO k c p.
Proof. intros Hs. destruct c as [[cx cy] cz], p as [[px py] pz]. unfold handoff1, vscale. rsimp.
  f_equal; [f_equal|]; solve_s s Hs. Qed.

Lemma handoff1_unit_scale c p s :
  handoff1 RO 1 (vscale RO s c) (vscale RO s p) = vscale RO s (handoff1 RO 1 c p).
Proof. destruct c as [[cx cy] cz], p as [[px py] pz]. unfold handoff1, vscale. rsimp.
  f_equal; [f_equal|]; ring. Qed.

Lemma phase_arg_scale k c s : s <> 0 -> phase_arg RO (k / s) (vscale RO s c) = phase_arg RO k c.
Proof. intros Hs. destruct c as [[cx cy] cz]. unfold phase_arg, vscale. rsimp. solve_s s Hs. Qed.

Lemma vsum_scale s l : vsum RO (map (vscale RO s) l) = vscale RO s (vsum RO l).
Proof. induction l as [|[[a b] c] t IH]; simpl.
  - unfold vzero, vscale. rsimp. f_equal; [f_equal|]; ring.
  - rewrite IH. destruct (vsum RO t) as [[x y] z]. unfold vadd, vscale. rsimp. f_equal; [f_equal|]; ring. Qed.
Lemma vmean_scale s l : vmean RO (map (vscale RO s) l) = vscale RO s (vmean RO l).
Proof. unfold vmean. rewrite vsum_scale, map_length. destruct (vsum RO l) as [[x y] z].
  unfold vscale. rsimp. f_equal; [f_equal|]; ring. Qed.

Lemma pcenter_scale s p : pcenter (scale_p RO s p) = vscale RO s (pcenter p).
Proof. destruct p; reflexivity. Qed.
Lemma center_scale s sc : center RO (scale_sc RO s sc) = vscale RO s (center RO sc).
Proof. destruct sc as [p|ps]; simpl; [apply pcenter_scale|].
  rewrite map_map. rewrite (map_ext _ (fun p => vscale RO s (pcenter p))) by (intros; apply pcenter_scale).
  rewrite <- (map_map pcenter (vscale RO s)). apply vmean_scale. Qed.

Lemma positions_scale k c d s : s <> 0 ->
  positions RO (k / s) (vscale RO s c) (scale_det RO s d) = positions RO k c d.
Proof. intros Hs. destruct d as [pts|pts]; unfold positions, scale_det; rewrite map_map; apply map_ext; intros p.
  - apply handoff1_scale, Hs.
  - destruct p as [[r th] ph]. unfold handoff_sph1. rsimp. do 2 f_equal. solve_s s Hs. Qed.

Lemma is_sph_scale s p : is_sph (scale_p RO s p) = is_sph p.
Proof. destruct p; reflexivity. Qed.
Lemma is_uniform_scale s p : is_uniform_sph (scale_p RO s p) = is_uniform_sph p.
Proof. destruct p as [ns rs c| |]; try reflexivity. destruct ns as [|n [|n2 ns]]; try reflexivity;
  destruct rs as [|r [|r2 rs]]; reflexivity. Qed.
Lemma forallb_map {A B} (f : B -> bool) (g : A -> B) l : forallb f (map g l) = forallb (fun x => f (g x)) l.
Proof. induction l; simpl; [reflexivity|rewrite IHl; reflexivity]. Qed.
Lemma forallb_ext' {A} (f g : A -> bool) l : (forall x, f x = g x) -> forallb f l = forallb g l.
Proof. intros H. induction l; simpl; [reflexivity|rewrite H, IHl; reflexivity]. Qed.
Lemma can_handle_scale th s sc : can_handle th (scale_sc RO s sc) = can_handle th sc.
Proof. induction th; destruct sc as [p|ps]; simpl.
  all: try reflexivity. all: try apply is_sph_scale. all: try apply is_uniform_scale. all: try assumption.
  all: try (rewrite forallb_map; apply forallb_ext'; intros; apply is_uniform_scale).
  all: try apply IHth.
Qed.

Lemma members_scale s sc : members (scale_sc RO s sc) = map (scale_p RO s) (members sc).
Proof. destruct sc; reflexivity. Qed.
Lemma radii_scale s p : radii (scale_p RO s p) = map (fun r => s * r) (radii p).
Proof. destruct p; reflexivity. Qed.
Lemma indices_scale s p : indices (scale_p RO s p) = indices p.
Proof. destruct p; reflexivity. Qed.
Lemma hd_map {A B} (f : A -> B) d l : hd (f d) (map f l) = f (hd d l).
Proof. destruct l; reflexivity. Qed.

Lemma sphere_params_scale k s p : s <> 0 ->
  map (fun r => (k / s) * r) (radii (scale_p RO s p)) = map (fun r => k * r) (radii p).
Proof. intros Hs. rewrite radii_scale, map_map. apply map_ext. intros r. solve_s s Hs. Qed.

Lemma head_member_scale s sc :
  hd (Sph [] [] (vzero RO)) (members (scale_sc RO s sc)) = scale_p RO s (hd (Sph [] [] (vzero RO)) (members sc))
  \/ members sc = [].
Proof. rewrite members_scale. destruct (members sc); [right; reflexivity|left; reflexivity]. Qed.

Lemma tm_params_scale k nm p s : 0 < s ->
  tm_params RO pi cb (k / s) nm (scale_p RO s p) = tm_params RO pi cb k nm p.
Proof. intros Hs. assert (Hn : s <> 0) by lra.
  destruct p as [ns rs c|n rxy rz [[r0 r1] r2] c|n d h [[r0 r1] r2] c]; unfold tm_params, tm_raw, scale_p, two, three.
  - destruct rs as [|r rs]; simpl hd; rsimp.
    + f_equal. f_equal. replace (0 * (0 * 0)) with (s * s * s * (0 * (0 * 0))) at 1 by ring.
      rewrite cb_homog by assumption. solve_s s Hn.
    + f_equal; [f_equal|f_equal].
      * replace (s * r * (s * r * (s * r))) with (s * s * s * (r * (r * r))) by ring.
        rewrite cb_homog by assumption. solve_s s Hn.
      * solve_s s Hn.
  - rsimp. f_equal; [f_equal|f_equal].
    + replace (s * rz * (s * rxy * (s * rxy))) with (s * s * s * (rz * (rxy * rxy))) by ring.
      rewrite cb_homog by assumption. solve_s s Hn.
    + solve_s s Hn.
  - rsimp. f_equal; [f_equal|f_equal].
    + replace (s * h * / (1 + 1) * (s * d * / (1 + 1) * (s * d * / (1 + 1))))
        with (s * s * s * (h * / (1 + 1) * (d * / (1 + 1) * (d * / (1 + 1))))) by ring.
      rewrite cb_homog by assumption. solve_s s Hn.
    + solve_s s Hn. Qed.

Lemma params_of_scale th : forall k nm sc s, 0 < s ->
  params_of RO pi cb th (k / s) nm (scale_sc RO s sc) = params_of RO pi cb th k nm sc.
Proof. induction th as [| | |angle aberr|angle inner IH]; intros k nm sc s Hs; assert (Hn : s <> 0) by lra; cbn [params_of].
  - destruct (head_member_scale s sc) as [E|E].
    + rewrite E. rewrite sphere_params_scale by assumption. rewrite indices_scale. reflexivity.
    + rewrite members_scale, E. reflexivity.
  - rewrite members_scale. f_equal.
    + rewrite map_map. apply map_ext. intros p. rewrite radii_scale.
      replace 0 with (s * 0) at 1 by ring. rewrite (hd_map (fun r => s * r)). rsimp. solve_s s Hn.
    + rewrite map_map. apply map_ext. intros p. rewrite indices_scale. reflexivity.
    + rewrite map_map. apply map_ext. intros p. rewrite map_map.
      rewrite (map_ext _ (fun q => vscale RO s (pcenter q))) by (intros; apply pcenter_scale).
      rewrite <- (map_map pcenter (vscale RO s)), vmean_scale, pcenter_scale.
      destruct (pcenter p) as [[px py] pz]. destruct (vmean RO (map pcenter (members sc))) as [[mx my] mz].
      unfold vscale, vsub. rsimp. f_equal; [f_equal|]; solve_s s Hn.
  - destruct (head_member_scale s sc) as [E|E].
    + rewrite E. apply tm_params_scale; assumption.
    + rewrite members_scale, E. simpl hd.
      replace (Sph [] [] (vzero RO)) with (scale_p RO s (Sph [] [] (vzero RO))) at 1.
      * apply tm_params_scale; assumption.
      * unfold scale_p, vzero, vscale. simpl. rsimp. f_equal. f_equal; [f_equal|]; ring.
  - destruct (head_member_scale s sc) as [E|E].
    + rewrite E. rewrite sphere_params_scale by assumption. rewrite indices_scale. reflexivity.
    + rewrite members_scale, E. reflexivity.
  - rewrite IH by assumption. reflexivity. Qed.

Lemma one_dl_scale th k nm det sc s : 0 < s ->
  one_dl RO pi cb th (k / s) nm (scale_det RO s det) (scale_sc RO s sc) = one_dl RO pi cb th k nm det sc.
Proof. intros Hs. assert (Hn : s <> 0) by lra. unfold one_dl.
  rewrite center_scale, positions_scale, phase_arg_scale, params_of_scale by assumption. reflexivity. Qed.

Lemma scale_invariant_lemma th c s : 0 < s ->
  dimensionless RO pi cb th (scale RO s c) = dimensionless RO pi cb th c.
Proof. intros Hs. assert (Hn : s <> 0) by lra. destruct c as [nm lam sc det]. unfold dimensionless, scale.
  cbn [c_nm c_lam c_sc c_det]. rsimp. rewrite wavevec_scale by assumption. rewrite can_handle_scale.
  destruct (can_handle th sc).
  - rewrite one_dl_scale by assumption. reflexivity.
  - destruct sc as [p|ps]; [reflexivity|]. cbn [scale_sc].
    rewrite forallb_map.
    rewrite (forallb_ext' _ (fun p => can_handle th (One p))) by (intros p; apply (can_handle_scale th s (One p))).
    destruct (forallb (fun p => can_handle th (One p)) ps); [|reflexivity].
    rewrite map_map. apply map_ext. intros p. apply (one_dl_scale th _ nm det (One p) s Hs). Qed.

(** * index substitution *)
Lemma cdiv_1 (n : cplx R) : cdiv RO n 1 = n.
Proof. destruct n. unfold cdiv. rsimp. simpl. rewrite Rinv_1. f_equal; ring. Qed.
Lemma pcenter_sub nm p : pcenter (sub_p RO nm p) = pcenter p.
Proof. destruct p; reflexivity. Qed.
Lemma center_sub nm sc : center RO (sub_sc RO nm sc) = center RO sc.
Proof. destruct sc as [p|ps]; simpl; [apply pcenter_sub|]. rewrite map_map.
  rewrite (map_ext _ pcenter) by (intros; apply pcenter_sub). reflexivity. Qed.
Lemma is_uniform_sub nm p : is_uniform_sph (sub_p RO nm p) = is_uniform_sph p.
Proof. destruct p as [ns rs c| |]; try reflexivity. destruct ns as [|n [|n2 ns]]; reflexivity. Qed.
Lemma is_sph_sub nm p : is_sph (sub_p RO nm p) = is_sph p.
Proof. destruct p; reflexivity. Qed.
Lemma can_handle_sub th nm sc : can_handle th (sub_sc RO nm sc) = can_handle th sc.
Proof. induction th; destruct sc as [p|ps]; simpl.
  all: try reflexivity. all: try apply is_sph_sub. all: try apply is_uniform_sub. all: try assumption.
  all: try (rewrite forallb_map; apply forallb_ext'; intros; apply is_uniform_sub).
  all: try apply IHth.
Qed.
Lemma members_sub nm sc : members (sub_sc RO nm sc) = map (sub_p RO nm) (members sc).
Proof. destruct sc; reflexivity. Qed.
Lemma radii_sub nm p : radii (sub_p RO nm p) = radii p. Proof. destruct p; reflexivity. Qed.
Lemma indices_sub nm p : indices (sub_p RO nm p) = map (fun n => cdiv RO n nm) (indices p).
Proof. destruct p; reflexivity. Qed.
Lemma head_member_sub nm sc :
  hd (Sph [] [] (vzero RO)) (members (sub_sc RO nm sc)) = sub_p RO nm (hd (Sph [] [] (vzero RO)) (members sc)).
Proof. rewrite members_sub. destruct (members sc); reflexivity. Qed.

Lemma tm_params_sub k nm p : tm_params RO pi cb k 1 (sub_p RO nm p) = tm_params RO pi cb k nm p.
Proof. destruct p as [ns rs c|n rxy rz [[r0 r1] r2] c|n d h [[r0 r1] r2] c]; unfold tm_params, tm_raw, sub_p.
  - destruct ns as [|[nr ni] ns]; simpl hd; cbn [fst snd cdiv]; rsimp; rewrite Rinv_1.
    + do 2 f_equal. f_equal; ring.
    + do 2 f_equal. f_equal; ring.
  - destruct n as [nr ni]. cbn [fst snd cdiv]. rsimp. rewrite Rinv_1. do 2 f_equal. f_equal; ring.
  - destruct n as [nr ni]. cbn [fst snd cdiv]. rsimp. rewrite Rinv_1. do 2 f_equal. f_equal; ring. Qed.

Lemma params_of_sub th : forall k nm sc,
  params_of RO pi cb th k 1 (sub_sc RO nm sc) = params_of RO pi cb th k nm sc.
Proof. induction th as [| | |angle aberr|angle inner IH]; intros k nm sc; cbn [params_of].
  - rewrite head_member_sub, radii_sub, indices_sub, map_map. f_equal. apply map_ext. intros n. apply cdiv_1.
  - rewrite members_sub. f_equal.
    + rewrite map_map. apply map_ext. intros p. rewrite radii_sub. reflexivity.
    + rewrite map_map. apply map_ext. intros p. rewrite indices_sub, cdiv_1.
      destruct (indices p) as [|[nr ni] t]; simpl; [|reflexivity]. unfold cdiv. simpl. rsimp. f_equal; ring.
    + rewrite map_map. apply map_ext. intros p. rewrite map_map, pcenter_sub.
      rewrite (map_ext (fun x => pcenter (sub_p RO nm x)) pcenter) by (intros; apply pcenter_sub). reflexivity.
  - rewrite head_member_sub. apply tm_params_sub.
  - rewrite head_member_sub, radii_sub, indices_sub, map_map. f_equal. apply map_ext. intros n. apply cdiv_1.
  - rewrite IH. reflexivity. Qed.

Lemma index_equivalence_lemma th c :
  dimensionless RO pi cb th (index_subst RO c) = dimensionless RO pi cb th c.
Proof. destruct c as [nm lam sc det]. unfold dimensionless, index_subst. cbn [c_nm c_lam c_sc c_det]. rsimp.
  rewrite wavevec_index, can_handle_sub. unfold one_dl.
  destruct (can_handle th sc).
  - rewrite center_sub, params_of_sub. reflexivity.
  - destruct sc as [p|ps]; [reflexivity|]. cbn [sub_sc]. rewrite forallb_map.
    rewrite (forallb_ext' _ (fun p => can_handle th (One p))) by (intros p; apply (can_handle_sub th nm (One p))).
    destruct (forallb (fun p => can_handle th (One p)) ps); [|reflexivity].
    rewrite map_map. apply map_ext. intros p.
    change (One (sub_p RO nm p)) with (sub_sc RO nm (One p)).
    rewrite (center_sub nm (One p)), (params_of_sub th _ nm (One p)). reflexivity. Qed.

(** * T-matrix argument tuple *)
Definition tm_axi (t : R * R * R * R * R * R * Z * R * R) : R := let '(axi,_,_,_,_,_,_,_,_) := t in axi.
Definition tm_lam (t : R * R * R * R * R * R * Z * R * R) : R := let '(_,_,lam,_,_,_,_,_,_) := t in lam.
Definition tm_eps (t : R * R * R * R * R * R * Z * R * R) : R := let '(_,_,_,_,_,eps,_,_,_) := t in eps.
Lemma tm_raw_scale k nm p s : 0 < s ->
  let t := tm_raw RO pi cb k nm p in let t' := tm_raw RO pi cb (k / s) nm (scale_p RO s p) in
  tm_axi t' = s * tm_axi t /\ tm_lam t' = s * tm_lam t /\ tm_eps t' = tm_eps t /\
  tm_axi t' / tm_lam t' = tm_axi t / tm_lam t.
Proof. intros Hs. assert (Hn : s <> 0) by lra.
  assert (G : forall c v, (c * cb (s*s*s*v) = s * (c * cb v))) by (intros; rewrite cb_homog by assumption; ring).
  destruct p as [ns rs c|n rxy rz [[r0 r1] r2] c|n d h [[r0 r1] r2] c]; unfold tm_raw, scale_p, tm_axi, tm_lam, tm_eps, two, three; rsimp.
  - destruct rs as [|r rs]; simpl hd; rsimp.
    + replace (0 * (0 * 0)) with (s * s * s * (0 * (0 * 0))) at 1 3 by ring. rewrite G.
      repeat split; solve_s s Hn.
    + replace (s * r * (s * r * (s * r))) with (s * s * s * (r * (r * r))) by ring. rewrite G.
      repeat split; solve_s s Hn.
  - replace (s * rz * (s * rxy * (s * rxy))) with (s * s * s * (rz * (rxy * rxy))) by ring. rewrite G.
    repeat split; solve_s s Hn.
  - replace (s * h * / (1 + 1) * (s * d * / (1 + 1) * (s * d * / (1 + 1))))
        with (s * s * s * (h * / (1 + 1) * (d * / (1 + 1) * (d * / (1 + 1))))) by ring. rewrite G.
    repeat split; solve_s s Hn. Qed.

Lemma tm_out_scale lam amp s : s <> 0 -> tm_out RO pi (s * lam) (s * amp) = tm_out RO pi lam amp.
Proof. intros Hs. unfold tm_out, two. rsimp. solve_s s Hs. Qed.

(** * cross sections *)
Lemma cs_mie_scale k qs qe g s : s <> 0 ->
  cs_mie RO pi (k / s) qs qe g =
  let '(cscat, cabs, cext, asym) := cs_mie RO pi k qs qe g in (s * s * cscat, s * s * cabs, s * s * cext, asym).
Proof. intros Hs. unfold cs_mie, two. rsimp. f_equal; [f_equal; [f_equal|]|]; solve_s s Hs. Qed.
Lemma cs_multi_scale k qs fwd integ s : s <> 0 ->
  cs_multi RO pi (k / s) qs fwd integ =
  let '(cscat, cabs, cext, asym) := cs_multi RO pi k qs fwd integ in (s * s * cscat, s * s * cabs, s * s * cext, asym).
Proof. intros Hs. unfold cs_multi, two. rsimp. f_equal; [f_equal; [f_equal|]|]; solve_s s Hs. Qed.
End S.

(** * scattering-matrix path: lengths are handed over unscaled, only the angles are used *)
Section Angles.
Variables (sq : R -> R) (at2 : R -> R -> R) (wr : R -> R).
Hypothesis sq_homog : forall s q, 0 < s -> sq (s * s * q) = s * sq q.
Hypothesis at2_homog : forall s y x, 0 < s -> at2 (s * y) (s * x) = at2 y x.
Lemma to_sph_scale s v : 0 < s ->
  to_sph RO sq at2 wr (vscale RO s v) = let '(r,th,ph) := to_sph RO sq at2 wr v in (s * r, th, ph).
Proof. intros Hs. destruct v as [[x y] z]. unfold to_sph, vscale. rsimp.
  replace (s*x*(s*x) + s*y*(s*y) + s*z*(s*z)) with (s*s*(x*x+y*y+z*z)) by ring.
  replace (s*x*(s*x) + s*y*(s*y)) with (s*s*(x*x+y*y)) by ring.
  rewrite !sq_homog, !at2_homog by assumption. reflexivity. Qed.
Lemma to_cyl_scale s v : 0 < s ->
  to_cyl RO sq at2 wr (vscale RO s v) = let '(rho,ph,z) := to_cyl RO sq at2 wr v in (s * rho, ph, s * z).
Proof. intros Hs. destruct v as [[x y] z]. unfold to_cyl, vscale. rsimp.
  replace (s*x*(s*x) + s*y*(s*y)) with (s*s*(x*x+y*y)) by ring.
  rewrite !sq_homog, !at2_homog by assumption. reflexivity. Qed.
Lemma scat_matrix_angles_scale c s : 0 < s ->
  scat_matrix_angles RO sq at2 wr (scale RO s c) = scat_matrix_angles RO sq at2 wr c.
Proof. intros Hs. destruct c as [nm lam sc det]. unfold scat_matrix_angles, scale. cbn [c_det c_sc].
  destruct det as [pts|pts]; cbn [scale_det]; rewrite map_map; apply map_ext; intros p.
  - rewrite center_scale. rsimp. rewrite handoff1_unit_scale, to_sph_scale by assumption.
    destruct (to_sph RO sq at2 wr (handoff1 RO 1 (center RO sc) p)) as [[r th] ph]. reflexivity.
  - destruct p as [[r th] ph]. reflexivity. Qed.
Lemma scat_matrix_angles_index c :
  scat_matrix_angles RO sq at2 wr (index_subst RO c) = scat_matrix_angles RO sq at2 wr c.
Proof. destruct c as [nm lam sc det]. unfold scat_matrix_angles, index_subst. cbn [c_det c_sc].
  rewrite center_sub. reflexivity. Qed.
End Angles.

(** * the executed (Q) instance computes the proved (R) instance *)
Lemma wavevec_Q_R (pi nm lam : Q) : ~ (nm == 0)%Q -> ~ (lam == 0)%Q -> ~ (pi == 0)%Q ->
  Q2R (wavevec QO pi nm lam) = wavevec RO (Q2R pi) (Q2R nm) (Q2R lam).
Proof. intros Hnm Hlam Hpi. unfold wavevec, two. cbn [zero one add mul sub opp inv QO RO].
  assert (Hd : ~ (lam * / nm == 0)%Q).
  { intro E. apply Hlam. assert (H2 : (lam * / nm * nm == 0 * nm)%Q) by (rewrite E; reflexivity).
    rewrite <- Qmult_assoc, (Qmult_comm (/ nm)), Qmult_inv_r, Qmult_1_r, Qmult_0_l in H2 by assumption. exact H2. }
  rewrite Q2R_mult, Q2R_inv by assumption. rewrite !Q2R_mult, Q2R_plus, Q2R_inv by assumption.
  rewrite Q2R_1. reflexivity. Qed.
Definition vQ2R (v : vec Q) : vec R := let '(a,b,c) := v in (Q2R a, Q2R b, Q2R c).
Lemma handoff1_Q_R k c p : vQ2R (handoff1 QO k c p) = handoff1 RO (Q2R k) (vQ2R c) (vQ2R p).
Proof. destruct c as [[cx cy] cz], p as [[px py] pz]. unfold handoff1, vQ2R. cbn [add mul sub RO QO].
  rewrite !Q2R_mult, !Q2R_minus. reflexivity. Qed.

(** * "theory output is a function of the dimensionless tuple" => results are unit-agnostic *)
Lemma results_invariant_lemma (pi : R) (cb : R -> R) (Out : Type)
  (calc : theory R -> cfg R -> Out) (F : theory R -> list (dl R) -> Out) :
  (forall s v, 0 < s -> cb (s * s * s * v) = s * cb v) ->
  (forall th c, calc th c = F th (dimensionless RO pi cb th c)) ->
  forall th c, (forall s, 0 < s -> calc th (scale RO s c) = calc th c) /\ calc th (index_subst RO c) = calc th c.
Proof. intros Hcb HF th c. split.
  - intros s Hs. rewrite !HF, (scale_invariant_lemma pi cb Hcb) by assumption. reflexivity.
  - rewrite !HF, index_equivalence_lemma. reflexivity. Qed.

Lemma real_oracles_homogeneous :
  (forall s v, 0 < s -> cbrtR (s * s * s * v) = s * cbrtR v) /\
  (forall s q, 0 < s -> sqrt (s * s * q) = s * sqrt q) /\
  (forall s y x, 0 < s -> atan2R (s * y) (s * x) = atan2R y x).
Proof. split; [exact cbrtR_homog|split; [exact sqrt_homog|exact atan2R_homog]]. Qed.

(** Models of defective code variants with computed witnesses. *)
From Coq Require Import ZArith List Bool Lia.
From HV Require Import Common.Generic C08.Model.
Import ListNotations.
Open Scope Z_scope.

(** Lens._calc_scattering_matrix as found: the output of the wrapped theory, laid out (nphi, ntheta) by
    np.meshgrid(theta, phi), is reshaped as (quad_npts_theta, quad_npts_phi, 2, 2).  With unequal node
    counts the matrix that lands on pupil node (theta_p, phi_q) belongs to another direction: for
    2 polar x 3 azimuthal nodes, node (0, 1) receives S(theta_1, phi_1).
    (harness key lens:quad_npts_unequal; Lens(0.8, Mie(False, False), 30, 60) differs from MieLens by O(1).) *)
Theorem reshape_unequal_refuted :
  exists ntheta nphi p q, 0 <= p < ntheta /\ 0 <= q < nphi /\ layout_asfound ntheta nphi p q <> (p, q).
Proof. exists 2, 3, 0, 1. split; [lia|]. split; [lia|]. vm_compute. discriminate. Qed.

(** C08 - proofs.  R instance = object of the theorems. *)
From Coq Require Import ZArith List Bool Reals QArith Qreals Lra Lia Nsatz Psatz.
From HV Require Import Common.Generic C08.Model.
Import ListNotations.
Local Open Scope R_scope.

Ltac unfR := cbn [zero one add mul sub opp inv ltb leb eqb ofZ RO fst snd] in *.
Ltac cxeq tac := match goal with |- (_, _) = (_, _) => apply f_equal2; tac end.

(** ------------------------------------------------------------------------------------------
    1. Lens scattering-matrix layout (pure index arithmetic over Z) *)
Ltac Zify.zify_post_hook ::= Z.to_euclidean_division_equations.

Lemma layout_fixed_id : forall ntheta nphi p q,
  (0 <= p < ntheta)%Z -> (0 <= q < nphi)%Z -> layout_fixed ntheta nphi p q = (p, q).
Proof.
  intros ntheta nphi p q Hp Hq. unfold layout_fixed, layout. cbv zeta.
  replace (p * nphi + q)%Z with (q + p * nphi)%Z by ring.
  rewrite (Z.div_add q p nphi) by lia. rewrite (Z.mod_add q p nphi) by lia.
  rewrite (Z.div_small q nphi) by lia. rewrite (Z.mod_small q nphi) by lia. rewrite Z.add_0_l.
  replace (q * ntheta + p)%Z with (p + q * ntheta)%Z by ring.
  rewrite (Z.div_add p q ntheta) by lia. rewrite (Z.mod_add p q ntheta) by lia.
  rewrite (Z.div_small p ntheta) by lia. rewrite (Z.mod_small p ntheta) by lia. rewrite Z.add_0_l. reflexivity.
Qed.

Lemma layout_asfound_equal_counts : forall n p q,
  (0 <= p < n)%Z -> (0 <= q < n)%Z -> layout_asfound n n p q = (p, q).
Proof. intros. unfold layout_asfound. change (layout n n n n p q) with (layout_fixed n n p q).
  apply layout_fixed_id; assumption. Qed.

(** zrange facts *)
Lemma zrange_from_In : forall n a k, In k (zrange_from a n) <-> (a <= k < a + Z.of_nat n)%Z.
Proof. induction n as [|n IH]; intros a k; simpl zrange_from.
  - simpl. lia.
  - simpl In. rewrite IH. lia. Qed.
Lemma zrange_from_length : forall n a, length (zrange_from a n) = n.
Proof. induction n; intros; simpl; [reflexivity|rewrite IHn; reflexivity]. Qed.
Lemma zrange_In : forall a b k, In k (zrange a b) <-> (a <= k < b)%Z.
Proof. intros. unfold zrange. rewrite zrange_from_In. lia. Qed.
(** the matrices handed to the pupil: with the repaired reshape node (p,q) (row-major) carries S(theta_p, phi_q) *)
Lemma flat_map_ext_in : forall {A B} (f g : A -> list B) l, (forall x, In x l -> f x = g x) -> flat_map f l = flat_map g l.
Proof. induction l as [|x l IH]; intros H; simpl; [reflexivity|]. rewrite H by (left; reflexivity).
  rewrite IH; [reflexivity|]. intros; apply H; right; assumption. Qed.
Lemma pupil_matrices_fixed : forall {A} (S_of : Z -> Z -> A) ntheta nphi,
  pupil_matrices (layout_fixed ntheta nphi) S_of ntheta nphi =
  flat_map (fun p => map (fun q => S_of p q) (zrange 0 nphi)) (zrange 0 ntheta).
Proof. intros. unfold pupil_matrices. apply flat_map_ext_in. intros p Hp. apply map_ext_in. intros q Hq.
  apply zrange_In in Hp. apply zrange_In in Hq. rewrite layout_fixed_id by lia. reflexivity. Qed.

(** ------------------------------------------------------------------------------------------
    2. legval on all-zero coefficients; aberration with zero coefficients *)
Lemma legval_loop_zeros : forall x rest nd, Forall (fun a => a = 0) rest ->
  legval_loop RO x rest nd 0 0 = (0, 0).
Proof. intros x rest. induction rest as [|a t IH]; intros nd H; simpl; [reflexivity|].
  inversion H as [|? ? Ha Ht]; subst. unfR.
  replace (0 - 0 * _) with 0 by ring. replace (0 + 0 * x * _) with 0 by ring. apply IH; assumption. Qed.

Lemma legval_all_zero : forall x c, Forall (fun a => a = 0) c -> legval RO x c = 0.
Proof. intros x c H. destruct c as [|a [|b [|d t]]].
  - reflexivity.
  - inversion H; subst. simpl. unfR. ring.
  - inversion H as [|? ? Ha Ht]; subst. inversion Ht; subst. simpl. unfR. ring.
  - unfold legval. remember (a :: b :: d :: t) as c eqn:Ec.
    assert (Hr : Forall (fun a => a = 0) (rev c)) by (apply Forall_rev; exact H).
    destruct (rev c) as [|cl [|cl2 rest]]; try reflexivity.
    inversion Hr as [|? ? Hz1 Hr1]; subst cl. inversion Hr1 as [|? ? Hz2 Hr2]; subst cl2.
    rewrite legval_loop_zeros by assumption. unfR. ring. Qed.

Lemma Forall_repeat0 : forall n, Forall (fun a : R => a = 0) (repeat 0 n).
Proof. induction n; simpl; constructor; auto. Qed.
Lemma legval_zeros_repeat : forall n x, legval RO x (repeat 0 n) = 0.
Proof. intros. apply legval_all_zero. apply Forall_repeat0. Qed.
Lemma legval_zero_scalar : forall x, legval RO x (coeffs_of_scalar 0) = 0.
Proof. intros. apply legval_all_zero. repeat constructor. Qed.

Lemma aberr_phase_zero : forall c x, Forall (fun a => a = 0) c -> aberr_phase RO c x = 0.
Proof. intros. unfold aberr_phase. cbv zeta. rewrite legval_all_zero by assumption. unfR. ring. Qed.
Lemma phase_ab_zero : forall kz c x, Forall (fun a => a = 0) c -> phase_ab RO kz c x = phase_unab RO kz x.
Proof. intros. unfold phase_ab. rewrite aberr_phase_zero by assumption. unfR. ring. Qed.

Lemma direct_i_n_phase_ext : forall expi bessel (f g : R -> R) n krho nodes,
  (forall x, f x = g x) -> direct_i_n RO expi bessel f n krho nodes = direct_i_n RO expi bessel g n krho nodes.
Proof. intros. unfold direct_i_n. f_equal. apply map_ext. intros; rewrite H; reflexivity. Qed.

(** the whole MieLens field as a function of the phase function (oracles arbitrary) *)
Definition mielens_full (expi : R -> cx R) (bessel : Z -> R -> R) (phasef : R -> R) (c39 : R) (npts : Z)
  (nodes : list (qnode R)) (krho c2p s2p cg sg : R) (eikz : cx R) : vec3 R :=
  mielens_field RO c39 npts krho (direct_i_n RO expi bessel phasef 0 krho nodes)
                (direct_i_n RO expi bessel phasef 2 krho nodes) c2p s2p cg sg eikz.

Lemma aberrated_zero_full : forall expi bessel kz c c39 npts nodes krho c2p s2p cg sg eikz,
  Forall (fun a => a = 0) c ->
  (forall x, phase_ab RO kz c x = phase_unab RO kz x) /\
  (forall n, direct_i_n RO expi bessel (phase_ab RO kz c) n krho nodes =
             direct_i_n RO expi bessel (phase_unab RO kz) n krho nodes) /\
  mielens_full expi bessel (phase_ab RO kz c) c39 npts nodes krho c2p s2p cg sg eikz =
  mielens_full expi bessel (phase_unab RO kz) c39 npts nodes krho c2p s2p cg sg eikz.
Proof. intros. assert (E : forall x, phase_ab RO kz c x = phase_unab RO kz x) by (intros; apply phase_ab_zero; assumption).
  split; [exact E|]. split.
  - intros n. apply direct_i_n_phase_ext. exact E.
  - unfold mielens_full. rewrite !(direct_i_n_phase_ext expi bessel _ _ _ _ _ E). reflexivity. Qed.

(** ------------------------------------------------------------------------------------------
    3. phase factors, E_z = 0, cut-off *)
Lemma phase_factors_eq : forall e : cx R, cdivr RO e (incident_x RO) = lens_phase RO e.
Proof. intros [a b]. unfold cdivr, lens_phase, cscale, incident_x. unfR. cxeq ltac:(field). Qed.

Lemma cmul_czero_l : forall f : cx R, cmul RO (czero RO) f = czero RO.
Proof. intros [a b]. unfold cmul, czero. unfR. cxeq ltac:(ring). Qed.

Lemma mielens_field_z : forall c39 npts krho i0 i2 c2p s2p cg sg eikz,
  snd (mielens_field RO c39 npts krho i0 i2 c2p s2p cg sg eikz) = czero RO.
Proof. intros. unfold mielens_field, lr_to_xyz, scale3. cbv zeta. cbn [snd]. apply cmul_czero_l. Qed.
Lemma lens_field_z : forall ts cg sg eikz, snd (lens_field RO ts cg sg eikz) = czero RO.
Proof. intros. unfold lens_field, lr_to_xyz, scale3. cbv zeta. cbn [snd]. apply cmul_czero_l. Qed.

Lemma cscale_czero : forall r : R, cscale RO r (czero RO) = czero RO.
Proof. intros. unfold cscale, czero. unfR. cxeq ltac:(ring). Qed.
Lemma cadd_czero : cadd RO (czero RO) (czero RO) = czero RO.
Proof. unfold cadd, czero. unfR. cxeq ltac:(ring). Qed.

Lemma mielens_beyond_cutoff : forall c39 npts krho i0 i2 c2p s2p cg sg eikz,
  c39 * IZR npts <= krho ->
  mielens_field RO c39 npts krho i0 i2 c2p s2p cg sg eikz = (czero RO, czero RO, czero RO).
Proof. intros. unfold mielens_field, mielens_scattered, rho_small. unfR.
  assert (E : Rltb krho (c39 * IZR npts) = false) by (apply Rltb_false; assumption).
  rewrite E. cbv zeta. cbn [fst snd]. unfold lr_to_xyz, scale3. rewrite !cscale_czero, cadd_czero, !cmul_czero_l.
  reflexivity. Qed.

Lemma rho_small_iff : forall c39 npts krho, rho_small RO c39 npts krho = true <-> krho < c39 * IZR npts.
Proof. intros. unfold rho_small. unfR. apply Rltb_true. Qed.

Lemma interp_choice_spec : forall mode degree ptp ws c11 npts,
  interp_choice RO mode degree ptp ws c11 npts = true <->
  match mode with ICheck => IZR degree * ptp / ws < c11 * IZR npts | ITrue => True | IOther => False end.
Proof. intros. destruct mode; simpl; unfR.
  - apply Rltb_true.
  - tauto.
  - split; [discriminate|tauto]. Qed.

(** ------------------------------------------------------------------------------------------
    4. Lens pupil sum for a diagonal, azimuth-independent scattering matrix (the Mie case):
       decomposition into three azimuthal moments; equality with the MieLens assembly given the
       radial integrals.  Terms: (prefactor, u = phi_j - phi_p, S1, S2); delta = phi_p - pol_angle. *)
Definition mterm : Type := (cx R * R * cx R * cx R)%type.
Definition to_lterm (delta : R) (t : mterm) : lterm R :=
  let '(pref, u, S1, S2) := t in (pref, cos (u + delta), sin (u + delta), S1, S2, czero RO, czero RO).
Definition f0 (t : mterm) : cx R := let '(pref, u, S1, S2) := t in cmul RO pref (cadd RO S1 S2).
Definition f2c (t : mterm) : cx R := let '(pref, u, S1, S2) := t in cscale RO (cos (2 * u)) (cmul RO pref (csub RO S2 S1)).
Definition f2s (t : mterm) : cx R := let '(pref, u, S1, S2) := t in cscale RO (sin (2 * u)) (cmul RO pref (csub RO S2 S1)).
Definition L0 (ts : list mterm) : cx R := csum RO (map f0 ts).
Definition L2c (ts : list mterm) : cx R := csum RO (map f2c ts).
Definition L2s (ts : list mterm) : cx R := csum RO (map f2s ts).
Definition lin3 (a b : R) (x y z : cx R) : cx R :=
  cscale RO (half RO) (cadd RO (cadd RO x (cscale RO a y)) (cscale RO b z)).

Lemma double_angle_sq : forall a, cos a * cos a = /2 * (1 + cos (2 * a)) /\ sin a * sin a = /2 * (1 - cos (2 * a))
  /\ sin a * cos a = /2 * sin (2 * a).
Proof. intros a. rewrite cos_2a, sin_2a. pose proof (sin2_cos2 a) as H. unfold Rsqr in H. repeat split; nra. Qed.

Lemma term_l : forall delta t,
  lens_integrand_l RO (to_lterm delta t) = lin3 (cos (2 * delta)) (- sin (2 * delta)) (f0 t) (f2c t) (f2s t).
Proof. intros delta [[[[pr pi] u] [a1 b1]] [a2 b2]].
  destruct (double_angle_sq (u + delta)) as (Hc & Hs & Hsc).
  assert (EC : cos (2 * (u + delta)) = cos (2 * u) * cos (2 * delta) - sin (2 * u) * sin (2 * delta))
    by (replace (2 * (u + delta)) with (2 * u + 2 * delta) by ring; apply cos_plus).
  rewrite EC in Hc, Hs. clear EC Hsc.
  unfold lens_integrand_l, to_lterm, lin3, f0, f2c, f2s, cmul, cadd, csub, cscale, czero, half. unfR.
  set (c := cos (u + delta)) in *. set (s := sin (u + delta)) in *.
  set (C2u := cos (2 * u)) in *. set (S2u := sin (2 * u)) in *. set (C2d := cos (2 * delta)) in *. set (S2d := sin (2 * delta)) in *.
  cxeq ltac:(nsatz). Qed.

Lemma term_r : forall delta t,
  lens_integrand_r RO (to_lterm delta t) = lin3 (sin (2 * delta)) (cos (2 * delta)) (czero RO) (f2c t) (f2s t).
Proof. intros delta [[[[pr pi] u] [a1 b1]] [a2 b2]].
  destruct (double_angle_sq (u + delta)) as (_ & _ & Hsc).
  assert (ES : sin (2 * (u + delta)) = sin (2 * u) * cos (2 * delta) + cos (2 * u) * sin (2 * delta))
    by (replace (2 * (u + delta)) with (2 * u + 2 * delta) by ring; apply sin_plus).
  rewrite ES in Hsc. clear ES.
  unfold lens_integrand_r, to_lterm, lin3, f0, f2c, f2s, cmul, cadd, csub, cscale, czero, half. unfR.
  set (c := cos (u + delta)) in *. set (s := sin (u + delta)) in *.
  set (C2u := cos (2 * u)) in *. set (S2u := sin (2 * u)) in *. set (C2d := cos (2 * delta)) in *. set (S2d := sin (2 * delta)) in *.
  cxeq ltac:(nsatz). Qed.

Lemma csum_lin3 : forall {A} (a b : R) (f g h : A -> cx R) l,
  csum RO (map (fun t => lin3 a b (f t) (g t) (h t)) l) =
  lin3 a b (csum RO (map f l)) (csum RO (map g l)) (csum RO (map h l)).
Proof. intros A a b f g h l. induction l as [|t l IH].
  - simpl. unfold lin3, cscale, cadd, czero, half. unfR. cxeq ltac:(field).
  - simpl. rewrite IH. destruct (f t), (g t), (h t), (csum RO (map f l)), (csum RO (map g l)), (csum RO (map h l)).
    unfold lin3, cscale, cadd, half. unfR. cxeq ltac:(field). Qed.

Lemma csum_map_czero : forall {A} (l : list A), csum RO (map (fun _ => czero RO) l) = czero RO.
Proof. induction l; simpl; [reflexivity|]. rewrite IHl. apply cadd_czero. Qed.

Lemma lens_decomposition_lemma : forall delta ts,
  lens_integrals RO (map (to_lterm delta) ts) =
  (lin3 (cos (2 * delta)) (- sin (2 * delta)) (L0 ts) (L2c ts) (L2s ts),
   lin3 (sin (2 * delta)) (cos (2 * delta)) (czero RO) (L2c ts) (L2s ts)).
Proof. intros. unfold lens_integrals. rewrite !map_map. apply f_equal2.
  - rewrite (map_ext _ _ (term_l delta)). apply csum_lin3.
  - rewrite (map_ext _ _ (term_r delta)). rewrite csum_lin3. rewrite csum_map_czero. reflexivity. Qed.

Lemma lens_eq_mielens_lemma : forall ts delta cg sg eikz c39 npts krho i0 i2,
  krho < c39 * IZR npts -> L0 ts = i0 -> L2c ts = i2 -> L2s ts = czero RO ->
  lens_field RO (map (to_lterm delta) ts) cg sg eikz =
  mielens_field RO c39 npts krho i0 i2 (cos (2 * delta)) (sin (2 * delta)) cg sg eikz.
Proof. intros ts delta cg sg eikz c39 npts krho i0 i2 Hr H0 H2 Hs.
  unfold lens_field, mielens_field. cbv zeta. rewrite lens_decomposition_lemma. rewrite phase_factors_eq.
  unfold mielens_scattered. rewrite (proj2 (rho_small_iff _ _ _) Hr). rewrite H0, H2, Hs. cbn [fst snd].
  f_equal. unfold mielens_small. cbn [fst snd]. destruct i0 as [a0 b0], i2 as [a2 b2].
  f_equal; [f_equal|]; unfold lin3, cscale, cadd, czero, half; unfR; cxeq ltac:(field). Qed.

(** ------------------------------------------------------------------------------------------
    5. Interpolation windows: total and single-valued on [min, max] *)
Definition Rfloor (x : R) : Z := (up x - 1)%Z.
Lemma Rfloor_bounds : forall x, IZR (Rfloor x) <= x < IZR (Rfloor x) + 1.
Proof. intros x. unfold Rfloor. rewrite minus_IZR. destruct (archimed x) as [H1 H2]. lra. Qed.
Lemma Rfloor_unique : forall x k, IZR k <= x < IZR k + 1 -> Rfloor x = k.
Proof. intros x k [H1 H2]. destruct (Rfloor_bounds x) as [F1 F2].
  assert (A : (Rfloor x < k + 1)%Z) by (apply lt_IZR; rewrite plus_IZR; lra).
  assert (B : (k < Rfloor x + 1)%Z) by (apply lt_IZR; rewrite plus_IZR; lra). lia. Qed.
Lemma Rfloor_ge : forall x k, IZR k <= x -> (k <= Rfloor x)%Z.
Proof. intros x k H. destruct (Rfloor_bounds x) as [F1 F2].
  assert (A : (k < Rfloor x + 1)%Z) by (apply lt_IZR; rewrite plus_IZR; lra). lia. Qed.
Lemma Rceil_bounds : forall x, x <= IZR (ceilT RO Rfloor x).
Proof. intros x. unfold ceilT. unfR. rewrite opp_IZR. destruct (Rfloor_bounds (- x)). lra. Qed.

Lemma windows_map : forall (f : Z -> R) n a,
  windows (map f (zrange_from a (S n))) = map (fun j => (f j, f (j + 1)%Z)) (zrange_from a n).
Proof. intros f n. induction n as [|n IH]; intros a.
  - reflexivity.
  - change (zrange_from a (S (S n))) with (a :: zrange_from (a + 1) (S n)).
    unfold windows in *. cbn [map tl]. specialize (IH (a + 1)%Z).
    remember (zrange_from (a + 1) (S n)) as r eqn:Er. simpl in Er. rewrite Er in *. cbn [map combine tl] in *.
    rewrite IH. reflexivity. Qed.

Lemma filter_none : forall {A} (P : A -> bool) l, (forall x, In x l -> P x = false) -> filter P l = [].
Proof. induction l as [|x l IH]; intros H; simpl; [reflexivity|]. rewrite H by (left; reflexivity).
  apply IH. intros; apply H; right; assumption. Qed.
Lemma filter_zrange_unique : forall (P : Z -> bool) n a k,
  (forall j, In j (zrange_from a n) -> P j = Z.eqb j k) -> (a <= k < a + Z.of_nat n)%Z ->
  filter P (zrange_from a n) = k :: nil.
Proof. intros P n. induction n as [|n IH]; intros a k HP Hk; [lia|].
  simpl zrange_from. simpl filter. rewrite (HP a) by (left; reflexivity).
  destruct (Z.eqb_spec a k) as [E|NE].
  - subst a. f_equal. apply filter_none. intros j Hj. rewrite HP by (right; assumption).
    apply zrange_from_In in Hj. apply Z.eqb_neq. lia.
  - apply IH; [|lia]. intros j Hj. apply HP. right; assumption. Qed.
Lemma filter_map_comm : forall {A B} (g : A -> B) (P : B -> bool) l,
  filter P (map g l) = map g (filter (fun x => P (g x)) l).
Proof. induction l as [|x l IH]; simpl; [reflexivity|]. destruct (P (g x)); simpl; rewrite IH; reflexivity. Qed.

Lemma in_window_iff : forall ws x j, 0 < ws ->
  in_window RO x (ws * IZR j, ws * IZR (j + 1)) = Z.eqb j (Rfloor (x / ws)).
Proof. intros ws x j Hws. unfold in_window. cbn [fst snd]. unfR. rewrite plus_IZR.
  assert (Ex : x = ws * (x / ws)) by (field; lra).
  destruct (Z.eqb_spec j (Rfloor (x / ws))) as [E|NE].
  - destruct (Rfloor_bounds (x / ws)) as [F1 F2]. rewrite <- E in F1, F2.
    apply andb_true_iff. split; [apply Rleb_true|apply Rltb_true].
    + rewrite Ex. apply Rmult_le_compat_l; lra.
    + rewrite Ex at 1. apply Rmult_lt_compat_l; lra.
  - apply andb_false_iff. destruct (Rle_dec (ws * IZR j) x) as [L|NL].
    + right. apply Rltb_false. destruct (Rlt_dec x (ws * (IZR j + 1))) as [U|NU]; [|lra].
      exfalso. apply NE. symmetry. apply Rfloor_unique. split.
      * apply Rmult_le_reg_l with ws; [lra|]. rewrite <- Ex. exact L.
      * apply Rmult_lt_reg_l with ws; [lra|]. rewrite <- Ex. exact U.
    + left. apply Rleb_false. lra. Qed.

Lemma fold_keep : forall {A} (P : (R * R) -> bool) (F : (R * R) -> A) l d,
  filter P l = [] -> fold_left (fun res w => if P w then F w else res) l d = d.
Proof. induction l as [|w l IH]; intros d H; simpl; [reflexivity|]. simpl in H.
  destruct (P w); [discriminate|]. apply IH; assumption. Qed.
Lemma fold_unique : forall {A} (P : (R * R) -> bool) (F : (R * R) -> A) l d w0,
  filter P l = w0 :: nil -> fold_left (fun res w => if P w then F w else res) l d = F w0.
Proof. induction l as [|w l IH]; intros d w0 H; simpl in *; [discriminate|].
  destruct (P w).
  - injection H as E1 E2. subst w0. apply fold_keep. assumption.
  - apply IH; assumption. Qed.

Lemma last_map_zrange : forall (f : Z -> R) n a d, last (map f (zrange_from a (S n))) d = f (a + Z.of_nat n)%Z.
Proof. intros f n. induction n as [|n IH]; intros a d.
  - simpl. f_equal. lia.
  - transitivity (last (map f (zrange_from (a + 1) (S n))) d); [reflexivity|].
    rewrite IH. f_equal. lia. Qed.

Section WindowsCover.
Variables ws mn mx eps x : R.
Hypothesis Hws : 0 < ws.
Hypothesis Heps : 0 < eps.
Hypothesis Hx : mn <= x <= mx.
Let s := window_start RO Rfloor ws mn.
Let e := window_end RO Rfloor ws mx eps.
Let k := Rfloor (x / ws).
Let bps := breakpoints RO Rfloor ws mn mx eps.

Lemma k_range : (s <= k /\ k + 1 < e)%Z.
Proof. unfold s, e, k, window_start, window_end. unfR. split.
  - apply Rfloor_ge. destruct (Rfloor_bounds (mn * / ws)) as [F1 _].
    apply Rle_trans with (mn * / ws); [exact F1|]. apply Rmult_le_compat_r; [left; apply Rinv_0_lt_compat; lra|lra].
  - pose proof (Rceil_bounds (mx * / ws + eps)) as C. destruct (Rfloor_bounds (x * / ws)) as [F1 _].
    assert (x * / ws <= mx * / ws) by (apply Rmult_le_compat_r; [left; apply Rinv_0_lt_compat; lra|lra]).
    assert (A : Z.lt (Rfloor (x * / ws)) (ceilT RO Rfloor (mx * / ws + eps))) by (apply lt_IZR; unfR; lra).
    unfR. unfold Rdiv. lia. Qed.

Lemma bps_shape : exists n, Z.to_nat (e - s) = S n /\ (s <= k < s + Z.of_nat n)%Z /\
  bps = map (fun j => ws * IZR j) (zrange_from s (S n)) /\ (s + Z.of_nat n = e - 1)%Z.
Proof. destruct k_range as [K1 K2]. exists (Z.to_nat (e - s - 1)). repeat split; try lia.
  unfold bps, breakpoints, zrange. fold s e. unfR. f_equal. f_equal. lia. Qed.

Lemma windows_cover_lemma :
  domain_ok RO bps mn mx = true /\
  window_hits RO bps x = (ws * IZR k, ws * IZR (k + 1)) :: nil /\
  (forall (A : Type) (approx : R * R -> R -> A) dflt,
     piecewise_eval RO approx dflt bps x = approx (ws * IZR k, ws * IZR (k + 1)) x).
Proof. destruct bps_shape as (n & Hn & Hk & Hb & He).
  assert (Hits : window_hits RO bps x = (ws * IZR k, ws * IZR (k + 1)) :: nil).
  { unfold window_hits. rewrite Hb. rewrite windows_map. rewrite filter_map_comm.
    rewrite (filter_zrange_unique _ n s k); [reflexivity| |lia].
    intros j _. apply in_window_iff. exact Hws. }
  split; [|split; [exact Hits|]].
  - unfold domain_ok. rewrite Hb. rewrite last_map_zrange. cbn [map hd zrange_from]. unfR.
    apply negb_true_iff. apply orb_false_iff. split.
    + apply Rleb_false. rewrite He. unfold e, window_end. unfR.
      pose proof (Rceil_bounds (mx * / ws + eps)) as C.
      set (c := ceilT RO Rfloor (mx * / ws + eps)) in *.
      assert (Hlt : mx * / ws < IZR c) by lra.
      apply (Rmult_lt_compat_l ws) in Hlt; [|lra].
      replace (ws * (mx * / ws)) with mx in Hlt by (field; lra).
      replace (c + 1 - 1)%Z with c by lia. exact Hlt.
    + apply Rltb_false. unfold s, window_start. unfR. destruct (Rfloor_bounds (mn * / ws)) as [F1 _].
      set (c := Rfloor (mn * / ws)) in *.
      apply (Rmult_le_compat_l ws) in F1; [|lra].
      replace (ws * (mn * / ws)) with mn in F1 by (field; lra). exact F1.
  - intros A approx dflt. unfold piecewise_eval. apply (fold_unique (in_window RO x) (fun w => approx w x)).
    exact Hits. Qed.
End WindowsCover.

(** ------------------------------------------------------------------------------------------
    6. numpy's Clenshaw recursion evaluates the Legendre series  sum_k c_k P_k(x)
       (P_0 = 1, P_1 = x, (n+1) P_{n+1} = (2n+1) x P_n - n P_{n-1}), for every coefficient list. *)
Fixpoint legP2 (n : nat) (x : R) : R * R :=
  match n with
  | O => (1, x)
  | S m => let '(a, b) := legP2 m x in
           (b, ((2 * IZR (Z.of_nat m) + 3) * x * b - (IZR (Z.of_nat m) + 1) * a) / (IZR (Z.of_nat m) + 2))
  end.
Definition legP (n : nat) (x : R) : R := fst (legP2 n x).
Fixpoint legser_from (k : nat) (c : list R) (x : R) : R :=
  match c with [] => 0 | a :: t => a * legP k x + legser_from (S k) t x end.
Definition legser (c : list R) (x : R) : R := legser_from 0 c x.

Lemma legP_0 : forall x, legP 0 x = 1. Proof. reflexivity. Qed.
Lemma legP_1 : forall x, legP 1 x = x. Proof. reflexivity. Qed.
Lemma legP2_snd : forall n x, snd (legP2 n x) = legP (S n) x.
Proof. intros. unfold legP. simpl. destruct (legP2 n x). reflexivity. Qed.
Lemma legP_rec : forall m x,
  legP (S (S m)) x = ((2 * IZR (Z.of_nat m) + 3) * x * legP (S m) x - (IZR (Z.of_nat m) + 1) * legP m x) / (IZR (Z.of_nat m) + 2).
Proof. intros. rewrite <- (legP2_snd (S m)). rewrite <- (legP2_snd m). unfold legP. simpl.
  destruct (legP2 m x) as [a b]. reflexivity. Qed.

Lemma legser_from_app : forall l k a x,
  legser_from k (l ++ a :: nil) x = legser_from k l x + a * legP (k + length l) x.
Proof. induction l as [|b l IH]; intros k a x; simpl.
  - rewrite Nat.add_0_r. ring.
  - rewrite IH. replace (S k + length l)%nat with (k + S (length l))%nat by lia. ring. Qed.

Lemma legval_loop_inv : forall x rest c0 c1,
  let '(d0, d1) := legval_loop RO x rest (Z.of_nat (length rest) + 2) c0 c1 in
  d0 + d1 * x = legser (rev rest) x + c0 * legP (length rest) x + c1 * legP (S (length rest)) x.
Proof. intros x rest. induction rest as [|ci t IH]; intros c0 c1.
  - simpl. unfold legser. simpl. rewrite legP_0, legP_1. ring.
  - cbn [legval_loop length]. 
    replace (Z.of_nat (S (length t)) + 2 - 1)%Z with (Z.of_nat (length t) + 2)%Z by lia.
    set (m := length t). set (nd := (Z.of_nat m + 2)%Z).
    specialize (IH (sub RO ci (mul RO c1 (mul RO (ofZ RO (nd - 1)) (inv RO (ofZ RO nd)))))
                   (add RO c0 (mul RO (mul RO c1 x) (mul RO (ofZ RO (2 * nd - 1)) (inv RO (ofZ RO nd)))))).
    fold m nd in IH.
    destruct (legval_loop RO x t nd _ _) as [d0 d1]. rewrite IH. clear IH.
    cbn [rev]. unfold legser. rewrite legser_from_app. rewrite rev_length. fold m. cbn [Nat.add].
    rewrite (legP_rec m x). unfR. unfold nd. rewrite !minus_IZR, !mult_IZR, !plus_IZR.
    assert (0 <= IZR (Z.of_nat m)) by (apply IZR_le; lia). field. lra. Qed.

Lemma legval_is_legser : forall x c, legval RO x c = legser c x.
Proof. intros x c. destruct c as [|a [|b [|d t]]].
  - reflexivity.
  - unfold legser. simpl. rewrite legP_0. unfR. ring.
  - unfold legser. simpl. rewrite legP_0, legP_1. unfR. ring.
  - unfold legval. remember (a :: b :: d :: t) as c eqn:Ec.
    assert (Hl : (3 <= length c)%nat) by (subst c; simpl; lia).
    assert (Hc : c = rev (rev c)) by (symmetry; apply rev_involutive).
    destruct (rev c) as [|cl [|cl2 rest]] eqn:Er.
    + apply (f_equal (@length R)) in Er. rewrite rev_length in Er. simpl in Er. lia.
    + apply (f_equal (@length R)) in Er. rewrite rev_length in Er. simpl in Er. lia.
    + assert (Len : Z.of_nat (length c) = (Z.of_nat (length rest) + 2)%Z).
      { rewrite <- (rev_length c), Er. simpl. lia. }
      rewrite Len. pose proof (legval_loop_inv x rest cl2 cl) as I.
      destruct (legval_loop RO x rest (Z.of_nat (length rest) + 2) cl2 cl) as [d0 d1]. unfR. rewrite I.
      rewrite Hc. cbn [rev]. unfold legser. rewrite !legser_from_app. rewrite !app_length, !rev_length. simpl.
      replace (length rest + 1)%nat with (S (length rest)) by lia. ring. Qed.

(** ------------------------------------------------------------------------------------------
    7. The Q instance that is executed against the implementation computes the same values as the
       R instance the theorems are about (decisions and the division-free field arithmetic). *)
Definition cQ2R (z : cx Q) : cx R := (Q2R (fst z), Q2R (snd z)).
Definition ltermQ2R (t : lterm Q) : lterm R :=
  let '(pref, c, s, S1, S2, S3, S4) := t in (cQ2R pref, Q2R c, Q2R s, cQ2R S1, cQ2R S2, cQ2R S3, cQ2R S4).

Lemma rho_small_Q_R : forall c39 npts krho,
  rho_small QO c39 npts krho = rho_small RO (Q2R c39) npts (Q2R krho).
Proof. intros. unfold rho_small. q2r. Qed.
Lemma in_window_Q_R : forall x a b, in_window QO x (a, b) = in_window RO (Q2R x) (Q2R a, Q2R b).
Proof. intros. unfold in_window. cbn [fst snd]. q2r. Qed.
Lemma interp_choice_Q_R : forall mode degree ptp ws c11 npts, ~ (ws == 0)%Q ->
  interp_choice QO mode degree ptp ws c11 npts = interp_choice RO mode degree (Q2R ptp) (Q2R ws) (Q2R c11) npts.
Proof. intros. destruct mode; simpl; try reflexivity.
  cbn [zero one add mul sub opp inv ltb leb eqb ofZ RO QO]. rewrite Qltb_Rltb.
  rewrite !Q2R_mult, Q2R_inv, !Q2R_inject_Z by assumption. reflexivity. Qed.
Lemma lens_integrand_l_Q_R : forall t, cQ2R (lens_integrand_l QO t) = lens_integrand_l RO (ltermQ2R t).
Proof. intros [[[[[[[pr pi] c] s] [a1 b1]] [a2 b2]] [a3 b3]] [a4 b4]].
  unfold lens_integrand_l, ltermQ2R, cQ2R, cmul, cadd, cscale. cbn [fst snd]. q2r. Qed.
Lemma lens_integrand_r_Q_R : forall t, cQ2R (lens_integrand_r QO t) = lens_integrand_r RO (ltermQ2R t).
Proof. intros [[[[[[[pr pi] c] s] [a1 b1]] [a2 b2]] [a3 b3]] [a4 b4]].
  unfold lens_integrand_r, ltermQ2R, cQ2R, cmul, cadd, csub, cscale. cbn [fst snd]. q2r. Qed.

Lemma QF_add_Qeq : forall a b : Q, (add QF a b == add QO a b)%Q.
Proof. intros [n1 d1] [n2 d2]. cbn [add QF QO]. unfold Qadd_fast. cbn [Qden Qnum].
  destruct (Pos.eqb_spec d1 d2) as [E|NE]; [|reflexivity]. subst d2.
  unfold Qeq, Qplus. cbn [Qden Qnum]. rewrite Pos2Z.inj_mul. ring. Qed.
Lemma QF_sub_Qeq : forall a b : Q, (sub QF a b == sub QO a b)%Q.
Proof. intros [n1 d1] [n2 d2]. cbn [sub QF QO]. unfold Qsub_fast. cbn [Qden Qnum].
  destruct (Pos.eqb_spec d1 d2) as [E|NE]; [|reflexivity]. subst d2.
  unfold Qeq, Qminus, Qplus, Qopp. cbn [Qden Qnum]. rewrite Pos2Z.inj_mul. ring. Qed.
Lemma QF_other_fields : mul QF = mul QO /\ opp QF = opp QO /\ inv QF = inv QO /\ ltb QF = ltb QO /\
  leb QF = leb QO /\ eqb QF = eqb QO /\ ofZ QF = ofZ QO /\ zero QF = zero QO /\ one QF = one QO.
Proof. repeat split. Qed.

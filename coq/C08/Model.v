(** C08 - MieLens = Lens(Mie).  Executable model (no proofs here).
    Anchors: theory/mielens.py (MieLens.raw_fields, AberratedMieLens),
    theory/mielensfunctions.py (MieLensCalculator: rho cut-off, small-rho field, I_n pupil sum,
    interpolation decision, window break-points; AberratedMieLensCalculator phase polynomial;
    PiecewiseChebyshevApproximant windows), theory/lens.py (Lens: prefactor, integrands, pupil
    sum, lr->xyz, phase, scattering-matrix layout).
    Complex numbers are pairs over the carrier.  Transcendental leaves (exp(i.), J0, J2, cos, sin,
    sqrt, Gauss-Legendre nodes, the Mie amplitudes) are ARGUMENTS (oracles), never re-implemented. *)
From Coq Require Import ZArith QArith List Bool.
From HV Require Import Common.Generic.
Import ListNotations.

(** ---------- discrete part: index layout of Lens._calc_scattering_matrix ----------
    theta, phi = np.meshgrid(theta_pts, phi_pts)         both of shape (nphi, ntheta);
    pos = [...].reshape(3, -1)                           flat k = i*ntheta + j  <->  (theta_j, phi_i)
    S = raw_scat_matrs(pos)                              S[k]
    S = conj(S).reshape(r0, r1, 2, 2)                    [a, b] = S[a*r1 + b]
    S = swapaxes(S, 0, 1)                                S'[b, a], shape (r1, r0)
    S1 = S[:, :, 1, 1].reshape(ntheta, nphi, 1)          C-order re-read: [p, q] = S'.flat[p*nphi + q],
                                                         S'.flat[m] = S'[m / r0, m mod r0]
    [layout r0 r1 ntheta nphi p q] = (index of theta, index of phi) whose matrix lands on pupil
    node (p, q), i.e. is multiplied by the prefactor of (theta_p, phi_q). *)
Definition layout (r0 r1 ntheta nphi p q : Z) : Z * Z :=
  let m := (p * nphi + q)%Z in
  let b := (m / r0)%Z in
  let a := (m mod r0)%Z in
  let k := (a * r1 + b)%Z in
  ((k mod ntheta)%Z, (k / ntheta)%Z).
(** as found: reshape(quad_npts_theta, quad_npts_phi, 2, 2) *)
Definition layout_asfound (ntheta nphi p q : Z) := layout ntheta nphi ntheta nphi p q.
(** repaired: reshape(quad_npts_phi, quad_npts_theta, 2, 2) *)
Definition layout_fixed (ntheta nphi p q : Z) := layout nphi ntheta ntheta nphi p q.

(** np.arange(start, stop) on integers *)
Fixpoint zrange_from (a : Z) (n : nat) : list Z :=
  match n with O => [] | S n' => a :: zrange_from (a + 1) n' end.
Definition zrange (a b : Z) : list Z := zrange_from a (Z.to_nat (b - a)).

(** interpolate_integrals: 'check' | True | anything else ("is True" fails for False, 1, 'on', np.True_) *)
Inductive imode := ICheck | ITrue | IOther.

Section Gen.
Context {T : Type} (O : Ops T).
Declare Scope t_scope. Delimit Scope t_scope with t.
Local Notation "x + y" := (add O x y) : t_scope. Local Notation "x * y" := (mul O x y) : t_scope.
Local Notation "x - y" := (sub O x y) : t_scope. Local Notation "- x" := (opp O x) : t_scope.
Local Notation "x / y" := (mul O x (inv O y)) : t_scope.
Local Notation "x <? y" := (ltb O x y) : t_scope. Local Notation "x <=? y" := (leb O x y) : t_scope.
Local Open Scope t_scope.

(** ---------- complex numbers as pairs ---------- *)
Definition cx : Type := (T * T)%type.
Definition czero : cx := (zero O, zero O).
Definition cadd (a b : cx) : cx := (fst a + fst b, snd a + snd b).
Definition csub (a b : cx) : cx := (fst a - fst b, snd a - snd b).
Definition cmul (a b : cx) : cx := (fst a * fst b - snd a * snd b, fst a * snd b + snd a * fst b).
Definition cscale (r : T) (a : cx) : cx := (r * fst a, r * snd a).
Definition cdivr (a : cx) (r : T) : cx := (fst a / r, snd a / r).
Definition csum (l : list cx) : cx := fold_right cadd czero l.
Definition half : T := inv O (one O + one O).
Definition vec3 : Type := (cx * cx * cx)%type.
Definition scale3 (f : cx) (v : vec3) : vec3 := let '(a, b, c) := v in (cmul a f, cmul b f, cmul c f).

(** (parallel, perpendicular) -> (x, y, z): the loop shared verbatim by MieLens.raw_fields and
    Lens._transform_integral_from_lr_to_xyz; parallel = (cos g, sin g), perpendicular = (-sin g, cos g);
    row 2 of the zero-initialised array is never written. *)
Definition lr_to_xyz (pll prp : cx) (cg sg : T) : vec3 :=
  (cadd (cscale cg pll) (cscale (- sg) prp), cadd (cscale sg pll) (cscale cg prp), czero).

(** ---------- AberratedMieLensCalculator: numpy legval (Clenshaw), coefficients low -> high ----------
    loop body for i = 3 .. len(c):  tmp = c0; nd = nd - 1; c0 = c[-i] - c1*((nd-1)/nd);
                                    c1 = tmp + c1*x*((2*nd-1)/nd)
    [rest] is c[-3], c[-4], ..., c[0]. *)
Fixpoint legval_loop (x : T) (rest : list T) (nd : Z) (c0 c1 : T) : T * T :=
  match rest with
  | [] => (c0, c1)
  | ci :: t =>
      let nd' := (nd - 1)%Z in
      legval_loop x t nd' (ci - c1 * (ofZ O (nd' - 1) / ofZ O nd'))
                         (c0 + c1 * x * (ofZ O (2 * nd' - 1) / ofZ O nd'))
  end.
Definition legval (x : T) (c : list T) : T :=
  match c with
  | [] => zero O                      (* numpy raises IndexError: not a supported input (see harness) *)
  | [a] => a + zero O * x
  | [a; b] => a + b * x
  | _ => match rev c with
         | cl :: cl2 :: rest =>
             let '(c0, c1) := legval_loop x rest (Z.of_nat (length c)) cl2 cl in c0 + c1 * x
         | _ => zero O
         end
  end.
(** np.reshape(spherical_aberration, -1): a scalar is the one-element list *)
Definition coeffs_of_scalar (s : T) : list T := [s].
(** _calculate_aberrated_phase: (x-1)**2 * legval(x-1, coeffs), x = quadrature point = cos(theta) *)
Definition aberr_phase (coeffs : list T) (x : T) : T :=
  let p := x - one O in (p * p) * legval p coeffs.
(** MieLensCalculator._calculate_phase and the aberrated override *)
Definition phase_unab (kz : T) (x : T) : T := kz * (one O - x).
Definition phase_ab (kz : T) (coeffs : list T) (x : T) : T := phase_unab kz x + aberr_phase coeffs x.

(** ---------- MieLensCalculator ---------- *)
(** pupil node: (x = cos theta, weight, sin theta, sqrt x, S_perp, S_prll) *)
Definition qnode : Type := (T * T * T * T * cx * cx)%type.
Definition nd_x (n : qnode) : T := let '(x, _, _, _, _, _) := n in x.
Definition nd_w (n : qnode) : T := let '(_, w, _, _, _, _) := n in w.
Definition nd_sin (n : qnode) : T := let '(_, _, s, _, _, _) := n in s.
Definition nd_sqrt (n : qnode) : T := let '(_, _, _, r, _, _) := n in r.
Definition nd_perp (n : qnode) : cx := let '(_, _, _, _, sp, _) := n in sp.
Definition nd_prll (n : qnode) : cx := let '(_, _, _, _, _, sl) := n in sl.
(** n = 0: S_perp + S_prll ; n = 2: S_perp - S_prll *)
Definition scat_combo (n : Z) (nd : qnode) : cx :=
  if Z.eqb n 0 then cadd (nd_perp nd) (nd_prll nd) else csub (nd_perp nd) (nd_prll nd).
(** _direct_eval_mielens_i_n on oracle leaves: es = exp(1j*phase) and js = J_n(krho sin theta) per node:
    sum( exp(1j*phase) * scat * J * sqrt(x) * w ) *)
Definition i_n_term (n : Z) (e : cx) (j : T) (nd : qnode) : cx :=
  cscale (nd_w nd) (cscale (nd_sqrt nd) (cscale j (cmul e (scat_combo n nd)))).
Fixpoint i_n_sum (n : Z) (es : list cx) (js : list T) (nodes : list qnode) : cx :=
  match es, js, nodes with
  | e :: es', j :: js', nd :: nodes' => cadd (i_n_term n e j nd) (i_n_sum n es' js' nodes')
  | _, _, _ => czero
  end.
Section Oracles.
Variable expi : T -> cx.            (* phase |-> exp(1j*phase) *)
Variable bessel : Z -> T -> T.      (* order, argument |-> J_order(argument); orders 0 and 2 *)
Definition direct_i_n (phasef : T -> T) (n : Z) (krho : T) (nodes : list qnode) : cx :=
  i_n_sum n (map (fun nd => expi (phasef (nd_x nd))) nodes)
            (map (fun nd => bessel n (krho * nd_sin nd)) nodes) nodes.
End Oracles.

(** rho_small = krho < 3.9 * quad_npts ; [c39] is the double 3.9 *)
Definition rho_small (c39 : T) (npts : Z) (krho : T) : bool := krho <? c39 * ofZ O npts.
(** _calculate_small_krho_scattered_field: 0.5*(i_0 + i_2*c2p), 0.5*i_2*s2p *)
Definition mielens_small (i0 i2 : cx) (c2p s2p : T) : cx * cx :=
  (cscale half (cadd i0 (cscale c2p i2)), cscale s2p (cscale half i2)).
(** calculate_scattered_field for one point: zero beyond the cut-off *)
Definition mielens_scattered (c39 : T) (npts : Z) (krho : T) (i0 i2 : cx) (c2p s2p : T) : cx * cx :=
  if rho_small c39 npts krho then mielens_small i0 i2 c2p s2p else (czero, czero).
(** _calculate_incident_field()[0] *)
Definition incident_x : T := - one O.
(** MieLens.raw_fields for one point: (c2p, s2p) = cos/sin of 2*((phi - pol_angle) mod 2pi),
    (cg, sg) = cos/sin(pol_angle), eikz = exp(1j*particle_kz);  field *= exp(1j kz) / incident_x *)
Definition mielens_field (c39 : T) (npts : Z) (krho : T) (i0 i2 : cx) (c2p s2p cg sg : T) (eikz : cx) : vec3 :=
  let sc := mielens_scattered c39 npts krho i0 i2 c2p s2p in
  scale3 (cdivr eikz incident_x) (lr_to_xyz (fst sc) (snd sc) cg sg).

(** _eval_mielens_i_n: the interpolation decision.  ptp = np.ptp(krho), npts = krho.size,
    [c11] is the double 1.1:  degree*ptp/window_size < 1.1*npts *)
Definition interp_choice (mode : imode) (degree : Z) (ptp ws c11 : T) (npts : Z) : bool :=
  match mode with
  | ICheck => (ofZ O degree * ptp / ws) <? c11 * ofZ O npts
  | ITrue => true
  | IOther => false
  end.

(** ---------- interpolation windows ---------- *)
Section Windows.
Variable floorT : T -> Z.
Definition ceilT (x : T) : Z := (- floorT (opp O x))%Z.
(** window_start = floor(min/ws); window_end = ceil(max/ws + 1e-4) + 1;
    breakpoints = ws * arange(window_start, window_end) *)
Definition window_start (ws mn : T) : Z := floorT (mn / ws).
Definition window_end (ws mx eps : T) : Z := Z.add (ceilT (mx / ws + eps)) 1%Z.
Definition breakpoints (ws mn mx eps : T) : list T :=
  map (fun k => ws * ofZ O k) (zrange (window_start ws mn) (window_end ws mx eps)).
End Windows.
(** _setup_windows: zip(b[:-1], b[1:]) *)
Definition windows (bps : list T) : list (T * T) := combine bps (tl bps).
(** _mask_window: (x >= w0) & (x < w1) *)
Definition in_window (x : T) (w : T * T) : bool := (fst w <=? x) && (x <? snd w).
(** __call__ guard: raise if x.max() >= domain[1] or x.min() < domain[0] *)
Definition domain_ok (bps : list T) (xmin xmax : T) : bool :=
  negb ((last bps (zero O) <=? xmax) || (xmin <? hd (zero O) bps)).
(** __call__ for one x: result starts at 0, every window whose mask holds overwrites it *)
Definition piecewise_eval {A} (approx : T * T -> T -> A) (dflt : A) (bps : list T) (x : T) : A :=
  fold_left (fun (res : A) (w : T * T) => if in_window x w then approx w x else res) (windows bps) dflt.
Definition window_hits (bps : list T) (x : T) : list (T * T) := filter (in_window x) (windows bps).

(** ---------- Lens ---------- *)
(** _integrand_prefactor: exp(1j krho sin(th) cos(phi-phi_p)) * exp(1j kz (1-cos th)) *
    (sqrt(cos th) * sin th * phi_wt * theta_wt) * (.5/pi);  e1, e2, sqrt, sin, .5/pi are leaves *)
Definition lens_prefactor (e1 e2 : cx) (sqrtcos sint wphi wth half_over_pi : T) : cx :=
  cscale half_over_pi (cscale (sqrtcos * sint * wphi * wth) (cmul e1 e2)).
(** pupil term: (prefactor, c = cos(phi_j - pol), s = sin(phi_j - pol), S1, S2, S3, S4) *)
Definition lterm : Type := (cx * T * T * cx * cx * cx * cx)%type.
(** _integrand_prll: prefactor*(c*(c*S2 + s*S3) + s*(c*S4 + s*S1)) *)
Definition lens_integrand_l (t : lterm) : cx :=
  let '(pref, c, s, S1, S2, S3, S4) := t in
  cmul pref (cadd (cscale c (cadd (cscale c S2) (cscale s S3))) (cscale s (cadd (cscale c S4) (cscale s S1)))).
(** _integrand_perp: prefactor*(s*(c*S2 + s*S3) - c*(c*S4 + s*S1)) *)
Definition lens_integrand_r (t : lterm) : cx :=
  let '(pref, c, s, S1, S2, S3, S4) := t in
  cmul pref (csub (cscale s (cadd (cscale c S2) (cscale s S3))) (cscale c (cadd (cscale c S4) (cscale s S1)))).
Definition lens_integrals (ts : list lterm) : cx * cx :=
  (csum (map lens_integrand_l ts), csum (map lens_integrand_r ts)).
(** _compute_field_phase: -1. * exp(1j kz) *)
Definition lens_phase (eikz : cx) : cx := cscale (- one O) eikz.
(** Lens.raw_fields for one point *)
Definition lens_field (ts : list lterm) (cg sg : T) (eikz : cx) : vec3 :=
  let lr := lens_integrals ts in scale3 (lens_phase eikz) (lr_to_xyz (fst lr) (snd lr) cg sg).

(** _calc_scattering_matrix, value part: S = conj(raw_scat_matrs); S1 = S[1,1], S2 = S[0,0], S3 = S[0,1],
    S4 = S[1,0].  [smat] = (S[0,0], S[0,1], S[1,0], S[1,1]) as returned by the wrapped theory. *)
Definition cconj (a : cx) : cx := (fst a, - snd a).
Definition smat : Type := (cx * cx * cx * cx)%type.
(** leaves of one pupil node for one detector point: e1, e2, sqrt(cos th), sin th, phi_wt, theta_wt, c, s *)
Definition lleaf : Type := (cx * cx * T * T * T * T * T * T)%type.
Definition mk_lterm (half_over_pi : T) (lf : lleaf) (m : smat) : lterm :=
  let '(e1, e2, sq, si, wp, wt, c, s) := lf in
  let '(m00, m01, m10, m11) := m in
  (lens_prefactor e1 e2 sq si wp wt half_over_pi, c, s, cconj m11, cconj m00, cconj m01, cconj m10).
Definition lens_terms (half_over_pi : T) (leaves : list lleaf) (mats : list smat) : list lterm :=
  map (fun lm : lleaf * smat => mk_lterm half_over_pi (fst lm) (snd lm)) (combine leaves mats).

(** the matrices handed to pupil node (p, q) (row-major list of nodes) given the wrapped theory's flat output
    [S_of (theta index) (phi index)] and a layout *)
Definition pupil_matrices {A} (lay : Z -> Z -> Z * Z) (S_of : Z -> Z -> A) (ntheta nphi : Z) : list A :=
  flat_map (fun p => map (fun q => let '(it, ip) := lay p q in S_of it ip) (zrange 0 nphi)) (zrange 0 ntheta).
End Gen.

Arguments cx T : clear implicits. Arguments vec3 T : clear implicits.
Arguments qnode T : clear implicits. Arguments lterm T : clear implicits.
Arguments smat T : clear implicits. Arguments lleaf T : clear implicits.

(** A second rational instance used only to EXECUTE the model quickly: the harness writes every leaf with the
    same power-of-two denominator, and sums of equal-depth products then keep a common denominator instead of
    multiplying denominators (Qplus never cancels; Pos.mul in vm_compute is quadratic).  Same values as QO up to
    Qeq (Lemmas.QF_add_Qeq, QF_sub_Qeq); every other field is QO's. *)
Definition Qadd_fast (a b : Q) : Q :=
  if Pos.eqb (Qden a) (Qden b) then Qmake (Qnum a + Qnum b) (Qden a) else Qplus a b.
Definition Qsub_fast (a b : Q) : Q :=
  if Pos.eqb (Qden a) (Qden b) then Qmake (Qnum a - Qnum b) (Qden a) else Qminus a b.
Definition QF : Ops Q :=
  mkOps Q 0%Q 1%Q Qadd_fast Qmult Qsub_fast Qopp Qinv Qltb Qle_bool Qeq_bool (fun z => inject_Z z).

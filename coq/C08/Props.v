(** C08 property theorems: statements only; proofs are in Lemmas.v.
    What is NOT here (explored by harness/props/c08.py with stated tolerances, never called a proof):
    the Bessel-integral identity  (1/2pi) int exp(i a cos u) {1, cos 2u, sin 2u} du = {J0(a), -J2(a), 0}
    that turns the Lens pupil sum into MieLens's radial integrals, the convergence of both quadratures,
    and the accuracy of the Chebyshev interpolation. *)
From Coq Require Import ZArith List Bool Reals QArith Qreals Lra.
From HV Require Import Common.Generic C08.Model C08.Lemmas C08.Findings.
Import ListNotations.
Local Open Scope R_scope.

(* numpy's legval on an all-zero coefficient list of ANY length is 0, and so is the scalar case *)
Theorem legval_zeros : forall x,
  (forall n, legval RO x (repeat 0 n) = 0) /\ legval RO x (coeffs_of_scalar 0) = 0.
Proof. intros x. split; [intros n; apply legval_zeros_repeat|apply legval_zero_scalar]. Qed.
Print Assumptions legval_zeros.

(* numpy's Clenshaw loop evaluates sum_k c_k P_k(x) (Legendre three-term recurrence) for every list *)
Theorem legval_is_legendre_series : forall x c, legval RO x c = legser c x.
Proof. exact legval_is_legser. Qed.
Print Assumptions legval_is_legendre_series.

(* all-zero aberration (any length, hence also the scalar 0): phase, both pupil integrals and the whole
   field are identical to the unaberrated theory, whatever the oracles exp(i.), J_n are *)
Theorem aberrated_zero_eq : forall expi bessel kz c c39 npts nodes krho c2p s2p cg sg eikz,
  Forall (fun a => a = 0) c ->
  (forall x, phase_ab RO kz c x = phase_unab RO kz x) /\
  (forall n, direct_i_n RO expi bessel (phase_ab RO kz c) n krho nodes =
             direct_i_n RO expi bessel (phase_unab RO kz) n krho nodes) /\
  mielens_full expi bessel (phase_ab RO kz c) c39 npts nodes krho c2p s2p cg sg eikz =
  mielens_full expi bessel (phase_unab RO kz) c39 npts nodes krho c2p s2p cg sg eikz.
Proof. exact aberrated_zero_full. Qed.
Print Assumptions aberrated_zero_eq.

(* MieLens multiplies by exp(ikz)/incident_x with incident_x = -1; Lens by -1.*exp(ikz) *)
Theorem phase_factors_agree : forall e : cx R, cdivr RO e (incident_x RO) = lens_phase RO e.
Proof. exact phase_factors_eq. Qed.
Print Assumptions phase_factors_agree.

(* both assemblies return E_z = 0 *)
Theorem both_fields_have_zero_z : forall c39 npts krho i0 i2 c2p s2p cg sg eikz ts,
  snd (mielens_field RO c39 npts krho i0 i2 c2p s2p cg sg eikz) = czero RO /\
  snd (lens_field RO ts cg sg eikz) = czero RO.
Proof. intros. split; [apply mielens_field_z|apply lens_field_z]. Qed.
Print Assumptions both_fields_have_zero_z.

(* Lens pupil sum, ANY node set and weights, diagonal azimuth-independent S (the Mie case):
   (parallel, perpendicular) = 1/2 (L0 + cos2d L2c - sin2d L2s,  sin2d L2c + cos2d L2s), d = phi_p - pol_angle *)
Theorem lens_pupil_sum_decomposition : forall delta ts,
  lens_integrals RO (map (to_lterm delta) ts) =
  (lin3 (cos (2 * delta)) (- sin (2 * delta)) (L0 ts) (L2c ts) (L2s ts),
   lin3 (sin (2 * delta)) (cos (2 * delta)) (czero RO) (L2c ts) (L2s ts)).
Proof. exact lens_decomposition_lemma. Qed.
Print Assumptions lens_pupil_sum_decomposition.

(* identical (phi, gamma) structure: once the azimuthal moments of the pupil sum equal MieLens's radial
   integrals (L0 = I_0, L2c = I_2, L2s = 0 -- the explored, unproved part), the two fields are EQUAL,
   phase factor and E_z included, for every polarisation angle and detector azimuth *)
Theorem lens_eq_mielens_given_radial_integrals : forall ts delta cg sg eikz c39 npts krho i0 i2,
  krho < c39 * IZR npts -> L0 ts = i0 -> L2c ts = i2 -> L2s ts = czero RO ->
  lens_field RO (map (to_lterm delta) ts) cg sg eikz =
  mielens_field RO c39 npts krho i0 i2 (cos (2 * delta)) (sin (2 * delta)) cg sg eikz.
Proof. exact lens_eq_mielens_lemma. Qed.
Print Assumptions lens_eq_mielens_given_radial_integrals.

(* the documented truncation: at and beyond krho = 3.9*quad_npts MieLens returns exactly 0 *)
Theorem mielens_zero_beyond_cutoff : forall c39 npts krho i0 i2 c2p s2p cg sg eikz,
  (rho_small RO c39 npts krho = true <-> krho < c39 * IZR npts) /\
  (c39 * IZR npts <= krho ->
   mielens_field RO c39 npts krho i0 i2 c2p s2p cg sg eikz = (czero RO, czero RO, czero RO)).
Proof. intros. split; [apply rho_small_iff|apply mielens_beyond_cutoff]. Qed.
Print Assumptions mielens_zero_beyond_cutoff.

(* the interpolation decision *)
Theorem interp_choice_rule : forall mode degree ptp ws c11 npts,
  interp_choice RO mode degree ptp ws c11 npts = true <->
  match mode with ICheck => IZR degree * ptp / ws < c11 * IZR npts | ITrue => True | IOther => False end.
Proof. exact interp_choice_spec. Qed.
Print Assumptions interp_choice_rule.

(* interpolation is total and single-valued: the guard accepts [min, max] and every x in it lies in exactly
   one half-open window, the one numbered floor(x/ws); the overwrite loop returns that window's approximant *)
Theorem windows_cover : forall ws mn mx eps x, 0 < ws -> 0 < eps -> mn <= x <= mx ->
  let bps := breakpoints RO Rfloor ws mn mx eps in
  let k := Rfloor (x / ws) in
  domain_ok RO bps mn mx = true /\
  window_hits RO bps x = (ws * IZR k, ws * IZR (k + 1)) :: nil /\
  (forall (A : Type) (approx : R * R -> R -> A) dflt,
     piecewise_eval RO approx dflt bps x = approx (ws * IZR k, ws * IZR (k + 1)) x).
Proof. intros ws mn mx eps x H1 H2 H3. exact (windows_cover_lemma ws mn mx eps x H1 H2 H3). Qed.
Print Assumptions windows_cover.

(* Lens scattering-matrix layout with reshape(nphi, ntheta): pupil node (p, q) carries S(theta_p, phi_q)
   for ALL node counts; hence the whole table handed to the pupil sum is the intended one *)
Theorem lens_layout_all_counts : forall ntheta nphi,
  (forall p q, (0 <= p < ntheta)%Z -> (0 <= q < nphi)%Z -> layout_fixed ntheta nphi p q = (p, q)) /\
  (forall (A : Type) (S_of : Z -> Z -> A),
     pupil_matrices (layout_fixed ntheta nphi) S_of ntheta nphi =
     flat_map (fun p => map (fun q => S_of p q) (zrange 0 nphi)) (zrange 0 ntheta)).
Proof. intros. split; [intros; apply layout_fixed_id; assumption|intros; apply pupil_matrices_fixed]. Qed.
Print Assumptions lens_layout_all_counts.

(* the reshape as found, (ntheta, nphi), is right exactly when it cannot matter: equal node counts
   (the default 100 x 100); Findings.reshape_unequal_refuted is the witness for unequal counts *)
Theorem lens_layout_asfound_equal_counts : forall n p q,
  (0 <= p < n)%Z -> (0 <= q < n)%Z -> layout_asfound n n p q = (p, q).
Proof. exact layout_asfound_equal_counts. Qed.
Print Assumptions lens_layout_asfound_equal_counts.

(* what is executed on Q against the implementation is the function the theorems are about *)
Theorem decisions_agree_on_Q : forall c39 npts krho x a b mode degree ptp ws c11 n, ~ (ws == 0)%Q ->
  rho_small QO c39 npts krho = rho_small RO (Q2R c39) npts (Q2R krho) /\
  in_window QO x (a, b) = in_window RO (Q2R x) (Q2R a, Q2R b) /\
  interp_choice QO mode degree ptp ws c11 n = interp_choice RO mode degree (Q2R ptp) (Q2R ws) (Q2R c11) n.
Proof. intros. split; [apply rho_small_Q_R|split; [apply in_window_Q_R|apply interp_choice_Q_R; assumption]]. Qed.
Print Assumptions decisions_agree_on_Q.
Theorem lens_integrands_agree_on_Q : forall t,
  cQ2R (lens_integrand_l QO t) = lens_integrand_l RO (ltermQ2R t) /\
  cQ2R (lens_integrand_r QO t) = lens_integrand_r RO (ltermQ2R t).
Proof. intros. split; [apply lens_integrand_l_Q_R|apply lens_integrand_r_Q_R]. Qed.
Print Assumptions lens_integrands_agree_on_Q.

(* non-vacuity: the hypotheses are satisfiable by concrete non-trivial objects *)
Example hyps_satisfiable :
  (* a pupil sum whose sin-moment vanishes (two nodes symmetric about the detector azimuth) *)
  (exists ts : list mterm, length ts = 2%nat /\ L2s ts = czero RO /\ L0 ts <> czero RO) /\
  (* the windows hypotheses, default window size 30, rho in [12, 75] *)
  (0 < 30 /\ 0 < 1 / 10000 /\ 12 <= 40 <= 75) /\
  (* a non-zero aberration gives a non-zero phase in the executed model, an all-zero one gives 0 *)
  (Qeq_bool (aberr_phase QO [1#2; 0; 1#3]%Q (1#2)%Q) 0 = false /\
   Qeq_bool (aberr_phase QO [0; 0; 0]%Q (1#2)%Q) 0 = true) /\
  (* the layout theorem's range is inhabited and the as-found layout differs there *)
  (layout_fixed 2 3 0 1 = (0, 1)%Z /\ layout_asfound 2 3 0 1 = (1, 1)%Z).
Proof.
  split; [|split; [lra|split; [split; vm_compute; reflexivity|split; vm_compute; reflexivity]]].
  exists (((1, 0), 1, (1, 0), (2, 0)) :: ((1, 0), -1, (1, 0), (2, 0)) :: nil).
  split; [reflexivity|]. split.
  - unfold L2s, f2s, csum, cscale, cmul, cadd, csub, czero. simpl.
    replace (2 * -1) with (- (2 * 1)) by ring. rewrite sin_neg. apply f_equal2; ring.
  - unfold L0, f0, csum, cmul, cadd, czero. simpl. intro H. injection H as H1 _. lra.
Qed.

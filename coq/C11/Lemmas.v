(** C11 - proofs about the executable model of coq/C11/Model.v (the definitions the correspondence
    check runs).  Everything is discrete (lists, strings, naturals); no axioms are used. *)
From Coq Require Import ZArith List Bool String Ascii Arith Lia Permutation.
From Coq Require Import Decimal DecimalString DecimalNat.
From HV Require Import C11.Model.
Import ListNotations.
Local Open Scope string_scope.
Local Open Scope list_scope.

(** ================================================================================================
    1. strings, fresh names *)

Lemma smem_In s l : smem s l = true <-> In s l.
Proof.
  unfold smem. rewrite existsb_exists. split.
  - intros [x [Hx He]]. apply String.eqb_eq in He. subst. exact Hx.
  - intros H. exists s. split; [exact H|apply String.eqb_refl].
Qed.
Lemma smem_false s l : smem s l = false <-> ~ In s l.
Proof. rewrite <- smem_In. destruct (smem s l); split; congruence. Qed.

Lemma nstr_inj a b : nstr a = nstr b -> a = b.
Proof.
  unfold nstr. intros H.
  assert (E : Some (Nat.to_uint a) = Some (Nat.to_uint b))
    by (rewrite <- !NilEmpty.usu, H; reflexivity).
  inversion E as [E']. rewrite <- (Unsigned.of_to a), <- (Unsigned.of_to b), E'. reflexivity.
Qed.

Lemma append_inj_l p a b : (p ++ a)%string = (p ++ b)%string -> a = b.
Proof. induction p as [|c p IH]; simpl; intros H; [exact H|]. inversion H. auto. Qed.

Definition cand (base : string) (k : nat) : string := (base ++ "_" ++ nstr k)%string.
Lemma cand_inj base a b : cand base a = cand base b -> a = b.
Proof. unfold cand. intros H. apply append_inj_l in H. apply append_inj_l in H. apply nstr_inj, H. Qed.

Definition cands (base : string) (k n : nat) : list string := map (cand base) (seq k n).

Lemma cands_NoDup base k n : NoDup (cands base k n).
Proof.
  unfold cands. revert k. induction n as [|n IH]; intros k; simpl; [constructor|].
  constructor; [|apply IH].
  intros H. apply in_map_iff in H. destruct H as [j [Hj Hin]]. apply cand_inj in Hj.
  apply in_seq in Hin. lia.
Qed.

Lemma fresh_loop_0 base k nms : fresh_loop 0 base k nms = cand base k.
Proof. reflexivity. Qed.
Lemma fresh_loop_S f base k nms :
  fresh_loop (S f) base k nms = if smem (cand base k) nms then fresh_loop f base (S k) nms else cand base k.
Proof. reflexivity. Qed.

(** the search stops at a free name as soon as one of the candidates it may visit is free *)
Lemma fresh_loop_free base nms : forall fuel k,
  ~ incl (cands base k (S fuel)) nms -> ~ In (fresh_loop fuel base k nms) nms.
Proof.
  induction fuel as [|f IH]; intros k Hn.
  - rewrite fresh_loop_0. intros Hin. apply Hn. intros x [Hx|[]]. subst. exact Hin.
  - rewrite fresh_loop_S. destruct (smem (cand base k) nms) eqn:E.
    + apply IH. intros Hi. apply Hn. unfold cands in *. simpl. intros x [Hx|Hx].
      * subst. apply smem_In, E.
      * apply Hi. exact Hx.
    + apply smem_false, E.
Qed.

(** once the search has found a free name, more fuel does not change the result *)
Lemma fresh_loop_stable base nms : forall fuel k extra,
  ~ In (fresh_loop fuel base k nms) nms ->
  fresh_loop (fuel + extra) base k nms = fresh_loop fuel base k nms.
Proof.
  induction fuel as [|f IH]; intros k extra H.
  - rewrite fresh_loop_0 in *. destruct extra; simpl plus; [reflexivity|]. rewrite fresh_loop_S.
    apply smem_false in H. rewrite H. reflexivity.
  - simpl plus. rewrite fresh_loop_S in H. rewrite !fresh_loop_S.
    destruct (smem (cand base k) nms); [apply IH, H|reflexivity].
Qed.

Lemma fresh_loop_pigeonhole base nms : ~ In (fresh_loop (S (List.length nms)) base 0 nms) nms.
Proof.
  apply fresh_loop_free. intros Hi.
  pose proof (NoDup_incl_length (cands_NoDup base 0 (S (S (List.length nms)))) Hi) as Hl.
  unfold cands in Hl. rewrite map_length, seq_length in Hl. lia.
Qed.

Lemma fresh_name_not_in name nms : ~ In (fresh_name name nms) nms.
Proof.
  unfold fresh_name. destruct (smem name nms) eqn:E.
  - apply fresh_loop_pigeonhole.
  - apply smem_false, E.
Qed.

(** the python loop is unbounded; the model's fuel S(length names) is enough: any larger bound gives the
    same name, the name is free, it is the FIRST free candidate base_k *)
Lemma fresh_name_terminates_l base nms extra :
  fresh_loop (S (List.length nms) + extra) base 0 nms = fresh_loop (S (List.length nms)) base 0 nms
  /\ ~ In (fresh_loop (S (List.length nms)) base 0 nms) nms.
Proof. split; [apply fresh_loop_stable|]; apply fresh_loop_pigeonhole. Qed.

Lemma fresh_loop_first base nms : forall fuel k,
  exists j, fresh_loop fuel base k nms = cand base (k + j) /\ j <= fuel /\
            forall i, i < j -> In (cand base (k + i)) nms.
Proof.
  induction fuel as [|f IH]; intros k; [rewrite fresh_loop_0|rewrite fresh_loop_S].
  - exists 0. rewrite Nat.add_0_r. repeat split; [lia|intros; lia].
  - destruct (smem (cand base k) nms) eqn:E.
    + destruct (IH (S k)) as [j [H1 [H2 H3]]]. exists (S j). repeat split.
      * rewrite H1. f_equal. lia.
      * lia.
      * intros i Hi. destruct i; [rewrite Nat.add_0_r; apply smem_In, E|].
        replace (k + S i) with (S k + i) by lia. apply H3. lia.
    + exists 0. rewrite Nat.add_0_r. repeat split; [lia|intros; lia].
Qed.

(** ================================================================================================
    2. list helpers *)

Lemma set_nth_length {A} (x : A) : forall l i, List.length (set_nth i x l) = List.length l.
Proof. induction l as [|y t IH]; intros [|i]; simpl; auto. Qed.

Lemma set_nth_In {A} (x y : A) : forall l i, In y (set_nth i x l) -> y = x \/ In y l.
Proof.
  induction l as [|z t IH]; intros [|i]; simpl; auto.
  - intros [H|H]; auto.
  - intros [H|H]; auto. destruct (IH _ H); auto.
Qed.

Lemma set_nth_NoDup {A} (x : A) : forall l i, NoDup l -> ~ In x l -> NoDup (set_nth i x l).
Proof.
  induction l as [|z t IH]; intros [|i] Hn Hx; simpl; auto.
  - inversion Hn; subst. constructor; [|assumption]. intros H. apply Hx. right. exact H.
  - inversion Hn; subst. constructor.
    + intros H. apply set_nth_In in H. destruct H as [H|H]; [|contradiction].
      subst. apply Hx. left. reflexivity.
    + apply IH; [assumption|]. intros H. apply Hx. right. exact H.
Qed.

Lemma NoDup_snoc {A} (l : list A) x : NoDup l -> ~ In x l -> NoDup (l ++ [x]).
Proof.
  intros Hn Hx. apply NoDup_rev in Hn. rewrite <- (rev_involutive (l ++ [x])).
  apply NoDup_rev. rewrite rev_app_distr. simpl. constructor; [|exact Hn].
  rewrite <- in_rev. exact Hx.
Qed.

Lemma select_map {A B} (f : A -> B) : forall fl l, map f (select fl l) = select fl (map f l).
Proof.
  induction fl as [|b fl IH]; intros [|x l]; simpl; try reflexivity.
  destruct b; simpl; rewrite IH; reflexivity.
Qed.

(** ---- find_id ---------------------------------------------------------------------------------- *)
Definition ext (ps ps' : list nat) : Prop := exists q, ps' = ps ++ q.
Lemma ext_refl ps : ext ps ps. Proof. exists []. rewrite app_nil_r. reflexivity. Qed.
Lemma ext_trans a b c : ext a b -> ext b c -> ext a c.
Proof. intros [q1 ->] [q2 ->]. exists (q1 ++ q2). rewrite app_assoc. reflexivity. Qed.

Lemma find_id_app_some id : forall ps q i, find_id id ps = Some i -> find_id id (ps ++ q) = Some i.
Proof.
  induction ps as [|p t IH]; simpl; intros q i H; [discriminate|].
  destruct (Nat.eqb p id); [exact H|].
  destruct (find_id id t) as [n|]; simpl in *; [|discriminate].
  rewrite (IH q n eq_refl). exact H.
Qed.
Lemma find_id_app_new id : forall ps, find_id id ps = None -> find_id id (ps ++ [id]) = Some (List.length ps).
Proof.
  induction ps as [|p t IH]; simpl; intros H.
  - rewrite Nat.eqb_refl. reflexivity.
  - destruct (Nat.eqb p id); [discriminate|].
    destruct (find_id id t); [discriminate|]. rewrite IH by reflexivity. reflexivity.
Qed.
Lemma find_id_none id : forall ps, find_id id ps = None <-> ~ In id ps.
Proof.
  induction ps as [|p t IH]; simpl; [tauto|].
  destruct (Nat.eqb p id) eqn:E.
  - apply Nat.eqb_eq in E. split; [discriminate|]. intros H. exfalso. apply H. auto.
  - apply Nat.eqb_neq in E. destruct (find_id id t); simpl.
    + split; [discriminate|]. intros H. exfalso.
      assert (X : Some n = None) by (apply IH; intros Hi; apply H; right; exact Hi). discriminate.
    + split; [|reflexivity]. intros _ [H|H]; [auto|]. destruct IH as [IH _]. apply (IH eq_refl), H.
Qed.
Lemma find_id_some id : forall ps i, find_id id ps = Some i -> i < List.length ps /\ nth i ps 0 = id.
Proof.
  induction ps as [|p t IH]; simpl; intros i H; [discriminate|].
  destruct (Nat.eqb p id) eqn:E.
  - inversion H; subst. apply Nat.eqb_eq in E. split; [lia|exact E].
  - destruct (find_id id t) as [n|]; simpl in H; [|discriminate]. inversion H; subst.
    destruct (IH n eq_refl). split; [lia|assumption].
Qed.
Lemma find_id_In id ps : In id ps -> exists i, find_id id ps = Some i.
Proof.
  intros H. destruct (find_id id ps) as [i|] eqn:E; [eauto|]. apply find_id_none in E. contradiction.
Qed.

(** ================================================================================================
    3. convert_to_map: parameters, names, read_map *)

(** induction principle for the nested tree type *)
Section PvInd.
Variable P : pv -> Prop.
Hypothesis HC : forall c, P (PConst c).
Hypothesis HP : forall id, P (PPrior id).
Hypothesis HN : forall k ch, Forall P ch -> P (PNode k ch).
Fixpoint pv_ind' (t : pv) : P t :=
  match t with
  | PConst c => HC c
  | PPrior id => HP id
  | PNode k ch => HN k ch ((fix go l : Forall P l :=
                              match l with [] => Forall_nil _ | x :: r => Forall_cons _ (pv_ind' x) (go r) end) ch)
  end.
End PvInd.

(** the prior sites of a tree in traversal order (with repetitions) *)
Fixpoint sites (t : pv) : list nat :=
  match t with PConst _ => [] | PPrior id => [id] | PNode _ ch => flat_map sites ch end.

(** "append if not yet present (by identity)": the distinct ids in first-occurrence order *)
Definition add1 (ps : list nat) (id : nat) : list nat :=
  match find_id id ps with Some _ => ps | None => ps ++ [id] end.
Definition add_new (ps ids : list nat) : list nat := fold_left add1 ids ps.

Lemma add_new_app ps a b : add_new ps (a ++ b) = add_new (add_new ps a) b.
Proof. apply fold_left_app. Qed.
Lemma add1_ext ps id : ext ps (add1 ps id).
Proof. unfold add1. destruct (find_id id ps); [apply ext_refl|exists [id]; reflexivity]. Qed.
Lemma add_new_ext : forall ids ps, ext ps (add_new ps ids).
Proof.
  induction ids as [|x r IH]; intros ps; simpl; [apply ext_refl|].
  eapply ext_trans; [apply add1_ext|apply IH].
Qed.
Lemma add1_NoDup ps id : NoDup ps -> NoDup (add1 ps id).
Proof.
  intros H. unfold add1. destruct (find_id id ps) eqn:E; [exact H|].
  apply NoDup_snoc; [exact H|apply find_id_none, E].
Qed.
Lemma add_new_NoDup : forall ids ps, NoDup ps -> NoDup (add_new ps ids).
Proof. induction ids as [|x r IH]; intros ps H; simpl; [exact H|apply IH, add1_NoDup, H]. Qed.
Lemma add1_In ps id x : In x (add1 ps id) <-> In x ps \/ x = id.
Proof.
  unfold add1. destruct (find_id id ps) as [i|] eqn:E.
  - split; [auto|]. intros [H|H]; [exact H|]. subst.
    destruct (find_id_some _ _ _ E) as [Hl Hn]. rewrite <- Hn. apply nth_In, Hl.
  - rewrite in_app_iff. simpl. intuition.
Qed.
Lemma add_new_In : forall ids ps x, In x (add_new ps ids) <-> In x ps \/ In x ids.
Proof.
  induction ids as [|y r IH]; intros ps x; simpl; [tauto|].
  rewrite IH, add1_In. intuition.
Qed.

(** position of a prior in the final parameter list *)
Definition idx (ps : list nat) (id : nat) : nat :=
  match find_id id ps with Some i => i | None => List.length ps end.

Lemma idx_nth : forall ps i, NoDup ps -> i < List.length ps -> idx ps (nth i ps 0) = i.
Proof.
  unfold idx. induction ps as [|p t IH]; intros i Hn Hi; simpl in *; [lia|].
  inversion Hn; subst. destruct i as [|i].
  - rewrite Nat.eqb_refl. reflexivity.
  - destruct (Nat.eqb p (nth i t 0)) eqn:E.
    + apply Nat.eqb_eq in E. exfalso. apply H1. rewrite E. apply nth_In. lia.
    + specialize (IH i H2 ltac:(lia)). destruct (find_id (nth i t 0) t); simpl; [f_equal; exact IH|].
      lia.
Qed.
Lemma nth_idx_map {B} (g : nat -> B) d ps id : In id ps -> nth (idx ps id) (map g ps) d = g id.
Proof.
  intros H. unfold idx. destruct (find_id_In _ _ H) as [i E]. rewrite E.
  destruct (find_id_some _ _ _ E) as [Hl Hn].
  rewrite (nth_indep _ d (g 0)) by (rewrite map_length; exact Hl). rewrite map_nth, Hn. reflexivity.
Qed.

(** state invariant: names pairwise distinct, one name per parameter *)
Definition Inv (st : mstate) : Prop :=
  NoDup (names st) /\ List.length (names st) = List.length (params st).

Lemma Inv_st0 : Inv st0. Proof. split; [constructor|reflexivity]. Qed.

Ltac spl := repeat match goal with |- _ /\ _ => split end.

Section Conv.
Variable pname : nat -> option string.
Variable ap : fn -> list val -> val.

Lemma conv_node k ch name st :
  conv pname (PNode k ch) name st =
  let '(ms, st') := conv_list pname (child_prefix k (List.length ch) name) ch (child_keys k (List.length ch)) st in
  (wrap k ms, st').
Proof.
  cbn [conv].
  match goal with |- (let '(ms, st') := ?g ch ?ks st in _) = _ =>
    assert (H : forall l keys s, g l keys s = conv_list pname (child_prefix k (List.length ch) name) l keys s) end.
  { induction l as [|x r IH]; intros keys s; simpl; [reflexivity|].
    destruct (conv pname x _ s) as [m st1]. rewrite IH. reflexivity. }
  rewrite H. reflexivity.
Qed.

(** get_parameter_index *)
Lemma get_index_params id name st :
  params (snd (get_index pname id name st)) = add1 (params st) id /\
  fst (get_index pname id name st) = idx (add1 (params st) id) id.
Proof.
  unfold get_index, add1, idx. destruct (find_id id (params st)) as [i|] eqn:E.
  - rewrite E. destruct (_ && _); simpl; auto.
  - simpl. rewrite (find_id_app_new _ _ E). auto.
Qed.

Lemma get_index_Inv id name st : Inv st -> Inv (snd (get_index pname id name st)).
Proof.
  intros [Hn Hl]. unfold get_index. destruct (find_id id (params st)) as [i|] eqn:E.
  - destruct (String.eqb _ _ && negb (smem _ (names st))) eqn:C; simpl; [|split; assumption].
    apply andb_true_iff in C. destruct C as [_ C]. apply negb_true_iff, smem_false in C.
    split; simpl.
    + apply set_nth_NoDup; assumption.
    + rewrite set_nth_length. exact Hl.
  - simpl. split; simpl.
    + apply NoDup_snoc; [exact Hn|apply fresh_name_not_in].
    + rewrite !app_length, Hl. reflexivity.
Qed.

Lemma idx_ext ps final id : In id ps -> ext ps final -> idx final id = idx ps id.
Proof.
  intros Hin [q ->]. unfold idx. destruct (find_id_In _ _ Hin) as [i E].
  rewrite E, (find_id_app_some _ _ q _ E). reflexivity.
Qed.

Definition rd (vals : list val) (m : mp) : val := read_map ap m vals.
Definition sig (final : list nat) (vals : list val) (id : nat) : val := nth (idx final id) vals VErr.

Lemma read_kvs vals : forall keys ms,
  map kv_of (map (rd vals) (map (fun km : string * mp => MList [MConst (CStr (fst km)); snd km]) (combine keys ms)))
  = combine keys (map (rd vals) ms).
Proof.
  induction keys as [|k keys IH]; intros [|m ms]; simpl; try reflexivity. rewrite IH. reflexivity.
Qed.
Lemma read_strs vals : forall keys,
  map str_of (map (rd vals) (map (fun s => MConst (CStr s)) keys)) = keys.
Proof. induction keys as [|k keys IH]; simpl; [reflexivity|]. rewrite IH. reflexivity. Qed.

(** what one conversion does: (1) parameters grow by the new distinct ids in first-occurrence order,
    (2) None is mapped to None and only None, (3) reading the map with ANY later parameter list gives the
    tree with every prior replaced by the value at its final position, (4) the names invariant is kept *)
Definition conv_ok (t : pv) : Prop := forall name st m st', conv pname t name st = (m, st') ->
  params st' = add_new (params st) (sites t) /\
  is_none_mp m = is_none_pv t /\
  (forall final vals, ext (params st') final -> rd vals m = subst ap (sig final vals) t) /\
  (Inv st -> Inv st').

Lemma conv_list_ok : forall l, Forall conv_ok l ->
  forall pre keys st ms st', conv_list pname pre l keys st = (ms, st') ->
  params st' = add_new (params st) (flat_map sites l) /\
  map is_none_mp ms = map is_none_pv l /\
  (forall final vals, ext (params st') final -> map (rd vals) ms = map (subst ap (sig final vals)) l) /\
  (Inv st -> Inv st').
Proof.
  induction l as [|x r IH]; intros HF pre keys st ms st' H; simpl in H.
  - inversion H; subst. simpl. spl; auto.
  - inversion HF as [|? ? Hx Hr]; subst.
    destruct (conv pname x (pre ++ hd "" keys) st) as [m st1] eqn:E1.
    destruct (conv_list pname pre r (tl keys) st1) as [ms2 st2] eqn:E2.
    inversion H; subst.
    destruct (Hx _ _ _ _ E1) as [A1 [A2 [A3 A4]]].
    destruct (IH Hr _ _ _ _ _ E2) as [B1 [B2 [B3 B4]]].
    split; [|split; [|split]].
    + simpl. rewrite add_new_app, <- A1. exact B1.
    + simpl. rewrite A2, B2. reflexivity.
    + intros final vals Hf. simpl. f_equal.
      * apply A3. eapply ext_trans; [|exact Hf]. rewrite B1. apply add_new_ext.
      * apply B3, Hf.
    + auto.
Qed.

Lemma conv_all_ok : forall t, conv_ok t.
Proof.
  induction t as [c|id|k ch IHch] using pv_ind'; intros name st m st' H.
  - simpl in H. inversion H; subst. simpl. spl; auto.
  - simpl in H. pose proof (get_index_params id name st) as [G1 G2].
    pose proof (get_index_Inv id name st) as G3.
    destruct (get_index pname id name st) as [i st1]. inversion H; subst. simpl in *.
    split; [exact G1|]. split; [reflexivity|]. split; [|exact G3].
    intros final vals Hf. unfold rd, sig. simpl. rewrite G2. f_equal. symmetry. apply idx_ext; [|rewrite <- G1; exact Hf].
    apply add1_In. auto.
  - rewrite conv_node in H.
    destruct (conv_list pname (child_prefix k (List.length ch) name) ch (child_keys k (List.length ch)) st)
      as [ms st2] eqn:E.
    inversion H; subst.
    destruct (conv_list_ok ch IHch _ _ _ _ _ E) as [B1 [B2 [B3 B4]]].
    split; [exact B1|]. split; [destruct k; reflexivity|]. split; [|exact B4].
    intros final vals Hf. specialize (B3 final vals Hf). unfold rd in *.
    destruct k as [|keys|dim keys|f nm|nm]; simpl.
    + f_equal. exact B3.
    + f_equal. fold (rd vals). rewrite select_map. rewrite select_map.
      rewrite read_kvs. unfold rd. rewrite B3.
      f_equal. rewrite <- (map_map is_none_mp negb), <- (map_map is_none_pv negb), B2. reflexivity.
    + f_equal. fold (rd vals). rewrite read_strs. unfold rd. rewrite B3. reflexivity.
    + rewrite B3. reflexivity.
    + rewrite B3. reflexivity.
Qed.

(** ---- the theorems about one conversion / a conversion sequence ---------------------------------- *)
Lemma one_param_per_prior_l t name st :
  params (snd (conv pname t name st)) = add_new (params st) (sites t).
Proof. destruct (conv pname t name st) as [m st'] eqn:E. apply (conv_all_ok t _ _ _ _ E). Qed.

Lemma names_nodup_l t name st : Inv st -> Inv (snd (conv pname t name st)).
Proof. destruct (conv pname t name st) as [m st'] eqn:E. apply (conv_all_ok t _ _ _ _ E). Qed.

Lemma read_convert_l t name st final vals :
  ext (params (snd (conv pname t name st))) final ->
  read_map ap (fst (conv pname t name st)) vals = subst ap (sig final vals) t.
Proof. destruct (conv pname t name st) as [m st'] eqn:E. apply (conv_all_ok t _ _ _ _ E). Qed.

(** a sequence of conversions with one Mapper (what Model.__init__ does with four dictionaries) *)
Fixpoint conv_seq (ts : list (pv * string)) (st : mstate) : list mp * mstate :=
  match ts with
  | [] => ([], st)
  | (t, name) :: r => let '(m, st1) := conv pname t name st in
                      let '(ms, st2) := conv_seq r st1 in (m :: ms, st2)
  end.

Lemma conv_seq_ok : forall ts st,
  params (snd (conv_seq ts st)) = add_new (params st) (flat_map (fun tn => sites (fst tn)) ts) /\
  (Inv st -> Inv (snd (conv_seq ts st))) /\
  (forall final vals, ext (params (snd (conv_seq ts st))) final ->
     map (rd vals) (fst (conv_seq ts st)) = map (fun tn => subst ap (sig final vals) (fst tn)) ts).
Proof.
  induction ts as [|[t name] r IH]; intros st; simpl.
  - spl; auto.
  - destruct (conv pname t name st) as [m st1] eqn:E1.
    destruct (conv_all_ok t _ _ _ _ E1) as [A1 [_ [A3 A4]]].
    destruct (IH st1) as [B1 [B2 B3]]. destruct (conv_seq r st1) as [ms st2]. simpl in *.
    split; [|split].
    + rewrite add_new_app, <- A1. exact B1.
    + auto.
    + intros final vals Hf. f_equal; [|apply B3, Hf].
      apply A3. eapply ext_trans; [|exact Hf]. rewrite B1. apply add_new_ext.
Qed.

(** the initial-guess clause: with the value list g(parameters) the map reads as the tree with every
    prior replaced by g(prior) *)
Lemma subst_ext s1 s2 : forall t, (forall id, In id (sites t) -> s1 id = s2 id) -> subst ap s1 t = subst ap s2 t.
Proof.
  induction t as [c|id|k ch IH] using pv_ind'; intros H; simpl; [reflexivity|apply H; simpl; auto|].
  f_equal. apply map_ext_in. intros x Hx. rewrite Forall_forall in IH. apply IH; [exact Hx|].
  intros id Hid. apply H. simpl. apply in_flat_map. eauto.
Qed.

Lemma guess_l (g : nat -> val) t name :
  let '(m, st') := conv pname t name st0 in
  read_map ap m (map g (params st')) = subst ap g t.
Proof.
  destruct (conv pname t name st0) as [m st'] eqn:E.
  destruct (conv_all_ok t _ _ _ _ E) as [A1 [_ [A3 _]]].
  fold (rd (map g (params st')) m). rewrite (A3 (params st') _ (ext_refl _)).
  apply subst_ext. intros id Hid. unfold sig. apply nth_idx_map.
  rewrite A1. apply add_new_In. auto.
Qed.
End Conv.

(** ================================================================================================
    4. Model.__init__: four conversions with one Mapper *)

Lemma model_init_ok pname s th op mo :
  let m := model_init pname s th op mo in
  let sd := dict_pv (fun x => x) (scat_params s) in
  params (m_st m) = add_new [] (sites sd ++ sites th ++ sites op ++ sites mo) /\
  Inv (m_st m) /\
  forall ap vals, let sg := sig (params (m_st m)) vals in
    read_map ap (m_scat m) vals = subst ap sg sd /\
    read_map ap (m_theory m) vals = subst ap sg th /\
    read_map ap (m_optics m) vals = subst ap sg op /\
    read_map ap (m_model m) vals = subst ap sg mo.
Proof.
  unfold model_init.
  destruct (conv pname (dict_pv (fun x => x) (scat_params s)) "" st0) as [ms st1] eqn:E1.
  destruct (conv pname th "" st1) as [mt st2] eqn:E2.
  destruct (conv pname op "" st2) as [mop st3] eqn:E3.
  destruct (conv pname mo "" st3) as [mm st4] eqn:E4.
  cbn [m_st m_scat m_theory m_optics m_model].
  split; [|split].
  - rewrite (proj1 (conv_all_ok pname (fun _ _ => VErr) _ _ _ _ _ E4)),
            (proj1 (conv_all_ok pname (fun _ _ => VErr) _ _ _ _ _ E3)),
            (proj1 (conv_all_ok pname (fun _ _ => VErr) _ _ _ _ _ E2)),
            (proj1 (conv_all_ok pname (fun _ _ => VErr) _ _ _ _ _ E1)).
    rewrite !add_new_app. reflexivity.
  - apply (conv_all_ok pname (fun _ _ => VErr) _ _ _ _ _ E4).
    apply (conv_all_ok pname (fun _ _ => VErr) _ _ _ _ _ E3).
    apply (conv_all_ok pname (fun _ _ => VErr) _ _ _ _ _ E2).
    apply (conv_all_ok pname (fun _ _ => VErr) _ _ _ _ _ E1). apply Inv_st0.
  - intros ap vals.
    destruct (conv_all_ok pname ap _ _ _ _ _ E1) as [A1 [_ [A3 _]]].
    destruct (conv_all_ok pname ap _ _ _ _ _ E2) as [B1 [_ [B3 _]]].
    destruct (conv_all_ok pname ap _ _ _ _ _ E3) as [C1 [_ [C3 _]]].
    destruct (conv_all_ok pname ap _ _ _ _ _ E4) as [D1 [_ [D3 _]]].
    assert (X34 : ext (params st3) (params st4)) by (rewrite D1; apply add_new_ext).
    assert (X23 : ext (params st2) (params st3)) by (rewrite C1; apply add_new_ext).
    assert (X12 : ext (params st1) (params st2)) by (rewrite B1; apply add_new_ext).
    unfold rd in *. spl.
    + apply A3. eapply ext_trans; [exact X12|]. eapply ext_trans; [exact X23|exact X34].
    + apply B3. eapply ext_trans; [exact X23|exact X34].
    + apply C3, X34.
    + apply D3, ext_refl.
Qed.

(** the value at position i of the value list is the one every site of the i-th parameter's prior gets *)
Lemma sig_at_param ps vals i : NoDup ps -> i < List.length ps -> sig ps vals (nth i ps 0) = nth i vals VErr.
Proof. intros Hn Hi. unfold sig. rewrite idx_nth by assumption. reflexivity. Qed.

(** ================================================================================================
    5. name-keyed values = ordered values *)

Lemma lookup_some_in {A} : forall (d : list (string * A)) k x, lookup k d = Some x -> In (k, x) d.
Proof.
  induction d as [|[k' v] r IH]; simpl; intros k x H; [discriminate|].
  destruct (lookup k r) as [y|] eqn:E.
  - inversion H; subst. right. apply IH, E.
  - destruct (String.eqb k k') eqn:Ek; [|discriminate]. apply String.eqb_eq in Ek. inversion H; subst. auto.
Qed.
Lemma lookup_In {A} : forall (d : list (string * A)) k v, NoDup (map fst d) -> In (k, v) d -> lookup k d = Some v.
Proof.
  induction d as [|[k' v'] r IH]; simpl; intros k v Hn Hin; [contradiction|].
  inversion Hn; subst. destruct Hin as [Hin|Hin].
  - inversion Hin; subst. destruct (lookup k r) as [y|] eqn:E.
    + exfalso. apply H1. apply lookup_some_in in E. apply (in_map fst) in E. exact E.
    + rewrite String.eqb_refl. reflexivity.
  - rewrite (IH k v H2 Hin). reflexivity.
Qed.

Lemma dict_as_list_l (d : list (string * val)) : NoDup (map fst d) -> forall nms vals,
  List.length vals = List.length nms -> incl (combine nms vals) d ->
  map (fun n => match lookup n d with Some v => v | None => VErr end) nms = vals.
Proof.
  intros Hd. induction nms as [|n ns IH]; intros [|v vs] Hl Hi; simpl in *; try discriminate; [reflexivity|].
  rewrite (lookup_In d n v Hd) by (apply Hi; left; reflexivity).
  f_equal. apply IH; [lia|]. intros x Hx. apply Hi. right. exact Hx.
Qed.

Lemma combine_fst {A B} : forall (a : list A) (b : list B), List.length b = List.length a -> map fst (combine a b) = a.
Proof. induction a as [|x a IH]; intros [|y b] H; simpl in *; try discriminate; [reflexivity|]. rewrite IH by lia. reflexivity. Qed.

Lemma dict_vs_list_l m d vals :
  Inv (m_st m) -> List.length vals = List.length (names (m_st m)) ->
  Permutation d (combine (names (m_st m)) vals) ->
  pars_of_dict m d = vals.
Proof.
  intros [Hn _] Hl Hp. unfold pars_of_dict. apply dict_as_list_l.
  - apply (Permutation_map fst) in Hp. rewrite (combine_fst _ _ Hl) in Hp.
    apply Permutation_sym in Hp. apply (Permutation_NoDup Hp Hn).
  - exact Hl.
  - intros x Hx. apply Permutation_sym in Hp. apply (Permutation_in _ Hp Hx).
Qed.

(** ================================================================================================
    6. ties: edit_map_indices, deletion of the duplicates *)

Lemma nmem_In i l : nmem i l = true <-> In i l.
Proof.
  unfold nmem. rewrite existsb_exists. split.
  - intros [x [Hx He]]. apply Nat.eqb_eq in He. subst. exact Hx.
  - intros H. exists i. split; [exact H|apply Nat.eqb_refl].
Qed.
Lemma nmem_false i l : nmem i l = false <-> ~ In i l.
Proof. rewrite <- nmem_In. destruct (nmem i l); split; congruence. Qed.

(** strictly ascending, all elements >= lo *)
Fixpoint asc (lo : nat) (J : list nat) : Prop :=
  match J with [] => True | j :: r => lo <= j /\ asc (S j) r end.
Lemma asc_ge : forall J lo x, asc lo J -> In x J -> lo <= x.
Proof.
  induction J as [|j r IH]; simpl; intros lo x H Hx; [contradiction|].
  destruct H as [H1 H2]. destruct Hx as [Hx|Hx]; [lia|]. specialize (IH _ _ H2 Hx). lia.
Qed.
Lemma asc_NoDup : forall J lo, asc lo J -> NoDup J.
Proof.
  induction J as [|j r IH]; simpl; intros lo H; [constructor|]. destruct H as [H1 H2].
  constructor; [|apply (IH _ H2)]. intros Hx. pose proof (asc_ge _ _ _ H2 Hx). lia.
Qed.

(** number of elements of J in [a, b) *)
Definition inrange (a b j : nat) : bool := Nat.leb a j && Nat.ltb j b.
Definition cnt (J : list nat) (a b : nat) : nat := List.length (filter (inrange a b) J).

Lemma inrange_true a b j : inrange a b j = true <-> a <= j < b.
Proof. unfold inrange. rewrite andb_true_iff, Nat.leb_le, Nat.ltb_lt. tauto. Qed.
Lemma inrange_false a b j : inrange a b j = false <-> ~ (a <= j < b).
Proof. rewrite <- inrange_true. destruct (inrange a b j); split; congruence. Qed.
Lemma inrange_eq a b a' b' j : (a <= j < b <-> a' <= j < b') -> inrange a b j = inrange a' b' j.
Proof.
  intros H. destruct (inrange a' b' j) eqn:E.
  - apply inrange_true. apply H. apply inrange_true, E.
  - apply inrange_false. intros X. apply H in X. apply inrange_true in X. congruence.
Qed.
Lemma cnt_cons j r a b : cnt (j :: r) a b = (if inrange a b j then 1 else 0) + cnt r a b.
Proof. unfold cnt. cbn [filter]. destruct (inrange a b j); reflexivity. Qed.
Lemma cnt_nil a b : cnt [] a b = 0. Proof. reflexivity. Qed.

Lemma count_lt_cnt i J : count_lt i J = cnt J 0 i.
Proof. unfold count_lt, cnt, inrange. reflexivity. Qed.

Lemma cnt_step_notin : forall J k b, ~ In k J -> cnt J k b = cnt J (S k) b.
Proof.
  induction J as [|j r IH]; intros k b H; [reflexivity|].
  assert (Hj : j <> k) by (intros E; apply H; left; exact E).
  assert (Hr : ~ In k r) by (intros E; apply H; right; exact E).
  rewrite !cnt_cons, (IH k b Hr). f_equal. rewrite (inrange_eq k b (S k) b j) by lia. reflexivity.
Qed.
Lemma cnt_step_in : forall J k b, NoDup J -> In k J -> k < b -> cnt J k b = S (cnt J (S k) b).
Proof.
  induction J as [|j r IH]; intros k b Hn Hin Hb; [contradiction|].
  inversion Hn; subst. rewrite !cnt_cons. destruct (Nat.eq_dec j k) as [->|Hj].
  - rewrite (cnt_step_notin r k b H1).
    assert (C1 : inrange k b k = true) by (apply inrange_true; lia).
    assert (C2 : inrange (S k) b k = false) by (apply inrange_false; lia).
    rewrite C1, C2. reflexivity.
  - destruct Hin as [Hin|Hin]; [contradiction|]. rewrite (IH k b H2 Hin Hb).
    rewrite (inrange_eq k b (S k) b j) by lia. lia.
Qed.
Lemma cnt_le J a b : NoDup J -> cnt J a b <= b - a.
Proof.
  intros Hn. unfold cnt.
  assert (Hi : incl (filter (inrange a b) J) (seq a (b - a))).
  { intros x Hx. apply filter_In in Hx. destruct Hx as [_ Hc]. apply inrange_true in Hc. apply in_seq. lia. }
  pose proof (NoDup_incl_length (NoDup_filter _ Hn) Hi) as Hl. rewrite seq_length in Hl. exact Hl.
Qed.
Lemma cnt_all J a b : (forall j, In j J -> a <= j < b) -> cnt J a b = List.length J.
Proof.
  induction J as [|j r IH]; intros H; [reflexivity|]. rewrite cnt_cons.
  assert (C : inrange a b j = true) by (apply inrange_true, H; left; reflexivity).
  rewrite C, IH; [reflexivity|]. intros x Hx. apply H. right. exact Hx.
Qed.
Lemma cnt_none J a b : (forall j, In j J -> b <= j) -> cnt J a b = 0.
Proof.
  induction J as [|j r IH]; intros H; [reflexivity|]. rewrite cnt_cons.
  assert (C : inrange a b j = false).
  { apply inrange_false. specialize (H j (or_introl eq_refl)). lia. }
  rewrite C, IH; [reflexivity|]. intros x Hx. apply H. right. exact Hx.
Qed.

Lemma cnt_empty J a b : b <= a -> cnt J a b = 0.
Proof.
  intros H. induction J as [|j r IH]; [reflexivity|]. rewrite cnt_cons, IH.
  assert (C : inrange a b j = false) by (apply inrange_false; lia). rewrite C. reflexivity.
Qed.

(** the element at position i of the original list sits at position i - #(deleted positions below i) *)
Lemma nth_drop_pos {A} (d : A) J : NoDup J -> forall l k i, ~ In (k + i) J ->
  nth (i - cnt J k (k + i)) (drop_pos J k l) d = nth i l d.
Proof.
  intros Hn. induction l as [|x t IH]; intros k i Hi.
  - simpl. destruct (i - cnt J k (k + i)); destruct i; reflexivity.
  - destruct i as [|i'].
    + simpl. rewrite Nat.add_0_r in Hi. apply nmem_false in Hi. rewrite Hi. reflexivity.
    + replace (k + S i') with (S k + i') in * by lia. simpl drop_pos. destruct (nmem k J) eqn:E.
      * apply nmem_In in E. rewrite (cnt_step_in J k (S k + i') Hn E) by lia.
        simpl. apply IH. exact Hi.
      * apply nmem_false in E. rewrite (cnt_step_notin J k _ E).
        pose proof (cnt_le J (S k) (S k + i') Hn) as Hc.
        replace (S i' - cnt J (S k) (S k + i')) with (S (i' - cnt J (S k) (S k + i'))) by lia.
        simpl. apply IH. exact Hi.
Qed.

Lemma drop_pos_length {A} J : NoDup J -> forall (l : list A) k,
  List.length (drop_pos J k l) + cnt J k (k + List.length l) = List.length l.
Proof.
  intros Hn. induction l as [|x t IH]; intros k; simpl.
  - rewrite Nat.add_0_r. rewrite cnt_empty; [reflexivity|lia].
  - replace (k + S (List.length t)) with (S k + List.length t) by lia. destruct (nmem k J) eqn:E.
    + apply nmem_In in E. rewrite (cnt_step_in J k _ Hn E) by lia. specialize (IH (S k)). cbn [Nat.add] in *. lia.
    + apply nmem_false in E. rewrite (cnt_step_notin J k _ E). specialize (IH (S k)). cbn [Nat.add List.length] in *. lia.
Qed.

Lemma drop_pos_In {A} J : forall (l : list A) k x, In x (drop_pos J k l) -> In x l.
Proof.
  induction l as [|y t IH]; intros k x H; simpl in *; [contradiction|].
  destruct (nmem k J); [right; eapply IH; exact H|]. destruct H as [H|H]; [auto|right; eapply IH; exact H].
Qed.
Lemma drop_pos_NoDup {A} J : forall (l : list A) k, NoDup l -> NoDup (drop_pos J k l).
Proof.
  induction l as [|y t IH]; intros k H; simpl; [constructor|]. inversion H; subst.
  destruct (nmem k J); [apply IH; assumption|]. constructor; [|apply IH; assumption].
  intros Hx. apply H2. eapply drop_pos_In. exact Hx.
Qed.

(** python's "for index in indices[:0:-1]: del l[index]" deletes exactly the positions indices[1:] *)
Lemma drop_pos_skip {A} a J : forall (l : list A) k, a < k -> drop_pos (a :: J) k l = drop_pos J k l.
Proof.
  induction l as [|x t IH]; intros k H; simpl; [reflexivity|].
  assert (E : Nat.eqb k a = false) by (apply Nat.eqb_neq; lia).
  unfold nmem at 1. simpl. rewrite E. simpl. fold (nmem k J).
  rewrite IH by lia. reflexivity.
Qed.
Lemma del_drop {A} J : forall (l : list A) k j, (forall x, In x J -> k + j < x) ->
  del_nth j (drop_pos J k l) = drop_pos (k + j :: J) k l.
Proof.
  induction l as [|x t IH]; intros k j H.
  - simpl. destruct j; reflexivity.
  - assert (Ek : nmem k J = false).
    { apply nmem_false. intros Hk. specialize (H k Hk). lia. }
    simpl drop_pos at 1. rewrite Ek. destruct j as [|j'].
    + simpl. rewrite Nat.add_0_r. unfold nmem at 1. simpl. rewrite Nat.eqb_refl. simpl.
      rewrite drop_pos_skip by lia. reflexivity.
    + simpl del_nth. simpl drop_pos. unfold nmem at 1. simpl.
      assert (E : Nat.eqb k (k + S j') = false) by (apply Nat.eqb_neq; lia).
      rewrite E. simpl. fold (nmem k J). rewrite Ek. f_equal.
      replace (k + S j') with (S k + j') by lia. apply IH. intros y Hy. specialize (H y Hy). lia.
Qed.
Lemma del_desc_drop {A} : forall J lo (l : list A), asc lo J ->
  fold_left (fun acc i => del_nth i acc) (List.rev J) l = drop_pos J 0 l.
Proof.
  induction J as [|j r IH]; intros lo l H; simpl.
  - clear H. generalize 0. induction l as [|x t IHl]; intros k; simpl; [reflexivity|]. rewrite <- IHl. reflexivity.
  - destruct H as [H1 H2]. rewrite fold_left_app. simpl. rewrite (IH (S j) l H2).
    rewrite (del_drop r l 0 j); [reflexivity|]. intros x Hx. pose proof (asc_ge _ _ _ H2 Hx). lia.
Qed.
Lemma del_desc_is_drop {A} i0 J (l : list A) : asc (S i0) J -> del_desc (i0 :: J) l = drop_pos J 0 l.
Proof. intros H. unfold del_desc. simpl. eapply del_desc_drop. exact H. Qed.

(** edit_map_indices' arithmetic: a tied index goes to the smallest tied index, any other index to its
    position after the deletion *)
Lemma edit_idx_tied i0 J old : In old (i0 :: J) -> edit_idx (i0 :: J) old = i0.
Proof. intros H. unfold edit_idx. apply nmem_In in H. rewrite H. reflexivity. Qed.
Lemma edit_idx_other i0 J old : asc (S i0) J -> ~ In old (i0 :: J) ->
  edit_idx (i0 :: J) old = old - count_lt old J.
Proof.
  intros Ha H. unfold edit_idx. pose proof H as H'. apply nmem_false in H'. rewrite H'. simpl hd.
  destruct (Nat.ltb_spec old i0) as [Hlt|Hge].
  - rewrite count_lt_cnt, cnt_none; [lia|]. intros j Hj. pose proof (asc_ge _ _ _ Ha Hj). lia.
  - assert (old <> i0) by (intros E; apply H; left; auto).
    unfold count_lt. simpl. destruct (Nat.ltb_spec i0 old); [|lia]. simpl. lia.
Qed.

(** induction principle for maps *)
Section MpInd.
Variable P : mp -> Prop.
Hypothesis H1 : forall c, P (MConst c).
Hypothesis H2 : forall f, P (MFn f).
Hypothesis H3 : forall i, P (MPar i).
Hypothesis H4 : forall l, Forall P l -> P (MList l).
Hypothesis H5 : forall h l, Forall P l -> P (MCall h l).
Fixpoint mp_ind' (m : mp) : P m :=
  let go := fix go l : Forall P l :=
              match l with [] => Forall_nil _ | x :: r => Forall_cons _ (mp_ind' x) (go r) end in
  match m with
  | MConst c => H1 c | MFn f => H2 f | MPar i => H3 i
  | MList l => H4 l (go l) | MCall h l => H5 h l (go l)
  end.
End MpInd.

Lemma tie_semantics_l ap i0 J vals : asc (S i0) J ->
  (forall j, In j J -> nth j vals VErr = nth i0 vals VErr) ->
  forall m, read_map ap (edit_map (i0 :: J) m) (drop_pos J 0 vals) = read_map ap m vals.
Proof.
  intros Ha Hv. pose proof (asc_NoDup _ _ Ha) as Hn.
  assert (Hi0 : ~ In i0 J) by (intros Hx; pose proof (asc_ge _ _ _ Ha Hx); lia).
  assert (K0 : nth i0 (drop_pos J 0 vals) VErr = nth i0 vals VErr).
  { rewrite <- (nth_drop_pos VErr J Hn vals 0 i0 Hi0). simpl. f_equal.
    rewrite cnt_none; [lia|]. intros j Hj. pose proof (asc_ge _ _ _ Ha Hj). lia. }
  induction m as [c|f|i|l IH|h l IH] using mp_ind'; simpl; try reflexivity.
  - destruct (in_dec Nat.eq_dec i (i0 :: J)) as [Hin|Hout].
    + rewrite (edit_idx_tied i0 J i Hin), K0. destruct Hin as [<-|Hin]; [reflexivity|]. symmetry. apply Hv, Hin.
    + rewrite (edit_idx_other i0 J i Ha Hout), count_lt_cnt.
      apply (nth_drop_pos VErr J Hn vals 0 i). intros Hx. apply Hout. right. exact Hx.
  - f_equal. rewrite map_map. apply map_ext_in. intros x Hx. rewrite Forall_forall in IH. apply IH, Hx.
  - f_equal. rewrite map_map. apply map_ext_in. intros x Hx. rewrite Forall_forall in IH. apply IH, Hx.
Qed.

Lemma tie_removes_duplicates_l {A} i0 J (l : list A) : asc (S i0) J -> (forall j, In j J -> j < List.length l) ->
  del_desc (i0 :: J) l = drop_pos J 0 l /\
  List.length (del_desc (i0 :: J) l) + List.length J = List.length l.
Proof.
  intros Ha Hb. rewrite (del_desc_is_drop _ _ _ Ha). split; [reflexivity|].
  pose proof (drop_pos_length J (asc_NoDup _ _ Ha) l 0) as H. simpl in H.
  rewrite cnt_all in H; [exact H|]. intros j Hj. split; [lia|apply Hb, Hj].
Qed.

(** ---- Model.add_tie as a whole -------------------------------------------------------------------- *)
Lemma insert_sorted_In x : forall l y, In y (insert_sorted x l) <-> y = x \/ In y l.
Proof.
  induction l as [|z t IH]; intros y; simpl; [intuition|].
  destruct (Nat.leb x z); simpl; [intuition|]. rewrite IH. intuition.
Qed.
Lemma insert_sorted_length x : forall l, List.length (insert_sorted x l) = S (List.length l).
Proof. induction l as [|z t IH]; simpl; [reflexivity|]. destruct (Nat.leb x z); simpl; [reflexivity|]. rewrite IH. reflexivity. Qed.
Lemma insert_sorted_asc x : forall l lo, asc lo l -> lo <= x -> ~ In x l -> asc lo (insert_sorted x l).
Proof.
  induction l as [|z t IH]; intros lo Ha Hlo Hx; simpl; [auto|].
  destruct Ha as [H1 H2]. destruct (Nat.leb_spec x z).
  - simpl. assert (x <> z) by (intros E; apply Hx; left; auto). repeat split; [lia|lia|exact H2].
  - simpl. split; [exact H1|]. apply IH; [exact H2|lia|]. intros E. apply Hx. right. exact E.
Qed.
Lemma sort_nat_In l : forall y, In y (sort_nat l) <-> In y l.
Proof. induction l as [|x r IH]; intros y; simpl; [tauto|]. rewrite insert_sorted_In, IH. intuition. Qed.
Lemma sort_nat_length l : List.length (sort_nat l) = List.length l.
Proof. induction l as [|x r IH]; simpl; [reflexivity|]. rewrite insert_sorted_length, IH. reflexivity. Qed.
Lemma sort_nat_asc l : NoDup l -> asc 0 (sort_nat l).
Proof.
  induction l as [|x r IH]; intros H; simpl; [exact I|]. inversion H; subst.
  apply insert_sorted_asc; [apply IH; assumption|lia|]. rewrite sort_nat_In. assumption.
Qed.

Lemma index_of_some s : forall l i, index_of s l = Some i -> i < List.length l /\ nth i l "" = s.
Proof.
  induction l as [|x t IH]; simpl; intros i H; [discriminate|].
  destruct (String.eqb x s) eqn:E.
  - inversion H; subst. apply String.eqb_eq in E. split; [lia|exact E].
  - destruct (index_of s t) as [n|]; simpl in H; [|discriminate]. inversion H; subst.
    destruct (IH n eq_refl). split; [lia|assumption].
Qed.

Lemma tie_indices_spec pcls st c0 : forall tie idxs, tie_indices pcls st c0 tie = Some idxs ->
  List.length idxs = List.length tie /\
  (forall j, In j idxs -> exists p, In p tie /\ index_of p (names st) = Some j) /\
  (NoDup tie -> NoDup idxs).
Proof.
  induction tie as [|p r IH]; intros idxs H; simpl in H.
  - inversion H; subst. repeat split; [intros j []|constructor].
  - destruct (index_of p (names st)) as [i|] eqn:E; [|discriminate].
    destruct (Z.eqb _ c0); [|discriminate].
    destruct (tie_indices pcls st c0 r) as [is|] eqn:E2; simpl in H; [|discriminate].
    inversion H; subst. destruct (IH is eq_refl) as [A [B C]]. split; [simpl; lia|]. split.
    + intros j [Hj|Hj]; [subst; exists p; simpl; auto|].
      destruct (B j Hj) as [q [Hq1 Hq2]]. exists q. simpl. auto.
    + intros Hn. inversion Hn; subst. constructor; [|apply C; assumption].
      intros Hi. destruct (B i Hi) as [q [Hq1 Hq2]].
      destruct (index_of_some _ _ _ E) as [_ X1]. destruct (index_of_some _ _ _ Hq2) as [_ X2].
      apply H2. rewrite <- X1, X2. exact Hq1.
Qed.

Lemma add_tie_ok pcls tie new_name m m' :
  Inv (m_st m) -> NoDup tie -> add_tie pcls tie new_name m = Some m' ->
  exists i0 J,
    asc (S i0) J /\ S (List.length J) = List.length tie /\
    (forall j, In j (i0 :: J) -> exists p, In p tie /\ index_of p (names (m_st m)) = Some j) /\
    params (m_st m') = drop_pos J 0 (params (m_st m)) /\
    names (m_st m') = (match new_name with Some n => set_nth i0 n | None => fun l => l end)
                        (drop_pos J 0 (names (m_st m))) /\
    List.length (params (m_st m')) + List.length J = List.length (params (m_st m)) /\
    List.length (names (m_st m')) = List.length (params (m_st m')) /\
    (match new_name with
     | None => True
     | Some n => ~ In n (drop_pos J 0 (names (m_st m)))
     end -> NoDup (names (m_st m'))) /\
    m_dummy m' = m_dummy m /\
    forall ap vals, (forall j, In j J -> nth j vals VErr = nth i0 vals VErr) ->
      let vals' := drop_pos J 0 vals in
      read_map ap (m_scat m') vals' = read_map ap (m_scat m) vals /\
      read_map ap (m_theory m') vals' = read_map ap (m_theory m) vals /\
      read_map ap (m_optics m') vals' = read_map ap (m_optics m) vals /\
      read_map ap (m_model m') vals' = read_map ap (m_model m) vals.
Proof.
  intros [Hnd Hlen] Htie H. unfold add_tie in H.
  destruct tie as [|first rest]; [discriminate|].
  destruct (index_of first (names (m_st m))) as [i1|] eqn:E1; [|discriminate].
  destruct (tie_indices pcls (m_st m) _ (first :: rest)) as [idxs|] eqn:E2; [|discriminate].
  destruct (tie_indices_spec _ _ _ _ _ E2) as [L [B C]]. specialize (C Htie).
  pose proof (sort_nat_asc idxs C) as Ha. pose proof (sort_nat_length idxs) as Hl.
  destruct (sort_nat idxs) as [|i0 J] eqn:ES; [simpl in *; lia|].
  inversion H; subst; clear H. cbn [m_st m_scat m_theory m_optics m_model m_dummy params names].
  simpl in Ha. destruct Ha as [_ Ha].
  assert (Hb : forall j, In j (i0 :: J) -> exists p, In p (first :: rest) /\ index_of p (names (m_st m)) = Some j).
  { intros j Hj. apply B. apply sort_nat_In. rewrite ES. exact Hj. }
  assert (HbJ : forall j, In j J -> j < List.length (params (m_st m))).
  { intros j Hj. destruct (Hb j (or_intror Hj)) as [p [_ Hp]]. apply index_of_some in Hp. lia. }
  exists i0, J. rewrite !(del_desc_is_drop _ _ _ Ha).
  pose proof (fun A => @drop_pos_length A J (asc_NoDup _ _ Ha)) as DL.
  assert (LP : List.length (drop_pos J 0 (params (m_st m))) + List.length J = List.length (params (m_st m))).
  { specialize (DL _ (params (m_st m)) 0). simpl in DL. rewrite cnt_all in DL; [exact DL|].
    intros j Hj. split; [lia|apply HbJ, Hj]. }
  assert (LN : List.length (drop_pos J 0 (names (m_st m))) + List.length J = List.length (names (m_st m))).
  { specialize (DL _ (names (m_st m)) 0). simpl in DL. rewrite cnt_all in DL; [exact DL|].
    intros j Hj. split; [lia|rewrite Hlen; apply HbJ, Hj]. }
  split; [exact Ha|]. split; [simpl in *; lia|]. split; [exact Hb|]. split; [reflexivity|].
  split; [destruct new_name; reflexivity|]. split; [exact LP|]. split.
  { destruct new_name; [rewrite set_nth_length|]; lia. }
  split.
  { destruct new_name as [n|]; intros Hfree.
    - apply set_nth_NoDup; [apply drop_pos_NoDup, Hnd|exact Hfree].
    - apply drop_pos_NoDup, Hnd. }
  split; [reflexivity|].
  intros ap vals Hv. cbv zeta. repeat split; apply tie_semantics_l; assumption.
Qed.

(** ================================================================================================
    7. scatterer parameters: "i:key" flattening, from_parameters *)

Lemma split_colon_uint : forall d r,
  split_colon (NilEmpty.string_of_uint d ++ String ":" r) = Some (NilEmpty.string_of_uint d, r).
Proof. induction d; intros r; simpl; try rewrite IHd; reflexivity. Qed.
Lemma split_colon_key i key : split_colon (nstr i ++ ":" ++ key) = Some (nstr i, key).
Proof. unfold nstr. apply split_colon_uint. Qed.

Definition vmap {A B} (g : A -> B) (l : list (string * A)) : list (string * B) :=
  map (fun kv => (fst kv, g (snd kv))) l.
Lemma vmap_fst {A B} (g : A -> B) l : map fst (vmap g l) = map fst l.
Proof. unfold vmap. rewrite map_map. reflexivity. Qed.
Lemma vmap_prefix {A B} (g : A -> B) i l : vmap g (prefix_keys i l) = prefix_keys i (vmap g l).
Proof. unfold vmap, prefix_keys. rewrite !map_map. reflexivity. Qed.
Lemma vmap_app {A B} (g : A -> B) a b : vmap g (a ++ b) = vmap g a ++ vmap g b.
Proof. apply map_app. Qed.

Lemma collect_app {A} i (a b : list (string * A)) : collect i (a ++ b) = collect i a ++ collect i b.
Proof. unfold collect. apply flat_map_app. Qed.
Lemma collect_prefix_same {A} i : forall l : list (string * A), collect i (prefix_keys i l) = l.
Proof.
  induction l as [|[k v] r IH]; [reflexivity|].
  unfold collect, prefix_keys in *. cbn [map flat_map fst snd]. rewrite split_colon_key, String.eqb_refl, IH.
  reflexivity.
Qed.
Lemma collect_prefix_other {A} i j : i <> j -> forall l : list (string * A), collect i (prefix_keys j l) = [].
Proof.
  intros Hij. induction l as [|[k v] r IH]; [reflexivity|].
  unfold collect, prefix_keys in *. cbn [map flat_map fst snd]. rewrite split_colon_key.
  destruct (String.eqb (nstr j) (nstr i)) eqn:E.
  - apply String.eqb_eq, nstr_inj in E. congruence.
  - rewrite IH. reflexivity.
Qed.

(** Scatterers._parameters written as a separate function *)
Fixpoint pgo {A} (i : nat) (l : list (scat A)) : list (string * A) :=
  match l with [] => [] | x :: r => prefix_keys i (scat_params x) ++ pgo (S i) r end.
Lemma scat_params_group {A} cls (ms : list (scat A)) : scat_params (SGroup cls ms) = pgo 0 ms.
Proof.
  cbn [scat_params]. generalize 0. induction ms as [|x r IH]; intros k; [reflexivity|].
  cbn [pgo]. rewrite <- IH. reflexivity.
Qed.

Lemma collect_pgo_lt {A B} (g : A -> B) : forall l k i, i < k -> collect i (vmap g (pgo k l)) = [].
Proof.
  induction l as [|y r IH]; intros k i H; [reflexivity|].
  cbn [pgo]. rewrite vmap_app, collect_app, vmap_prefix, collect_prefix_other by lia.
  rewrite IH by lia. reflexivity.
Qed.
(** flatten / unflatten: the entries "i:key" of a collection's parameters are exactly member i's parameters *)
Lemma collect_pgo {A B} (g : A -> B) : forall l k j x, nth_error l j = Some x ->
  collect (k + j) (vmap g (pgo k l)) = vmap g (scat_params x).
Proof.
  induction l as [|y r IH]; intros k j x H; [destruct j; discriminate|].
  cbn [pgo]. rewrite vmap_app, collect_app, vmap_prefix. destruct j as [|j'].
  - inversion H; subst. rewrite Nat.add_0_r, collect_prefix_same, collect_pgo_lt by lia. apply app_nil_r.
  - simpl in H. rewrite collect_prefix_other by lia. replace (k + S j') with (S k + j') by lia.
    rewrite (IH (S k) j' x H). reflexivity.
Qed.

(** induction principle for scatterer trees *)
Section ScatInd.
Context {A : Type}.
Variable P : scat A -> Prop.
Hypothesis H1 : forall cls pars, P (SLeaf cls pars).
Hypothesis H2 : forall cls ms, Forall P ms -> P (SGroup cls ms).
Hypothesis H3 : forall sp tr rot, P sp -> P (SRigid sp tr rot).
Fixpoint scat_ind' (s : scat A) : P s :=
  match s with
  | SLeaf cls pars => H1 cls pars
  | SGroup cls ms => H2 cls ms ((fix go l : Forall P l :=
                                   match l with [] => Forall_nil _ | x :: r => Forall_cons _ (scat_ind' x) (go r) end) ms)
  | SRigid sp tr rot => H3 sp tr rot (scat_ind' sp)
  end.
End ScatInd.

(** value map over a scatterer tree *)
Fixpoint smap {A B} (f : A -> B) (s : scat A) : scat B :=
  match s with
  | SLeaf c p => SLeaf c (vmap f p)
  | SGroup c ms => SGroup c (map (smap f) ms)
  | SRigid sp tr rot => SRigid (smap f sp) (f tr) (f rot)
  end.

(** simple scatterers with distinct argument names, collections of those; no rigid cluster *)
Inductive good {A} : scat A -> Prop :=
| good_leaf cls pars : NoDup (map fst pars) -> good (SLeaf cls pars)
| good_group cls ms : Forall good ms -> good (SGroup cls ms).

Lemma scat_subst_smap ap sg : forall s, scat_subst ap sg s = smap (subst ap sg) s.
Proof.
  induction s as [c p|c ms IH|sp tr rot IH] using scat_ind'; simpl; [reflexivity| |rewrite IH; reflexivity].
  f_equal. apply map_ext_in. intros x Hx. rewrite Forall_forall in IH. apply IH, Hx.
Qed.
Lemma dummy_keep_smap : forall s, dummy_keep s = smap dummy_val s.
Proof.
  induction s as [c p|c ms IH|sp tr rot IH] using scat_ind'; simpl; [reflexivity| |rewrite IH; reflexivity].
  f_equal. apply map_ext_in. intros x Hx. rewrite Forall_forall in IH. apply IH, Hx.
Qed.
Lemma dummy_of_smap : forall s, good s -> dummy_of s = smap dummy_val s.
Proof.
  induction s as [c p|c ms IH|sp tr rot IH] using scat_ind'; intros Hg; simpl; [reflexivity| |inversion Hg].
  inversion Hg; subst. f_equal. apply map_ext_in. intros x Hx. rewrite Forall_forall in *. apply IH; auto.
Qed.
Lemma scat_params_smap {A B} (g : A -> B) : forall s, scat_params (smap g s) = vmap g (scat_params s).
Proof.
  induction s as [c p|c ms IH|sp tr rot IH] using scat_ind'.
  - reflexivity.
  - cbn [smap]. rewrite !scat_params_group. generalize 0. induction ms as [|x r IHr]; intros k; [reflexivity|].
    inversion IH; subst. cbn [map pgo]. rewrite vmap_app, vmap_prefix, H1, (IHr H2). reflexivity.
  - cbn [smap scat_params]. rewrite IH, vmap_app. reflexivity.
Qed.

(** from_parameters with a full parameter dictionary puts every value at its key, whatever the template
    held before (f: the template's values, g: the new values) *)
Lemma from_parameters_full {A} : forall s : scat A, good s -> forall (f g : A -> val),
  sc_from (smap f s) (vmap g (scat_params s)) = smap g s.
Proof.
  induction s as [c p|c ms IH|sp tr rot IH] using scat_ind'; intros Hg f g; [| |inversion Hg].
  - inversion Hg; subst. cbn [smap sc_from scat_params]. f_equal.
    transitivity (map (fun kv : string * A => (fst kv, g (snd kv))) p); [|reflexivity].
    set (d := vmap g p). unfold vmap. rewrite map_map. subst d.
    apply map_ext_in. intros kv Hkv. cbn [fst snd].
    rewrite (lookup_In (vmap g p) (fst kv) (g (snd kv))); [reflexivity|rewrite vmap_fst; assumption|].
    unfold vmap. apply (in_map (fun kv0 => (fst kv0, g (snd kv0)))) in Hkv. exact Hkv.
  - inversion Hg; subst. cbn [smap sc_from]. f_equal. rewrite scat_params_group.
    assert (G : forall r k, Forall (fun x => good x -> forall f g : A -> val,
                                     sc_from (smap f x) (vmap g (scat_params x)) = smap g x) r ->
                Forall good r ->
                (forall j x, nth_error r j = Some x -> collect (k + j) (vmap g (pgo 0 ms)) = vmap g (scat_params x)) ->
                (fix go (i : nat) (l : list (scat val)) : list (scat val) :=
                   match l with [] => [] | x :: r => sc_from x (collect i (vmap g (pgo 0 ms))) :: go (S i) r end)
                  k (map (smap f) r) = map (smap g) r).
    { induction r as [|x r IHr]; intros k HF HG HC; [reflexivity|].
      inversion HF; subst. inversion HG; subst. cbn [map]. f_equal.
      - specialize (HC 0 x eq_refl). rewrite Nat.add_0_r in HC. rewrite HC. apply H2. assumption.
      - apply IHr; try assumption. intros j y Hj. replace (S k + j) with (k + S j) by lia. apply HC. exact Hj. }
    apply G; try assumption. intros j x Hj. apply (collect_pgo g ms 0 j x Hj).
Qed.

Lemma rebuild_id_l : forall s : scat val, good s -> sc_from s (scat_params s) = s.
Proof.
  assert (I1 : forall s : scat val, smap (fun v => v) s = s).
  { induction s as [c p|c ms IH|sp tr rot IH] using scat_ind'; simpl.
    - f_equal. unfold vmap. rewrite <- (map_id p) at 2. apply map_ext. intros [k v]. reflexivity.
    - f_equal. rewrite <- (map_id ms) at 2. apply map_ext_in. intros x Hx. rewrite Forall_forall in IH. apply IH, Hx.
    - rewrite IH. reflexivity. }
  assert (I2 : forall l : list (string * val), vmap (fun v => v) l = l).
  { intros l. unfold vmap. rewrite <- (map_id l) at 2. apply map_ext. intros [k v]. reflexivity. }
  intros s Hg. pose proof (from_parameters_full s Hg (fun v => v) (fun v => v)) as H.
  rewrite I1, I2 in H. exact H.
Qed.

(** ---- end to end: Model.scatterer_from_parameters and validate_scatterer --------------------------- *)
Lemma select_all_true {A} : forall (l : list A) (fl : list bool),
  List.length fl = List.length l -> Forall (fun b => b = true) fl -> select fl l = l.
Proof.
  induction l as [|x t IH]; intros [|b fl] Hl HF; simpl in *; try discriminate; [reflexivity|].
  inversion HF; subst. rewrite IH by (auto; lia). reflexivity.
Qed.

Lemma subst_dict ap sg (l : list (string * pv)) :
  Forall (fun kv => is_none_pv (snd kv) = false) l ->
  as_dict (subst ap sg (dict_pv (fun x => x) l)) = vmap (subst ap sg) l.
Proof.
  intros HF. unfold dict_pv. cbn [subst vwrap as_dict keep_pv]. rewrite select_all_true.
  - unfold vmap. rewrite !map_map. induction l as [|[k v] r IH]; simpl; [reflexivity|].
    inversion HF; subst. rewrite IH by assumption. reflexivity.
  - rewrite combine_length, !map_length. lia.
  - rewrite map_map. induction HF; simpl; constructor; [rewrite H; reflexivity|assumption].
Qed.

Definition no_none (s : scat pv) : Prop := Forall (fun kv => is_none_pv (snd kv) = false) (scat_params s).

Lemma scatterer_from_parameters_l pname s th op mo vals :
  good s -> no_none s ->
  let m := model_init pname s th op mo in
  scatterer_from_parameters m vals = scat_subst apply_fn (sig (params (m_st m)) vals) s.
Proof.
  intros Hg Hn m. unfold scatterer_from_parameters.
  destruct (model_init_ok pname s th op mo) as [_ [_ R]]. fold m in R.
  destruct (R apply_fn vals) as [R1 _]. rewrite R1, (subst_dict _ _ _ Hn).
  assert (D : m_dummy m = dummy_of s).
  { unfold m, model_init. repeat match goal with |- context [let '(_, _) := ?c in _] => destruct c end. reflexivity. }
  rewrite D, (dummy_of_smap s Hg), scat_subst_smap. apply from_parameters_full, Hg.
Qed.

Lemma guess_scatterer_l pname pguess s :
  good s -> no_none s ->
  validate_scatterer pname pguess s = scat_subst apply_fn (fun id => vnum (pguess id)) s.
Proof.
  intros Hg Hn. unfold validate_scatterer.
  pose proof (guess_l pname apply_fn (fun id => vnum (pguess id)) (dict_pv (fun x => x) (scat_params s)) "") as G.
  destruct (conv pname (dict_pv (fun x => x) (scat_params s)) "" st0) as [ms st]. rewrite G, (subst_dict _ _ _ Hn).
  rewrite dummy_keep_smap, scat_subst_smap. apply from_parameters_full, Hg.
Qed.

(** ================================================================================================
    8. statements in the form used by Props.v *)

Lemma names_nodup_seq pname ts st : Inv st -> Inv (snd (conv_seq pname ts st)).
Proof. apply (conv_seq_ok pname (fun _ _ => VErr) ts st). Qed.

Lemma one_param_per_prior_seq pname ts :
  let ids := flat_map (fun tn : pv * string => sites (fst tn)) ts in
  let ps := params (snd (conv_seq pname ts st0)) in
  ps = add_new [] ids /\ NoDup ps /\ (forall id, In id ps <-> In id ids).
Proof.
  cbv zeta. destruct (conv_seq_ok pname (fun _ _ => VErr) ts st0) as [H _]. rewrite H. simpl params.
  split; [reflexivity|]. split; [apply add_new_NoDup; constructor|].
  intros id. rewrite add_new_In. simpl. tauto.
Qed.

Lemma read_convert_seq pname ap ts st final vals :
  ext (params (snd (conv_seq pname ts st))) final ->
  map (fun m => read_map ap m vals) (fst (conv_seq pname ts st)) =
  map (fun tn : pv * string => subst ap (sig final vals) (fst tn)) ts.
Proof. apply (conv_seq_ok pname ap ts st). Qed.

Lemma edit_index_is_position_l i0 J : asc (S i0) J ->
  forall old,
    (In old (i0 :: J) -> edit_idx (i0 :: J) old = i0) /\
    (~ In old J -> forall {A} (l : list A) d, nth (edit_idx (i0 :: J) old) (drop_pos J 0 l) d = nth old l d).
Proof.
  intros Ha old. split; [apply edit_idx_tied|]. intros Hout A l d.
  pose proof (asc_NoDup _ _ Ha) as Hn.
  destruct (Nat.eq_dec old i0) as [->|Hne].
  - rewrite edit_idx_tied by (left; reflexivity).
    rewrite <- (nth_drop_pos d J Hn l 0 i0 Hout). simpl. f_equal.
    rewrite cnt_none; [lia|]. intros j Hj. pose proof (asc_ge _ _ _ Ha Hj). lia.
  - rewrite edit_idx_other, count_lt_cnt; [apply (nth_drop_pos d J Hn l 0 old Hout)|exact Ha|].
    intros [E|E]; [congruence|contradiction].
Qed.

Lemma flatten_unflatten_keys_l {A} cls (ms : list (scat A)) j x :
  nth_error ms j = Some x -> collect j (scat_params (SGroup cls ms)) = scat_params x.
Proof.
  intros H. pose proof (collect_pgo (fun v : A => v) ms 0 j x H) as C.
  assert (I2 : forall l : list (string * A), vmap (fun v => v) l = l).
  { intros l. unfold vmap. rewrite <- (map_id l) at 2. apply map_ext. intros [k v]. reflexivity. }
  rewrite !I2 in C. rewrite scat_params_group. exact C.
Qed.

(** the parameter list written as the usual right-recursive "keep the first occurrence" *)
Fixpoint first_occ (seen ids : list nat) : list nat :=
  match ids with
  | [] => []
  | x :: r => match find_id x seen with
              | Some _ => first_occ seen r
              | None => x :: first_occ (seen ++ [x]) r
              end
  end.
Lemma add_new_first_occ : forall ids ps, add_new ps ids = ps ++ first_occ ps ids.
Proof.
  induction ids as [|x r IH]; intros ps; simpl; [rewrite app_nil_r; reflexivity|].
  unfold add1. destruct (find_id x ps); rewrite IH; [reflexivity|]. rewrite <- app_assoc. reflexivity.
Qed.

From Coq Require Import List.
From HV Require Import C11.Model.
Lemma stub : True. Proof. exact I. Qed.

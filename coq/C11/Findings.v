(** C11 findings: the faithful model of Model.__init__ / _create_dummy_scatterer loses the rotation and
    translation of a RigidCluster (DESIGN section 7, defect 10; key rigidcluster:model-params).
    RigidCluster.from_parameters returns a plain Spheres, so the model's template (_dummy_scatterer) is a
    Spheres, and Spheres.from_parameters ignores the keys 'rotation' / 'translation' (no ':' in them). *)
From Coq Require Import ZArith List String.
From HV Require Import C11.Model C11.Lemmas.
Import ListNotations.
Local Open Scope string_scope.

Definition num (z : Z) : pv := PConst (CNum z).
Definition vec (a b c : pv) : pv := PNode KList [a; b; c].
Definition rigid_example : scat pv :=
  SRigid (SGroup "Spheres" [SLeaf "Sphere" [("n", num 2); ("r", num 1); ("center", vec (num 0) (num 0) (num 0))];
                            SLeaf "Sphere" [("n", num 2); ("r", num 1); ("center", vec (num 3) (num 0) (num 0))]])
         (vec (PPrior 0) (num 0) (num 0))      (* translation: x is a free parameter *)
         (vec (num 0) (num 0) (num 0)).
Definition rigid_model : model :=
  model_init (fun _ => None) rigid_example (PNode (KDict []) []) (PNode (KDict []) []) (PNode (KDict []) []).

(** the model has exactly one parameter (the translation prior), its value does reach the parameter
    dictionary, but the scatterer built from it does not depend on that value and is not the rigid cluster
    with the value substituted *)
Theorem rigid_model_params_refuted :
  params (m_st rigid_model) = [0] /\ names (m_st rigid_model) = ["translation.0"] /\
  lookup "translation" (as_dict (read_map apply_fn (m_scat rigid_model) [vnum 5]))
    = Some (VList [vnum 5; vnum 0; vnum 0]) /\
  (forall v w, scatterer_from_parameters rigid_model [v] = scatterer_from_parameters rigid_model [w]) /\
  scatterer_from_parameters rigid_model [vnum 5]
    <> scat_subst apply_fn (sig (params (m_st rigid_model)) [vnum 5]) rigid_example.
Proof.
  split; [vm_compute; reflexivity|]. split; [vm_compute; reflexivity|]. split; [vm_compute; reflexivity|].
  split; [intros v w; reflexivity|]. vm_compute. discriminate.
Qed.

(** with a template that keeps the cluster (what a repaired Model would hold) the value arrives *)
Theorem rigid_with_kept_template :
  sc_from (dummy_keep rigid_example) (as_dict (read_map apply_fn (m_scat rigid_model) [vnum 5]))
  = scat_subst apply_fn (sig (params (m_st rigid_model)) [vnum 5]) rigid_example.
Proof. vm_compute. reflexivity. Qed.

(** C11 - model parameters <-> prior sites.  Executable model (no proofs here).
    Anchors: core/mapping.py (Mapper, read_map, edit_map_indices), inference/model.py (Model.__init__,
    add_tie, scatterer_from_parameters, theory_from_parameters, _create_dummy_scatterer,
    ensure_parameters_are_listlike, _find_optics), scatterer.py / composite.py / spherecluster.py
    (parameters, from_parameters, "i:key" flattening), interface.py (validate_scatterer).

    Everything here is discrete: prior objects are identified by a number (python object identity),
    names are strings, parameter values are integers (the harness uses integer-valued numbers so that
    the arithmetic transformations are exact), transformations are function symbols [fn] whose
    interpretation [ap] is an argument (the theorems hold for every interpretation; the executed
    instance is [apply_fn]). *)
From Coq Require Import ZArith List Bool String Ascii Arith.
From Coq Require Import Decimal DecimalString.
Import ListNotations.
Local Open Scope string_scope.

(** str(i) for the indices that appear in names ("center.2", "0:n", "x_1") *)
Definition nstr (n : nat) : string := NilEmpty.string_of_uint (Nat.to_uint n).

(** ---- data ------------------------------------------------------------------------- *)
(** fixed (non-prior) leaves *)
Inductive const := CNum (z : Z) | CNone | CStr (s : string) | CCplx (re im : Z).
(** transformations: operator.add, operator.mul, complex, and a family of affine maps
    c0 + sum c_i x_i (distinct coefficients make argument order observable) *)
Inductive fn := FAdd | FMul | FCplx | FLin (c0 : Z) (cs : list Z).

(** containers.  KList: list / tuple / ndarray; KDict: dict (keys in insertion order);
    KXArr: 1-d xarray with named coordinate; KTrans: TransformedPrior(f, base_prior, name);
    KCplx: ComplexPrior(real, imag, name) *)
Inductive kind :=
| KList | KDict (keys : list string) | KXArr (dim : string) (keys : list string)
| KTrans (f : fn) (nm : option string) | KCplx (nm : option string).

(** a value as the user wrote it: constants, prior objects (by identity), containers *)
Inductive pv := PConst (c : const) | PPrior (id : nat) | PNode (k : kind) (ch : list pv).

(** a map as produced by Mapper.convert_to_map: '_parameter_i' placeholders, lists and
    [func, args] calls (dict / make_xarray / transformed_prior) *)
Inductive head := HDict | HXArr | HTrans.
Inductive mp := MConst (c : const) | MFn (f : fn) | MPar (i : nat) | MList (l : list mp)
              | MCall (h : head) (args : list mp).

(** what read_map returns *)
Inductive val := VConst (c : const) | VFn (f : fn) | VList (l : list val)
               | VDict (l : list (string * val)) | VXArr (dim : string) (l : list (string * val))
               | VErr.

Definition vnum (z : Z) : val := VConst (CNum z).

(** ---- strings ---------------------------------------------------------------------- *)
Definition smem (s : string) (l : list string) : bool := existsb (String.eqb s) l.

(** s.split(':', 1) *)
Fixpoint split_colon (s : string) : option (string * string) :=
  match s with
  | EmptyString => None
  | String c r => if Ascii.eqb c ":"%char then Some (EmptyString, r) else
                  match split_colon r with Some (a, b) => Some (String c a, b) | None => None end
  end.
(** s.split(':', 1)[-1] *)
Definition after_colon (s : string) : string :=
  match split_colon s with Some (_, b) => b | None => s end.

(** ---- Mapper ------------------------------------------------------------------------ *)
Record mstate := mkst { params : list nat; names : list string }.
Definition st0 : mstate := mkst [] [].

(** check_for_ties: first index whose entry IS the object *)
Fixpoint find_id (id : nat) (ps : list nat) : option nat :=
  match ps with
  | [] => None
  | p :: t => if Nat.eqb p id then Some O else option_map S (find_id id t)
  end.

(** add_parameter's de-duplication: "name += '_0'", then while taken: split at the last '_',
    parse the counter, add one.  After the first step the name is base_0 and every pass of the loop
    turns base_k into base_(k+1) (the counter printed by str never contains '_'), so the loop is the
    search for the first free base_k.  [fuel] bounds the search; Lemmas.fresh_name_terminates shows
    that S (List.length names) is always enough. *)
Fixpoint fresh_loop (fuel : nat) (base : string) (k : nat) (nms : list string) : string :=
  let cand := base ++ "_" ++ nstr k in
  match fuel with
  | O => cand
  | S f => if smem cand nms then fresh_loop f base (S k) nms else cand
  end.
Definition fresh_name (name : string) (nms : list string) : string :=
  if smem name nms then fresh_loop (S (List.length nms)) name 0 nms else name.

Fixpoint set_nth {A} (i : nat) (x : A) (l : list A) : list A :=
  match l, i with
  | [], _ => []
  | _ :: t, O => x :: t
  | y :: t, S j => y :: set_nth j x t
  end.

Section WithPriorInfo.
(** prior.name of the object with identity id *)
Variable pname : nat -> option string.

Definition get_index (id : nat) (name : string) (st : mstate) : nat * mstate :=
  match find_id id (params st) with
  | None =>
      let nm := match pname id with Some n => n | None => name end in
      (List.length (params st), mkst (params st ++ [id])%list (names st ++ [fresh_name nm (names st)])%list)
  | Some i =>
      let shared := after_colon (nth i (names st) "") in
      if String.eqb (after_colon name) shared && negb (smem shared (names st))
      then (i, mkst (params st) (set_nth i shared (names st)))
      else (i, st)
  end.

Definition is_none_mp (m : mp) : bool := match m with MConst CNone => true | _ => false end.
Definition is_none_pv (t : pv) : bool := match t with PConst CNone => true | _ => false end.

Definition index_keys (n : nat) : list string := map nstr (seq 0 n).
(** suffixes used for the children of a container *)
Definition child_keys (k : kind) (n : nat) : list string :=
  match k with
  | KList => index_keys n
  | KDict keys => keys
  | KXArr _ keys => keys
  | KTrans _ _ => if Nat.eqb n 1 then [""] else index_keys n      (* TransformedPrior.map_keys *)
  | KCplx _ => ["real"; "imag"]
  end.
Definition dflt (name : string) (nm : option string) : string :=
  match nm with Some n => n | None => name end.
Definition child_prefix (k : kind) (n : nat) (name : string) : string :=
  match k with
  | KList => name ++ "."
  | KDict _ => if String.eqb name "" then "" else name ++ "."
  | KXArr _ _ => name ++ "."
  | KTrans _ nm => if Nat.ltb 1 n then dflt name nm ++ "." else dflt name nm
  | KCplx nm => dflt name nm ++ "."
  end.
(** which children survive: map_dictionary drops entries whose mapped value is None *)
Definition keep_mp (k : kind) (ms : list mp) : list bool :=
  match k with KDict _ => map (fun m => negb (is_none_mp m)) ms | _ => map (fun _ => true) ms end.
Definition keep_pv (k : kind) (ch : list pv) : list bool :=
  match k with KDict _ => map (fun c => negb (is_none_pv c)) ch | _ => map (fun _ => true) ch end.

Fixpoint select {A} (flags : list bool) (l : list A) : list A :=
  match flags, l with
  | b :: fs, x :: t => if b then x :: select fs t else select fs t
  | _, _ => []
  end.

Definition wrap (k : kind) (ms : list mp) : mp :=
  match k with
  | KList => MList ms
  | KDict keys =>
      MCall HDict [MList (select (keep_mp k ms)
                            (map (fun km => MList [MConst (CStr (fst km)); snd km]) (combine keys ms)))]
  | KXArr dim keys => MCall HXArr [MConst (CStr dim); MList (map (fun s => MConst (CStr s)) keys); MList ms]
  | KTrans f _ => MCall HTrans [MFn f; MList ms]
  | KCplx _ => MCall HTrans [MFn FCplx; MList ms]
  end.

(** Mapper.convert_to_map(parameter, name) *)
Fixpoint conv (t : pv) (name : string) (st : mstate) {struct t} : mp * mstate :=
  match t with
  | PConst c => (MConst c, st)
  | PPrior id => let '(i, st') := get_index id name st in (MPar i, st')
  | PNode k ch =>
      let pre := child_prefix k (List.length ch) name in
      let fix go (l : list pv) (keys : list string) (st : mstate) {struct l} : list mp * mstate :=
        match l with
        | [] => ([], st)
        | x :: r => let '(m, st1) := conv x (pre ++ hd "" keys) st in
                    let '(ms, st2) := go r (tl keys) st1 in (m :: ms, st2)
        end in
      let '(ms, st') := go ch (child_keys k (List.length ch)) st in (wrap k ms, st')
  end.

(** the same traversal written as a separate function (used to state lemmas) *)
Fixpoint conv_list (pre : string) (l : list pv) (keys : list string) (st : mstate) : list mp * mstate :=
  match l with
  | [] => ([], st)
  | x :: r => let '(m, st1) := conv x (pre ++ hd "" keys) st in
              let '(ms, st2) := conv_list pre r (tl keys) st1 in (m :: ms, st2)
  end.
End WithPriorInfo.

(** ---- read_map ----------------------------------------------------------------------- *)
Definition kv_of (v : val) : string * val :=
  match v with VList [VConst (CStr k); x] => (k, x) | _ => ("", VErr) end.
Definition str_of (v : val) : string := match v with VConst (CStr s) => s | _ => "" end.

Section WithApply.
(** interpretation of transformation symbols: transformation applied to the argument list *)
Variable ap : fn -> list val -> val.

(** the call func(args...) for the three functions that occur as heads of calls *)
Definition call (h : head) (args : list val) : val :=
  match h, args with
  | HDict, [VList kvs] => VDict (map kv_of kvs)
  | HXArr, [d; VList ks; VList vs] => VXArr (str_of d) (combine (map str_of ks) vs)
  | HTrans, [VFn f; VList xs] => ap f xs      (* transformed_prior with no Prior among the values *)
  | _, _ => VErr
  end.

Fixpoint read_map (m : mp) (vals : list val) {struct m} : val :=
  match m with
  | MConst c => VConst c
  | MFn f => VFn f
  | MPar i => nth i vals VErr
  | MList l => VList (map (fun x => read_map x vals) l)
  | MCall h args => call h (map (fun x => read_map x vals) args)
  end.

(** the specification: the user's tree with every prior replaced by sigma(id), constants untouched,
    transformations applied, None-valued dictionary entries dropped *)
Definition vwrap (k : kind) (flags : list bool) (vs : list val) : val :=
  match k with
  | KList => VList vs
  | KDict keys => VDict (select flags (combine keys vs))
  | KXArr dim keys => VXArr dim (combine keys vs)
  | KTrans f _ => ap f vs
  | KCplx _ => ap FCplx vs
  end.
Fixpoint subst (sigma : nat -> val) (t : pv) {struct t} : val :=
  match t with
  | PConst c => VConst c
  | PPrior id => sigma id
  | PNode k ch => vwrap k (keep_pv k ch) (map (subst sigma) ch)
  end.
End WithApply.

(** executed interpretation of the transformation symbols on integer values *)
Definition znum (v : val) : option Z := match v with VConst (CNum z) => Some z | _ => None end.
Fixpoint lin (acc : Z) (cs : list Z) (xs : list val) : val :=
  match cs, xs with
  | [], [] => vnum acc
  | c :: cs', x :: xs' => match znum x with Some z => lin (acc + c * z) cs' xs' | None => VErr end
  | _, _ => VErr
  end.
Definition apply_fn (f : fn) (args : list val) : val :=
  match f, args with
  | FAdd, [a; b] => match znum a, znum b with Some x, Some y => vnum (x + y) | _, _ => VErr end
  | FMul, [a; b] => match znum a, znum b with Some x, Some y => vnum (x * y) | _, _ => VErr end
  | FCplx, [a; b] => match znum a, znum b with Some x, Some y => VConst (CCplx x y) | _, _ => VErr end
  | FLin c0 cs, xs => lin c0 cs xs
  | _, _ => VErr
  end.

(** ---- ties ----------------------------------------------------------------------------- *)
Definition nmem (i : nat) (l : list nat) : bool := existsb (Nat.eqb i) l.
Definition count_lt (old : nat) (l : list nat) : nat := List.length (filter (fun i => Nat.ltb i old) l).
(** edit_map_indices, the index arithmetic ([indices] is sorted by add_tie) *)
Definition edit_idx (indices : list nat) (old : nat) : nat :=
  if nmem old indices then hd 0 indices
  else if Nat.ltb old (hd 0 indices) then old
  else old - (count_lt old indices - 1).
Fixpoint edit_map (indices : list nat) (m : mp) {struct m} : mp :=
  match m with
  | MPar i => MPar (edit_idx indices i)
  | MList l => MList (map (edit_map indices) l)
  | MCall h args => MCall h (map (edit_map indices) args)
  | other => other
  end.
Fixpoint del_nth {A} (i : nat) (l : list A) : list A :=
  match l, i with
  | [], _ => []
  | _ :: t, O => t
  | x :: t, S j => x :: del_nth j t
  end.
(** "for index in indices[:0:-1]: del l[index]" *)
Definition del_desc {A} (indices : list nat) (l : list A) : list A :=
  fold_left (fun acc i => del_nth i acc) (List.rev (List.tl indices)) l.
(** the set-level meaning: drop the positions in J (positions counted from k) *)
Fixpoint drop_pos {A} (J : list nat) (k : nat) (l : list A) : list A :=
  match l with
  | [] => []
  | x :: t => if nmem k J then drop_pos J (S k) t else x :: drop_pos J (S k) t
  end.

Fixpoint insert_sorted (x : nat) (l : list nat) : list nat :=
  match l with [] => [x] | y :: t => if Nat.leb x y then x :: l else y :: insert_sorted x t end.
Definition sort_nat (l : list nat) : list nat := fold_right insert_sorted [] l.

Fixpoint index_of (s : string) (l : list string) : option nat :=
  match l with
  | [] => None
  | x :: t => if String.eqb x s then Some O else option_map S (index_of s t)
  end.

(** ---- scatterers -------------------------------------------------------------------------- *)
(** SLeaf: a simple scatterer (its _dict: constructor arguments that are not None);
    SGroup: Scatterers / Spheres; SRigid: RigidCluster(spheres, translation, rotation).
    As a VALUE, [SRigid sp tr rot] denotes "sp rotated by rot, then translated by tr". *)
Inductive scat (A : Type) :=
| SLeaf (cls : string) (pars : list (string * A))
| SGroup (cls : string) (ms : list (scat A))
| SRigid (sp : scat A) (tr rot : A).
Arguments SLeaf {A}. Arguments SGroup {A}. Arguments SRigid {A}.

Definition prefix_keys {A} (i : nat) (l : list (string * A)) : list (string * A) :=
  map (fun kv => (nstr i ++ ":" ++ fst kv, snd kv)) l.

(** Scatterer._parameters / Scatterers._parameters ("i:key") / RigidCluster._parameters *)
Fixpoint scat_params {A} (s : scat A) : list (string * A) :=
  match s with
  | SLeaf _ pars => pars
  | SGroup _ ms =>
      (fix go (i : nat) (l : list (scat A)) : list (string * A) :=
         match l with [] => [] | x :: r => (prefix_keys i (scat_params x) ++ go (S i) r)%list end) 0 ms
  | SRigid sp tr rot => (scat_params sp ++ [("rotation", rot); ("translation", tr)])%list
  end.

(** python dict built from pairs: the last binding of a key wins *)
Fixpoint lookup {A} (k : string) (l : list (string * A)) : option A :=
  match l with
  | [] => None
  | (k', v) :: r => match lookup k r with Some x => Some x
                                     | None => if String.eqb k k' then Some v else None end
  end.
(** Scatterers.from_parameters: collected[int(n)][par] = val for keys "n:par" *)
Definition collect {A} (i : nat) (new : list (string * A)) : list (string * A) :=
  flat_map (fun kv => match split_colon (fst kv) with
                      | Some (n, par) => if String.eqb n (nstr i) then [(par, snd kv)] else []
                      | None => [] end) new.

(** from_parameters of each class *)
Fixpoint sc_from (self : scat val) (new : list (string * val)) {struct self} : scat val :=
  match self with
  | SLeaf cls pars =>
      SLeaf cls (map (fun kv => (fst kv, match lookup (fst kv) new with Some v => v | None => snd kv end)) pars)
  | SGroup cls ms =>
      SGroup cls ((fix go (i : nat) (l : list (scat val)) : list (scat val) :=
                     match l with [] => [] | x :: r => sc_from x (collect i new) :: go (S i) r end) 0 ms)
  | SRigid sp tr rot =>
      SRigid (sc_from sp new)
             (match lookup "translation" new with Some v => v | None => tr end)
             (match lookup "rotation" new with Some v => v | None => rot end)
  end.

(** Model._create_dummy_scatterer: 0 for scalars, [0,...] for anything with a length, then
    scatterer.from_parameters.  RigidCluster.from_parameters RETURNS A Spheres (rotated by [0,0,0] and
    translated by [0,0,0], i.e. unchanged): the dummy of a rigid cluster is a plain sphere collection. *)
Definition dummy_val (t : pv) : val :=
  match t with
  | PNode KList ch | PNode (KDict _) ch | PNode (KXArr _ _) ch => VList (map (fun _ => vnum 0) ch)
  | _ => vnum 0
  end.
Fixpoint dummy_of (s : scat pv) : scat val :=
  match s with
  | SLeaf cls pars => SLeaf cls (map (fun kv => (fst kv, dummy_val (snd kv))) pars)
  | SGroup cls ms => SGroup cls (map dummy_of ms)
  | SRigid sp _ _ => dummy_of sp
  end.
(** what a repaired Model would keep as its template *)
Fixpoint dummy_keep (s : scat pv) : scat val :=
  match s with
  | SLeaf cls pars => SLeaf cls (map (fun kv => (fst kv, dummy_val (snd kv))) pars)
  | SGroup cls ms => SGroup cls (map dummy_keep ms)
  | SRigid sp tr rot => SRigid (dummy_keep sp) (dummy_val tr) (dummy_val rot)
  end.

(** the scatterer with every prior replaced through sigma *)
Fixpoint scat_subst (ap : fn -> list val -> val) (sigma : nat -> val) (s : scat pv) : scat val :=
  match s with
  | SLeaf cls pars => SLeaf cls (map (fun kv => (fst kv, subst ap sigma (snd kv))) pars)
  | SGroup cls ms => SGroup cls (map (scat_subst ap sigma) ms)
  | SRigid sp tr rot => SRigid (scat_subst ap sigma sp) (subst ap sigma tr) (subst ap sigma rot)
  end.

(** ---- Model ----------------------------------------------------------------------------------- *)
Record model := mkmodel {
  m_scat : mp; m_theory : mp; m_optics : mp; m_model : mp;
  m_st : mstate; m_dummy : scat val }.

Definition dict_pv {A} (f : A -> pv) (l : list (string * A)) : pv :=
  PNode (KDict (map fst l)) (map (fun kv => f (snd kv)) l).

(** Model.__init__: one Mapper, four conversions in this order, top-level name '' *)
Definition model_init (pname : nat -> option string) (s : scat pv) (theory optics modelp : pv) : model :=
  let '(ms, st1) := conv pname (dict_pv (fun x => x) (scat_params s)) "" st0 in
  let '(mt, st2) := conv pname theory "" st1 in
  let '(mo, st3) := conv pname optics "" st2 in
  let '(mm, st4) := conv pname modelp "" st3 in
  mkmodel ms mt mo mm st4 (dummy_of s).

Definition as_dict (v : val) : list (string * val) := match v with VDict l => l | _ => [] end.

(** ensure_parameters_are_listlike for a dict *)
Definition pars_of_dict (m : model) (d : list (string * val)) : list val :=
  map (fun n => match lookup n d with Some v => v | None => VErr end) (names (m_st m)).

Definition scatterer_from_parameters (m : model) (vals : list val) : scat val :=
  sc_from (m_dummy m) (as_dict (read_map apply_fn (m_scat m) vals)).

(** validate_scatterer: own Mapper, guesses as values, from_parameters of the scatterer itself
    (every key is supplied, so nothing falls back to the original value) *)
Definition validate_scatterer (pname : nat -> option string) (pguess : nat -> Z) (s : scat pv) : scat val :=
  let '(ms, st) := conv pname (dict_pv (fun x => x) (scat_params s)) "" st0 in
  sc_from (dummy_keep s) (as_dict (read_map apply_fn ms (map (fun id => vnum (pguess id)) (params st)))).

(** theory.from_parameters(read_map(...)): the value of each fittable theory attribute afterwards *)
Definition theory_from_parameters (m : model) (tkeys : list string) (vals : list val) : list (string * val) :=
  let d := as_dict (read_map apply_fn (m_theory m) vals) in
  map (fun k => (k, match lookup k d with Some v => v | None => VConst CNone end)) tkeys.

(** _find_optics: map value unless None, else the schema's, else MissingParameter (None here) *)
Definition is_none_val (v : val) : bool := match v with VConst CNone => true | _ => false end.
Definition find_optics (m : model) (schema : list (string * val)) (vals : list val) : list (string * option val) :=
  let d := as_dict (read_map apply_fn (m_optics m) vals) in
  map (fun k => (k, match lookup k d with
                    | Some v => if is_none_val v then
                                  match lookup k schema with Some s => if is_none_val s then None else Some s | None => None end
                                else Some v
                    | None => match lookup k schema with Some s => if is_none_val s then None else Some s | None => None end
                    end)) ["medium_index"; "illum_wavelen"; "illum_polarization"].
Definition model_par (m : model) (key : string) (vals : list val) : option val :=
  lookup key (as_dict (read_map apply_fn (m_model m) vals)).
Definition noise_par (m : model) (vals : list val) : option val :=
  lookup "noise_sd" (as_dict (read_map apply_fn (m_optics m) vals)).

Definition initial_guess (pguess : nat -> Z) (m : model) : list val :=
  map (fun id => vnum (pguess id)) (params (m_st m)).

(** Model.add_tie.  [pcls id]: equality class of the prior ignoring its name (renamed(None) == ...).
    None = ValueError (unknown name / unequal priors) or the IndexError of an empty list. *)
Fixpoint tie_indices (pcls : nat -> Z) (st : mstate) (c0 : Z) (tie : list string) : option (list nat) :=
  match tie with
  | [] => Some []
  | p :: r => match index_of p (names st) with
              | None => None
              | Some i => if Z.eqb (pcls (nth i (params st) 0)) c0
                          then option_map (cons i) (tie_indices pcls st c0 r) else None
              end
  end.
Definition add_tie (pcls : nat -> Z) (tie : list string) (new_name : option string) (m : model) : option model :=
  match tie with
  | [] => None
  | first :: _ =>
    match index_of first (names (m_st m)) with
    | None => None
    | Some i0 =>
      match tie_indices pcls (m_st m) (pcls (nth i0 (params (m_st m)) 0)) tie with
      | None => None
      | Some idxs =>
          let I := sort_nat idxs in
          let ps := del_desc I (params (m_st m)) in
          let ns := del_desc I (names (m_st m)) in
          let ns' := match new_name with Some n => set_nth (hd 0 I) n ns | None => ns end in
          Some (mkmodel (edit_map I (m_scat m)) (edit_map I (m_theory m)) (edit_map I (m_optics m))
                        (edit_map I (m_model m)) (mkst ps ns') (m_dummy m))
      end
    end
  end.

(** ---- boolean equalities used by the generated correspondence files --------------------------- *)
Fixpoint leqb {A} (e : A -> A -> bool) (a b : list A) : bool :=
  match a, b with [], [] => true | x :: a', y :: b' => e x y && leqb e a' b' | _, _ => false end.
Definition const_eqb (a b : const) : bool :=
  match a, b with
  | CNum x, CNum y => Z.eqb x y
  | CNone, CNone => true
  | CStr x, CStr y => String.eqb x y
  | CCplx a1 a2, CCplx b1 b2 => Z.eqb a1 b1 && Z.eqb a2 b2
  | _, _ => false
  end.
Definition fn_eqb (a b : fn) : bool :=
  match a, b with
  | FAdd, FAdd | FMul, FMul | FCplx, FCplx => true
  | FLin c cs, FLin d ds => Z.eqb c d && leqb Z.eqb cs ds
  | _, _ => false
  end.
Definition head_eqb (a b : head) : bool :=
  match a, b with HDict, HDict | HXArr, HXArr | HTrans, HTrans => true | _, _ => false end.
Fixpoint mp_eqb (a b : mp) {struct a} : bool :=
  match a, b with
  | MConst x, MConst y => const_eqb x y
  | MFn f, MFn g => fn_eqb f g
  | MPar i, MPar j => Nat.eqb i j
  | MList l, MList l' =>
      (fix go (l l' : list mp) : bool :=
         match l, l' with [], [] => true | x :: r, y :: r' => mp_eqb x y && go r r' | _, _ => false end) l l'
  | MCall h l, MCall h' l' =>
      head_eqb h h' &&
      (fix go (l l' : list mp) : bool :=
         match l, l' with [], [] => true | x :: r, y :: r' => mp_eqb x y && go r r' | _, _ => false end) l l'
  | _, _ => false
  end.
Fixpoint val_eqb (a b : val) {struct a} : bool :=
  match a, b with
  | VConst x, VConst y => const_eqb x y
  | VFn f, VFn g => fn_eqb f g
  | VList l, VList l' =>
      (fix go (l l' : list val) : bool :=
         match l, l' with [], [] => true | x :: r, y :: r' => val_eqb x y && go r r' | _, _ => false end) l l'
  | VDict l, VDict l' =>
      (fix go (l l' : list (string * val)) : bool :=
         match l, l' with [], [] => true
         | (k, x) :: r, (k', y) :: r' => String.eqb k k' && val_eqb x y && go r r' | _, _ => false end) l l'
  | VXArr d l, VXArr d' l' =>
      String.eqb d d' &&
      (fix go (l l' : list (string * val)) : bool :=
         match l, l' with [], [] => true
         | (k, x) :: r, (k', y) :: r' => String.eqb k k' && val_eqb x y && go r r' | _, _ => false end) l l'
  | VErr, VErr => true
  | _, _ => false
  end.
Definition kv_eqb (a b : string * val) : bool := String.eqb (fst a) (fst b) && val_eqb (snd a) (snd b).
Fixpoint scat_eqb (a b : scat val) {struct a} : bool :=
  match a, b with
  | SLeaf c p, SLeaf c' p' => String.eqb c c' && leqb kv_eqb p p'
  | SGroup c l, SGroup c' l' =>
      String.eqb c c' &&
      (fix go (l l' : list (scat val)) : bool :=
         match l, l' with [], [] => true | x :: r, y :: r' => scat_eqb x y && go r r' | _, _ => false end) l l'
  | SRigid s t r, SRigid s' t' r' => scat_eqb s s' && val_eqb t t' && val_eqb r r'
  | _, _ => false
  end.
Definition oval_eqb (a b : option val) : bool :=
  match a, b with Some x, Some y => val_eqb x y | None, None => true | _, _ => false end.
Definition okv_eqb (a b : string * option val) : bool := String.eqb (fst a) (fst b) && oval_eqb (snd a) (snd b).
Definition model_eqb_core (m : model) (nms : list string) (ids : list nat) (ms mt mo mm : mp) : bool :=
  leqb String.eqb (names (m_st m)) nms && leqb Nat.eqb (params (m_st m)) ids &&
  mp_eqb (m_scat m) ms && mp_eqb (m_theory m) mt && mp_eqb (m_optics m) mo && mp_eqb (m_model m) mm.

From HV Require Import C11.Model C11.Lemmas.
Theorem stub_t : True. Proof. exact stub. Qed.
Print Assumptions stub_t.

(** C11 property theorems: statements only; the proofs are in Lemmas.v.  All objects are the executable
    definitions of Model.v that the correspondence check runs against HoloPy (conv = Mapper.convert_to_map,
    get_index / fresh_name = get_parameter_index / add_parameter, read_map, edit_map / edit_idx =
    edit_map_indices, add_tie, model_init = Model.__init__, sc_from = from_parameters, scat_params =
    _parameters, validate_scatterer).  [ap] (the meaning of the transformation symbols) is universally
    quantified wherever it occurs; the end-to-end statements use the executed instance [apply_fn]. *)
From Coq Require Import ZArith List Bool String Arith Permutation.
From HV Require Import C11.Model C11.Lemmas C11.Findings.
Import ListNotations.
Local Open Scope string_scope.
Local Open Scope list_scope.

(** ---- names ---------------------------------------------------------------------------------------- *)
(* add_parameter's unbounded "while name in names" loop: S(length names) iterations are enough, more fuel
   gives the same name, and the name is free *)
Theorem fresh_name_terminates : forall base nms extra,
  fresh_loop (S (List.length nms) + extra) base 0 nms = fresh_loop (S (List.length nms)) base 0 nms /\
  ~ In (fresh_loop (S (List.length nms)) base 0 nms) nms.
Proof. exact fresh_name_terminates_l. Qed.
Print Assumptions fresh_name_terminates.

(* ... and it is the first free candidate base_j *)
Theorem fresh_name_is_first_free : forall base nms fuel k,
  exists j, fresh_loop fuel base k nms = cand base (k + j) /\ j <= fuel /\
            forall i, i < j -> In (cand base (k + i)) nms.
Proof. exact fresh_loop_first. Qed.
Print Assumptions fresh_name_is_first_free.

(* after any sequence of conversions with one Mapper (any trees, any name prefixes, any prior names, any
   sharing) the names are pairwise distinct and there is one name per parameter *)
Theorem names_nodup : forall pname ts st, Inv st -> Inv (snd (conv_seq pname ts st)).
Proof. exact names_nodup_seq. Qed.
Print Assumptions names_nodup.

(* ---- one parameter per distinct prior, in first-occurrence order -------------------------------------- *)
Theorem one_param_per_prior : forall pname ts,
  let ids := flat_map (fun tn : pv * string => sites (fst tn)) ts in
  let ps := params (snd (conv_seq pname ts st0)) in
  ps = add_new [] ids /\ NoDup ps /\ (forall id, In id ps <-> In id ids).
Proof. exact one_param_per_prior_seq. Qed.
Print Assumptions one_param_per_prior.

(* [add_new] is the usual "keep the first occurrence, skip what was seen" *)
Theorem parameters_first_occurrence_order : forall ids ps, add_new ps ids = ps ++ first_occ ps ids.
Proof. exact add_new_first_occ. Qed.
Print Assumptions parameters_first_occurrence_order.

(* ---- every value lands at every site of its prior ------------------------------------------------------ *)
(* one tree, any Mapper state before, any parameter list [final] that extends the one after (later
   conversions only append): nested lists / dicts (None entries dropped) / xarrays / complex /
   transformations of any depth *)
Theorem read_convert : forall pname ap t name st final vals,
  ext (params (snd (conv pname t name st))) final ->
  read_map ap (fst (conv pname t name st)) vals = subst ap (sig final vals) t.
Proof. exact read_convert_l. Qed.
Print Assumptions read_convert.

Theorem read_convert_sequence : forall pname ap ts st final vals,
  ext (params (snd (conv_seq pname ts st))) final ->
  map (fun m => read_map ap m vals) (fst (conv_seq pname ts st)) =
  map (fun tn : pv * string => subst ap (sig final vals) (fst tn)) ts.
Proof. exact read_convert_seq. Qed.
Print Assumptions read_convert_sequence.

(* [sig] really is "the value of the i-th parameter": *)
Theorem value_of_ith_parameter : forall ps vals i,
  NoDup ps -> i < List.length ps -> sig ps vals (nth i ps 0) = nth i vals VErr.
Proof. exact sig_at_param. Qed.
Print Assumptions value_of_ith_parameter.

(* Model.__init__: the four maps read with the model's own parameter order *)
Theorem model_maps_read_back : forall pname s th op mo,
  let m := model_init pname s th op mo in
  let sd := dict_pv (fun x => x) (scat_params s) in
  params (m_st m) = add_new [] (sites sd ++ sites th ++ sites op ++ sites mo) /\
  Inv (m_st m) /\
  forall ap vals, let sg := sig (params (m_st m)) vals in
    read_map ap (m_scat m) vals = subst ap sg sd /\
    read_map ap (m_theory m) vals = subst ap sg th /\
    read_map ap (m_optics m) vals = subst ap sg op /\
    read_map ap (m_model m) vals = subst ap sg mo.
Proof. exact model_init_ok. Qed.
Print Assumptions model_maps_read_back.

(* end to end through _create_dummy_scatterer and from_parameters ("i:key" flattening), for scatterers
   built from simple scatterers with distinct argument names and (nested) collections of them *)
Theorem scatterer_from_parameters_spec : forall pname s th op mo vals,
  good s -> no_none s ->
  let m := model_init pname s th op mo in
  scatterer_from_parameters m vals = scat_subst apply_fn (sig (params (m_st m)) vals) s.
Proof. exact scatterer_from_parameters_l. Qed.
Print Assumptions scatterer_from_parameters_spec.

(* ---- guesses ------------------------------------------------------------------------------------------- *)
Theorem guess_values_give_guess_tree : forall pname ap (g : nat -> val) t name,
  let '(m, st') := conv pname t name st0 in
  read_map ap m (map g (params st')) = subst ap g t.
Proof. exact guess_l. Qed.
Print Assumptions guess_values_give_guess_tree.

Theorem guess_scatterer : forall pname pguess s,
  good s -> no_none s ->
  validate_scatterer pname pguess s = scat_subst apply_fn (fun id => vnum (pguess id)) s.
Proof. exact guess_scatterer_l. Qed.
Print Assumptions guess_scatterer.

(* ---- dict = list ----------------------------------------------------------------------------------------- *)
Theorem dict_vs_list : forall m d vals,
  Inv (m_st m) -> List.length vals = List.length (names (m_st m)) ->
  Permutation d (combine (names (m_st m)) vals) ->
  pars_of_dict m d = vals.
Proof. exact dict_vs_list_l. Qed.
Print Assumptions dict_vs_list.

(* ---- ties --------------------------------------------------------------------------------------------------- *)
(* edit_map_indices' shift formula = position after deleting the positions J = indices[1:] *)
Theorem edit_index_is_position : forall i0 J, asc (S i0) J ->
  forall old,
    (In old (i0 :: J) -> edit_idx (i0 :: J) old = i0) /\
    (~ In old J -> forall {A} (l : list A) d, nth (edit_idx (i0 :: J) old) (drop_pos J 0 l) d = nth old l d).
Proof. exact edit_index_is_position_l. Qed.
Print Assumptions edit_index_is_position.

(* the descending "del l[index]" loop removes exactly the positions indices[1:], i.e. |I|-1 entries *)
Theorem tie_removes_duplicates : forall {A} i0 J (l : list A),
  asc (S i0) J -> (forall j, In j J -> j < List.length l) ->
  del_desc (i0 :: J) l = drop_pos J 0 l /\
  List.length (del_desc (i0 :: J) l) + List.length J = List.length l.
Proof. exact @tie_removes_duplicates_l. Qed.
Print Assumptions tie_removes_duplicates.

Theorem tie_semantics : forall ap i0 J vals, asc (S i0) J ->
  (forall j, In j J -> nth j vals VErr = nth i0 vals VErr) ->
  forall m, read_map ap (edit_map (i0 :: J) m) (drop_pos J 0 vals) = read_map ap m vals.
Proof. exact tie_semantics_l. Qed.
Print Assumptions tie_semantics.

(* Model.add_tie as a whole (sorting included), for distinct tie names *)
Theorem add_tie_spec : forall pcls tie new_name m m',
  Inv (m_st m) -> NoDup tie -> add_tie pcls tie new_name m = Some m' ->
  exists i0 J,
    asc (S i0) J /\ S (List.length J) = List.length tie /\
    (forall j, In j (i0 :: J) -> exists p, In p tie /\ index_of p (names (m_st m)) = Some j) /\
    params (m_st m') = drop_pos J 0 (params (m_st m)) /\
    names (m_st m') = (match new_name with Some n => set_nth i0 n | None => fun l => l end)
                        (drop_pos J 0 (names (m_st m))) /\
    List.length (params (m_st m')) + List.length J = List.length (params (m_st m)) /\
    List.length (names (m_st m')) = List.length (params (m_st m')) /\
    (match new_name with
     | None => True
     | Some n => ~ In n (drop_pos J 0 (names (m_st m)))
     end -> NoDup (names (m_st m'))) /\
    m_dummy m' = m_dummy m /\
    forall ap vals, (forall j, In j J -> nth j vals VErr = nth i0 vals VErr) ->
      let vals' := drop_pos J 0 vals in
      read_map ap (m_scat m') vals' = read_map ap (m_scat m) vals /\
      read_map ap (m_theory m') vals' = read_map ap (m_theory m) vals /\
      read_map ap (m_optics m') vals' = read_map ap (m_optics m) vals /\
      read_map ap (m_model m') vals' = read_map ap (m_model m) vals.
Proof. exact add_tie_ok. Qed.
Print Assumptions add_tie_spec.

(* ---- scatterer parameter dictionaries ------------------------------------------------------------------------ *)
Theorem flatten_unflatten_keys : forall {A} cls (ms : list (scat A)) j x,
  nth_error ms j = Some x -> collect j (scat_params (SGroup cls ms)) = scat_params x.
Proof. exact @flatten_unflatten_keys_l. Qed.
Print Assumptions flatten_unflatten_keys.

(* from_parameters with a complete dictionary overwrites every value of the template, nothing else *)
Theorem from_parameters_places_every_value : forall {A} (s : scat A), good s -> forall (f g : A -> val),
  sc_from (smap f s) (vmap g (scat_params s)) = smap g s.
Proof. exact @from_parameters_full. Qed.
Print Assumptions from_parameters_places_every_value.

Theorem rebuild_id : forall s : scat val, good s -> sc_from s (scat_params s) = s.
Proof. exact rebuild_id_l. Qed.
Print Assumptions rebuild_id.

(* ---- the open defect, as a statement about the faithful model --------------------------------------------------- *)
Theorem rigid_cluster_in_model_loses_parameters :
  params (m_st rigid_model) = [0] /\ names (m_st rigid_model) = ["translation.0"] /\
  lookup "translation" (as_dict (read_map apply_fn (m_scat rigid_model) [vnum 5]))
    = Some (VList [vnum 5; vnum 0; vnum 0]) /\
  (forall v w, scatterer_from_parameters rigid_model [v] = scatterer_from_parameters rigid_model [w]) /\
  scatterer_from_parameters rigid_model [vnum 5]
    <> scat_subst apply_fn (sig (params (m_st rigid_model)) [vnum 5]) rigid_example.
Proof. exact rigid_model_params_refuted. Qed.
Print Assumptions rigid_cluster_in_model_loses_parameters.

(** ---- non-vacuity: the hypotheses are satisfiable by concrete, non-trivial objects ------------------------------- *)
(* two spheres sharing one prior object (id 0) for n, two priors both explicitly named "x" (collision ->
   x, x_0), an unnamed prior in a list (center.1 -> "1:center.1"), and a transformation *)
Definition ex_scat : scat pv :=
  SGroup "Spheres"
    [SLeaf "Sphere" [("n", PPrior 0); ("r", PPrior 1); ("center", PNode KList [PConst (CNum 0); PConst (CNum 0); PConst (CNum 0)])];
     SLeaf "Sphere" [("n", PPrior 0); ("r", PPrior 2);
                     ("center", PNode KList [PConst (CNum 3); PPrior 3;
                                             PNode (KTrans FAdd None) [PPrior 1; PConst (CNum 1)]])]].
Definition ex_pname (id : nat) : option string := match id with 1 | 2 => Some "x" | _ => None end.
Definition ex_model : model := model_init ex_pname ex_scat (PNode (KDict []) []) (PNode (KDict []) []) (PNode (KDict []) []).

Example hyps_satisfiable :
  good ex_scat /\ no_none ex_scat /\ Inv st0 /\
  names (m_st ex_model) = ["n"; "x"; "x_0"; "1:center.1"] /\ params (m_st ex_model) = [0; 1; 2; 3]%nat /\
  asc 2 [2; 3]%nat /\
  (exists m', add_tie (fun _ => 0%Z) ["x_0"; "x"] (Some "tied") ex_model = Some m' /\
              names (m_st m') = ["n"; "tied"; "1:center.1"]) /\
  scatterer_from_parameters ex_model [vnum 7; vnum 8; vnum 9; vnum 10] =
    SGroup "Spheres"
      [SLeaf "Sphere" [("n", vnum 7); ("r", vnum 8); ("center", VList [vnum 0; vnum 0; vnum 0])];
       SLeaf "Sphere" [("n", vnum 7); ("r", vnum 9); ("center", VList [vnum 3; vnum 10; vnum 9])]].
Proof.
  split; [|split; [|split; [|split; [|split; [|split; [|split]]]]]].
  - constructor. repeat constructor; simpl; intuition congruence.
  - unfold no_none. vm_compute. repeat constructor.
  - exact Inv_st0.
  - vm_compute. reflexivity.
  - vm_compute. reflexivity.
  - simpl. repeat split; auto with arith.
  - eexists. split; vm_compute; reflexivity.
  - vm_compute. reflexivity.
Qed.

(** C01 - hologram = |scaling * scattered field + unit reference wave|^2 on the detector.
    Executable model (no proofs here).
    Anchors: scattering/interface.py (calc_holo, calc_field, calc_intensity, prep_schema, finalize,
    scattered_field_to_hologram), scattering/imageformation.py (_get_field_from,
    _transform_to_desired_coordinates, _pack_field_into_xarray), core/metadata.py (to_vector, flat,
    from_flat, update_metadata, copy_metadata), core/utils.py (updated).
    Oracles (arguments, never axioms): the scattering theory [raw] (Fortran / numpy solvers), the
    square root inside to_vector ([nrm]), cos/sin of k*z_c inside the per-scatterer phase. *)
From Coq Require Import ZArith QArith List Bool String.
From HV Require Import Common.Generic.
Import ListNotations.

(** * Discrete part: flattening of a detector grid and its inverse (no number carrier needed) *)

(** [flat(a) = a.stack(flat=('x','y','z'))]: x-major, then y, then z *)
Definition flat_coords {A} (xs ys zs : list A) : list (A * A * A) :=
  flat_map (fun x => flat_map (fun y => map (fun z => (x, y, z)) zs) ys) xs.

(** [from_flat(a) = a.unstack('flat')]: [k] consecutive chunks of length [n] *)
Fixpoint chunk {A} (n k : nat) (l : list A) : list (list A) :=
  match k with
  | O => []
  | S k' => firstn n l :: chunk n k' (skipn n l)
  end.
(** result image as result[ix][iy][iz] *)
Definition unflatten {A} (nx ny nz : nat) (l : list A) : list (list (list A)) :=
  map (chunk nz ny) (chunk (ny * nz) nx l).
(** the value a function takes on every pixel coordinate of the grid, as an image *)
Definition image_of {A B} (f : A * A * A -> B) (xs ys zs : list A) : list (list (list B)) :=
  map (fun x => map (fun y => map (fun z => f (x, y, z)) zs) ys) xs.
(** numpy ravel index of pixel (ix, iy, iz) in the stacked order *)
Definition flat_index (ny nz ix iy iz : nat) : nat := (ix * ny + iy) * nz + iz.

(** * Metadata: attrs as an association list in dict order; a value may be None *)
Section Attrs.
Context {V : Type}.
Definition attrs : Type := list (string * option V).
(** python [d[key] = val]: replace in place, or append *)
Fixpoint set_key (k : string) (v : option V) (d : attrs) : attrs :=
  match d with
  | [] => [(k, v)]
  | (k', v') :: t => if String.eqb k' k then (k, v) :: t else (k', v') :: set_key k v t
  end.
Fixpoint lookup (k : string) (d : attrs) : option (option V) :=
  match d with
  | [] => None
  | (k', v') :: t => if String.eqb k' k then Some v' else lookup k t
  end.
Definition has_key (k : string) (d : attrs) : bool :=
  match lookup k d with Some _ => true | None => false end.
(** utils.updated(d, update): None never overwrites (filter_none=True) *)
Definition updated (d : attrs) (upd : attrs) : attrs :=
  fold_left (fun (d : attrs) (kv : string * option V) =>
               match snd kv with Some _ => set_key (fst kv) (snd kv) d | None => d end) upd d.
(** metadata.update_metadata: the four optics keys, then "if not hasattr(b, attr): b.attrs[attr] = None" *)
Definition optics_list (mi wl pol nsd : option V) : attrs :=
  [("medium_index", mi); ("illum_wavelen", wl); ("illum_polarization", pol); ("noise_sd", nsd)]%string.
Definition update_metadata (d : attrs) (mi wl pol nsd : option V) : attrs :=
  fold_left (fun (b : attrs) (kv : string * option V) =>
               if has_key (fst kv) b then b else set_key (fst kv) None b)
            (optics_list mi wl pol nsd) (updated d (optics_list mi wl pol nsd)).
(** value seen by [detector.illum_wavelen] etc.: None when absent or stored as None *)
Definition attr_value (k : string) (d : attrs) : option V :=
  match lookup k d with Some (Some v) => Some v | _ => None end.

(** interface.prep_schema (single illumination): which MissingParameter, or the updated attrs *)
Inductive missing := MissingWavelength | MissingMedium | MissingPolarization.
Definition prep_schema (d : attrs) (mi wl pol : option V) : missing + attrs :=
  let b := update_metadata d mi wl pol None in
  match attr_value "illum_wavelen" b with
  | None => inl MissingWavelength
  | Some _ =>
    match attr_value "medium_index" b with
    | None => inl MissingMedium
    | Some _ =>
      match attr_value "illum_polarization" b with
      | None => inl MissingPolarization
      | Some _ => inr b
      end
    end
  end.
(** attrs carried by the results: calc_holo / calc_field finalize against the updated schema.
    [intensity_attrs_as_coded] is what calc_intensity does (finalize(detector, ...)): see Findings.v *)
Definition result_attrs (d : attrs) (mi wl pol : option V) : missing + attrs := prep_schema d mi wl pol.
Definition intensity_attrs_as_coded (d : attrs) (mi wl pol : option V) : missing + attrs :=
  match prep_schema d mi wl pol with inl e => inl e | inr _ => inr d end.
End Attrs.
Arguments attrs V : clear implicits.

(** * Histories: a process answers a list of requests one after the other.  The Python layer keeps
    no state between requests (a fresh ImageFormation per call, theory objects are not written to),
    so the model threads a state that is never read.  The Fortran COMMON/SAVE state cannot be exhibited
    here; it is executed by the harness (X(history)). *)
Section History.
Context {Req Resp : Type} (respond : Req -> Resp).
Definition run_history (reqs : list Req) : list Resp :=
  rev (fold_left (fun (done : list Resp) (r : Req) => respond r :: done) reqs []).
End History.

(** * Numeric part, generic over the carrier *)
Section Gen.
Context {T : Type} (O : Ops T).
Declare Scope t_scope. Delimit Scope t_scope with t.
Local Notation "x + y" := (add O x y) : t_scope. Local Notation "x * y" := (mul O x y) : t_scope.
Local Notation "x - y" := (sub O x y) : t_scope. Local Notation "- x" := (opp O x) : t_scope.
Local Notation "x / y" := (mul O x (inv O y)) : t_scope.
Local Open Scope t_scope.

(** complex numbers as pairs *)
Definition cplx : Type := (T * T)%type.
Definition cadd (a b : cplx) : cplx := (fst a + fst b, snd a + snd b).
Definition cmul (a b : cplx) : cplx := (fst a * fst b - snd a * snd b, fst a * snd b + snd a * fst b).
Definition cscale (s : T) (a : cplx) : cplx := (s * fst a, s * snd a).
Definition cofR (x : T) : cplx := (x, zero O).
Definition cabs2 (a : cplx) : T := fst a * fst a + snd a * snd a.

Definition vec3 : Type := (T * T * T)%type.
Definition cvec3 : Type := (cplx * cplx * cplx)%type.
Definition cv_mul (ph : cplx) (E : cvec3) : cvec3 :=
  let '(ex, ey, ez) := E in (cmul ex ph, cmul ey ph, cmul ez ph).
Definition cv_add (E F : cvec3) : cvec3 :=
  let '(ex, ey, ez) := E in let '(fx, fy, fz) := F in (cadd ex fx, cadd ey fy, cadd ez fz).

(** metadata.to_vector: a 2-vector gets a 0 appended; then c / sqrt(sum(c**2)); [nrm] is that sqrt *)
Definition pad2 (p : T * T) : vec3 := (fst p, snd p, zero O).
Definition norm2 (p : vec3) : T := let '(px, py, pz) := p in px * px + py * py + pz * pz.
Definition to_vector (p : vec3) (nrm : T) : vec3 := let '(px, py, pz) := p in (px / nrm, py / nrm, pz / nrm).

(** scattered_field_to_hologram on one pixel, fed by calc_holo with scat * scaling:
    total = scat*scaling + ref ; sel(vector=[x,y]) ; abs**2 ; sum over vector *)
Definition holo_px (alpha : T) (E : cvec3) (p : vec3) : T :=
  let '(ex, ey, ez) := E in let '(px, py, pz) := p in
  cabs2 (cadd (cscale alpha ex) (cofR px)) + cabs2 (cadd (cscale alpha ey) (cofR py)).
(** calc_intensity on one pixel *)
Definition inten_px (E : cvec3) : T := let '(ex, ey, ez) := E in cabs2 ex + cabs2 ey.
(** Re <E, p> over the two transverse components (p real) *)
Definition re_dot (E : cvec3) (p : vec3) : T :=
  let '(ex, ey, ez) := E in let '(px, py, pz) := p in fst ex * px + fst ey * py.

(** ImageFormation._transform_to_desired_coordinates, cartesian detector:
    k*(x - cx), k*(y - cy), k*(cz - z)   (z is measured against the propagation direction) *)
Definition position (k : T) (c : vec3) (q : vec3) : vec3 :=
  let '(cx, cy, cz) := c in let '(x, y, z) := q in (k * (x - cx), k * (y - cy), k * (cz - z)).
(** phase = exp(-i k z_c); cos and sin of k*z_c are oracle leaves *)
Definition phase (ckz skz : T) : cplx := (ckz, - skz).

(** _get_field_from on the flattened detector: the theory [raw] sees the transformed positions
    and its answer is multiplied by the phase *)
Definition field_flat (raw : list vec3 -> list cvec3) (k : T) (c : vec3) (ckz skz : T)
           (pts : list vec3) : list cvec3 :=
  map (cv_mul (phase ckz skz)) (raw (map (position k c) pts)).
(** _calculate_scattered_field_from_superposition: first component, then += the others *)
Definition superpose (fields : list (list cvec3)) : list cvec3 :=
  match fields with
  | [] => []
  | f0 :: rest => fold_left (fun (acc : list cvec3) (f : list cvec3) =>
                               map (fun ab : cvec3 * cvec3 => cv_add (fst ab) (snd ab)) (combine acc f)) rest f0
  end.

(** a Scatterers collection the theory cannot handle as a whole: one component = its own theory answer,
    its own centre and its own phase (cos, sin of k*z_c); the fields are added *)
Definition comp : Type := ((list vec3 -> list cvec3) * vec3 * (T * T))%type.
Definition field_flat_sup (k : T) (comps : list comp) (pts : list vec3) : list cvec3 :=
  superpose (map (fun cm : comp => let '(raw, c, (ckz, skz)) := cm in field_flat raw k c ckz skz pts) comps).
(** a component whose theory is pointwise (the field at a point depends on that point only) *)
Definition ptcomp : Type := ((vec3 -> cvec3) * vec3 * (T * T))%type.
Definition lift_comp (cm : ptcomp) : comp := let '(rawpt, c, ph) := cm in (map rawpt, c, ph).
Definition ptfield (k : T) (cm : ptcomp) (q : vec3) : cvec3 :=
  let '(rawpt, c, (ckz, skz)) := cm in cv_mul (phase ckz skz) (rawpt (position k c q)).

(** the three public results on a flattened detector (point detectors, subsets) ... *)
Definition holo_flat (alpha : T) (p : vec3) (nrm : T) (fl : list cvec3) : list T :=
  map (fun E => holo_px alpha E (to_vector p nrm)) fl.
Definition inten_flat (fl : list cvec3) : list T := map inten_px fl.
(** ... and on a grid detector with coordinate vectors xs, ys, zs (finalize = from_flat) *)
Definition calc_field_img (raw : list vec3 -> list cvec3) (k : T) (c : vec3) (ckz skz : T)
           (xs ys zs : list T) : list (list (list cvec3)) :=
  unflatten (List.length xs) (List.length ys) (List.length zs) (field_flat raw k c ckz skz (flat_coords xs ys zs)).
Definition calc_holo_img (raw : list vec3 -> list cvec3) (k : T) (c : vec3) (ckz skz : T)
           (alpha : T) (p : vec3) (nrm : T) (xs ys zs : list T) : list (list (list T)) :=
  unflatten (List.length xs) (List.length ys) (List.length zs)
            (holo_flat alpha p nrm (field_flat raw k c ckz skz (flat_coords xs ys zs))).
Definition calc_inten_img (raw : list vec3 -> list cvec3) (k : T) (c : vec3) (ckz skz : T)
           (xs ys zs : list T) : list (list (list T)) :=
  unflatten (List.length xs) (List.length ys) (List.length zs)
            (inten_flat (field_flat raw k c ckz skz (flat_coords xs ys zs))).
(** the same for a superposed collection *)
Definition calc_field_img_sup (k : T) (comps : list comp) (xs ys zs : list T) : list (list (list cvec3)) :=
  unflatten (List.length xs) (List.length ys) (List.length zs) (field_flat_sup k comps (flat_coords xs ys zs)).
Definition calc_holo_img_sup (k : T) (comps : list comp) (alpha : T) (p : vec3) (nrm : T)
           (xs ys zs : list T) : list (list (list T)) :=
  unflatten (List.length xs) (List.length ys) (List.length zs)
            (holo_flat alpha p nrm (field_flat_sup k comps (flat_coords xs ys zs))).
Definition calc_inten_img_sup (k : T) (comps : list comp) (xs ys zs : list T) : list (list (list T)) :=
  unflatten (List.length xs) (List.length ys) (List.length zs)
            (inten_flat (field_flat_sup k comps (flat_coords xs ys zs))).
End Gen.

Arguments cplx T : clear implicits. Arguments vec3 T : clear implicits. Arguments cvec3 T : clear implicits.
Arguments comp T : clear implicits. Arguments ptcomp T : clear implicits.

(** * second executable instance: the same rational field with every result reduced to lowest terms.
    On [QO] every addition multiplies the denominators (the mock-pipeline model reaches 2^17000); [QOr]
    keeps dyadic denominators minimal.  Both are linked to [RO] (Lemmas.v section 6; Props [*_agrees_on_Q]). *)
Definition QOr : Ops Q :=
  mkOps Q 0%Q 1%Q (fun a b => Qred (a + b)) (fun a b => Qred (a * b)) (fun a b => Qred (a - b)) Qopp
        (fun a => Qred (/ a)) Qltb Qle_bool Qeq_bool (fun z => inject_Z z).

(** C01 property theorems: statements only; proofs are in Lemmas.v.
    R instance = object of the theorems; the Q instance that is executed against the implementation
    computes the same values (holo_agrees_on_Q, intensity_agrees_on_Q, to_vector_agrees_on_Q). *)
From Coq Require Import ZArith List Bool String Reals QArith Qreals Lra Permutation.
From HV Require Import Common.Generic C01.Model C01.Lemmas C01.Findings.
Import ListNotations.
Local Open Scope R_scope.

(* scaling 0 gives exactly 1, for every scattered field and every polarisation direction *)
Theorem holo_scaling0 : forall (E : cvec3 R) px py pz nrm,
  nrm * nrm = px * px + py * py + pz * pz -> nrm <> 0 -> pz = 0 ->
  holo_px RO 0 E (to_vector RO (px, py, pz) nrm) = 1.
Proof. exact Lemmas.holo_scaling0. Qed.
Print Assumptions holo_scaling0.

(* ... and so on the whole detector, whatever the theory returned *)
Theorem holo_scaling0_everywhere : forall (fl : list (cvec3 R)) px py pz nrm,
  nrm * nrm = px * px + py * py + pz * pz -> nrm <> 0 -> pz = 0 ->
  holo_flat RO 0 (px, py, pz) nrm fl = map (fun _ => 1) fl.
Proof. exact Lemmas.holo_scaling0_everywhere. Qed.
Print Assumptions holo_scaling0_everywhere.

(* hologram, intensity and scaling in one identity: |aE+p|^2 = |p|^2 + 2a Re<E,p> + a^2 |E|^2 *)
Theorem holo_expand : forall (alpha : R) (E : cvec3 R) (p : vec3 R),
  holo_px RO alpha E p =
  (let '(px, py, pz) := p in px * px + py * py)
  + 2 * alpha * re_dot RO E p + alpha * alpha * inten_px RO E.
Proof. exact Lemmas.holo_expand. Qed.
Print Assumptions holo_expand.

(* with the unit transverse reference to_vector produces: holo = 1 + 2a Re<E,p^> + a^2 I *)
Theorem holo_unit_expand : forall (alpha : R) (E : cvec3 R) px py pz nrm,
  nrm * nrm = px * px + py * py + pz * pz -> nrm <> 0 -> pz = 0 ->
  holo_px RO alpha E (to_vector RO (px, py, pz) nrm) =
  1 + 2 * alpha * re_dot RO E (to_vector RO (px, py, pz) nrm) + alpha * alpha * inten_px RO E.
Proof. exact Lemmas.holo_unit_expand. Qed.
Print Assumptions holo_unit_expand.

Theorem holo_nonneg : forall (alpha : R) (E : cvec3 R) (p : vec3 R),
  0 <= holo_px RO alpha E p /\ 0 <= inten_px RO E.
Proof. intros. split; [apply Lemmas.holo_nonneg|apply Lemmas.inten_nonneg]. Qed.
Print Assumptions holo_nonneg.

(* the intensity is the squared modulus of the scattered field alone = hologram without reference *)
Theorem intensity_is_holo_without_reference : forall (E : cvec3 R) pz,
  inten_px RO E = holo_px RO 1 E (0, 0, pz).
Proof. exact Lemmas.inten_is_holo_without_reference. Qed.
Print Assumptions intensity_is_holo_without_reference.

(* to_vector normalises to unit length *)
Theorem to_vector_unit : forall (p : vec3 R) nrm,
  nrm * nrm = norm2 RO p -> nrm <> 0 -> norm2 RO (to_vector RO p nrm) = 1.
Proof. exact Lemmas.to_vector_unit. Qed.
Print Assumptions to_vector_unit.

(* Cauchy-Schwarz bound on the interference term: (1 - a sqrt I)^2 <= holo <= (1 + a sqrt I)^2 *)
Theorem holo_interference_bound : forall (alpha : R) (E : cvec3 R) px py pz nrm,
  nrm * nrm = px * px + py * py + pz * pz -> nrm <> 0 -> pz = 0 ->
  let h := holo_px RO alpha E (to_vector RO (px, py, pz) nrm) in
  let I := inten_px RO E in
  (h - 1 - alpha * alpha * I) * (h - 1 - alpha * alpha * I) <= 4 * alpha * alpha * I.
Proof. exact Lemmas.holo_interference_bound. Qed.
Print Assumptions holo_interference_bound.

(* the per-scatterer phase exp(-i k z_c) never changes an intensity *)
Theorem phase_keeps_intensity : forall (E : cvec3 R) ckz skz,
  ckz * ckz + skz * skz = 1 -> inten_px RO (cv_mul RO (phase RO ckz skz) E) = inten_px RO E.
Proof. exact Lemmas.phase_keeps_intensity. Qed.
Print Assumptions phase_keeps_intensity.

(* flatten -> compute per point -> unflatten lands every value on its own pixel, all shapes *)
Theorem unflatten_flatten : forall (A B : Type) (f : A * A * A -> B) (xs ys zs : list A),
  unflatten (List.length xs) (List.length ys) (List.length zs) (map f (flat_coords xs ys zs))
  = image_of f xs ys zs.
Proof. intros. apply Lemmas.unflatten_flatten. Qed.
Print Assumptions unflatten_flatten.

(* the stacked order is C order over (x, y, z) *)
Theorem flat_coords_index : forall (A : Type) (xs ys zs : list A) (d : A) ix iy iz,
  (ix < List.length xs)%nat -> (iy < List.length ys)%nat -> (iz < List.length zs)%nat ->
  nth (flat_index (List.length ys) (List.length zs) ix iy iz) (flat_coords xs ys zs) (d, d, d)
  = (nth ix xs d, nth iy ys d, nth iz zs d).
Proof. intros. apply Lemmas.flat_coords_index; assumption. Qed.
Print Assumptions flat_coords_index.

(* whole-image statements: pixel (x,y,z) of the result is the formula at that pixel's own position *)
Theorem calc_holo_img_pointwise : forall (rawpt : vec3 R -> cvec3 R) k c ckz skz alpha p nrm (xs ys zs : list R),
  calc_holo_img RO (map rawpt) k c ckz skz alpha p nrm xs ys zs
  = image_of (fun q => holo_px RO alpha (cv_mul RO (phase RO ckz skz) (rawpt (position RO k c q)))
                               (to_vector RO p nrm)) xs ys zs.
Proof. exact Lemmas.calc_holo_img_pointwise. Qed.
Print Assumptions calc_holo_img_pointwise.

Theorem calc_field_img_pointwise : forall (rawpt : vec3 R -> cvec3 R) k c ckz skz (xs ys zs : list R),
  calc_field_img RO (map rawpt) k c ckz skz xs ys zs
  = image_of (fun q => cv_mul RO (phase RO ckz skz) (rawpt (position RO k c q))) xs ys zs.
Proof. exact Lemmas.calc_field_img_pointwise. Qed.
Print Assumptions calc_field_img_pointwise.

Theorem holo_img_pixelwise : forall (F : vec3 R -> cvec3 R) alpha p nrm (xs ys zs : list R),
  unflatten (List.length xs) (List.length ys) (List.length zs)
            (holo_flat RO alpha p nrm (map F (flat_coords xs ys zs)))
  = image_of (fun q => holo_px RO alpha (F q) (to_vector RO p nrm)) xs ys zs /\
  unflatten (List.length xs) (List.length ys) (List.length zs)
            (inten_flat RO (map F (flat_coords xs ys zs)))
  = image_of (fun q => inten_px RO (F q)) xs ys zs.
Proof. intros. split; [apply Lemmas.holo_img_pixelwise|apply Lemmas.inten_img_pixelwise]. Qed.
Print Assumptions holo_img_pixelwise.

(* point detectors / pixel subsets: result i is the formula on the field at point i (same order, same length) *)
Theorem point_detector_pointwise : forall (alpha : R) (p : vec3 R) (nrm : R) (fl : list (cvec3 R)) (i : nat),
  nth_error (holo_flat RO alpha p nrm fl) i
  = option_map (fun E => holo_px RO alpha E (to_vector RO p nrm)) (nth_error fl i) /\
  nth_error (inten_flat RO fl) i = option_map (inten_px RO) (nth_error fl i).
Proof. exact (Lemmas.holo_flat_nth RO). Qed.
Print Assumptions point_detector_pointwise.

(* a collection computed by superposition: the field on the flattened detector is, point by point, the sum
   of the components' phased fields, each taken relative to its own centre; any number of components *)
Theorem superposition_pointwise : forall k (cm0 : ptcomp R) (cms : list (ptcomp R)) (pts : list (vec3 R)),
  field_flat_sup RO k (map lift_comp (cm0 :: cms)) pts = map (sum_field k cm0 cms) pts.
Proof. exact (Lemmas.field_flat_sup_pointwise RO). Qed.
Print Assumptions superposition_pointwise.

Theorem calc_holo_img_superposed_pointwise : forall k (cm0 : ptcomp R) cms alpha p nrm (xs ys zs : list R),
  calc_holo_img_sup RO k (map lift_comp (cm0 :: cms)) alpha p nrm xs ys zs
  = image_of (fun q => holo_px RO alpha (sum_field k cm0 cms q) (to_vector RO p nrm)) xs ys zs /\
  calc_inten_img_sup RO k (map lift_comp (cm0 :: cms)) xs ys zs
  = image_of (fun q => inten_px RO (sum_field k cm0 cms q)) xs ys zs.
Proof. intros. split; [apply Lemmas.calc_holo_img_sup_pointwise|apply Lemmas.calc_inten_img_sup_pointwise]. Qed.
Print Assumptions calc_holo_img_superposed_pointwise.

(* metadata: every key of the result reads as in the detector, except the optics passed in *)
Theorem attrs_updated : forall (V : Type) (d : attrs V) mi wl pol nsd k,
  lookup k (update_metadata d mi wl pol nsd) =
  match optic_arg k mi wl pol nsd with
  | Some (Some v) => Some (Some v)
  | Some None => match lookup k d with Some x => Some x | None => Some None end
  | None => lookup k d
  end.
Proof. intros. apply Lemmas.attrs_updated. Qed.
Print Assumptions attrs_updated.

Theorem result_attrs_spec : forall (V : Type) (d : attrs V) mi wl pol b k,
  result_attrs d mi wl pol = inr b ->
  lookup k b = match optic_arg k mi wl pol None with
               | Some (Some v) => Some (Some v)
               | Some None => match lookup k d with Some x => Some x | None => Some None end
               | None => lookup k d
               end.
Proof. intros V d mi wl pol b k. apply Lemmas.result_attrs_spec. Qed.
Print Assumptions result_attrs_spec.

(* a calculation is accepted iff wavelength, medium index and polarisation are known from the
   arguments or from the detector *)
Theorem prep_schema_accepts_iff : forall (V : Type) (d : attrs V) mi wl pol,
  (exists b, prep_schema d mi wl pol = inr b) <->
  (effective wl "illum_wavelen" d <> None /\ effective mi "medium_index" d <> None /\
   effective pol "illum_polarization" d <> None).
Proof. intros. apply Lemmas.prep_schema_accepts_iff. Qed.
Print Assumptions prep_schema_accepts_iff.

(* partial by nature: the model is the Python layer, which keeps no state between calls; the
   Fortran COMMON/SAVE state is runtime state no Gallina model exhibits -- the harness executes
   histories (X(history)) for that part *)
Theorem pure_history_partial : forall (Req Resp : Type) (respond : Req -> Resp) (pre post : list Req) (r : Req),
  nth_error (run_history respond (pre ++ r :: post)) (List.length pre)
  = nth_error (run_history respond [r]) 0.
Proof. intros. apply Lemmas.pure_history. Qed.
Print Assumptions pure_history_partial.

Theorem history_permutation_partial : forall (Req Resp : Type) (respond : Req -> Resp) (l l' : list Req),
  Permutation l l' ->
  Permutation (combine l (run_history respond l)) (combine l' (run_history respond l')).
Proof. intros. apply Lemmas.history_permutation. assumption. Qed.
Print Assumptions history_permutation_partial.

(* what vm_compute runs on Q (plain [QO], and [QOr] = fractions reduced after every operation, the instance the
   harness executes) is what the theorems are about *)
Theorem holo_agrees_on_Q : forall (alpha : Q) (E : cvec3 Q) (p : vec3 Q),
  Q2R (holo_px QO alpha E p) = holo_px RO (Q2R alpha) (cvQ2R E) (vQ2R p) /\
  Q2R (holo_px QOr alpha E p) = holo_px RO (Q2R alpha) (cvQ2R E) (vQ2R p).
Proof. intros. split; [apply holo_px_Q_R|apply holo_px_Qr_R]. Qed.
Print Assumptions holo_agrees_on_Q.

Theorem intensity_agrees_on_Q : forall (E : cvec3 Q),
  Q2R (inten_px QO E) = inten_px RO (cvQ2R E) /\ Q2R (inten_px QOr E) = inten_px RO (cvQ2R E).
Proof. intros. split; [apply inten_px_Q_R|apply inten_px_Qr_R]. Qed.
Print Assumptions intensity_agrees_on_Q.

Theorem to_vector_agrees_on_Q : forall (p : vec3 Q) (nrm : Q),
  ~ (nrm == 0)%Q -> vQ2R (to_vector QO p nrm) = to_vector RO (vQ2R p) (Q2R nrm) /\
                    vQ2R (to_vector QOr p nrm) = to_vector RO (vQ2R p) (Q2R nrm).
Proof. intros p nrm H. split; [apply to_vector_Q_R|apply to_vector_Qr_R]; exact H. Qed.
Print Assumptions to_vector_agrees_on_Q.

(* the pieces of the image-formation pipeline on the executed instance: position transform, phase, sum *)
Theorem pipeline_agrees_on_Q : forall (k ckz skz : Q) (c q : vec3 Q) (E F : cvec3 Q),
  vQ2R (position QOr k c q) = position RO (Q2R k) (vQ2R c) (vQ2R q) /\
  cvQ2R (cv_mul QOr (phase QOr ckz skz) E) = cv_mul RO (phase RO (Q2R ckz) (Q2R skz)) (cvQ2R E) /\
  cvQ2R (cv_add QOr E F) = cv_add RO (cvQ2R E) (cvQ2R F).
Proof. intros. split; [apply position_Qr_R|split; [apply phased_Qr_R|apply cv_add_Qr_R]]. Qed.
Print Assumptions pipeline_agrees_on_Q.

(* non-vacuity: the hypotheses are satisfiable by a concrete non-trivial object (polarisation (3,4),
   nrm 5, a non-zero field; an accepted schema) *)
Example hyps_satisfiable :
  (5 * 5 = 3 * 3 + 4 * 4 + 0 * 0 /\ 5 <> 0 /\ (0:R) = 0) /\
  (holo_px QO 0 ((1#2, 1#3), (2#1, -1#1), (1#1, 1#1))%Q (to_vector QO (3, 4, 0)%Q 5%Q) == 1)%Q /\
  (exists b, prep_schema (V:=Z) [("noise_sd"%string, Some 7%Z)] (Some 1%Z) (Some 2%Z) (Some 3%Z) = inr b).
Proof. split; [repeat split; lra|]. split; [vm_compute; reflexivity|eexists; vm_compute; reflexivity]. Qed.

(* non-vacuity of the image statements: a 2 x 3 x 1 grid with distinct coordinates; the flattened order is
   x-major and unflatten puts value (x,y,z) at [ix][iy][iz]; a two-component superposition is not the
   single-component field *)
Example grid_nonvacuous :
  unflatten 2 3 1 (map (fun q : Z * Z * Z => let '(x, y, z) := q in (10 * x + y + z)%Z)
                       (flat_coords [1; 2] [3; 4; 5] [0]))%Z
  = [[[13]; [14]; [15]]; [[23]; [24]; [25]]]%Z /\
  (let cm1 : ptcomp Q := ((fun q => let '(X, Y, Z) := q in ((X, Y), (Z, 0), (1, 0)))%Q, (0, 0, 4)%Q, (0, 1)%Q) in
   let cm2 : ptcomp Q := ((fun q => let '(X, Y, Z) := q in ((Y, X), (0, Z), (1, 0)))%Q, (1, 0, 3)%Q, (1, 0)%Q) in
   calc_inten_img_sup QO 2%Q (map lift_comp [cm1; cm2]) [1] [2] [0]%Q <>
   calc_inten_img_sup QO 2%Q (map lift_comp [cm1]) [1] [2] [0]%Q)%Q /\
  run_history (fun r : Z => (r * r)%Z) [3; 1; 3]%Z = [9; 1; 9]%Z.
Proof. split; [vm_compute; reflexivity|]. split; [vm_compute; discriminate|vm_compute; reflexivity]. Qed.

(** Models of code variants that violate the property, with computed witnesses. *)
From Coq Require Import ZArith QArith List Bool String.
From HV Require Import Common.Generic C01.Model.
Import ListNotations.
Open Scope string_scope.

(** calc_intensity ends with [finalize(detector, intensity)] -- the detector as it was passed in, not
    the schema updated by prep_schema -- so the optics given as arguments are missing from the result
    (calc_holo and calc_field use the updated schema).  Witness: detector_grid attrs (all None),
    medium_index = 1, illum_wavelen = 2, illum_polarization = 3 passed in. *)
Theorem intensity_attrs_as_coded_refuted :
  exists (d : attrs Z) (mi wl pol : option Z) (b c : attrs Z),
    result_attrs d mi wl pol = inr b /\ intensity_attrs_as_coded d mi wl pol = inr c /\
    lookup "medium_index" b = Some (Some 1%Z) /\ lookup "medium_index" c = Some None.
Proof.
  exists [("medium_index", None); ("illum_wavelen", None); ("illum_polarization", None); ("noise_sd", None)],
         (Some 1%Z), (Some 2%Z), (Some 3%Z).
  eexists. eexists. vm_compute. repeat split.
Qed.

(** a reference wave that is not normalised (to_vector without the division) does not give 1 at
    scaling 0: polarisation (1,1) gives 2 *)
Theorem unnormalised_reference_refuted :
  exists (E : cvec3 Q) (p : vec3 Q), ~ (holo_px QO 0 E p == 1)%Q.
Proof. exists ((0,0),(0,0),(0,0))%Q, (1,1,0)%Q. vm_compute. discriminate. Qed.

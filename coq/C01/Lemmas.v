From Coq Require Import ZArith List Bool String Reals QArith Qreals Lra Lia Psatz Permutation.
From HV Require Import Common.Generic C01.Model.
(* keeps Findings.vo built whenever the obligations are (Props.v imports it) *)
From HV Require C01.Findings.
Import ListNotations.

(** * 1. Flattening and un-flattening of a detector grid, all shapes *)
Section Flat.
Context {A B : Type}.

Lemma chunk_app (n k : nat) (l1 l2 : list B) :
  List.length l1 = n -> chunk n (S k) (l1 ++ l2) = l1 :: chunk n k l2.
Proof.
  intros H. simpl. rewrite firstn_app, skipn_app, H, Nat.sub_diag. simpl.
  rewrite <- H at 1. rewrite firstn_all, app_nil_r.
  rewrite <- H. rewrite skipn_all. reflexivity.
Qed.

Lemma chunk_flat_map (g : A -> list B) n (xs : list A) :
  (forall x, List.length (g x) = n) -> chunk n (List.length xs) (flat_map g xs) = map g xs.
Proof.
  intros H. induction xs as [|x t IH]; [reflexivity|].
  cbn [flat_map List.length map]. rewrite chunk_app by apply H. rewrite IH. reflexivity.
Qed.

Lemma length_flat_map_const (g : A -> list B) n (xs : list A) :
  (forall x, List.length (g x) = n) -> List.length (flat_map g xs) = (List.length xs * n)%nat.
Proof.
  intros H. induction xs as [|x t IH]; [reflexivity|].
  cbn [flat_map List.length]. rewrite app_length, IH, H. lia.
Qed.

Lemma nth_flat_map_const (g : A -> list B) n (xs : list A) dx d : (forall x, List.length (g x) = n) ->
  forall i j, (i < List.length xs)%nat -> (j < n)%nat ->
  nth (i * n + j) (flat_map g xs) d = nth j (g (nth i xs dx)) d.
Proof.
  intros H. induction xs as [|x t IH]; intros i j Hi Hj; [simpl in Hi; lia|].
  cbn [flat_map]. destruct i as [|i].
  - simpl. rewrite app_nth1 by (rewrite H; exact Hj). reflexivity.
  - rewrite app_nth2 by (rewrite H; lia). rewrite H.
    replace (S i * n + j - n)%nat with (i * n + j)%nat by lia.
    simpl in Hi. rewrite IH by lia. reflexivity.
Qed.
End Flat.

Lemma map_flat_map {A B C} (f : B -> C) (g : A -> list B) (xs : list A) :
  map f (flat_map g xs) = flat_map (fun x => map f (g x)) xs.
Proof. induction xs as [|x t IH]; [reflexivity|]. cbn [flat_map]. rewrite map_app, IH. reflexivity. Qed.

Lemma map_flat_coords {A B} (f : A * A * A -> B) (xs ys zs : list A) :
  map f (flat_coords xs ys zs)
  = flat_map (fun x => flat_map (fun y => map (fun z => f (x, y, z)) zs) ys) xs.
Proof.
  unfold flat_coords. rewrite map_flat_map. apply flat_map_ext. intros x.
  rewrite map_flat_map. apply flat_map_ext. intros y. rewrite map_map. reflexivity.
Qed.

Lemma length_flat_coords {A} (xs ys zs : list A) :
  List.length (flat_coords xs ys zs) = (List.length xs * (List.length ys * List.length zs))%nat.
Proof.
  unfold flat_coords. apply length_flat_map_const. intros x.
  apply length_flat_map_const. intros y. apply map_length.
Qed.

(** un-flattening what was computed pixel by pixel on the flattened grid puts every value on
    the coordinate it was computed for -- any shape, including empty axes *)
Lemma unflatten_flatten {A B} (f : A * A * A -> B) (xs ys zs : list A) :
  unflatten (List.length xs) (List.length ys) (List.length zs) (map f (flat_coords xs ys zs))
  = image_of f xs ys zs.
Proof.
  unfold unflatten, image_of. rewrite map_flat_coords.
  rewrite (chunk_flat_map (fun x => flat_map (fun y => map (fun z => f (x, y, z)) zs) ys)
                          (List.length ys * List.length zs)).
  - rewrite map_map. apply map_ext. intros x.
    apply (chunk_flat_map (fun y => map (fun z => f (x, y, z)) zs)). intros y. apply map_length.
  - intros x. apply length_flat_map_const. intros y. apply map_length.
Qed.

(** the stacked order is numpy's C order: pixel (ix,iy,iz) sits at (ix*ny+iy)*nz+iz *)
Lemma flat_coords_index {A} (xs ys zs : list A) (d : A) ix iy iz :
  (ix < List.length xs)%nat -> (iy < List.length ys)%nat -> (iz < List.length zs)%nat ->
  nth (flat_index (List.length ys) (List.length zs) ix iy iz) (flat_coords xs ys zs) (d, d, d)
  = (nth ix xs d, nth iy ys d, nth iz zs d).
Proof.
  intros Hx Hy Hz. unfold flat_index, flat_coords.
  replace ((ix * List.length ys + iy) * List.length zs + iz)%nat
    with (ix * (List.length ys * List.length zs) + (iy * List.length zs + iz))%nat by lia.
  rewrite (nth_flat_map_const _ (List.length ys * List.length zs) xs d).
  - rewrite (nth_flat_map_const _ (List.length zs) ys d).
    + rewrite (nth_indep _ (d, d, d) ((fun z => (nth ix xs d, nth iy ys d, z)) d))
        by (rewrite map_length; exact Hz).
      rewrite map_nth. reflexivity.
    + intros y. apply map_length.
    + exact Hy.
    + exact Hz.
  - intros x. apply length_flat_map_const. intros y. apply map_length.
  - exact Hx.
  - nia.
Qed.

(** * 2. Metadata *)
Section AttrsLemmas.
Context {V : Type}.
Implicit Types (d : attrs V) (k : string).

Lemma lookup_set_key k k' v d :
  lookup k (set_key k' v d) = if String.eqb k' k then Some v else lookup k d.
Proof.
  induction d as [|[k0 v0] t IH]; simpl.
  - reflexivity.
  - destruct (String.eqb_spec k0 k') as [E|E]; simpl.
    + subst k0. destruct (String.eqb k' k); reflexivity.
    + destruct (String.eqb_spec k0 k) as [E2|E2].
      * subst k0. destruct (String.eqb_spec k' k) as [E3|E3]; [congruence|reflexivity].
      * exact IH.
Qed.

Fixpoint upd_lookup k (upd : attrs V) (base : option (option V)) : option (option V) :=
  match upd with
  | [] => base
  | (k', v') :: t =>
    upd_lookup k t (match v' with Some _ => if String.eqb k' k then Some v' else base | None => base end)
  end.

Lemma lookup_updated k upd : forall d, lookup k (updated d upd) = upd_lookup k upd (lookup k d).
Proof.
  unfold updated. induction upd as [|[k' v'] t IH]; intros d; simpl; [reflexivity|].
  rewrite IH. destruct v' as [v|]; simpl; [|reflexivity]. rewrite lookup_set_key. reflexivity.
Qed.

Definition fill_step (b : attrs V) (kv : string * option V) : attrs V :=
  if has_key (fst kv) b then b else set_key (fst kv) None b.
Lemma lookup_fill_step k b kv :
  lookup k (fill_step b kv) =
  if String.eqb (fst kv) k then match lookup k b with Some x => Some x | None => Some None end
  else lookup k b.
Proof.
  unfold fill_step, has_key. destruct kv as [k' v']; simpl.
  destruct (String.eqb_spec k' k) as [E|E].
  - subst k'. destruct (lookup k b) eqn:L; [exact L|]. rewrite lookup_set_key, String.eqb_refl. reflexivity.
  - destruct (lookup k' b); [reflexivity|]. rewrite lookup_set_key.
    destruct (String.eqb_spec k' k); [contradiction|reflexivity].
Qed.

(** which argument of update_metadata a key names *)
Definition optic_arg k (mi wl pol nsd : option V) : option (option V) :=
  if String.eqb k "medium_index" then Some mi
  else if String.eqb k "illum_wavelen" then Some wl
  else if String.eqb k "illum_polarization" then Some pol
  else if String.eqb k "noise_sd" then Some nsd
  else None.

Ltac attrs_fin d :=
  cbn; try reflexivity;
  match goal with |- context [lookup ?kk d] => destruct (lookup kk d) as [[?|]|]; reflexivity end.

Lemma attrs_updated d mi wl pol nsd k :
  lookup k (update_metadata d mi wl pol nsd) =
  match optic_arg k mi wl pol nsd with
  | Some (Some v) => Some (Some v)
  | Some None => match lookup k d with Some x => Some x | None => Some None end
  | None => lookup k d
  end.
Proof.
  change (update_metadata d mi wl pol nsd)
    with (fold_left fill_step (optics_list mi wl pol nsd) (updated d (optics_list mi wl pol nsd))).
  unfold optics_list. cbn [fold_left].
  repeat rewrite lookup_fill_step. rewrite lookup_updated. cbn [fst upd_lookup].
  unfold optic_arg.
  destruct mi as [mi|], wl as [wl|], pol as [pol|], nsd as [nsd|];
  (destruct (String.eqb_spec k "medium_index") as [E1|E1]; [subst k; attrs_fin d|]);
  (destruct (String.eqb_spec k "illum_wavelen") as [E2|E2]; [subst k; attrs_fin d|]);
  (destruct (String.eqb_spec k "illum_polarization") as [E3|E3]; [subst k; attrs_fin d|]);
  (destruct (String.eqb_spec k "noise_sd") as [E4|E4]; [subst k; attrs_fin d|]);
  (assert (N1 : String.eqb "medium_index" k = false) by (apply String.eqb_neq; congruence));
  (assert (N2 : String.eqb "illum_wavelen" k = false) by (apply String.eqb_neq; congruence));
  (assert (N3 : String.eqb "illum_polarization" k = false) by (apply String.eqb_neq; congruence));
  (assert (N4 : String.eqb "noise_sd" k = false) by (apply String.eqb_neq; congruence));
  rewrite N1, N2, N3, N4; reflexivity.
Qed.

(** the value the schema exposes for an optics key: the argument if given, else the detector's *)
Definition effective (arg : option V) k d : option V :=
  match arg with Some v => Some v | None => attr_value k d end.

Lemma attr_value_updated d mi wl pol nsd k :
  attr_value k (update_metadata d mi wl pol nsd) =
  match optic_arg k mi wl pol nsd with
  | Some arg => effective arg k d
  | None => attr_value k d
  end.
Proof.
  unfold attr_value, effective. rewrite attrs_updated.
  destruct (optic_arg k mi wl pol nsd) as [[v|]|]; try reflexivity.
  unfold attr_value. destruct (lookup k d) as [[?|]|]; reflexivity.
Qed.

Lemma prep_schema_spec d mi wl pol :
  prep_schema d mi wl pol =
  match effective wl "illum_wavelen" d with
  | None => inl MissingWavelength
  | Some _ =>
    match effective mi "medium_index" d with
    | None => inl MissingMedium
    | Some _ =>
      match effective pol "illum_polarization" d with
      | None => inl MissingPolarization
      | Some _ => inr (update_metadata d mi wl pol None)
      end
    end
  end.
Proof. unfold prep_schema. repeat rewrite attr_value_updated. reflexivity. Qed.

Lemma prep_schema_accepts_iff d mi wl pol :
  (exists b, prep_schema d mi wl pol = inr b) <->
  (effective wl "illum_wavelen" d <> None /\ effective mi "medium_index" d <> None /\
   effective pol "illum_polarization" d <> None).
Proof.
  rewrite prep_schema_spec.
  destruct (effective wl "illum_wavelen" d), (effective mi "medium_index" d),
           (effective pol "illum_polarization" d); split;
    try (intros [b H]; discriminate); try (intros (H1 & H2 & H3); congruence);
    try (intros _; repeat split; discriminate); try (intros _; eexists; reflexivity).
Qed.

(** what the property demands of a result's attrs: every key reads as in the detector, except the
    optics that were passed in, which read as passed *)
Lemma result_attrs_spec d mi wl pol b k :
  result_attrs d mi wl pol = inr b ->
  lookup k b = match optic_arg k mi wl pol None with
               | Some (Some v) => Some (Some v)
               | Some None => match lookup k d with Some x => Some x | None => Some None end
               | None => lookup k d
               end.
Proof.
  unfold result_attrs. rewrite prep_schema_spec.
  destruct (effective wl "illum_wavelen" d); [|discriminate].
  destruct (effective mi "medium_index" d); [|discriminate].
  destruct (effective pol "illum_polarization" d); [|discriminate].
  intros H. inversion H. apply attrs_updated.
Qed.
End AttrsLemmas.

(** * 3. Histories *)
Section HistoryLemmas.
Context {Req Resp : Type} (respond : Req -> Resp).

Lemma run_history_map (reqs : list Req) : run_history respond reqs = map respond reqs.
Proof.
  unfold run_history.
  assert (G : forall l acc, fold_left (fun (done : list Resp) (r : Req) => respond r :: done) l acc
                            = rev (map respond l) ++ acc).
  { induction l as [|x t IH]; intros acc; simpl; [reflexivity|]. rewrite IH, <- app_assoc. reflexivity. }
  rewrite G, app_nil_r, rev_involutive. reflexivity.
Qed.

(** every response equals the response to the same request issued alone, whatever came before or after *)
Lemma pure_history (pre post : list Req) (r : Req) :
  nth_error (run_history respond (pre ++ r :: post)) (List.length pre) = nth_error (run_history respond [r]) 0.
Proof.
  rewrite !run_history_map, map_app. simpl.
  rewrite nth_error_app2 by (rewrite map_length; lia). rewrite map_length, Nat.sub_diag. reflexivity.
Qed.

(** re-ordering the calculations re-orders the responses and changes none *)
Lemma history_permutation (l l' : list Req) :
  Permutation l l' ->
  Permutation (combine l (run_history respond l)) (combine l' (run_history respond l')).
Proof.
  intros H. rewrite !run_history_map.
  assert (E : forall m : list Req, combine m (map respond m) = map (fun r => (r, respond r)) m).
  { induction m as [|x t IH]; simpl; [reflexivity|]. rewrite IH. reflexivity. }
  rewrite !E. apply Permutation_map. exact H.
Qed.
End HistoryLemmas.

(** * 3b. Superposition of components and point detectors (no arithmetic law needed: any carrier) *)
Section Sup.
Context {T : Type} (O : Ops T).

Lemma zipadd_map {A} (g h : A -> cvec3 T) (pts : list A) :
  map (fun ab : cvec3 T * cvec3 T => cv_add O (fst ab) (snd ab)) (combine (map g pts) (map h pts))
  = map (fun q => cv_add O (g q) (h q)) pts.
Proof. induction pts as [|q t IH]; simpl; [reflexivity|]. rewrite IH. reflexivity. Qed.

Lemma superpose_fold {A B} (F : B -> A -> cvec3 T) (pts : list A) (cs : list B) : forall (g0 : A -> cvec3 T),
  fold_left (fun (acc : list (cvec3 T)) (f : list (cvec3 T)) =>
               map (fun ab : cvec3 T * cvec3 T => cv_add O (fst ab) (snd ab)) (combine acc f))
            (map (fun c => map (F c) pts) cs) (map g0 pts)
  = map (fun q => fold_left (fun (acc : cvec3 T) (c : B) => cv_add O acc (F c q)) cs (g0 q)) pts.
Proof.
  induction cs as [|c1 cs IH]; intros g0; simpl; [reflexivity|].
  rewrite zipadd_map. apply (IH (fun q => cv_add O (g0 q) (F c1 q))).
Qed.

Lemma superpose_pointwise {A B} (F : B -> A -> cvec3 T) (pts : list A) (c0 : B) (cs : list B) :
  superpose O (map (fun c => map (F c) pts) (c0 :: cs))
  = map (fun q => fold_left (fun (acc : cvec3 T) (c : B) => cv_add O acc (F c q)) cs (F c0 q)) pts.
Proof. simpl. apply superpose_fold. Qed.

Lemma field_flat_pt (k : T) (cm : ptcomp T) (pts : list (vec3 T)) :
  (let '(raw, c, (ckz, skz)) := lift_comp cm in field_flat O raw k c ckz skz pts) = map (ptfield O k cm) pts.
Proof.
  destruct cm as [[rawpt c] [ckz skz]]. unfold lift_comp, field_flat, ptfield. rewrite !map_map. reflexivity.
Qed.

Lemma field_flat_sup_pointwise (k : T) (cm0 : ptcomp T) (cms : list (ptcomp T)) (pts : list (vec3 T)) :
  field_flat_sup O k (map lift_comp (cm0 :: cms)) pts
  = map (fun q => fold_left (fun (acc : cvec3 T) (cm : ptcomp T) => cv_add O acc (ptfield O k cm q)) cms (ptfield O k cm0 q)) pts.
Proof.
  unfold field_flat_sup. rewrite map_map.
  rewrite (map_ext _ (fun cm => map (ptfield O k cm) pts)) by (intros cm; apply field_flat_pt).
  apply superpose_pointwise.
Qed.

(* point detectors / subsets: results stay in the order of the points *)
Lemma holo_flat_nth (alpha : T) (p : vec3 T) (nrm : T) (fl : list (cvec3 T)) (i : nat) :
  nth_error (holo_flat O alpha p nrm fl) i = option_map (fun E => holo_px O alpha E (to_vector O p nrm)) (nth_error fl i)
  /\ nth_error (inten_flat O fl) i = option_map (inten_px O) (nth_error fl i).
Proof. unfold holo_flat, inten_flat. split; apply nth_error_map. Qed.
End Sup.

(** * 4. The hologram formula over the reals *)
Local Open Scope R_scope.

Definition cvR : Type := cvec3 R.
Definition vR : Type := vec3 R.

Lemma holo_expand (alpha : R) (E : cvR) (p : vR) :
  holo_px RO alpha E p =
  (let '(px, py, pz) := p in px * px + py * py)
  + 2 * alpha * re_dot RO E p + alpha * alpha * inten_px RO E.
Proof.
  destruct E as [[[exr exi] [eyr eyi]] [ezr ezi]]. destruct p as [[px py] pz].
  unfold holo_px, inten_px, re_dot, cabs2, cadd, cscale, cofR. cbn. ring.
Qed.

Lemma sqnn (x : R) : 0 <= x * x. Proof. nra. Qed.

Lemma holo_nonneg (alpha : R) (E : cvR) (p : vR) : 0 <= holo_px RO alpha E p.
Proof.
  destruct E as [[[exr exi] [eyr eyi]] [ezr ezi]]. destruct p as [[px py] pz].
  unfold holo_px, cabs2, cadd, cscale, cofR. cbn.
  repeat apply Rplus_le_le_0_compat; apply sqnn.
Qed.

Lemma inten_nonneg (E : cvR) : 0 <= inten_px RO E.
Proof.
  destruct E as [[[exr exi] [eyr eyi]] [ezr ezi]]. unfold inten_px, cabs2. cbn.
  repeat apply Rplus_le_le_0_compat; apply sqnn.
Qed.

(** the intensity is the hologram without the reference wave *)
Lemma inten_is_holo_without_reference (E : cvR) pz : inten_px RO E = holo_px RO 1 E (0, 0, pz).
Proof.
  destruct E as [[[exr exi] [eyr eyi]] [ezr ezi]].
  unfold holo_px, inten_px, cabs2, cadd, cscale, cofR. cbn. ring.
Qed.

(** to_vector gives a unit vector (nrm is the square root the code takes) *)
Lemma to_vector_unit (p : vR) nrm :
  nrm * nrm = norm2 RO p -> nrm <> 0 -> norm2 RO (to_vector RO p nrm) = 1.
Proof.
  destruct p as [[px py] pz]. unfold norm2, to_vector. cbn. intros H Hn.
  replace (px * / nrm * (px * / nrm) + py * / nrm * (py * / nrm) + pz * / nrm * (pz * / nrm))
    with ((px * px + py * py + pz * pz) * / (nrm * nrm)) by (field; exact Hn).
  rewrite <- H. field. exact Hn.
Qed.

Lemma to_vector_transverse (p : vR) nrm :
  (let '(px, py, pz) := p in pz = 0) -> (let '(qx, qy, qz) := to_vector RO p nrm in qz = 0).
Proof. destruct p as [[px py] pz]. cbn. intros ->. ring. Qed.

(** scaling 0: exactly 1, whatever the scattered field *)
Lemma holo_scaling0 (E : cvR) px py pz nrm :
  nrm * nrm = px * px + py * py + pz * pz -> nrm <> 0 -> pz = 0 ->
  holo_px RO 0 E (to_vector RO (px, py, pz) nrm) = 1.
Proof.
  intros H Hn Hz. rewrite holo_expand. cbn [to_vector].
  pose proof (to_vector_unit (px, py, pz) nrm) as U. unfold norm2 in U. cbn in U.
  specialize (U H Hn). subst pz. cbn.
  replace (0 * / nrm * (0 * / nrm)) with 0 in U by ring. lra.
Qed.

(** with a unit, transverse reference: holo = 1 + 2 a Re<E,p> + a^2 I *)
Lemma holo_unit_expand (alpha : R) (E : cvR) px py pz nrm :
  nrm * nrm = px * px + py * py + pz * pz -> nrm <> 0 -> pz = 0 ->
  holo_px RO alpha E (to_vector RO (px, py, pz) nrm) =
  1 + 2 * alpha * re_dot RO E (to_vector RO (px, py, pz) nrm) + alpha * alpha * inten_px RO E.
Proof.
  intros H Hn Hz. rewrite holo_expand.
  pose proof (to_vector_unit (px, py, pz) nrm) as U. unfold norm2 in U. cbn in U.
  specialize (U H Hn). subst pz. cbn [to_vector]. cbn.
  replace (0 * / nrm * (0 * / nrm)) with 0 in U by ring. lra.
Qed.

(** Cauchy-Schwarz: the interference term is bounded by the intensity, so the hologram lies
    between (1 - a sqrt I)^2 and (1 + a sqrt I)^2; sqrt-free form *)
Lemma re_dot_bound (E : cvR) (p : vR) :
  (let '(px, py, pz) := p in px * px + py * py <= 1) ->
  re_dot RO E p * re_dot RO E p <= inten_px RO E.
Proof.
  destruct E as [[[exr exi] [eyr eyi]] [ezr ezi]]. destruct p as [[px py] pz].
  unfold re_dot, inten_px, cabs2. cbn. intros H.
  assert (CS : (exr * px + eyr * py) * (exr * px + eyr * py)
               <= (exr * exr + eyr * eyr) * (px * px + py * py))
    by (pose proof (sqnn (exr * py - eyr * px)); nra).
  assert (0 <= exr * exr + eyr * eyr) by nra.
  assert (0 <= exi * exi) by nra. assert (0 <= eyi * eyi) by nra.
  nra.
Qed.

Lemma holo_interference_bound (alpha : R) (E : cvR) px py pz nrm :
  nrm * nrm = px * px + py * py + pz * pz -> nrm <> 0 -> pz = 0 ->
  let h := holo_px RO alpha E (to_vector RO (px, py, pz) nrm) in
  let I := inten_px RO E in
  (h - 1 - alpha * alpha * I) * (h - 1 - alpha * alpha * I) <= 4 * alpha * alpha * I.
Proof.
  intros H Hn Hz h I. unfold h. rewrite (holo_unit_expand alpha E px py pz nrm H Hn Hz). fold I.
  set (d := re_dot RO E (to_vector RO (px, py, pz) nrm)).
  assert (B : d * d <= I).
  { apply re_dot_bound. pose proof (to_vector_unit (px, py, pz) nrm) as U.
    unfold norm2 in U. cbn in U. specialize (U H Hn). cbn [to_vector]. subst pz. cbn.
    replace (0 * / nrm * (0 * / nrm)) with 0 in U by ring. lra. }
  replace (1 + 2 * alpha * d + alpha * alpha * I - 1 - alpha * alpha * I) with (2 * alpha * d) by ring.
  assert (0 <= alpha * alpha) by nra. nra.
Qed.

(** * 5. Whole images *)

(** the hologram image is the per-pixel formula on the pixel's own coordinate, for any theory whose
    phased field on the flattened grid is [F] evaluated on each point *)
Lemma holo_img_pixelwise (F : vR -> cvR) alpha p nrm (xs ys zs : list R) :
  unflatten (List.length xs) (List.length ys) (List.length zs)
            (holo_flat RO alpha p nrm (map F (flat_coords xs ys zs)))
  = image_of (fun q => holo_px RO alpha (F q) (to_vector RO p nrm)) xs ys zs.
Proof. unfold holo_flat. rewrite map_map. apply unflatten_flatten. Qed.

Lemma inten_img_pixelwise (F : vR -> cvR) (xs ys zs : list R) :
  unflatten (List.length xs) (List.length ys) (List.length zs)
            (inten_flat RO (map F (flat_coords xs ys zs)))
  = image_of (fun q => inten_px RO (F q)) xs ys zs.
Proof. unfold inten_flat. rewrite map_map. apply unflatten_flatten. Qed.

(** a pointwise theory (every pixel's raw field depends on that pixel's position only) gives
    exactly that through calc_holo_img *)
Lemma calc_holo_img_pointwise (rawpt : vR -> cvR) k c ckz skz alpha p nrm (xs ys zs : list R) :
  calc_holo_img RO (map rawpt) k c ckz skz alpha p nrm xs ys zs
  = image_of (fun q => holo_px RO alpha (cv_mul RO (phase RO ckz skz) (rawpt (position RO k c q)))
                               (to_vector RO p nrm)) xs ys zs.
Proof.
  unfold calc_holo_img, field_flat. rewrite !map_map.
  apply (holo_img_pixelwise (fun q => cv_mul RO (phase RO ckz skz) (rawpt (position RO k c q)))).
Qed.

Lemma calc_field_img_pointwise (rawpt : vR -> cvR) k c ckz skz (xs ys zs : list R) :
  calc_field_img RO (map rawpt) k c ckz skz xs ys zs
  = image_of (fun q => cv_mul RO (phase RO ckz skz) (rawpt (position RO k c q))) xs ys zs.
Proof. unfold calc_field_img, field_flat. rewrite !map_map. apply unflatten_flatten. Qed.

(** a collection handled by superposition: every pixel carries the formula applied to the SUM of the
    components' phased fields at that pixel's own position *)
Definition sum_field (k : R) (cm0 : ptcomp R) (cms : list (ptcomp R)) (q : vR) : cvR :=
  fold_left (fun (acc : cvR) (cm : ptcomp R) => cv_add RO acc (ptfield RO k cm q)) cms (ptfield RO k cm0 q).

Lemma calc_holo_img_sup_pointwise k (cm0 : ptcomp R) cms alpha p nrm (xs ys zs : list R) :
  calc_holo_img_sup RO k (map lift_comp (cm0 :: cms)) alpha p nrm xs ys zs
  = image_of (fun q => holo_px RO alpha (sum_field k cm0 cms q) (to_vector RO p nrm)) xs ys zs.
Proof.
  unfold calc_holo_img_sup. rewrite field_flat_sup_pointwise.
  apply (holo_img_pixelwise (sum_field k cm0 cms)).
Qed.

Lemma calc_inten_img_sup_pointwise k (cm0 : ptcomp R) cms (xs ys zs : list R) :
  calc_inten_img_sup RO k (map lift_comp (cm0 :: cms)) xs ys zs
  = image_of (fun q => inten_px RO (sum_field k cm0 cms q)) xs ys zs.
Proof.
  unfold calc_inten_img_sup. rewrite field_flat_sup_pointwise.
  apply (inten_img_pixelwise (sum_field k cm0 cms)).
Qed.

(** scaling 0 gives the all-ones image, for any theory output whatsoever (even a wrong length) *)
Lemma holo_scaling0_everywhere (fl : list cvR) px py pz nrm :
  nrm * nrm = px * px + py * py + pz * pz -> nrm <> 0 -> pz = 0 ->
  holo_flat RO 0 (px, py, pz) nrm fl = map (fun _ => 1) fl.
Proof.
  intros H Hn Hz. unfold holo_flat. apply map_ext. intros E. apply holo_scaling0; assumption.
Qed.

(** the phase has modulus one, so it never changes an intensity *)
Lemma phase_keeps_intensity (E : cvR) ckz skz :
  ckz * ckz + skz * skz = 1 -> inten_px RO (cv_mul RO (phase RO ckz skz) E) = inten_px RO E.
Proof.
  destruct E as [[[exr exi] [eyr eyi]] [ezr ezi]]. intros H.
  unfold inten_px, cv_mul, cmul, phase, cabs2. cbn.
  replace ((exr * ckz - exi * - skz) * (exr * ckz - exi * - skz) +
           (exr * - skz + exi * ckz) * (exr * - skz + exi * ckz) +
           ((eyr * ckz - eyi * - skz) * (eyr * ckz - eyi * - skz) +
            (eyr * - skz + eyi * ckz) * (eyr * - skz + eyi * ckz)))
    with ((exr * exr + exi * exi + eyr * eyr + eyi * eyi) * (ckz * ckz + skz * skz)) by ring.
  rewrite H. ring.
Qed.

(** * 6. The executed (Q) instance computes the proved (R) instance *)
Definition cQ2R (a : cplx Q) : cplx R := (Q2R (fst a), Q2R (snd a)).
Definition cvQ2R (E : cvec3 Q) : cvR := let '(ex, ey, ez) := E in (cQ2R ex, cQ2R ey, cQ2R ez).
Definition vQ2R (p : vec3 Q) : vR := let '(px, py, pz) := p in (Q2R px, Q2R py, Q2R pz).

Lemma holo_px_Q_R (alpha : Q) (E : cvec3 Q) (p : vec3 Q) :
  Q2R (holo_px QO alpha E p) = holo_px RO (Q2R alpha) (cvQ2R E) (vQ2R p).
Proof.
  destruct E as [[[exr exi] [eyr eyi]] [ezr ezi]]. destruct p as [[px py] pz].
  unfold holo_px, cabs2, cadd, cscale, cofR, cvQ2R, cQ2R, vQ2R. cbn.
  repeat (rewrite ?Q2R_plus, ?Q2R_mult). rewrite Q2R_0. reflexivity.
Qed.

Lemma inten_px_Q_R (E : cvec3 Q) : Q2R (inten_px QO E) = inten_px RO (cvQ2R E).
Proof.
  destruct E as [[[exr exi] [eyr eyi]] [ezr ezi]].
  unfold inten_px, cabs2, cvQ2R, cQ2R. cbn. repeat (rewrite ?Q2R_plus, ?Q2R_mult). reflexivity.
Qed.

Lemma to_vector_Q_R (p : vec3 Q) (nrm : Q) :
  ~ (nrm == 0)%Q -> vQ2R (to_vector QO p nrm) = to_vector RO (vQ2R p) (Q2R nrm).
Proof.
  destruct p as [[px py] pz]. intros Hn. unfold to_vector, vQ2R. cbn.
  repeat (rewrite ?Q2R_mult, ?Q2R_inv by exact Hn). reflexivity.
Qed.

(** the reduced instance [QOr] computes the same real values *)
Lemma Q2R_Qred (x : Q) : Q2R (Qred x) = Q2R x.
Proof. apply Qeq_eqR, Qred_correct. Qed.

Lemma holo_px_Qr_R (alpha : Q) (E : cvec3 Q) (p : vec3 Q) :
  Q2R (holo_px QOr alpha E p) = holo_px RO (Q2R alpha) (cvQ2R E) (vQ2R p).
Proof.
  destruct E as [[[exr exi] [eyr eyi]] [ezr ezi]]. destruct p as [[px py] pz].
  unfold holo_px, cabs2, cadd, cscale, cofR, cvQ2R, cQ2R, vQ2R. cbn [fst snd zero one add mul sub opp inv QOr RO].
  repeat (rewrite ?Q2R_Qred, ?Q2R_plus, ?Q2R_mult). rewrite ?Q2R_0. reflexivity.
Qed.

Lemma inten_px_Qr_R (E : cvec3 Q) : Q2R (inten_px QOr E) = inten_px RO (cvQ2R E).
Proof.
  destruct E as [[[exr exi] [eyr eyi]] [ezr ezi]].
  unfold inten_px, cabs2, cvQ2R, cQ2R. cbn [fst snd zero one add mul sub opp inv QOr RO]. repeat (rewrite ?Q2R_Qred, ?Q2R_plus, ?Q2R_mult). reflexivity.
Qed.

Lemma to_vector_Qr_R (p : vec3 Q) (nrm : Q) :
  ~ (nrm == 0)%Q -> vQ2R (to_vector QOr p nrm) = to_vector RO (vQ2R p) (Q2R nrm).
Proof.
  destruct p as [[px py] pz]. intros Hn. unfold to_vector, vQ2R. cbn [fst snd zero one add mul sub opp inv QOr RO].
  repeat (rewrite ?Q2R_Qred, ?Q2R_mult, ?Q2R_inv by exact Hn). reflexivity.
Qed.

Lemma position_Qr_R (k : Q) (c q : vec3 Q) : vQ2R (position QOr k c q) = position RO (Q2R k) (vQ2R c) (vQ2R q).
Proof.
  destruct c as [[cx cy] cz]. destruct q as [[x y] z]. unfold position, vQ2R. cbn [fst snd zero one add mul sub opp inv QOr RO].
  repeat (rewrite ?Q2R_Qred, ?Q2R_mult, ?Q2R_minus). reflexivity.
Qed.

Lemma phased_Qr_R (ckz skz : Q) (E : cvec3 Q) :
  cvQ2R (cv_mul QOr (phase QOr ckz skz) E) = cv_mul RO (phase RO (Q2R ckz) (Q2R skz)) (cvQ2R E).
Proof.
  destruct E as [[[exr exi] [eyr eyi]] [ezr ezi]].
  unfold cv_mul, cmul, phase, cvQ2R, cQ2R. cbn [fst snd zero one add mul sub opp inv QOr RO].
  repeat (rewrite ?Q2R_Qred, ?Q2R_plus, ?Q2R_minus, ?Q2R_mult, ?Q2R_opp). reflexivity.
Qed.

Lemma cv_add_Qr_R (E F : cvec3 Q) : cvQ2R (cv_add QOr E F) = cv_add RO (cvQ2R E) (cvQ2R F).
Proof.
  destruct E as [[[a b] [c d]] [e f]]. destruct F as [[[a' b'] [c' d']] [e' f']].
  unfold cv_add, cadd, cvQ2R, cQ2R. cbn [fst snd zero one add mul sub opp inv QOr RO]. repeat (rewrite ?Q2R_Qred, ?Q2R_plus). reflexivity.
Qed.

(** C15 property theorems: statements only; proofs are in Lemmas.v.
    cfg / tbl are universally quantified: the theorems hold for ANY class table and any reading of
    the code's configuration; the instance read off the code on each run (build/run/C15/ClassTable.v)
    is checked against [table_ok] by vm_compute in that generated file. *)
From Coq Require Import ZArith List Bool String.
From HV Require Import C15.Model C15.Lemmas C15.Findings.
Import ListNotations.
Open Scope string_scope.

(* save -> load returns the same class, the same argument names and values (incl. None), with
   every sequence a list and every numpy scalar a Python scalar: for every object grammar term *)
Theorem roundtrip : forall cfg tbl o, wfb cfg tbl o = true ->
  from_node tbl (to_node cfg tbl o) = Some (norm o).
Proof. exact roundtrip_lemma. Qed.
Print Assumptions roundtrip.

Theorem roundtrip_equivalent : forall cfg tbl o, wfb cfg tbl o = true ->
  exists o', from_node tbl (to_node cfg tbl o) = Some o' /\ equiv o' o.
Proof. exact roundtrip_equiv_lemma. Qed.
Print Assumptions roundtrip_equivalent.

(* the conditions checked on the regenerated table make EVERY instance of it well-formed ... *)
Theorem table_ok_gives_wf : forall cfg tbl, table_ok cfg tbl = true ->
  forall o, shape_ok tbl o = true -> wfb cfg tbl o = true.
Proof. exact wf_of_table_ok. Qed.
Print Assumptions table_ok_gives_wf.

(* ... hence the round trip over the whole table *)
Theorem roundtrip_over_table : forall cfg tbl, table_ok cfg tbl = true ->
  forall o, shape_ok tbl o = true -> from_node tbl (to_node cfg tbl o) = Some (norm o).
Proof. exact roundtrip_over_table_lemma. Qed.
Print Assumptions roundtrip_over_table.

(* saving the reloaded object represents the identical node tree *)
Theorem dump_idempotent : forall cfg tbl o o', wfb cfg tbl o = true -> cplx_stable cfg o = true ->
  from_node tbl (to_node cfg tbl o) = Some o' -> to_node cfg tbl o' = to_node cfg tbl o.
Proof. exact dump_idempotent_lemma. Qed.
Print Assumptions dump_idempotent.

(* arguments that were lists / Python scalars to begin with: the reloaded object is EQUAL *)
Theorem eq_when_lists : forall cfg tbl o, wfb cfg tbl o = true -> plain o = true ->
  from_node tbl (to_node cfg tbl o) = Some o.
Proof. exact eq_when_plain_lemma. Qed.
Print Assumptions eq_when_lists.

(* any number of consecutive save/load cycles ends in the same normal form *)
Theorem any_number_of_cycles : forall cfg tbl o, wfb cfg tbl o = true ->
  forall n, cycles cfg tbl (S n) o = Some (norm o).
Proof. exact cycles_n_lemma. Qed.
Print Assumptions any_number_of_cycles.

(* what must not change: normalisation is the identity on class names, argument names, None,
   and is idempotent (so "equivalent" is an equivalence whose classes have one normal form) *)
Theorem norm_idempotent : forall o, norm (norm o) = norm o.
Proof. exact norm_idem. Qed.
Print Assumptions norm_idempotent.
Theorem none_survives : forall v, norm v = ONone <-> v = ONone.
Proof. exact norm_none. Qed.
Print Assumptions none_survives.

(* the code as it stood violates the statement (witnesses replayed on the implementation) *)
Theorem current_none_skip_is_lossy :
  exists o, shape_ok tbl_excerpt o = true /\
            from_node tbl_excerpt (to_node cfg_asis tbl_excerpt o) <> Some (norm o) /\
            exists o', from_node tbl_excerpt (to_node cfg_asis tbl_excerpt o) = Some o' /\
                       assoc "parallel" (match o' with OObj _ a => a | _ => [] end) = Some (OStr "auto").
Proof. exact skip_none_refuted. Qed.
Print Assumptions current_none_skip_is_lossy.

(** non-vacuity: a table/config with table_ok = true and a nested object satisfying every
    hypothesis (shape_ok, wfb, cplx_stable), containing a None for a non-None default, a tuple,
    a float32 array attribute, a numpy complex and a nested object *)
Definition ex_obj : obj :=
  OObj "EmceeStrategy"
    [("nwalkers", OInt (KNp "int16") 7);
     ("nsamples", OSeq CTuple [OObj "Sphere" [("n", OCplx (KNp "complex128") 1 2); ("r", OFloat KPy 3);
                                              ("center", OSeq (CArr "float32") [OFloat (KNp "float32") 0])]]);
     ("npixels", ONone); ("walker_initial_pos", OMap [("k", OAtom "ufunc" "sqrt")]);
     ("parallel", ONone); ("seed", OBool KPy true)].
Example hypotheses_satisfiable :
  table_ok cfg_repaired tbl_excerpt = true /\ shape_ok tbl_excerpt ex_obj = true /\
  wfb cfg_repaired tbl_excerpt ex_obj = true /\ cplx_stable cfg_repaired ex_obj = true /\
  from_node tbl_excerpt (to_node cfg_repaired tbl_excerpt ex_obj) = Some (norm ex_obj) /\ norm ex_obj <> ex_obj /\
  (* and under the as-is configuration the hypotheses are satisfiable as well *)
  wfb cfg_asis tbl_excerpt (OObj "Sphere" [("n", OFloat KPy 1); ("r", OFloat (KNp "float64") 2);
                                           ("center", OSeq CTuple [OInt KPy 1; OInt KPy 2; OInt KPy 3])]) = true.
Proof. repeat split; try (vm_compute; reflexivity). vm_compute. discriminate. Qed.

(** C15 - save -> load of HoloPy objects through YAML.  Executable model (no proofs here).
    Anchors: core/holopy_object.py (HoloPyObject._iteritems / to_yaml / from_yaml),
    core/io/serialize.py (representers: ndarray, tuple, numpy scalars, complex, ufunc, class).

    An object of the model is the *attribute state* of a Python value: for a HoloPyObject the
    value of [getattr(self, a, None)] for every constructor argument name [a] (that is what
    [_iteritems] reads).  The model is adequate for a class exactly when every constructor
    argument is stored under its own name ([astored]); that is part of [table_ok].

    Three facts about the code are NOT written here by hand but regenerated from the code on
    every run (build/run/C15/ClassTable.v): the class table (inspect.signature +
    __init__.__code__.co_varnames + stored-attribute probes), and a [config] (which skip rule
    [_iteritems] applies, which numpy scalar kinds have a loadable representation, which tag a
    Python complex gets). *)
From Coq Require Import ZArith List Bool String.
Import ListNotations.
Open Scope string_scope.

(** * Values *)
Inductive nkind := KPy | KNp (dtype : string).        (* python scalar / numpy scalar of dtype *)
Inductive ckind := CList | CTuple | CArr (dtype : string).
Inductive ctag := TagPy | TagHolo.                    (* !!python/complex  vs  !complex *)

Inductive obj :=
| ONone
| OBool (k : nkind) (b : bool)
| OInt (k : nkind) (z : Z)
| OFloat (k : nkind) (bits : Z)                       (* IEEE-754 binary64 pattern of float(x) *)
| OCplx (k : nkind) (re im : Z)
| OStr (s : string)
| OAtom (tag name : string)                           (* ufunc / class / importable python name *)
| OSeq (c : ckind) (l : list obj)
| OMap (l : list (string * obj))                      (* dict with string keys *)
| OObj (cls : string) (args : list (string * obj)).   (* HoloPyObject: (ctor arg name, attribute) *)

Inductive node :=
| NNull | NBool (b : bool) | NInt (z : Z) | NFloat (bits : Z) | NCplx (t : ctag) (re im : Z)
| NStr (s : string) | NAtom (tag name : string)
| NOpaque                                             (* !!python/object/apply:... : FullLoader refuses it *)
| NSeq (l : list node) | NMap (l : list (string * node)) | NObj (cls : string) (fields : list (string * node)).

(** * What is read off the code *)
Inductive skiprule := SkipNone | SkipNoneIfDefaultNone.
Record config := { skip : skiprule; np_supported : list string; py_cplx_tag : ctag }.

Record carg := { aname : string; adefault : option obj (* None: required *); astored : bool;
                 anone_ok : bool (* the constructor accepts None for it *) }.
Record cls := { cname : string; cargs : list carg;
                clocal_attrs : list string (* co_varnames that are locals AND attributes *);
                ccustom : bool (* own _iteritems / from_yaml: Model family, not modelled here *);
                cinscope : bool (* instances are generated and probed by the harness *) }.
Definition table := list cls.

Definition mem_str (s : string) (l : list string) : bool := existsb (String.eqb s) l.
Fixpoint nodupb (l : list string) : bool :=
  match l with [] => true | x :: t => negb (mem_str x t) && nodupb t end.
Fixpoint assoc {A} (k : string) (l : list (string * A)) : option A :=
  match l with [] => None | (k', v) :: t => if String.eqb k k' then Some v else assoc k t end.
Fixpoint lookup (c : string) (t : table) : option cls :=
  match t with [] => None | x :: r => if String.eqb c (cname x) then Some x else lookup c r end.
Definition default_by_name (cl : cls) (nm : string) : option obj :=
  match find (fun a => String.eqb (aname a) nm) (cargs cl) with Some a => adefault a | None => None end.
Inductive dkind := DNone | DRequired | DOther.
Definition dkind_of (cl : cls) (nm : string) : dkind :=
  match find (fun a => String.eqb (aname a) nm) (cargs cl) with
  | Some a => match adefault a with Some ONone => DNone | None => DRequired | Some _ => DOther end
  | None => DNone (* a co_varnames entry that is not an argument *) end.
Definition default_is_none (cl : cls) (nm : string) : bool :=
  match dkind_of cl nm with DNone => true | _ => false end.
(** the repaired rule: "None is written only for an argument that HAS a default and whose default is
    not None"; a required argument that is None is still left out (as the repository's own test
    test_yaml_output_of_serializable demands), so such an object does not reload: [none_fine] *)
Definition skips_none (cl : cls) (nm : string) : bool :=
  match dkind_of cl nm with DOther => false | _ => true end.
Fixpoint sequence {A} (l : list (option A)) : option (list A) :=
  match l with [] => Some [] | x :: t =>
    match x, sequence t with Some a, Some r => Some (a :: r) | _, _ => None end end.

(** * to_node : what yaml.dump(obj) represents (before PyYAML's text formatting, an oracle) *)
Section ToNode.
Variable cfg : config.
Variable tbl : table.

Definition supported (k : nkind) : bool :=
  match k with KPy => true | KNp d => mem_str d (np_supported cfg) end.
Definition nat_kind (native : bool) (k : nkind) : nkind := if native then KPy else k.
Definition cplx_tag (k : nkind) : ctag := match k with KPy => py_cplx_tag cfg | KNp _ => TagHolo end.
Definition is_scalar (o : obj) : bool :=
  match o with OBool _ _ | OInt _ _ | OFloat _ _ | OCplx _ _ _ => true | _ => false end.

(** HoloPyObject._iteritems: "if getattr(self, var, None) is not None" -- the code as it stands is
    [SkipNone]; [SkipNoneIfDefaultNone] is the repaired rule (omit only what the constructor
    would restore). *)
Definition skip_it (c : string) (a : string) (v : obj) : bool :=
  match v with
  | ONone => match skip cfg with
             | SkipNone => true
             | SkipNoneIfDefaultNone =>
                 match lookup c tbl with Some cl => skips_none cl a | None => true end
             end
  | _ => false end.

(** [native] = we are below ndarray.tolist(): every scalar is already a Python scalar.
    [attr] = the value is an attribute yielded by _iteritems:
      "if isinstance(item, np.ndarray) and item.ndim == 1: item = list(item)"
    -> a list of numpy scalars, each of which goes through the scalar representers. *)
Fixpoint to_node_at (native attr : bool) (o : obj) : node :=
  match o with
  | ONone => NNull
  | OBool k b => if supported (nat_kind native k) then NBool b else NOpaque
  | OInt k z => if supported (nat_kind native k) then NInt z else NOpaque
  | OFloat k q => if supported (nat_kind native k) then NFloat q else NOpaque
  | OCplx k re im => if supported (nat_kind native k) then NCplx (cplx_tag (nat_kind native k)) re im else NOpaque
  | OStr s => NStr s
  | OAtom t s => NAtom t s
  | OSeq (CArr _) l =>
      if attr && forallb is_scalar l then NSeq (map (to_node_at false false) l)
      else NSeq (map (to_node_at true false) l)               (* ndarray_representer: data.tolist() *)
  | OSeq _ l => NSeq (map (to_node_at native false) l)        (* list; tuple_representer: list(data) *)
  | OMap l => NMap (map (fun p => (fst p, to_node_at native false (snd p))) l)
  | OObj c args =>
      NObj c (flat_map (fun p =>
        if skip_it c (fst p) (snd p) then [] else [(fst p, to_node_at false true (snd p))]) args)
  end.
Definition to_node (o : obj) : node := to_node_at false false o.
End ToNode.

(** * from_node : what the loader constructs *)
Definition construct (cl : cls) (fs : list (string * obj)) : option obj :=
  if forallb (fun p => mem_str (fst p) (map aname (cargs cl))) fs then   (* else TypeError: unexpected kwarg *)
    option_map (OObj (cname cl))
      (sequence (map (fun a =>
         match assoc (aname a) fs with
         | Some v => Some (aname a, if astored a then v else ONone)
         | None => match default_by_name cl (aname a) with
                   | Some d => Some (aname a, if astored a then d else ONone)
                   | None => None                                            (* TypeError: missing argument *)
                   end
         end) (cargs cl)))
  else None.

Fixpoint from_node (tbl : table) (n : node) : option obj :=
  match n with
  | NNull => Some ONone
  | NBool b => Some (OBool KPy b)
  | NInt z => Some (OInt KPy z)
  | NFloat q => Some (OFloat KPy q)
  | NCplx _ re im => Some (OCplx KPy re im)
  | NStr s => Some (OStr s)
  | NAtom t s => Some (OAtom t s)
  | NOpaque => None                                                           (* ConstructorError *)
  | NSeq l => option_map (OSeq CList) (sequence (map (from_node tbl) l))
  | NMap l => option_map OMap (sequence (map (fun p =>
                 match from_node tbl (snd p) with Some v => Some (fst p, v) | None => None end) l))
  | NObj c fields =>
      match lookup c tbl with
      | None => None                                                          (* unknown tag *)
      | Some cl =>
          if ccustom cl then None else
          match sequence (map (fun p =>
                   match from_node tbl (snd p) with Some v => Some (fst p, v) | None => None end) fields) with
          | Some fs => construct cl fs
          | None => None end
      end
  end.

(** * Equivalence up to container kind and scalar kind: compare normal forms *)
Fixpoint norm (o : obj) : obj :=
  match o with
  | ONone => ONone
  | OBool _ b => OBool KPy b
  | OInt _ z => OInt KPy z
  | OFloat _ q => OFloat KPy q
  | OCplx _ re im => OCplx KPy re im
  | OStr s => OStr s
  | OAtom t s => OAtom t s
  | OSeq _ l => OSeq CList (map norm l)
  | OMap l => OMap (map (fun p => (fst p, norm (snd p))) l)
  | OObj c args => OObj c (map (fun p => (fst p, norm (snd p))) args)
  end.
Definition equiv (a b : obj) : Prop := norm a = norm b.

(** * Well-formedness (executable): the object is an instance of the table that the code can
      represent.  Conservative for arrays below tolist() (their dtype need not be supported). *)
Section Wf.
Variable cfg : config.
Variable tbl : table.
Definition none_fine (c : string) (a : string) (v : obj) : bool :=
  match v with
  | ONone => match skip cfg with
             | SkipNone => match lookup c tbl with Some cl => default_is_none cl a | None => false end
             | SkipNoneIfDefaultNone =>
                 match lookup c tbl with
                 | Some cl => match dkind_of cl a with DRequired => false | _ => true end
                 | None => false end
             end
  | _ => true end.
Fixpoint wfb (o : obj) : bool :=
  match o with
  | ONone | OStr _ | OAtom _ _ => true
  | OBool k _ | OInt k _ | OFloat k _ | OCplx k _ _ => supported cfg k
  | OSeq _ l => forallb wfb l
  | OMap l => forallb (fun p => wfb (snd p)) l
  | OObj c args =>
      match lookup c tbl with
      | None => false
      | Some cl =>
          String.eqb c (cname cl) && negb (ccustom cl) && nodupb (map fst args) &&
          forallb astored (cargs cl) &&
          (fix same (l : list (string * obj)) (m : list carg) : bool :=
             match l, m with [], [] => true | p :: t, a :: r => String.eqb (fst p) (aname a) && same t r
             | _, _ => false end) args (cargs cl) &&
          forallb (fun p => wfb (snd p) && none_fine c (fst p) (snd p)) args
      end
  end.

(** complex tags are stable under reload: Python complex gets the same tag as np.complex128,
    or there is no numpy complex in the object *)
Fixpoint no_np_cplx (o : obj) : bool :=
  match o with
  | OCplx (KNp _) _ _ => false
  | OSeq _ l => forallb no_np_cplx l
  | OMap l => forallb (fun p => no_np_cplx (snd p)) l
  | OObj _ args => forallb (fun p => no_np_cplx (snd p)) args
  | _ => true end.
Definition tag_eqb (a b : ctag) : bool := match a, b with TagPy, TagPy | TagHolo, TagHolo => true | _, _ => false end.
Definition cplx_stable (o : obj) : bool := tag_eqb (py_cplx_tag cfg) TagHolo || no_np_cplx o.

(** "the arguments were lists or (Python) scalars to begin with" *)
Fixpoint plain (o : obj) : bool :=
  match o with
  | OBool k _ | OInt k _ | OFloat k _ | OCplx k _ _ => match k with KPy => true | _ => false end
  | OSeq c l => match c with CList => forallb plain l | _ => false end
  | OMap l => forallb (fun p => plain (snd p)) l
  | OObj _ args => forallb (fun p => plain (snd p)) args
  | _ => true end.
End Wf.

(** * table_ok : the conditions on the regenerated table/config under which every instance
      of an in-scope class is well-formed *)
Definition all_np_kinds : list string :=
  ["float16"; "float32"; "float64"; "int8"; "int16"; "int32"; "int64";
   "uint8"; "uint16"; "uint32"; "uint64"; "bool"; "complex64"; "complex128"].

Definition names_ok (t : table) : bool :=
  nodupb (map cname t) &&
  forallb (fun cl => nodupb (map aname (cargs cl)) && match clocal_attrs cl with [] => true | _ => false end) t.
Definition stored_ok (t : table) : bool :=
  forallb (fun cl => negb (cinscope cl) || ccustom cl || forallb astored (cargs cl)) t.
Definition none_ok (cfg : config) (t : table) : bool :=
  match skip cfg with
  | SkipNoneIfDefaultNone =>
      forallb (fun cl => negb (cinscope cl) || ccustom cl ||
                 forallb (fun a => negb (anone_ok a) || match adefault a with None => false | _ => true end) (cargs cl)) t
  | SkipNone => forallb (fun cl => negb (cinscope cl) || ccustom cl ||
                   forallb (fun a => negb (anone_ok a) ||
                              match adefault a with Some ONone => true | _ => false end) (cargs cl)) t
  end.
Definition kinds_ok (cfg : config) : bool := forallb (fun d => mem_str d (np_supported cfg)) all_np_kinds.
Definition cplx_ok (cfg : config) : bool := tag_eqb (py_cplx_tag cfg) TagHolo.
Definition table_ok (cfg : config) (t : table) : bool :=
  names_ok t && stored_ok t && none_ok cfg t && kinds_ok cfg && cplx_ok cfg.

(** [shape_ok]: an instance of the table's in-scope classes whose None-valued arguments are ones
    the constructor accepts None for, with scalar kinds among [all_np_kinds] *)
Section Shape.
Variable tbl : table.
Definition kind_known (k : nkind) : bool := match k with KPy => true | KNp d => mem_str d all_np_kinds end.
Definition none_allowed (cl : cls) (a : string) (v : obj) : bool :=
  match v with
  | ONone => match find (fun x => String.eqb (aname x) a) (cargs cl) with
             | Some x => anone_ok x || match adefault x with Some ONone => true | _ => false end
             | None => false end
  | _ => true end.
Fixpoint shape_ok (o : obj) : bool :=
  match o with
  | ONone | OStr _ | OAtom _ _ => true
  | OBool k _ | OInt k _ | OFloat k _ | OCplx k _ _ => kind_known k
  | OSeq _ l => forallb shape_ok l
  | OMap l => forallb (fun p => shape_ok (snd p)) l
  | OObj c args =>
      match lookup c tbl with
      | None => false
      | Some cl =>
          String.eqb c (cname cl) && cinscope cl && negb (ccustom cl) &&
          (fix same (l : list (string * obj)) (m : list carg) : bool :=
             match l, m with [], [] => true | p :: t, a :: r => String.eqb (fst p) (aname a) && same t r
             | _, _ => false end) args (cargs cl) &&
          forallb (fun p => shape_ok (snd p) && none_allowed cl (fst p) (snd p)) args
      end
  end.
End Shape.

(** * Decidable comparisons used by the correspondence check only *)
Definition nkind_eqb (a b : nkind) : bool :=
  match a, b with KPy, KPy => true | KNp x, KNp y => String.eqb x y | _, _ => false end.
Definition ckind_eqb (a b : ckind) : bool :=
  match a, b with CList, CList | CTuple, CTuple => true | CArr x, CArr y => String.eqb x y | _, _ => false end.
Fixpoint obj_eqb (a b : obj) : bool :=
  match a, b with
  | ONone, ONone => true
  | OBool k x, OBool k' y => nkind_eqb k k' && Bool.eqb x y
  | OInt k x, OInt k' y => nkind_eqb k k' && Z.eqb x y
  | OFloat k x, OFloat k' y => nkind_eqb k k' && Z.eqb x y
  | OCplx k x1 x2, OCplx k' y1 y2 => nkind_eqb k k' && Z.eqb x1 y1 && Z.eqb x2 y2
  | OStr s, OStr s' => String.eqb s s'
  | OAtom t s, OAtom t' s' => String.eqb t t' && String.eqb s s'
  | OSeq c l, OSeq c' l' => ckind_eqb c c' &&
      (fix go (l l' : list obj) : bool :=
         match l, l' with [], [] => true | x :: t, y :: t' => obj_eqb x y && go t t' | _, _ => false end) l l'
  | OMap l, OMap l' =>
      (fix go (l l' : list (string * obj)) : bool :=
         match l, l' with [], [] => true
         | x :: t, y :: t' => String.eqb (fst x) (fst y) && obj_eqb (snd x) (snd y) && go t t' | _, _ => false end) l l'
  | OObj c l, OObj c' l' => String.eqb c c' &&
      (fix go (l l' : list (string * obj)) : bool :=
         match l, l' with [], [] => true
         | x :: t, y :: t' => String.eqb (fst x) (fst y) && obj_eqb (snd x) (snd y) && go t t' | _, _ => false end) l l'
  | _, _ => false
  end.
Definition oobj_eqb (a b : option obj) : bool :=
  match a, b with Some x, Some y => obj_eqb x y | None, None => true | _, _ => false end.
Fixpoint node_eqb (a b : node) : bool :=
  match a, b with
  | NNull, NNull => true
  | NBool x, NBool y => Bool.eqb x y
  | NInt x, NInt y => Z.eqb x y
  | NFloat x, NFloat y => Z.eqb x y
  | NCplx t x1 x2, NCplx t' y1 y2 => tag_eqb t t' && Z.eqb x1 y1 && Z.eqb x2 y2
  | NStr s, NStr s' => String.eqb s s'
  | NAtom t s, NAtom t' s' => String.eqb t t' && String.eqb s s'
  | NOpaque, NOpaque => true
  | NSeq l, NSeq l' =>
      (fix go (l l' : list node) : bool :=
         match l, l' with [], [] => true | x :: t, y :: t' => node_eqb x y && go t t' | _, _ => false end) l l'
  | NMap l, NMap l' =>
      (fix go (l l' : list (string * node)) : bool :=
         match l, l' with [], [] => true
         | x :: t, y :: t' => String.eqb (fst x) (fst y) && node_eqb (snd x) (snd y) && go t t' | _, _ => false end) l l'
  | NObj c l, NObj c' l' => String.eqb c c' &&
      (fix go (l l' : list (string * node)) : bool :=
         match l, l' with [], [] => true
         | x :: t, y :: t' => String.eqb (fst x) (fst y) && node_eqb (snd x) (snd y) && go t t' | _, _ => false end) l l'
  | _, _ => false
  end.

(** C15 - models of the code as it stands (before the proposed repairs), with computed witnesses.
    [cfg_asis] is what the generator reads off the unpatched tree: unconditional None skip in
    HoloPyObject._iteritems, scalar representers only for np.float64 / int64 / int32 / complex128,
    Python complex written with PyYAML's own tag. *)
From Coq Require Import ZArith List Bool String.
From HV Require Import C15.Model.
Import ListNotations.
Open Scope string_scope.

Definition cfg_asis : config :=
  {| skip := SkipNone; np_supported := ["float64"; "int64"; "int32"; "complex128"]; py_cplx_tag := TagPy |}.
Definition cfg_repaired : config :=
  {| skip := SkipNoneIfDefaultNone; np_supported := all_np_kinds; py_cplx_tag := TagHolo |}.

Definition arg (n : string) (d : option obj) (stored noneok : bool) : carg :=
  {| aname := n; adefault := d; astored := stored; anone_ok := noneok |}.

(** excerpt of the class table (signatures as in the code) *)
Definition tbl_excerpt : table :=
  [ {| cname := "EmceeStrategy";
       cargs := [arg "nwalkers" (Some (OInt KPy 100)) true false; arg "nsamples" (Some ONone) true true;
                 arg "npixels" (Some ONone) true true; arg "walker_initial_pos" (Some ONone) true true;
                 arg "parallel" (Some (OStr "auto")) true true; arg "seed" (Some ONone) true true];
       clocal_attrs := []; ccustom := false; cinscope := true |};
    {| cname := "Sphere";
       cargs := [arg "n" (Some ONone) true true; arg "r" (Some (OFloat KPy 4602678819172646912)) true false;
                 arg "center" (Some ONone) true true];
       clocal_attrs := []; ccustom := false; cinscope := true |} ].

(** as the code stored things: CmaStrategy keeps neither resample_pixels nor parent_fraction *)
Definition tbl_cma_asis : table :=
  [ {| cname := "CmaStrategy";
       cargs := [arg "npixels" (Some ONone) true true; arg "resample_pixels" (Some (OBool KPy true)) false false;
                 arg "parent_fraction" (Some (OFloat KPy 4598175219545276416)) false false;
                 arg "parallel" (Some (OStr "auto")) true true];
       clocal_attrs := []; ccustom := false; cinscope := true |} ].

(** the EmceeStrategy(parallel=None) of the docstring ("None: run serially") *)
Definition emcee_serial : obj :=
  OObj "EmceeStrategy" [("nwalkers", OInt KPy 100); ("nsamples", OInt KPy 1000); ("npixels", ONone);
                        ("walker_initial_pos", ONone); ("parallel", ONone); ("seed", ONone)].

(** Defect 9: the unconditional skip loses a None whose default is not None *)
Theorem skip_none_refuted :
  exists o, shape_ok tbl_excerpt o = true /\
            from_node tbl_excerpt (to_node cfg_asis tbl_excerpt o) <> Some (norm o) /\
            exists o', from_node tbl_excerpt (to_node cfg_asis tbl_excerpt o) = Some o' /\
                       assoc "parallel" (match o' with OObj _ a => a | _ => [] end) = Some (OStr "auto").
Proof.
  exists emcee_serial. split; [vm_compute; reflexivity|]. split; [vm_compute; discriminate|].
  eexists. split; vm_compute; reflexivity.
Qed.
(** ... and the default-aware rule keeps it (same object, same table) *)
Theorem skip_none_repaired :
  from_node tbl_excerpt (to_node cfg_repaired tbl_excerpt emcee_serial) = Some (norm emcee_serial).
Proof. vm_compute. reflexivity. Qed.

(** numpy scalar kinds without a representer are written as !!python/object/apply, which the
    loader refuses: Sphere(n=np.float32(1.5), r=0.5, center=None) *)
Theorem numpy_scalar_kind_refuted :
  exists o, shape_ok tbl_excerpt o = true /\ from_node tbl_excerpt (to_node cfg_asis tbl_excerpt o) = None.
Proof.
  exists (OObj "Sphere" [("n", OFloat (KNp "float32") 4609434218613702656);
                         ("r", OFloat KPy 4602678819172646912); ("center", ONone)]).
  split; vm_compute; reflexivity.
Qed.
(** a 1-D float32 array attribute is iterated by _iteritems into float32 scalars: same failure;
    the same array one level down goes through tolist() and loads *)
Theorem array_attr_refuted :
  exists l, from_node tbl_excerpt (to_node cfg_asis tbl_excerpt
              (OObj "Sphere" [("n", ONone); ("r", OFloat KPy 4602678819172646912); ("center", OSeq (CArr "float32") l)])) = None /\
            from_node tbl_excerpt (to_node cfg_asis tbl_excerpt
              (OObj "Sphere" [("n", ONone); ("r", OFloat KPy 4602678819172646912);
                              ("center", OSeq CList [OSeq (CArr "float32") l])])) <> None.
Proof.
  exists [OFloat (KNp "float32") 0; OFloat (KNp "float32") 0; OFloat (KNp "float32") 4607182418800017408].
  split; vm_compute; [reflexivity|discriminate].
Qed.

(** np.complex128 is written '!complex', comes back as a Python complex, which is written
    '!!python/complex': the second dump differs from the first *)
Theorem complex_tag_refuted :
  exists o o', wfb cfg_asis tbl_excerpt o = true /\
     from_node tbl_excerpt (to_node cfg_asis tbl_excerpt o) = Some o' /\
     to_node cfg_asis tbl_excerpt o' <> to_node cfg_asis tbl_excerpt o.
Proof.
  exists (OObj "Sphere" [("n", OCplx (KNp "complex128") 4609434218613702656 4602678819172646912);
                         ("r", OFloat KPy 4602678819172646912); ("center", ONone)]).
  eexists. split; [vm_compute; reflexivity|]. split; [vm_compute; reflexivity|]. vm_compute. discriminate.
Qed.

(** constructor arguments that are not kept as attributes cannot survive: two different
    constructor calls produce the same saved form and the same reloaded state *)
Theorem unstored_argument_refuted :
  exists f1 f2, f1 <> f2 /\
    exists o, construct (match lookup "CmaStrategy" tbl_cma_asis with Some c => c | None => Build_cls "" [] [] false false end) f1 = Some o /\
              construct (match lookup "CmaStrategy" tbl_cma_asis with Some c => c | None => Build_cls "" [] [] false false end) f2 = Some o.
Proof.
  exists [("npixels", OInt KPy 100); ("resample_pixels", OBool KPy false)], [("npixels", OInt KPy 100)].
  split; [discriminate|]. eexists. split; vm_compute; reflexivity.
Qed.

(** the as-is configuration fails every component of table_ok that a repair addresses *)
Theorem table_ok_asis_refuted :
  none_ok cfg_asis tbl_excerpt = false /\ kinds_ok cfg_asis = false /\ cplx_ok cfg_asis = false /\
  stored_ok tbl_cma_asis = false.
Proof. repeat split; vm_compute; reflexivity. Qed.

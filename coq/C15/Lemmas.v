(** C15 proofs. *)
From Coq Require Import ZArith List Bool String Lia.
From HV Require Import C15.Model.
Import ListNotations.
Open Scope string_scope.

(** ** induction principle for the nested object grammar *)
Section ObjInd.
Variable P : obj -> Prop.
Hypothesis HNone : P ONone.
Hypothesis HBool : forall k b, P (OBool k b).
Hypothesis HInt : forall k z, P (OInt k z).
Hypothesis HFloat : forall k q, P (OFloat k q).
Hypothesis HCplx : forall k a b, P (OCplx k a b).
Hypothesis HStr : forall s, P (OStr s).
Hypothesis HAtom : forall t s, P (OAtom t s).
Hypothesis HSeq : forall c l, Forall P l -> P (OSeq c l).
Hypothesis HMap : forall l, Forall (fun p => P (snd p)) l -> P (OMap l).
Hypothesis HObj : forall c l, Forall (fun p => P (snd p)) l -> P (OObj c l).
Fixpoint obj_ind' (o : obj) : P o :=
  match o with
  | ONone => HNone | OBool k b => HBool k b | OInt k z => HInt k z | OFloat k q => HFloat k q
  | OCplx k a b => HCplx k a b | OStr s => HStr s | OAtom t s => HAtom t s
  | OSeq c l => HSeq c l ((fix go (l : list obj) : Forall P l :=
        match l with [] => Forall_nil _ | x :: t => Forall_cons x (obj_ind' x) (go t) end) l)
  | OMap l => HMap l ((fix go (l : list (string * obj)) : Forall (fun p => P (snd p)) l :=
        match l with [] => Forall_nil _ | x :: t => Forall_cons x (obj_ind' (snd x)) (go t) end) l)
  | OObj c l => HObj c l ((fix go (l : list (string * obj)) : Forall (fun p => P (snd p)) l :=
        match l with [] => Forall_nil _ | x :: t => Forall_cons x (obj_ind' (snd x)) (go t) end) l)
  end.
End ObjInd.

(** ** small facts *)
Lemma mem_str_In : forall s l, mem_str s l = true <-> In s l.
Proof.
  intros s l. unfold mem_str. rewrite existsb_exists. split.
  - intros [x [Hin He]]. apply String.eqb_eq in He. subst. exact Hin.
  - intros H. exists s. split; [exact H|apply String.eqb_refl].
Qed.
Lemma mem_str_false : forall s l, mem_str s l = false -> ~ In s l.
Proof. intros s l H Hin. apply mem_str_In in Hin. congruence. Qed.

Lemma lookup_in : forall c t cl, lookup c t = Some cl -> In cl t /\ c = cname cl.
Proof.
  induction t as [|x r IH]; simpl; intros cl H; [discriminate|].
  destruct (String.eqb c (cname x)) eqn:E.
  - inversion H; subst. apply String.eqb_eq in E. auto.
  - destruct (IH _ H). auto.
Qed.

Lemma find_name_in : forall a m, In a m -> exists x, find (fun y => String.eqb (aname y) (aname a)) m = Some x.
Proof.
  induction m as [|y r IH]; simpl; intros H; [tauto|].
  destruct (String.eqb (aname y) (aname a)) eqn:E; [eauto|].
  destruct H as [H|H]; [subst; rewrite String.eqb_refl in E; discriminate|auto].
Qed.

Lemma norm_none : forall v, norm v = ONone <-> v = ONone.
Proof. destruct v; simpl; split; intros H; try discriminate; auto; destruct c; discriminate. Qed.

Lemma norm_idem : forall o, norm (norm o) = norm o.
Proof.
  induction o using obj_ind'; simpl; auto.
  - f_equal. rewrite map_map. apply map_ext_Forall. exact H.
  - f_equal. rewrite map_map. apply map_ext_Forall.
    eapply Forall_impl; [|exact H]. intros p Hp. simpl. rewrite Hp. reflexivity.
  - f_equal. rewrite map_map. apply map_ext_Forall.
    eapply Forall_impl; [|exact H]. intros p Hp. simpl. rewrite Hp. reflexivity.
Qed.

Lemma plain_norm : forall o, plain o = true -> norm o = o.
Proof.
  induction o using obj_ind'; simpl; intros Hp; auto;
    try (destruct k; [reflexivity|discriminate]).
  - destruct c; try discriminate. f_equal.
    rewrite forallb_forall in Hp. rewrite Forall_forall in H.
    rewrite <- (map_id l) at 2. apply map_ext_in. intros a Ha. auto.
  - f_equal. rewrite forallb_forall in Hp. rewrite Forall_forall in H.
    rewrite <- (map_id l) at 2. apply map_ext_in. intros a Ha. destruct a as [k v]; simpl in *.
    pose proof (H _ Ha (Hp _ Ha)) as E. simpl in E. rewrite E. reflexivity.
  - f_equal. rewrite forallb_forall in Hp. rewrite Forall_forall in H.
    rewrite <- (map_id l) at 2. apply map_ext_in. intros a Ha. destruct a as [k v]; simpl in *.
    pose proof (H _ Ha (Hp _ Ha)) as E. simpl in E. rewrite E. reflexivity.
Qed.

Lemma same_names : forall (l : list (string * obj)) (m : list carg),
  (fix same (l : list (string * obj)) (m : list carg) : bool :=
     match l, m with [], [] => true | p :: t, a :: r => String.eqb (fst p) (aname a) && same t r
     | _, _ => false end) l m = true -> map fst l = map aname m.
Proof.
  induction l as [|p t IH]; destruct m as [|a r]; simpl; intros H; try discriminate; auto.
  apply andb_true_iff in H. destruct H as [H1 H2]. apply String.eqb_eq in H1. rewrite H1. f_equal. auto.
Qed.

(** ** round trip *)
Section RT.
Variable cfg : config.
Variable tbl : table.

Lemma supported_nat : forall native k, supported cfg k = true -> supported cfg (nat_kind native k) = true.
Proof. intros [] k H; simpl; auto. Qed.

Definition RTP (o : obj) : Prop :=
  wfb cfg tbl o = true -> forall native attr, from_node tbl (to_node_at cfg tbl native attr o) = Some (norm o).

Lemma seq_map_rt : forall l, Forall RTP l -> forallb (wfb cfg tbl) l = true -> forall n a,
  sequence (map (from_node tbl) (map (to_node_at cfg tbl n a) l)) = Some (map norm l).
Proof.
  induction l as [|x t IH]; simpl; intros HF Hw n a; [reflexivity|].
  inversion HF; subst. apply andb_true_iff in Hw. destruct Hw as [Hx Ht].
  rewrite (H1 Hx n a). rewrite (IH H2 Ht n a). reflexivity.
Qed.

Definition keepf (c : string) (p : string * obj) : list (string * obj) :=
  if skip_it cfg tbl c (fst p) (snd p) then [] else [(fst p, norm (snd p))].

Lemma fields_rt : forall c l, Forall (fun p => RTP (snd p)) l ->
  forallb (fun p => wfb cfg tbl (snd p) && none_fine cfg tbl c (fst p) (snd p)) l = true ->
  sequence (map (fun p => match from_node tbl (snd p) with Some v => Some (fst p, v) | None => None end)
     (flat_map (fun p => if skip_it cfg tbl c (fst p) (snd p) then [] else
                         [(fst p, to_node_at cfg tbl false true (snd p))]) l))
  = Some (flat_map (keepf c) l).
Proof.
  induction l as [|x t IH]; simpl; intros HF Hw; [reflexivity|].
  inversion HF; subst. apply andb_true_iff in Hw. destruct Hw as [Hx Ht].
  apply andb_true_iff in Hx. destruct Hx as [Hx _].
  unfold keepf at 1. destruct (skip_it cfg tbl c (fst x) (snd x)); simpl.
  - apply IH; assumption.
  - rewrite (H1 Hx false true). rewrite (IH H2 Ht). reflexivity.
Qed.

Lemma assoc_keep_notin : forall c k l, ~ In k (map fst l) -> assoc k (flat_map (keepf c) l) = None.
Proof.
  induction l as [|x t IH]; simpl; intros Hn; [reflexivity|].
  unfold keepf at 1. destruct (skip_it cfg tbl c (fst x) (snd x)); simpl.
  - apply IH. tauto.
  - destruct (String.eqb k (fst x)) eqn:E.
    + apply String.eqb_eq in E. subst. tauto.
    + apply IH. tauto.
Qed.

Lemma assoc_keep : forall c l p, nodupb (map fst l) = true -> In p l ->
  assoc (fst p) (flat_map (keepf c) l) =
  if skip_it cfg tbl c (fst p) (snd p) then None else Some (norm (snd p)).
Proof.
  induction l as [|x t IH]; simpl; intros p Hnd Hin; [tauto|].
  apply andb_true_iff in Hnd. destruct Hnd as [Hx Hnd]. apply negb_true_iff in Hx.
  apply mem_str_false in Hx.
  destruct Hin as [Hin|Hin].
  - subst x. unfold keepf at 1. destruct (skip_it cfg tbl c (fst p) (snd p)); simpl.
    + apply assoc_keep_notin. exact Hx.
    + rewrite String.eqb_refl. reflexivity.
  - assert (Hne : fst p <> fst x).
    { intros E. apply Hx. rewrite <- E. apply in_map. exact Hin. }
    apply String.eqb_neq in Hne.
    unfold keepf at 1. destruct (skip_it cfg tbl c (fst x) (snd x)); simpl.
    + apply IH; assumption.
    + rewrite Hne. apply IH; assumption.
Qed.

Lemma keys_keep : forall c l p, In p (flat_map (keepf c) l) -> In (fst p) (map fst l).
Proof.
  induction l as [|x t IH]; simpl; intros p Hin; [tauto|].
  apply in_app_or in Hin. destruct Hin as [Hin|Hin].
  - unfold keepf in Hin. destruct (skip_it cfg tbl c (fst x) (snd x)); simpl in Hin; [tauto|].
    destruct Hin as [Hin|[]]. subst p. simpl. auto.
  - right. apply IH. exact Hin.
Qed.

Lemma skipped_default : forall c cl a v, lookup c tbl = Some cl ->
  skip_it cfg tbl c a v = true -> none_fine cfg tbl c a v = true ->
  v = ONone /\ default_is_none cl a = true.
Proof.
  intros c cl a v Hl Hs Hn. unfold skip_it in Hs. unfold none_fine in Hn.
  destruct v; try discriminate. split; [reflexivity|].
  rewrite Hl in *. destruct (skip cfg); [assumption|].
  unfold skips_none in Hs. unfold default_is_none. destruct (dkind_of cl a); auto; discriminate.
Qed.

Lemma construct_rt : forall c cl args, lookup c tbl = Some cl ->
  nodupb (map fst args) = true -> forallb astored (cargs cl) = true ->
  map fst args = map aname (cargs cl) ->
  forallb (fun p => wfb cfg tbl (snd p) && none_fine cfg tbl c (fst p) (snd p)) args = true ->
  construct cl (flat_map (keepf c) args) = Some (OObj (cname cl) (map (fun p => (fst p, norm (snd p))) args)).
Proof.
  intros c cl args Hl Hnd Hst Hnames Hw. unfold construct.
  assert (Hkeys : forallb (fun p => mem_str (fst p) (map aname (cargs cl))) (flat_map (keepf c) args) = true).
  { apply forallb_forall. intros p Hp. apply mem_str_In. rewrite <- Hnames. eapply keys_keep. exact Hp. }
  rewrite Hkeys.
  assert (G : forall m l, map fst l = map aname m -> (forall p, In p l -> In p args) ->
              (forall a, In a m -> In a (cargs cl)) ->
              sequence (map (fun a =>
                match assoc (aname a) (flat_map (keepf c) args) with
                | Some v => Some (aname a, if astored a then v else ONone)
                | None => match default_by_name cl (aname a) with
                          | Some d => Some (aname a, if astored a then d else ONone)
                          | None => None end end) m)
              = Some (map (fun p => (fst p, norm (snd p))) l)).
  { induction m as [|a r IH]; destruct l as [|p t]; simpl; intros Hn Hsub Hsubm; try discriminate; [reflexivity|].
    inversion Hn as [[Hn1 Hn2]].
    assert (Hp : In p args) by (apply Hsub; left; reflexivity).
    assert (Ha : In a (cargs cl)) by (apply Hsubm; left; reflexivity).
    assert (Hsa : astored a = true) by (rewrite forallb_forall in Hst; apply Hst; exact Ha).
    rewrite (assoc_keep c args p Hnd Hp).
    rewrite (IH t Hn2 (fun q Hq => Hsub q (or_intror Hq)) (fun q Hq => Hsubm q (or_intror Hq))).
    rewrite Hsa.
    destruct (skip_it cfg tbl c (fst p) (snd p)) eqn:Hs.
    - rewrite forallb_forall in Hw. specialize (Hw p Hp). apply andb_true_iff in Hw. destruct Hw as [_ Hnf].
      destruct (skipped_default c cl (fst p) (snd p) Hl Hs Hnf) as [Hv Hd].
      unfold default_is_none, dkind_of in Hd. unfold default_by_name.
      destruct (find_name_in a (cargs cl) Ha) as [x Hx]. rewrite Hn1 in Hd. rewrite Hn1. rewrite Hx in *.
      destruct (adefault x) as [d|]; [|discriminate]. destruct d; try discriminate.
      rewrite Hv. reflexivity.
    - reflexivity. }
  rewrite (G (cargs cl) args Hnames (fun p H => H) (fun a H => H)). reflexivity.
Qed.

Lemma roundtrip_gen : forall o, RTP o.
Proof.
  induction o using obj_ind'; unfold RTP; simpl; intros Hw native attr; auto.
  - rewrite (supported_nat native k Hw). reflexivity.
  - rewrite (supported_nat native k Hw). reflexivity.
  - rewrite (supported_nat native k Hw). reflexivity.
  - rewrite (supported_nat native k Hw). reflexivity.
  - destruct c; simpl; try (rewrite (seq_map_rt l H Hw); reflexivity).
    destruct (attr && forallb is_scalar l); simpl; rewrite (seq_map_rt l H Hw); reflexivity.
  - rewrite map_map. simpl.
    assert (G : forall l, Forall (fun p => RTP (snd p)) l -> forallb (fun p => wfb cfg tbl (snd p)) l = true ->
       sequence (map (fun x : string * obj =>
          match from_node tbl (to_node_at cfg tbl native false (snd x)) with
          | Some v => Some (fst x, v) | None => None end) l) = Some (map (fun p => (fst p, norm (snd p))) l)).
    { induction l0 as [|x t IH]; simpl; intros HF Hw'; [reflexivity|].
      inversion HF; subst. apply andb_true_iff in Hw'. destruct Hw' as [Hx Ht].
      rewrite (H2 Hx native false). rewrite (IH H3 Ht). reflexivity. }
    rewrite (G l H Hw). reflexivity.
  - destruct (lookup c tbl) as [cl|] eqn:Hl; [|discriminate].
    repeat (apply andb_true_iff in Hw; destruct Hw as [Hw ?]).
    apply negb_true_iff in H4. rewrite H4.
    rewrite (fields_rt c l H H0).
    apply String.eqb_eq in Hw.
    rewrite (construct_rt c cl l Hl H3 H2 (same_names _ _ H1) H0). rewrite <- Hw. reflexivity.
Qed.

Theorem roundtrip_lemma : forall o, wfb cfg tbl o = true -> from_node tbl (to_node cfg tbl o) = Some (norm o).
Proof. intros o H. unfold to_node. apply roundtrip_gen. exact H. Qed.

(** ** dumping the reloaded object gives the same node *)
Definition STAB (o : obj) : Prop :=
  wfb cfg tbl o = true -> (tag_eqb (py_cplx_tag cfg) TagHolo = true \/ no_np_cplx o = true) ->
  forall native attr a2, to_node_at cfg tbl false a2 (norm o) = to_node_at cfg tbl native attr o.

Lemma skip_it_norm : forall c a v, skip_it cfg tbl c a (norm v) = skip_it cfg tbl c a v.
Proof. intros c a v. destruct v; simpl; try reflexivity. Qed.

Lemma stable_gen : forall o, STAB o.
Proof.
  induction o using obj_ind'; unfold STAB; simpl; intros Hw Hs native attr a2; auto.
  - rewrite (supported_nat native k Hw). reflexivity.
  - rewrite (supported_nat native k Hw). reflexivity.
  - rewrite (supported_nat native k Hw). reflexivity.
  - rewrite (supported_nat native k Hw). destruct native; simpl; [reflexivity|].
    destruct k as [|d]; simpl; [reflexivity|]. unfold cplx_tag.
    destruct Hs as [Hs|Hs]; [|discriminate]. unfold tag_eqb in Hs. destruct (py_cplx_tag cfg); [discriminate|reflexivity].
  - assert (G : forall n, map (to_node_at cfg tbl false false) (map norm l) = map (to_node_at cfg tbl n false) l).
    { intros n. rewrite map_map. apply map_ext_in. intros x Hx. rewrite Forall_forall in H.
      rewrite forallb_forall in Hw. apply (H x Hx (Hw x Hx)).
      destruct Hs as [Hs|Hs]; [left; exact Hs|right]. rewrite forallb_forall in Hs. auto. }
    destruct c; simpl; try (f_equal; apply G).
    destruct (attr && forallb is_scalar l); f_equal; apply G.
  - f_equal. rewrite map_map. apply map_ext_in. intros x Hx. simpl. f_equal.
    rewrite Forall_forall in H. rewrite forallb_forall in Hw. apply (H x Hx (Hw x Hx)).
    destruct Hs as [Hs|Hs]; [left; exact Hs|right]. rewrite forallb_forall in Hs. auto.
  - f_equal. destruct (lookup c tbl) as [cl|] eqn:Hl; [|discriminate].
    repeat (apply andb_true_iff in Hw; destruct Hw as [Hw ?]).
    clear - H H0 Hs.
    induction l as [|x t IH]; simpl; [reflexivity|].
    inversion H; subst. simpl in H0. apply andb_true_iff in H0. destruct H0 as [Hx Ht].
    apply andb_true_iff in Hx. destruct Hx as [Hx _].
    rewrite skip_it_norm.
    assert (Hs' : tag_eqb (py_cplx_tag cfg) TagHolo = true \/ no_np_cplx (snd x) = true).
    { destruct Hs as [Hs|Hs]; [left; exact Hs|right]. simpl in Hs. apply andb_true_iff in Hs. tauto. }
    assert (Hs'' : tag_eqb (py_cplx_tag cfg) TagHolo = true \/ forallb (fun p => no_np_cplx (snd p)) t = true).
    { destruct Hs as [Hs|Hs]; [left; exact Hs|right]. simpl in Hs. apply andb_true_iff in Hs. tauto. }
    rewrite (H3 Hx Hs' false true true). rewrite (IH H4 Ht Hs''). reflexivity.
Qed.

Theorem dump_idempotent_lemma : forall o o', wfb cfg tbl o = true -> cplx_stable cfg o = true ->
  from_node tbl (to_node cfg tbl o) = Some o' -> to_node cfg tbl o' = to_node cfg tbl o.
Proof.
  intros o o' Hw Hs Hr. rewrite (roundtrip_lemma o Hw) in Hr. inversion Hr; subst.
  unfold to_node. apply stable_gen; [exact Hw|].
  unfold cplx_stable in Hs. apply orb_true_iff in Hs. exact Hs.
Qed.

Theorem eq_when_plain_lemma : forall o, wfb cfg tbl o = true -> plain o = true ->
  from_node tbl (to_node cfg tbl o) = Some o.
Proof. intros o Hw Hp. rewrite (roundtrip_lemma o Hw). rewrite (plain_norm o Hp). reflexivity. Qed.

Theorem cycles_lemma : forall o, wfb cfg tbl o = true ->
  forall o1, from_node tbl (to_node cfg tbl o) = Some o1 ->
  wfb cfg tbl o1 = true -> from_node tbl (to_node cfg tbl o1) = Some o1.
Proof.
  intros o Hw o1 H1 Hw1. rewrite (roundtrip_lemma o Hw) in H1. inversion H1; subst.
  rewrite (roundtrip_lemma _ Hw1). rewrite norm_idem. reflexivity.
Qed.

(** ** table_ok gives well-formedness of every instance of the table *)
Lemma wf_of_table_ok : table_ok cfg tbl = true -> forall o, shape_ok tbl o = true -> wfb cfg tbl o = true.
Proof.
  intros Hok. unfold table_ok in Hok.
  do 4 (apply andb_true_iff in Hok; destruct Hok as [Hok ?]).
  rename Hok into Hnames. rename H into Hcplx. rename H0 into Hkinds. rename H1 into Hnone. rename H2 into Hstored.
  assert (Hk : forall k, kind_known k = true -> supported cfg k = true).
  { intros [|d]; simpl; auto. intros Hd. unfold kinds_ok in Hkinds. rewrite forallb_forall in Hkinds.
    apply Hkinds. apply mem_str_In. exact Hd. }
  induction o using obj_ind'; simpl; intros Hs; auto.
  - rewrite forallb_forall in *. rewrite Forall_forall in H. auto.
  - rewrite forallb_forall in *. rewrite Forall_forall in H. auto.
  - destruct (lookup c tbl) as [cl|] eqn:Hl; [|discriminate].
    destruct (lookup_in _ _ _ Hl) as [Hin Hc].
    repeat (apply andb_true_iff in Hs; destruct Hs as [Hs ?]).
    rewrite Hs. rewrite H2. simpl.
    unfold names_ok in Hnames. apply andb_true_iff in Hnames. destruct Hnames as [_ Hnames].
    rewrite forallb_forall in Hnames. specialize (Hnames cl Hin). apply andb_true_iff in Hnames.
    destruct Hnames as [Hnd _].
    rewrite (same_names _ _ H1). rewrite Hnd. simpl.
    unfold stored_ok in Hstored. rewrite forallb_forall in Hstored. specialize (Hstored cl Hin).
    rewrite H3 in Hstored. apply negb_true_iff in H2. rewrite H2 in Hstored. simpl in Hstored.
    rewrite Hstored. rewrite H1. simpl.
    apply forallb_forall. intros p Hp. rewrite forallb_forall in H0. specialize (H0 p Hp).
    apply andb_true_iff in H0. destruct H0 as [Hsp Hna].
    rewrite Forall_forall in H. rewrite (H p Hp Hsp). simpl.
    unfold none_fine. unfold none_allowed in Hna. destruct (snd p) eqn:Hv; auto.
    rewrite Hl. unfold default_is_none, dkind_of.
    destruct (find (fun x => String.eqb (aname x) (fst p)) (cargs cl)) as [x|] eqn:Hf; [|discriminate].
    assert (Hx : In x (cargs cl)) by (apply find_some in Hf; tauto).
    unfold none_ok in Hnone.
    destruct (skip cfg) eqn:Hsk;
      rewrite forallb_forall in Hnone; specialize (Hnone cl Hin); rewrite H3 in Hnone; rewrite H2 in Hnone;
      simpl in Hnone; rewrite forallb_forall in Hnone; specialize (Hnone x Hx);
      destruct (adefault x) as [[]|]; destruct (anone_ok x); simpl in *; try reflexivity; congruence.
Qed.
End RT.

(** normal forms stay well-formed: any number of further save/load cycles is covered *)
Lemma none_fine_norm : forall cfg tbl c a v, none_fine cfg tbl c a (norm v) = none_fine cfg tbl c a v.
Proof. intros. destruct v; simpl; reflexivity. Qed.

Lemma wfb_norm : forall cfg tbl o, wfb cfg tbl o = true -> wfb cfg tbl (norm o) = true.
Proof.
  intros cfg tbl. induction o using obj_ind'; simpl; intros Hw; auto.
  - rewrite forallb_forall in *. rewrite Forall_forall in H. intros x Hx.
    apply in_map_iff in Hx. destruct Hx as [y [Hy Hin]]. subst. auto.
  - rewrite forallb_forall in *. rewrite Forall_forall in H. intros x Hx.
    apply in_map_iff in Hx. destruct Hx as [y [Hy Hin]]. subst. simpl. auto.
  - destruct (lookup c tbl) as [cl|] eqn:Hl; [|discriminate].
    repeat (apply andb_true_iff in Hw; destruct Hw as [Hw ?]).
    rewrite Hw, H4, H2. simpl.
    assert (Hm : map fst (map (fun p : string * obj => (fst p, norm (snd p))) l) = map fst l).
    { rewrite map_map. apply map_ext. intros a. reflexivity. }
    rewrite Hm, H3. simpl.
    assert (G : forall (l : list (string * obj)) m,
      (fix same (l : list (string * obj)) (m : list carg) : bool :=
         match l, m with [], [] => true | p :: t, a :: r => String.eqb (fst p) (aname a) && same t r
         | _, _ => false end) l m = true ->
      (fix same (l : list (string * obj)) (m : list carg) : bool :=
         match l, m with [], [] => true | p :: t, a :: r => String.eqb (fst p) (aname a) && same t r
         | _, _ => false end) (map (fun p => (fst p, norm (snd p))) l) m = true).
    { induction l0 as [|p t IH]; destruct m as [|a r]; simpl; auto. intros E.
      apply andb_true_iff in E. destruct E as [E1 E2]. rewrite E1. simpl. auto. }
    rewrite (G _ _ H1). simpl.
    rewrite forallb_forall in *. rewrite Forall_forall in H. intros x Hx.
    apply in_map_iff in Hx. destruct Hx as [y [Hy Hin]]. subst. simpl.
    specialize (H0 y Hin). apply andb_true_iff in H0. destruct H0 as [A B].
    rewrite (H y Hin A). rewrite none_fine_norm. exact B.
Qed.

Fixpoint cycles (cfg : config) (tbl : table) (n : nat) (o : obj) : option obj :=
  match n with O => Some o | S k =>
    match from_node tbl (to_node cfg tbl o) with Some o' => cycles cfg tbl k o' | None => None end end.

Theorem cycles_n_lemma : forall cfg tbl o, wfb cfg tbl o = true ->
  forall n, cycles cfg tbl (S n) o = Some (norm o).
Proof.
  intros cfg tbl o Hw n. revert o Hw. induction n as [|n IH]; intros o Hw.
  - simpl. rewrite (roundtrip_lemma cfg tbl o Hw). reflexivity.
  - change (cycles cfg tbl (S (S n)) o) with
      (match from_node tbl (to_node cfg tbl o) with Some o' => cycles cfg tbl (S n) o' | None => None end).
    rewrite (roundtrip_lemma cfg tbl o Hw). rewrite (IH _ (wfb_norm cfg tbl o Hw)). rewrite norm_idem. reflexivity.
Qed.

Lemma roundtrip_equiv_lemma : forall cfg tbl o, wfb cfg tbl o = true ->
  exists o', from_node tbl (to_node cfg tbl o) = Some o' /\ equiv o' o.
Proof. intros cfg tbl o H. exists (norm o). split; [exact (roundtrip_lemma cfg tbl o H)|exact (norm_idem o)]. Qed.

Lemma roundtrip_over_table_lemma : forall cfg tbl, table_ok cfg tbl = true ->
  forall o, shape_ok tbl o = true -> from_node tbl (to_node cfg tbl o) = Some (norm o).
Proof. intros cfg tbl Hok o Hs. exact (roundtrip_lemma cfg tbl o (wf_of_table_ok cfg tbl Hok o Hs)). Qed.

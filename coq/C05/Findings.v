(** Models of defective variants with computed witnesses (historical record).
    MieLens.raw_fields before commit 69056db measured the detector azimuth from the polarisation with the
    wrong sign: [phi += pol_angle] ([mielens_assemble_plus]).  Invisible for polarisation along x or y and for
    rotations by 90 degrees (the field depends on 2*phi), wrong for every other polarisation direction. *)
From Coq Require Import ZArith QArith Reals List Bool Lra.
From HV Require Import Common.Generic Common.Cmp C01.Model C05.Model.
Import ListNotations.

Definition c_eqb (a b : cplx Q) : bool := Qeq_bool (fst a) (fst b) && Qeq_bool (snd a) (snd b).
Definition cv_eqb (E F : cvec3 Q) : bool :=
  let '(ex, ey, ez) := E in let '(fx, fy, fz) := F in c_eqb ex fx && c_eqb ey fy && c_eqb ez fz.

(** exact rational rotation (cos a, sin a) = (3/5, 4/5); I0 = 0, I2 = 1, detector on the x axis, x-polarised *)
Theorem mielens_buggy_refuted :
  exists (I0 I2 K : cplx Q) (cp sp cg sg ca sa : Q),
    (ca * ca + sa * sa == 1)%Q /\ (cp * cp + sp * sp == 1)%Q /\ (cg * cg + sg * sg == 1)%Q /\
    cv_eqb (mielens_assemble_plus QO I0 I2 (cp * ca - sp * sa) (sp * ca + cp * sa)
                                  (cg * ca - sg * sa) (sg * ca + cg * sa) K)
           (crotz QO ca sa (mielens_assemble_plus QO I0 I2 cp sp cg sg K)) = false.
Proof.
  exists (0, 0)%Q, (1, 0)%Q, (1, 0)%Q, 1%Q, 0%Q, 1%Q, 0%Q, (3 # 5)%Q, (4 # 5)%Q.
  repeat split; vm_compute; reflexivity.
Qed.

(** the repaired code ([phi - pol_angle]) is covariant on the same witness (and on every input: Props.v) *)
Example mielens_fixed_on_witness :
  cv_eqb (mielens_assemble QO (0, 0) (1, 0) (1 * (3 # 5) - 0 * (4 # 5)) (0 * (3 # 5) + 1 * (4 # 5))
                           (1 * (3 # 5) - 0 * (4 # 5)) (0 * (3 # 5) + 1 * (4 # 5)) (1, 0))%Q
         (crotz QO (3 # 5) (4 # 5) (mielens_assemble QO (0, 0) (1, 0) 1 0 1 0 (1, 0)))%Q = true.
Proof. vm_compute. reflexivity. Qed.

(** the same over R at the angle of DESIGN section 7: (I0, I2, phi, gamma, a) = (0, 1, 0, 0, pi/4) *)
Local Open Scope R_scope.
Theorem mielens_buggy_refuted_pi4 :
  mielens_assemble_plus RO (0, 0) (1, 0) (cos (0 + PI / 4)) (sin (0 + PI / 4)) (cos (0 + PI / 4)) (sin (0 + PI / 4)) (1, 0)
  <> crotz RO (cos (PI / 4)) (sin (PI / 4)) (mielens_assemble_plus RO (0, 0) (1, 0) (cos 0) (sin 0) (cos 0) (sin 0) (1, 0)).
Proof.
  rewrite Rplus_0_l, cos_0, sin_0.
  assert (Hc : cos (PI / 4) = sin (PI / 4)) by (rewrite cos_PI4, sin_PI4; reflexivity).
  pose proof (sin2_cos2 (PI / 4)) as H1. unfold Rsqr in H1. rewrite Hc in *.
  set (s := sin (PI / 4)) in *.
  unfold mielens_assemble_plus, mielens_core, rel_plus, dbl, half, crotz, csub, cmul, cadd, cscale.
  cbn [fst snd add mul sub opp inv zero one RO].
  assert (Hs : s * s = / 2) by lra.
  assert (Hs0 : s <> 0) by (intro Z; rewrite Z in Hs; lra).
  intros H. apply (f_equal (fun E : cvec3 R => fst (fst (fst E)))) in H. cbn [fst snd] in H.
  rewrite !Hs in H. apply Hs0. lra.
Qed.

(** C05 property theorems: statements only; proofs are in Lemmas.v.
    R instance = object of the theorems; the Q instance executed against the implementation computes the
    same values ([assembly_agrees_on_Q]).  Oracle leaves (cos/sin/sqrt/atan2/exp values, S1..S4, I0, I2, the
    radial amplitude, the pupil prefactor) are universally quantified arguments: every theorem holds for
    whatever the solvers return. *)
From Coq Require Import ZArith List Bool Reals QArith Qreals Lra Lia Permutation.
From HV Require Import Common.Generic Common.Cmp C01.Model C05.Model C05.Lemmas C05.Findings.
Import ListNotations.
Local Open Scope R_scope.

(** ** shift *)
(* the offsets handed to a theory depend on detector-minus-centre differences only (any shift vector) *)
Theorem shift_invariant : forall k (c q d : vec3 R),
  position RO k (vshift RO d c) (vshift RO d q) = position RO k c q.
Proof. exact position_shift. Qed.
Print Assumptions shift_invariant.

(* hence, for ANY theory [raw] and an in-plane shift of scatterer and detector (c_z, i.e. the phase leaves, untouched)
   the whole flattened field of C01's image-formation model, and every hologram value, are unchanged *)
Theorem shift_invariant_field : forall (raw : list (vec3 R) -> list (cvec3 R)) k c ckz skz pts dx dy,
  field_flat RO raw k (vshift RO (dx, dy, 0) c) ckz skz (map (vshift RO (dx, dy, 0)) pts) =
  field_flat RO raw k c ckz skz pts.
Proof. exact field_flat_shift. Qed.
Print Assumptions shift_invariant_field.
Theorem shift_invariant_holo : forall (raw : list (vec3 R) -> list (cvec3 R)) k c ckz skz pts dx dy alpha p nrm,
  holo_flat RO alpha p nrm (field_flat RO raw k (vshift RO (dx, dy, 0) c) ckz skz (map (vshift RO (dx, dy, 0)) pts)) =
  holo_flat RO alpha p nrm (field_flat RO raw k c ckz skz pts).
Proof. exact holo_flat_shift. Qed.
Print Assumptions shift_invariant_holo.

(** ** rotation / mirror of the offsets *)
Theorem rot_offsets : forall k ca sa (c q : vec3 R),
  position RO k (rotz RO ca sa c) (rotz RO ca sa q) = rotz RO ca sa (position RO k c q).
Proof. exact position_rot. Qed.
Print Assumptions rot_offsets.
(* r, theta (spherical) resp. rho, z (cylindrical) are computed from quantities a rotation / mirror leaves alone *)
Theorem rot_offsets_radii : forall ca sa (p : vec3 R), ca * ca + sa * sa = 1 ->
  sph_args RO (rotz RO ca sa p) = sph_args RO p.
Proof. exact sph_args_rot. Qed.
Print Assumptions rot_offsets_radii.
Theorem rot_offsets_radii_cyl : forall ca sa (p : vec3 R), ca * ca + sa * sa = 1 ->
  cyl_args RO (rotz RO ca sa p) = cyl_args RO p.
Proof. exact cyl_args_rot. Qed.
Print Assumptions rot_offsets_radii_cyl.
(* (rho, phi) -> (rho, phi + a) *)
Theorem rot_offsets_polar : forall rho phi a,
  rot2 RO (cos a) (sin a) (rho * cos phi, rho * sin phi) = (rho * cos (phi + a), rho * sin (phi + a)).
Proof. exact rot_polar. Qed.
Print Assumptions rot_offsets_polar.
(* whatever azimuth the conversion returns for the rotated offsets has the cosine and sine of phi + a *)
Theorem rot_offsets_azimuth_advances : forall x y rho phi phi' a,
  rho <> 0 -> x = rho * cos phi -> y = rho * sin phi ->
  fst (rot2 RO (cos a) (sin a) (x, y)) = rho * cos phi' ->
  snd (rot2 RO (cos a) (sin a) (x, y)) = rho * sin phi' ->
  cos phi' = cos (phi + a) /\ sin phi' = sin (phi + a).
Proof. exact rot_offsets_azimuth. Qed.
Print Assumptions rot_offsets_azimuth_advances.
Theorem mirror_offsets : forall k (c q : vec3 R),
  position RO k (mir_y RO c) (mir_y RO q) = mir_y RO (position RO k c q).
Proof. exact position_mir_y. Qed.
Print Assumptions mirror_offsets.
Theorem mirror_offsets_x : forall k (c q : vec3 R),
  position RO k (mir_x RO c) (mir_x RO q) = mir_x RO (position RO k c q).
Proof. exact position_mir_x. Qed.
Print Assumptions mirror_offsets_x.
Theorem mirror_offsets_radii : forall p : vec3 R,
  sph_args RO (mir_y RO p) = sph_args RO p /\ sph_args RO (mir_x RO p) = sph_args RO p.
Proof. exact sph_args_mir. Qed.
Print Assumptions mirror_offsets_radii.
Theorem mirror_offsets_radii_cyl : forall p : vec3 R,
  cyl_args RO (mir_y RO p) = cyl_args RO p /\ cyl_args RO (mir_x RO p) = cyl_args RO p.
Proof. exact cyl_args_mir. Qed.
Print Assumptions mirror_offsets_radii_cyl.
Theorem mirror_offsets_azimuth : forall x y rho phi phi',
  rho <> 0 -> x = rho * cos phi -> y = rho * sin phi -> x = rho * cos phi' -> - y = rho * sin phi' ->
  cos phi' = cos phi /\ sin phi' = - sin phi.
Proof. exact mir_offsets_azimuth. Qed.
Print Assumptions mirror_offsets_azimuth.

(** ** Mie / multisphere assembly (incfield, calc_scat_field, fieldstocart, radial term) *)
(* E(phi + a, Rz(a) pol) = Rz(a) E(phi, pol) for every S1..S4, prefactor, radial amplitude, theta, polarisation vector *)
Theorem mie_rot_cov : forall (S : smat R) (pref erad : cplx R) ct st cp sp ca sa (pol : R * R),
  ca * ca + sa * sa = 1 ->
  mie_assemble RO S pref erad ct st (cp * ca - sp * sa) (sp * ca + cp * sa) (rot2 RO ca sa pol) =
  crotz RO ca sa (mie_assemble RO S pref erad ct st cp sp pol).
Proof. exact C05.Lemmas.mie_rot_cov. Qed.
Print Assumptions mie_rot_cov.
Theorem mie_rot_cov_angles : forall (S : smat R) (pref erad : cplx R) theta phi a (pol : R * R),
  mie_assemble RO S pref erad (cos theta) (sin theta) (cos (phi + a)) (sin (phi + a)) (rot2 RO (cos a) (sin a) pol) =
  crotz RO (cos a) (sin a) (mie_assemble RO S pref erad (cos theta) (sin theta) (cos phi) (sin phi) pol).
Proof. exact mie_rot_cov_angle. Qed.
Print Assumptions mie_rot_cov_angles.
(* mirror y -> -y of detector azimuth, polarisation and scatterer (S3, S4 change sign; both are 0 for a sphere) *)
Theorem mie_mirror : forall (S : smat R) (pref erad : cplx R) ct st cp sp px py,
  mie_assemble RO (smat_mirror S) pref erad ct st cp (- sp) (px, - py) =
  cmir_y RO (mie_assemble RO S pref erad ct st cp sp (px, py)).
Proof. exact mie_mirror_y_gen. Qed.
Print Assumptions mie_mirror.
Theorem mie_mirror_x : forall (S : smat R) (pref erad : cplx R) ct st cp sp px py,
  mie_assemble RO (smat_mirror S) pref erad ct st (- cp) sp (- px, py) =
  cmir_x RO (mie_assemble RO S pref erad ct st cp sp (px, py)).
Proof. exact mie_mirror_x_gen. Qed.
Print Assumptions mie_mirror_x.
Theorem mie_polarisation_odd : forall (S : smat R) (pref erad : cplx R) ct st cp sp px py,
  mie_assemble RO S pref erad ct st cp sp (- px, - py) = cvneg RO (mie_assemble RO S pref erad ct st cp sp (px, py)).
Proof. exact mie_pol_odd. Qed.
Print Assumptions mie_polarisation_odd.
(* sphere with the SAME polarisation on both sides: x-polarised gives (Ex,-Ey,Ez) at the y-mirrored point,
   y-polarised (-Ex,Ey,-Ez); correspondingly for the x mirror *)
Theorem mie_mirror_sphere_axes : forall (s1 s2 pref erad : cplx R) ct st cp sp p,
  mie_assemble RO (sphere_S s1 s2) pref erad ct st cp (- sp) (p, 0) =
    cmir_y RO (mie_assemble RO (sphere_S s1 s2) pref erad ct st cp sp (p, 0)) /\
  mie_assemble RO (sphere_S s1 s2) pref erad ct st cp (- sp) (0, p) =
    cvneg RO (cmir_y RO (mie_assemble RO (sphere_S s1 s2) pref erad ct st cp sp (0, p))) /\
  mie_assemble RO (sphere_S s1 s2) pref erad ct st (- cp) sp (p, 0) =
    cvneg RO (cmir_x RO (mie_assemble RO (sphere_S s1 s2) pref erad ct st cp sp (p, 0))) /\
  mie_assemble RO (sphere_S s1 s2) pref erad ct st (- cp) sp (0, p) =
    cmir_x RO (mie_assemble RO (sphere_S s1 s2) pref erad ct st cp sp (0, p)).
Proof. exact mie_mirror_sphere. Qed.
Print Assumptions mie_mirror_sphere_axes.
(** ** MieLens *)
Theorem mielens_rot_cov : forall (I0 I2 K : cplx R) cp sp cg sg ca sa, ca * ca + sa * sa = 1 ->
  mielens_assemble RO I0 I2 (cp * ca - sp * sa) (sp * ca + cp * sa) (cg * ca - sg * sa) (sg * ca + cg * sa) K =
  crotz RO ca sa (mielens_assemble RO I0 I2 cp sp cg sg K).
Proof. exact C05.Lemmas.mielens_rot_cov. Qed.
Print Assumptions mielens_rot_cov.
Theorem mielens_rot_cov_angles : forall (I0 I2 K : cplx R) phi gam a,
  mielens_assemble RO I0 I2 (cos (phi + a)) (sin (phi + a)) (cos (gam + a)) (sin (gam + a)) K =
  crotz RO (cos a) (sin a) (mielens_assemble RO I0 I2 (cos phi) (sin phi) (cos gam) (sin gam) K).
Proof. exact mielens_rot_cov_angle. Qed.
Print Assumptions mielens_rot_cov_angles.
(* the polynomial in the four leaves is the code's cos / sin of 2 (phi - pol_angle), and "% 2 pi" is immaterial *)
Theorem mielens_model_is_code_form : forall (I0 I2 K : cplx R) phi gam,
  mielens_assemble RO I0 I2 (cos phi) (sin phi) (cos gam) (sin gam) K =
  mielens_core RO I0 I2 (cos (2 * (phi - gam))) (sin (2 * (phi - gam))) (cos gam) (sin gam) K.
Proof. exact mielens_poly_is_code. Qed.
Print Assumptions mielens_model_is_code_form.
Theorem mielens_mod_2pi_immaterial : forall (I0 I2 K : cplx R) x (k : nat) cg sg,
  mielens_core RO I0 I2 (cos (2 * (x + 2 * INR k * PI))) (sin (2 * (x + 2 * INR k * PI))) cg sg K =
  mielens_core RO I0 I2 (cos (2 * x)) (sin (2 * x)) cg sg K.
Proof. exact mielens_core_periodic. Qed.
Print Assumptions mielens_mod_2pi_immaterial.
Theorem mielens_mirror : forall (I0 I2 K : cplx R) cp sp cg sg,
  mielens_assemble RO I0 I2 cp (- sp) cg (- sg) K = cmir_y RO (mielens_assemble RO I0 I2 cp sp cg sg K).
Proof. exact mielens_mirror_y_gen. Qed.
Print Assumptions mielens_mirror.
Theorem mielens_mirror_x : forall (I0 I2 K : cplx R) cp sp cg sg,
  mielens_assemble RO I0 I2 (- cp) sp (- cg) sg K = cmir_x RO (mielens_assemble RO I0 I2 cp sp cg sg K).
Proof. exact mielens_mirror_x_gen. Qed.
Print Assumptions mielens_mirror_x.
Theorem mielens_polarisation_odd : forall (I0 I2 K : cplx R) cp sp cg sg,
  mielens_assemble RO I0 I2 cp sp (- cg) (- sg) K = cvneg RO (mielens_assemble RO I0 I2 cp sp cg sg K).
Proof. exact mielens_pol_odd. Qed.
Print Assumptions mielens_polarisation_odd.
Theorem mielens_mirror_sphere_axes : forall (I0 I2 K : cplx R) cp sp g,
  mielens_assemble RO I0 I2 cp (- sp) g 0 K = cmir_y RO (mielens_assemble RO I0 I2 cp sp g 0 K) /\
  mielens_assemble RO I0 I2 cp (- sp) 0 g K = cvneg RO (cmir_y RO (mielens_assemble RO I0 I2 cp sp 0 g K)) /\
  mielens_assemble RO I0 I2 (- cp) sp g 0 K = cvneg RO (cmir_x RO (mielens_assemble RO I0 I2 cp sp g 0 K)) /\
  mielens_assemble RO I0 I2 (- cp) sp 0 g K = cmir_x RO (mielens_assemble RO I0 I2 cp sp 0 g K).
Proof. exact mielens_mirror_axes. Qed.
Print Assumptions mielens_mirror_sphere_axes.

(** ** hologram of a sphere under x- or y-polarised light: even in both in-plane axes through the centre
    (phi -> -phi is y -> -y, phi -> pi - phi is x -> -x; rho, theta, r unchanged by [mirror_offsets_radii]) *)
Theorem holo_mirror_sym : forall alpha (ph s1 s2 pref erad : cplx R) ct st cp sp px py vx vy vz,
  (py = 0 /\ vy = 0) \/ (px = 0 /\ vx = 0) ->
  mie_holo_px RO alpha ph (sphere_S s1 s2) pref erad ct st cp (- sp) (px, py) (vx, vy, vz) =
  mie_holo_px RO alpha ph (sphere_S s1 s2) pref erad ct st cp sp (px, py) (vx, vy, vz) /\
  mie_holo_px RO alpha ph (sphere_S s1 s2) pref erad ct st (- cp) sp (px, py) (vx, vy, vz) =
  mie_holo_px RO alpha ph (sphere_S s1 s2) pref erad ct st cp sp (px, py) (vx, vy, vz).
Proof. exact mie_holo_mirror_sym. Qed.
Print Assumptions holo_mirror_sym.
Theorem holo_mirror_sym_mielens : forall alpha (ph I0 I2 K : cplx R) cp sp cg sg vx vy vz,
  (sg = 0 /\ vy = 0) \/ (cg = 0 /\ vx = 0) ->
  mielens_holo_px RO alpha ph I0 I2 cp (- sp) cg sg K (vx, vy, vz) =
  mielens_holo_px RO alpha ph I0 I2 cp sp cg sg K (vx, vy, vz) /\
  mielens_holo_px RO alpha ph I0 I2 (- cp) sp cg sg K (vx, vy, vz) =
  mielens_holo_px RO alpha ph I0 I2 cp sp cg sg K (vx, vy, vz).
Proof. exact mielens_holo_mirror_sym. Qed.
Print Assumptions holo_mirror_sym_mielens.
(* general: mirrored field against mirrored polarisation vector gives the same pixel *)
Theorem holo_px_mirror : forall alpha (ph : cplx R) (E : cvec3 R) (v : vec3 R),
  holo_px RO alpha (cv_mul RO ph (cmir_y RO E)) (mir_y RO v) = holo_px RO alpha (cv_mul RO ph E) v /\
  holo_px RO alpha (cv_mul RO ph (cmir_x RO E)) (mir_x RO v) = holo_px RO alpha (cv_mul RO ph E) v /\
  holo_px RO alpha (cv_mul RO ph (cvneg RO E)) (- fst (fst v), - snd (fst v), snd v) = holo_px RO alpha (cv_mul RO ph E) v.
Proof. exact holo_px_mir. Qed.
Print Assumptions holo_px_mirror.

(** ** Lens: discrete pupil sum *)
(* the integrals do not depend on the order of the nodes; in particular not on a cyclic re-indexing *)
Theorem lens_pupil_sum_order_free : forall n1 n2 : list (node R), Permutation n1 n2 ->
  lens_integral RO n1 = lens_integral RO n2.
Proof. exact lens_integral_perm. Qed.
Print Assumptions lens_pupil_sum_order_free.
Theorem lens_pupil_sum_cyclic : forall m (nodes : list (node R)),
  lens_integral RO (rotl m nodes) = lens_integral RO nodes.
Proof. exact lens_integral_cyclic. Qed.
Print Assumptions lens_pupil_sum_cyclic.
(* n equally spaced azimuthal nodes psi_j = 2 pi j / n, any polar nodes, any prefactor function of
   cos(psi - phi_p), any 2pi-periodic scattering matrix: turning scatterer, detector azimuth and polarisation by
   a = 2 pi m / n leaves the discrete integrals exactly unchanged and rotates the field by a *)
Theorem lens_grid_rot : forall (Th : Type) (Pf : Th -> R -> cplx R) (n : nat), (0 < n)%nat ->
  forall Sf : Th -> R -> smat R, (forall th x, Sf th (x + 2 * PI) = Sf th x) ->
  forall phip gam (ths : list Th) m, (m <= n)%nat ->
  lens_integral RO (pupil_nodes Th Pf n (Sf_rot Th Sf (psi n m)) (phip + psi n m) (gam + psi n m) ths) =
  lens_integral RO (pupil_nodes Th Pf n Sf phip gam ths).
Proof. exact C05.Lemmas.lens_grid_rot. Qed.
Print Assumptions lens_grid_rot.
Theorem lens_grid_rot_field : forall (Th : Type) (Pf : Th -> R -> cplx R) (n : nat), (0 < n)%nat ->
  forall Sf : Th -> R -> smat R, (forall th x, Sf th (x + 2 * PI) = Sf th x) ->
  forall phip gam (ths : list Th) m (K : cplx R), (m <= n)%nat ->
  lens_assemble RO (pupil_nodes Th Pf n (Sf_rot Th Sf (psi n m)) (phip + psi n m) (gam + psi n m) ths)
                (cos (gam + psi n m)) (sin (gam + psi n m)) K =
  crotz RO (cos (psi n m)) (sin (psi n m)) (lens_assemble RO (pupil_nodes Th Pf n Sf phip gam ths) (cos gam) (sin gam) K).
Proof. exact C05.Lemmas.lens_grid_rot_field. Qed.
Print Assumptions lens_grid_rot_field.
Theorem lens_field_rot_pol : forall (lr : cplx R * cplx R) cg sg ca sa (K : cplx R),
  lr_to_xyz RO lr (cg * ca - sg * sa) (sg * ca + cg * sa) K = crotz RO ca sa (lr_to_xyz RO lr cg sg K).
Proof. exact lr_to_xyz_rot. Qed.
Print Assumptions lens_field_rot_pol.

(** ** multisphere: cluster frame = centroid frame *)
Theorem centroid_equivariant : forall ca sa (cs : list (vec3 R)),
  centroid RO (map (rotz RO ca sa) cs) = rotz RO ca sa (centroid RO cs).
Proof. exact centroid_rot. Qed.
Print Assumptions centroid_equivariant.
Theorem centroid_shift_equivariant : forall d (cs : list (vec3 R)), cs <> [] ->
  centroid RO (map (vshift RO d) cs) = vshift RO d (centroid RO cs).
Proof. exact centroid_shift. Qed.
Print Assumptions centroid_shift_equivariant.
Theorem centroid_mirror_equivariant : forall cs : list (vec3 R),
  centroid RO (map (mir_y RO) cs) = mir_y RO (centroid RO cs) /\
  centroid RO (map (mir_x RO) cs) = mir_x RO (centroid RO cs).
Proof. exact centroid_mir. Qed.
Print Assumptions centroid_mirror_equivariant.
Theorem centroid_order_free : forall cs cs' : list (vec3 R), Permutation cs cs' -> centroid RO cs = centroid RO cs'.
Proof. exact centroid_perm. Qed.
Print Assumptions centroid_order_free.
(* what is handed to amncalc: unchanged by any shift, rotated by an in-plane rotation, permuted by a permutation *)
Theorem cluster_frame_shift_invariant : forall k d (cs : list (vec3 R)), cs <> [] ->
  scsmfo_centers RO k (map (vshift RO d) cs) = scsmfo_centers RO k cs.
Proof. exact scsmfo_centers_shift. Qed.
Print Assumptions cluster_frame_shift_invariant.
Theorem cluster_frame_rot : forall k ca sa (cs : list (vec3 R)),
  scsmfo_centers RO k (map (rotz RO ca sa) cs) = map (rotz RO ca sa) (scsmfo_centers RO k cs).
Proof. exact scsmfo_centers_rot. Qed.
Print Assumptions cluster_frame_rot.
Theorem cluster_frame_mirror : forall k (cs : list (vec3 R)),
  scsmfo_centers RO k (map (mir_y RO) cs) = map (mir_y RO) (scsmfo_centers RO k cs).
Proof. exact scsmfo_centers_mir_y. Qed.
Print Assumptions cluster_frame_mirror.
Theorem cluster_frame_perm : forall k (cs cs' : list (vec3 R)), Permutation cs cs' ->
  Permutation (scsmfo_centers RO k cs) (scsmfo_centers RO k cs').
Proof. exact scsmfo_centers_perm. Qed.
Print Assumptions cluster_frame_perm.
Theorem cluster_frame_centred : forall k (cs : list (vec3 R)), cs <> [] ->
  vsum RO (scsmfo_centers RO k cs) = (0, 0, 0).
Proof. exact scsmfo_centers_sum0. Qed.
Print Assumptions cluster_frame_centred.

(** ** the executed instance *)
Theorem assembly_agrees_on_Q : forall (S : smat Q) (pref erad : cplx Q) (ct st cp sp : Q) (pol : Q * Q),
  cvQ2R (mie_assemble QO S pref erad ct st cp sp pol) =
  mie_assemble RO (sQ2R S) (cQ2R pref) (cQ2R erad) (Q2R ct) (Q2R st) (Q2R cp) (Q2R sp) (Q2R (fst pol), Q2R (snd pol)).
Proof. exact mie_assemble_Q_R. Qed.
Print Assumptions assembly_agrees_on_Q.
Theorem mielens_agrees_on_Q : forall (I0 I2 K : cplx Q) (cp sp cg sg : Q),
  cvQ2R (mielens_assemble QO I0 I2 cp sp cg sg K) =
  mielens_assemble RO (cQ2R I0) (cQ2R I2) (Q2R cp) (Q2R sp) (Q2R cg) (Q2R sg) (cQ2R K).
Proof. exact mielens_assemble_Q_R. Qed.
Print Assumptions mielens_agrees_on_Q.

Theorem lens_agrees_on_Q : forall (nodes : list (node Q)) (cg sg : Q) (K : cplx Q),
  cvQ2R (lens_assemble QOr nodes cg sg K) = lens_assemble RO (map nQ2R nodes) (Q2R cg) (Q2R sg) (cQ2R K).
Proof. exact lens_assemble_Qr_R. Qed.
Print Assumptions lens_agrees_on_Q.

(** ** non-vacuity: the hypotheses are satisfiable and the objects non-trivial.
    (3/5, 4/5) is a genuine rotation; on it the executed Q model gives a non-zero field that the rotation
    really moves (so covariance is not 0 = 0); a grid with n = 5, m = 2 exists; a non-empty cluster exists. *)
Example hyps_satisfiable :
  ((3 # 5) * (3 # 5) + (4 # 5) * (4 # 5) == 1)%Q /\
  (let E := mie_assemble QO ((1, 2), (3, -1), (0, 0), (0, 0))%Q (1 # 2, 1 # 3)%Q (1 # 7, 0)%Q
                         (1 # 2) (1 # 3) (5 # 13) (12 # 13) (1, 0)%Q in
   cv_eqb E ((0, 0), (0, 0), (0, 0))%Q = false /\ cv_eqb (crotz QO (3 # 5) (4 # 5) E) E = false /\
   cv_eqb (mie_assemble QO ((1, 2), (3, -1), (0, 0), (0, 0))%Q (1 # 2, 1 # 3)%Q (1 # 7, 0)%Q (1 # 2) (1 # 3)
              ((5 # 13) * (3 # 5) - (12 # 13) * (4 # 5)) ((12 # 13) * (3 # 5) + (5 # 13) * (4 # 5))
              (rot2 QO (3 # 5) (4 # 5) (1, 0)))%Q
          (crotz QO (3 # 5) (4 # 5) E) = true) /\
  (0 < 5)%nat /\ (2 <= 5)%nat /\ [(1, 2, 3); (0, 0, 1)] <> (@nil (vec3 R)) /\
  ((0 = 0 /\ 0 = 0) \/ (1 = 0 /\ 1 = 0)).
Proof.
  split; [vm_compute; reflexivity|]. split; [vm_compute; repeat split; reflexivity|].
  repeat split; try lia; try discriminate. left; split; reflexivity.
Qed.

(** C05 - shift / rotation about the optical axis / mirror covariance of calculated fields and holograms.
    Executable model (no proofs here).
    Anchors: scattering/imageformation.py (_transform_to_desired_coordinates, _get_field_from),
    core/math.py (transform_cartesian_to_spherical / _cylindrical), theory/mie_f/mieangfuncs.f90
    (incfield, calc_scat_field, fieldstocart, radial_vect_to_cart, mie_fields, tmatrix_fields: the same
    assembly serves Multisphere; theory/tmatrix.py's own recombination is property C10's),
    theory/mielens.py (raw_fields) +
    mielensfunctions.py (_calculate_small_krho_scattered_field), theory/lens.py (_integrand_prll/_perp,
    _compute_integral, _transform_integral_from_lr_to_xyz, _compute_field_phase),
    theory/multisphere.py (_scsmfo_setup: centring), scatterer/spherecluster.py (Spheres.center).
    Oracles (arguments, never axioms): sqrt / arctan2 / cos / sin / exp values, the amplitude scattering
    matrix S1..S4 (Mie series, SCSMFO, ampld), the radial amplitude, the pupil integrals I0, I2.
    The hand-off [position], complex pairs and [holo_px] are those of C01.Model. *)
From Coq Require Import ZArith QArith List Bool.
From HV Require Import Common.Generic Common.Cmp C01.Model.
Import ListNotations.

Section Gen.
Context {T : Type} (O : Ops T).
Declare Scope c5_scope. Delimit Scope c5_scope with c5.
Local Notation "x + y" := (add O x y) : c5_scope. Local Notation "x * y" := (mul O x y) : c5_scope.
Local Notation "x - y" := (sub O x y) : c5_scope. Local Notation "- x" := (opp O x) : c5_scope.
Local Notation "x / y" := (mul O x (inv O y)) : c5_scope.
Local Open Scope c5_scope.

(** * 1. geometry of the three operations on lab-frame points (detector points, scatterer centres) *)
Definition vshift (d : vec3 T) (q : vec3 T) : vec3 T :=
  let '(dx, dy, dz) := d in let '(x, y, z) := q in (x + dx, y + dy, z + dz).
(** rotation about the optical (z) axis by the angle whose cosine / sine are [ca], [sa] *)
Definition rot2 (ca sa : T) (p : T * T) : T * T := (ca * fst p - sa * snd p, sa * fst p + ca * snd p).
Definition rotz (ca sa : T) (q : vec3 T) : vec3 T :=
  let '(x, y, z) := q in (ca * x - sa * y, sa * x + ca * y, z).
(** mirror in the x-z plane (y -> -y) and in the y-z plane (x -> -x) *)
Definition mir_y (q : vec3 T) : vec3 T := let '(x, y, z) := q in (x, - y, z).
Definition mir_x (q : vec3 T) : vec3 T := let '(x, y, z) := q in (- x, y, z).
(** the same maps on complex field vectors *)
Definition cneg (a : cplx T) : cplx T := (- fst a, - snd a).
Definition csub (a b : cplx T) : cplx T := (fst a - fst b, snd a - snd b).
Definition crotz (ca sa : T) (E : cvec3 T) : cvec3 T :=
  let '(ex, ey, ez) := E in
  (csub (cscale O ca ex) (cscale O sa ey), cadd O (cscale O sa ex) (cscale O ca ey), ez).
Definition cmir_y (E : cvec3 T) : cvec3 T := let '(ex, ey, ez) := E in (ex, cneg ey, ez).
Definition cmir_x (E : cvec3 T) : cvec3 T := let '(ex, ey, ez) := E in (cneg ex, ey, ez).
Definition cvneg (E : cvec3 T) : cvec3 T := let '(ex, ey, ez) := E in (cneg ex, cneg ey, cneg ez).

(** * 2. what the coordinate conversions compute FROM (core/math.py).
    transform_cartesian_to_spherical:  r = sqrt(x*x+y*y+z*z), theta = arctan2(sqrt(x**2+y**2), z),
    phi = arctan2(y, x) % 2pi;  _cylindrical: rho = sqrt(x**2+y**2), phi, z.
    [sph_args] are the arguments handed to the sqrt/arctan2 oracles for r, theta (resp. rho, z): everything
    except phi is a function of these alone. *)
Definition sph_args (p : vec3 T) : T * T * T := let '(x, y, z) := p in (x * x + y * y + z * z, x * x + y * y, z).
Definition cyl_args (p : vec3 T) : T * T := let '(x, y, z) := p in (x * x + y * y, z).
(** with oracle functions: the triple a spherical / cylindrical theory receives *)
Definition cart_to_sph (sqrt_ : T -> T) (atan2_ : T -> T -> T) (wrap : T -> T) (p : vec3 T) : vec3 T :=
  let '(x, y, z) := p in
  (sqrt_ (x * x + y * y + z * z), atan2_ (sqrt_ (x * x + y * y)) z, wrap (atan2_ y x)).
Definition cart_to_cyl (sqrt_ : T -> T) (atan2_ : T -> T -> T) (wrap : T -> T) (p : vec3 T) : vec3 T :=
  let '(x, y, z) := p in (sqrt_ (x * x + y * y), wrap (atan2_ y x), z).

(** * 3. Mie / multisphere field assembly (mieangfuncs.f90) *)
(** incfield: (ex cos phi + ey sin phi, ex sin phi - ey cos phi) *)
Definition incfield (pol : T * T) (cp sp : T) : T * T :=
  (fst pol * cp + snd pol * sp, fst pol * sp - snd pol * cp).
(** amplitude scattering matrix in the order the Fortran 2x2 holds it:
    ascatm = [[S2, S3], [S4, S1]]  (asm_mie_far: cshift + row-major reshape; S3 = S4 = 0 for a sphere) *)
Definition smat : Type := (cplx T * cplx T * cplx T * cplx T)%type.   (* (S1, S2, S3, S4) *)
(** calc_scat_field: prefactor * matmul(ascatm, einc_sph) * (1, -1) ; prefactor = i/kr * exp(i kr) is a leaf *)
Definition calc_scat_field (pref : cplx T) (S : smat) (einc : T * T) : cplx T * cplx T :=
  let '(s1, s2, s3, s4) := S in
  (cmul O pref (cadd O (cscale O (fst einc) s2) (cscale O (snd einc) s3)),
   cneg (cmul O pref (cadd O (cscale O (fst einc) s4) (cscale O (snd einc) s1)))).
(** fieldstocart *)
Definition fieldstocart (asph : cplx T * cplx T) (ct st cp sp : T) : cvec3 T :=
  let '(eth, eph) := asph in
  (csub (cscale O (ct * cp) eth) (cscale O sp eph),
   cadd O (cscale O (ct * sp) eth) (cscale O cp eph),
   cscale O (- st) eth).
(** radial_vect_to_cart *)
Definition radial_to_cart (ar : cplx T) (ct st cp sp : T) : cvec3 T :=
  (cscale O (st * cp) ar, cscale O (st * sp) ar, cscale O ct ar).
(** one point of mie_fields: [erad] is radial_field_mie's value (0 when compute_escat_radial is off);
    escat_rad = erad * einc_sph(1) *)
Definition mie_assemble (S : smat) (pref erad : cplx T) (ct st cp sp : T) (pol : T * T) : cvec3 T :=
  let einc := incfield pol cp sp in
  cv_add O (fieldstocart (calc_scat_field pref S einc) ct st cp sp)
           (radial_to_cart (cscale O (fst einc) erad) ct st cp sp).
(** * 4. MieLens (mielens.py raw_fields + _calculate_small_krho_scattered_field) *)
Definition half : T := inv O (one O + one O).
(** parallel / perpendicular components from the pupil integrals and cos, sin of 2(phi - pol_angle) *)
Definition mielens_core (I0 I2 : cplx T) (c2 s2 cg sg : T) (K : cplx T) : cvec3 T :=
  let fpll := cscale O half (cadd O I0 (cscale O c2 I2)) in
  let fprp := cscale O half (cscale O s2 I2) in
  (cmul O (csub (cscale O cg fpll) (cscale O sg fprp)) K,
   cmul O (cadd O (cscale O sg fpll) (cscale O cg fprp)) K,
   (zero O, zero O)).
(** cos / sin of the azimuth measured from the polarisation direction, phi - gamma (the code as it is),
    and of phi + gamma (the code before commit 69056db, see Findings.v) *)
Definition rel_minus (cp sp cg sg : T) : T * T := (cp * cg + sp * sg, sp * cg - cp * sg).
Definition rel_plus (cp sp cg sg : T) : T * T := (cp * cg - sp * sg, sp * cg + cp * sg).
Definition dbl (cs : T * T) : T * T :=
  (fst cs * fst cs - snd cs * snd cs, (one O + one O) * snd cs * fst cs).
(** K = exp(i kz) / incident_field_x is a leaf *)
Definition mielens_assemble (I0 I2 : cplx T) (cp sp cg sg : T) (K : cplx T) : cvec3 T :=
  let d := dbl (rel_minus cp sp cg sg) in mielens_core I0 I2 (fst d) (snd d) cg sg K.
Definition mielens_assemble_plus (I0 I2 : cplx T) (cp sp cg sg : T) (K : cplx T) : cvec3 T :=
  let d := dbl (rel_plus cp sp cg sg) in mielens_core I0 I2 (fst d) (snd d) cg sg K.

(** * 5. Lens: discrete pupil sum (lens.py).  One pupil node carries its leaves:
    P = prefactor (exp(i krho sin th cos(phi' - phi_p)) exp(i kz (1 - cos th)) sqrt(cos th) sin th w_phi w_th / 2pi),
    cg, sg = cos, sin (phi' - pol_angle), and S = conj of the wrapped theory's matrix at (th, phi'). *)
Definition node : Type := (cplx T * (T * T) * smat)%type.
Definition lens_term (nd : node) : cplx T * cplx T :=
  let '(P, (cg, sg), (s1, s2, s3, s4)) := nd in
  let a := cadd O (cscale O cg s2) (cscale O sg s3) in
  let b := cadd O (cscale O cg s4) (cscale O sg s1) in
  (cmul O P (cadd O (cscale O cg a) (cscale O sg b)),
   cmul O P (csub (cscale O sg a) (cscale O cg b))).
Definition c0 : cplx T := (zero O, zero O).
Definition csum (l : list (cplx T)) : cplx T := fold_right (cadd O) c0 l.
(** integral_l, integral_r = sum over all nodes (np.sum(axis=(0,1))) *)
Definition lens_integral (nodes : list node) : cplx T * cplx T :=
  (csum (map (fun nd => fst (lens_term nd)) nodes), csum (map (fun nd => snd (lens_term nd)) nodes)).
(** _transform_integral_from_lr_to_xyz, then * (-exp(i kz)) =: K *)
Definition lr_to_xyz (lr : cplx T * cplx T) (cg sg : T) (K : cplx T) : cvec3 T :=
  (cmul O (csub (cscale O cg (fst lr)) (cscale O sg (snd lr))) K,
   cmul O (cadd O (cscale O sg (fst lr)) (cscale O cg (snd lr))) K,
   c0).
Definition lens_assemble (nodes : list node) (cg sg : T) (K : cplx T) : cvec3 T :=
  lr_to_xyz (lens_integral nodes) cg sg K.

(** * 6. Multisphere centring (multisphere.py _scsmfo_setup) and Spheres.center *)
Definition vsum (cs : list (vec3 T)) : vec3 T :=
  fold_right (fun (c acc : vec3 T) => let '(x, y, z) := c in let '(a, b, d) := acc in (x + a, y + b, z + d))
             (zero O, zero O, zero O) cs.
Definition nof (cs : list (vec3 T)) : T := ofZ O (Z.of_nat (length cs)).
(** centers.mean(0) *)
Definition centroid (cs : list (vec3 T)) : vec3 T :=
  let '(sx, sy, sz) := vsum cs in (sx / nof cs, sy / nof cs, sz / nof cs).
(** (centers - centers.mean(0)) * k, then x, y, -z handed to amncalc *)
Definition scsmfo_centers (k : T) (cs : list (vec3 T)) : list (vec3 T) :=
  let '(mx, my, mz) := centroid cs in
  map (fun c : vec3 T => let '(x, y, z) := c in ((x - mx) * k, (y - my) * k, - ((z - mz) * k))) cs.

(** * 7. one hologram pixel of a sphere seen through the whole chain (C01.holo_px on the phased field) *)
Definition mie_holo_px (alpha : T) (ph : cplx T) (S : smat) (pref erad : cplx T) (ct st cp sp : T)
           (pol : T * T) (pvec : vec3 T) : T :=
  holo_px O alpha (cv_mul O ph (mie_assemble S pref erad ct st cp sp pol)) pvec.
Definition mielens_holo_px (alpha : T) (ph : cplx T) (I0 I2 : cplx T) (cp sp cg sg : T) (K : cplx T)
           (pvec : vec3 T) : T :=
  holo_px O alpha (cv_mul O ph (mielens_assemble I0 I2 cp sp cg sg K)) pvec.
End Gen.

Arguments smat T : clear implicits. Arguments node T : clear implicits.

(** comparison helpers for generated correspondence files (Q instance) *)
Definition cclose (tol scale : Q) (a b : cplx Q) : bool :=
  Qle_bool (Qabs' (fst a - fst b)) (tol * scale) && Qle_bool (Qabs' (snd a - snd b)) (tol * scale).
Definition cvclose (tol scale : Q) (E F : cvec3 Q) : bool :=
  let '(ex, ey, ez) := E in let '(fx, fy, fz) := F in
  cclose tol scale ex fx && cclose tol scale ey fy && cclose tol scale ez fz.

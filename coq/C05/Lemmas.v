(** C05 proofs.  All statements are over the R instance of the generic model; the Q instance that the
    harness executes is linked to it in section 8. *)
From Coq Require Import ZArith QArith Qreals Reals List Bool Lra Lia Nsatz Permutation.
From HV Require Import Common.Generic Common.Cmp C01.Model C05.Model.
Import ListNotations.
Local Open Scope R_scope.

Ltac red5 :=
  unfold mie_holo_px, mielens_holo_px, mie_assemble, mielens_assemble,
         mielens_assemble_plus, mielens_core, rel_minus, rel_plus, dbl, half, lens_assemble, lr_to_xyz,
         lens_term, fieldstocart, radial_to_cart, calc_scat_field, incfield, crotz, cmir_y, cmir_x, cvneg,
         cneg, csub, c0, rotz, rot2, mir_y, mir_x, vshift, sph_args, cyl_args, position, holo_px, cv_mul, cv_add,
         phase, cmul, cadd, cscale, cofR, cabs2 in *;
  cbn [fst snd add mul sub opp inv zero one ofZ RO] in *.
Ltac tup := repeat match goal with |- (_, _) = (_, _) => apply f_equal2 end.

Notation cR := (cplx R). Notation vR := (vec3 R). Notation cvR := (cvec3 R).

(** * 1. hand-off: shift, rotation, mirror of scatterer centre and detector point together *)
Lemma position_shift k (c q d : vR) : position RO k (vshift RO d c) (vshift RO d q) = position RO k c q.
Proof. destruct c as [[cx cy] cz], q as [[x y] z], d as [[dx dy] dz]. red5. tup; ring. Qed.

Lemma position_rot k ca sa (c q : vR) :
  position RO k (rotz RO ca sa c) (rotz RO ca sa q) = rotz RO ca sa (position RO k c q).
Proof. destruct c as [[cx cy] cz], q as [[x y] z]. red5. tup; ring. Qed.

Lemma position_mir_y k (c q : vR) : position RO k (mir_y RO c) (mir_y RO q) = mir_y RO (position RO k c q).
Proof. destruct c as [[cx cy] cz], q as [[x y] z]. red5. tup; ring. Qed.
Lemma position_mir_x k (c q : vR) : position RO k (mir_x RO c) (mir_x RO q) = mir_x RO (position RO k c q).
Proof. destruct c as [[cx cy] cz], q as [[x y] z]. red5. tup; ring. Qed.

(** the whole image-formation step of C01 ([field_flat]: theory on the handed-off positions, times the phase
    whose leaves are cos, sin of k*c_z) for an in-plane shift: c_z, hence the phase leaves, are untouched *)
Lemma field_flat_shift (raw : list vR -> list cvR) k c ckz skz pts dx dy :
  field_flat RO raw k (vshift RO (dx, dy, 0) c) ckz skz (map (vshift RO (dx, dy, 0)) pts) =
  field_flat RO raw k c ckz skz pts.
Proof.
  unfold field_flat. f_equal. f_equal. rewrite map_map. apply map_ext. intros q. apply position_shift.
Qed.
Lemma shift_keeps_cz dx dy (c : vR) : let '(_, _, z') := vshift RO (dx, dy, 0) c in let '(_, _, z) := c in z' = z.
Proof. destruct c as [[cx cy] cz]. red5. ring. Qed.
Lemma holo_flat_shift (raw : list vR -> list cvR) k c ckz skz pts dx dy alpha p nrm :
  holo_flat RO alpha p nrm (field_flat RO raw k (vshift RO (dx, dy, 0) c) ckz skz (map (vshift RO (dx, dy, 0)) pts)) =
  holo_flat RO alpha p nrm (field_flat RO raw k c ckz skz pts).
Proof. rewrite field_flat_shift. reflexivity. Qed.

(** * 2. what the coordinate conversion sees after a rotation / mirror of the offsets *)
Lemma sph_args_rot ca sa (p : vR) : ca * ca + sa * sa = 1 -> sph_args RO (rotz RO ca sa p) = sph_args RO p.
Proof. destruct p as [[x y] z]. intros H. red5. tup; try reflexivity; nsatz. Qed.
Lemma cyl_args_rot ca sa (p : vR) : ca * ca + sa * sa = 1 -> cyl_args RO (rotz RO ca sa p) = cyl_args RO p.
Proof. destruct p as [[x y] z]. intros H. red5. tup; try reflexivity; nsatz. Qed.
Lemma sph_args_mir (p : vR) : sph_args RO (mir_y RO p) = sph_args RO p /\ sph_args RO (mir_x RO p) = sph_args RO p.
Proof. destruct p as [[x y] z]. red5. split; tup; ring. Qed.
Lemma cyl_args_mir (p : vR) : cyl_args RO (mir_y RO p) = cyl_args RO p /\ cyl_args RO (mir_x RO p) = cyl_args RO p.
Proof. destruct p as [[x y] z]. red5. split; tup; ring. Qed.

Lemma rot_polar rho phi a :
  rot2 RO (cos a) (sin a) (rho * cos phi, rho * sin phi) = (rho * cos (phi + a), rho * sin (phi + a)).
Proof. red5. rewrite cos_plus, sin_plus. tup; ring. Qed.

(** any azimuth phi' the conversion may return for the rotated offsets (it is determined by x' = rho cos phi',
    y' = rho sin phi') has the cosine and sine of phi + a: the azimuth is advanced by a, rho, z, r, theta kept *)
Lemma rot_offsets_azimuth x y rho phi phi' a :
  rho <> 0 -> x = rho * cos phi -> y = rho * sin phi ->
  fst (rot2 RO (cos a) (sin a) (x, y)) = rho * cos phi' ->
  snd (rot2 RO (cos a) (sin a) (x, y)) = rho * sin phi' ->
  cos phi' = cos (phi + a) /\ sin phi' = sin (phi + a).
Proof.
  intros Hr Hx Hy. subst x y. rewrite rot_polar. cbn [fst snd]. intros H1 H2.
  split; apply (Rmult_eq_reg_l rho); auto.
Qed.
Lemma mir_offsets_azimuth x y rho phi phi' :
  rho <> 0 -> x = rho * cos phi -> y = rho * sin phi -> x = rho * cos phi' -> - y = rho * sin phi' ->
  cos phi' = cos phi /\ sin phi' = - sin phi.
Proof.
  intros Hr Hx Hy H1 H2. split; apply (Rmult_eq_reg_l rho); auto; lra.
Qed.

(** * 3. Mie / multisphere assembly *)
Lemma incfield_rot ca sa cp sp (pol : R * R) : ca * ca + sa * sa = 1 ->
  incfield RO (rot2 RO ca sa pol) (cp * ca - sp * sa) (sp * ca + cp * sa) = incfield RO pol cp sp.
Proof. destruct pol as [px py]. intros H. red5. tup; nsatz. Qed.

Lemma mie_rot_cov (S : smat R) (pref erad : cR) ct st cp sp ca sa (pol : R * R) :
  ca * ca + sa * sa = 1 ->
  mie_assemble RO S pref erad ct st (cp * ca - sp * sa) (sp * ca + cp * sa) (rot2 RO ca sa pol) =
  crotz RO ca sa (mie_assemble RO S pref erad ct st cp sp pol).
Proof.
  intros H. unfold mie_assemble. rewrite (incfield_rot ca sa cp sp pol H).
  destruct (incfield RO pol cp sp) as [e1 e2].
  destruct S as [[[[a1 b1] [a2 b2]] [a3 b3]] [a4 b4]], pref as [pr pi], erad as [er ei].
  red5. tup; ring.
Qed.

Lemma mie_rot_cov_angle (S : smat R) (pref erad : cR) theta phi a (pol : R * R) :
  mie_assemble RO S pref erad (cos theta) (sin theta) (cos (phi + a)) (sin (phi + a)) (rot2 RO (cos a) (sin a) pol) =
  crotz RO (cos a) (sin a) (mie_assemble RO S pref erad (cos theta) (sin theta) (cos phi) (sin phi) pol).
Proof.
  rewrite cos_plus, sin_plus. apply mie_rot_cov. pose proof (sin2_cos2 a) as H. unfold Rsqr in H. lra.
Qed.

(** mirror y -> -y: azimuth phi -> -phi, polarisation (px, -py); the mirror image of a scatterer has
    S3, S4 negated (both vanish for a sphere) *)
Definition smat_mirror (S : smat R) : smat R :=
  let '(s1, s2, s3, s4) := S in (s1, s2, cneg RO s3, cneg RO s4).
Lemma mie_mirror_y_gen (S : smat R) (pref erad : cR) ct st cp sp px py :
  mie_assemble RO (smat_mirror S) pref erad ct st cp (- sp) (px, - py) =
  cmir_y RO (mie_assemble RO S pref erad ct st cp sp (px, py)).
Proof.
  destruct S as [[[[a1 b1] [a2 b2]] [a3 b3]] [a4 b4]], pref as [pr pi], erad as [er ei].
  unfold smat_mirror. red5. tup; ring.
Qed.
Lemma mie_mirror_x_gen (S : smat R) (pref erad : cR) ct st cp sp px py :
  mie_assemble RO (smat_mirror S) pref erad ct st (- cp) sp (- px, py) =
  cmir_x RO (mie_assemble RO S pref erad ct st cp sp (px, py)).
Proof.
  destruct S as [[[[a1 b1] [a2 b2]] [a3 b3]] [a4 b4]], pref as [pr pi], erad as [er ei].
  unfold smat_mirror. red5. tup; ring.
Qed.
Lemma mie_pol_odd (S : smat R) (pref erad : cR) ct st cp sp px py :
  mie_assemble RO S pref erad ct st cp sp (- px, - py) = cvneg RO (mie_assemble RO S pref erad ct st cp sp (px, py)).
Proof.
  destruct S as [[[[a1 b1] [a2 b2]] [a3 b3]] [a4 b4]], pref as [pr pi], erad as [er ei]. red5. tup; ring.
Qed.

Definition sphere_S (s1 s2 : cR) : smat R := (s1, s2, (0, 0), (0, 0)).
(** sphere, x-polarised: (Ex, -Ey, Ez) at the mirrored point; y-polarised: (-Ex, Ey, -Ez) *)
Lemma mie_mirror_sphere (s1 s2 pref erad : cR) ct st cp sp p :
  mie_assemble RO (sphere_S s1 s2) pref erad ct st cp (- sp) (p, 0) =
    cmir_y RO (mie_assemble RO (sphere_S s1 s2) pref erad ct st cp sp (p, 0)) /\
  mie_assemble RO (sphere_S s1 s2) pref erad ct st cp (- sp) (0, p) =
    cvneg RO (cmir_y RO (mie_assemble RO (sphere_S s1 s2) pref erad ct st cp sp (0, p))) /\
  mie_assemble RO (sphere_S s1 s2) pref erad ct st (- cp) sp (p, 0) =
    cvneg RO (cmir_x RO (mie_assemble RO (sphere_S s1 s2) pref erad ct st cp sp (p, 0))) /\
  mie_assemble RO (sphere_S s1 s2) pref erad ct st (- cp) sp (0, p) =
    cmir_x RO (mie_assemble RO (sphere_S s1 s2) pref erad ct st cp sp (0, p)).
Proof.
  destruct s1 as [a1 b1], s2 as [a2 b2], pref as [pr pi], erad as [er ei].
  unfold sphere_S. red5. repeat split; tup; ring.
Qed.

(** the hologram pixel only sees (Ex, Ey) against the unit polarisation vector: both mirrors leave it unchanged
    when the polarisation lies along x or along y *)
Lemma holo_px_mir alpha (ph : cR) (E : cvR) (v : vR) :
  holo_px RO alpha (cv_mul RO ph (cmir_y RO E)) (mir_y RO v) = holo_px RO alpha (cv_mul RO ph E) v /\
  holo_px RO alpha (cv_mul RO ph (cmir_x RO E)) (mir_x RO v) = holo_px RO alpha (cv_mul RO ph E) v /\
  holo_px RO alpha (cv_mul RO ph (cvneg RO E)) (- fst (fst v), - snd (fst v), snd v) = holo_px RO alpha (cv_mul RO ph E) v.
Proof.
  destruct E as [[[ex1 ex2] [ey1 ey2]] [ez1 ez2]], v as [[vx vy] vz], ph as [p1 p2]. red5. repeat split; ring.
Qed.

Lemma cneg_invol (a : cR) : cneg RO (cneg RO a) = a.
Proof. destruct a. red5. tup; ring. Qed.
Lemma holo_px_flip_y alpha (ph ex ex' ey ey' ez ez' : cR) vx vz : ex' = ex -> ey' = cneg RO ey ->
  holo_px RO alpha (cv_mul RO ph (ex', ey', ez')) (vx, 0, vz) = holo_px RO alpha (cv_mul RO ph (ex, ey, ez)) (vx, 0, vz).
Proof. intros -> ->. destruct ex, ey, ph. red5. ring. Qed.
Lemma holo_px_flip_x alpha (ph ex ex' ey ey' ez ez' : cR) vy vz : ex' = cneg RO ex -> ey' = ey ->
  holo_px RO alpha (cv_mul RO ph (ex', ey', ez')) (0, vy, vz) = holo_px RO alpha (cv_mul RO ph (ex, ey, ez)) (0, vy, vz).
Proof. intros -> ->. destruct ex, ey, ph. red5. ring. Qed.

Lemma mie_holo_mirror_sym alpha (ph s1 s2 pref erad : cR) ct st cp sp px py vx vy vz :
  (py = 0 /\ vy = 0) \/ (px = 0 /\ vx = 0) ->
  mie_holo_px RO alpha ph (sphere_S s1 s2) pref erad ct st cp (- sp) (px, py) (vx, vy, vz) =
  mie_holo_px RO alpha ph (sphere_S s1 s2) pref erad ct st cp sp (px, py) (vx, vy, vz) /\
  mie_holo_px RO alpha ph (sphere_S s1 s2) pref erad ct st (- cp) sp (px, py) (vx, vy, vz) =
  mie_holo_px RO alpha ph (sphere_S s1 s2) pref erad ct st cp sp (px, py) (vx, vy, vz).
Proof.
  unfold mie_holo_px. intros [[-> ->]|[-> ->]].
  - destruct (mie_mirror_sphere s1 s2 pref erad ct st cp sp px) as (A & _ & C & _). rewrite A, C.
    destruct (mie_assemble RO (sphere_S s1 s2) pref erad ct st cp sp (px, 0)) as [[ex ey] ez].
    unfold cvneg, cmir_x, cmir_y. split; apply holo_px_flip_y; try reflexivity. apply cneg_invol.
  - destruct (mie_mirror_sphere s1 s2 pref erad ct st cp sp py) as (_ & B & _ & D). rewrite B, D.
    destruct (mie_assemble RO (sphere_S s1 s2) pref erad ct st cp sp (0, py)) as [[ex ey] ez].
    unfold cvneg, cmir_x, cmir_y. split; apply holo_px_flip_x; try reflexivity. apply cneg_invol.
Qed.

(** * 4. MieLens *)
Lemma rel_minus_rot ca sa cp sp cg sg : ca * ca + sa * sa = 1 ->
  rel_minus RO (cp * ca - sp * sa) (sp * ca + cp * sa) (cg * ca - sg * sa) (sg * ca + cg * sa) =
  rel_minus RO cp sp cg sg.
Proof. intros H. red5. tup; nsatz. Qed.

Lemma mielens_rot_cov (I0 I2 K : cR) cp sp cg sg ca sa : ca * ca + sa * sa = 1 ->
  mielens_assemble RO I0 I2 (cp * ca - sp * sa) (sp * ca + cp * sa) (cg * ca - sg * sa) (sg * ca + cg * sa) K =
  crotz RO ca sa (mielens_assemble RO I0 I2 cp sp cg sg K).
Proof.
  intros H. unfold mielens_assemble. rewrite (rel_minus_rot ca sa cp sp cg sg H).
  destruct (dbl RO (rel_minus RO cp sp cg sg)) as [c2 s2].
  destruct I0 as [i0r i0i], I2 as [i2r i2i], K as [kr ki]. red5. tup; ring.
Qed.
Lemma mielens_rot_cov_angle (I0 I2 K : cR) phi gam a :
  mielens_assemble RO I0 I2 (cos (phi + a)) (sin (phi + a)) (cos (gam + a)) (sin (gam + a)) K =
  crotz RO (cos a) (sin a) (mielens_assemble RO I0 I2 (cos phi) (sin phi) (cos gam) (sin gam) K).
Proof.
  rewrite !cos_plus, !sin_plus. apply mielens_rot_cov. pose proof (sin2_cos2 a) as H. unfold Rsqr in H. lra.
Qed.

(** the polynomial in the four leaf values is what the code computes: cos, sin of 2*(phi - pol_angle) *)
Lemma mielens_poly_is_code (I0 I2 K : cR) phi gam :
  mielens_assemble RO I0 I2 (cos phi) (sin phi) (cos gam) (sin gam) K =
  mielens_core RO I0 I2 (cos (2 * (phi - gam))) (sin (2 * (phi - gam))) (cos gam) (sin gam) K.
Proof.
  unfold mielens_assemble. f_equal; unfold dbl, rel_minus; cbn [fst snd add mul sub opp inv zero one RO].
  - rewrite cos_2a, cos_minus, sin_minus. ring.
  - rewrite sin_2a, cos_minus, sin_minus. ring.
Qed.
(** and it does not see the "% 2pi" the code applies to phi - pol_angle *)
Lemma mielens_core_periodic (I0 I2 K : cR) x (k : nat) cg sg :
  mielens_core RO I0 I2 (cos (2 * (x + 2 * INR k * PI))) (sin (2 * (x + 2 * INR k * PI))) cg sg K =
  mielens_core RO I0 I2 (cos (2 * x)) (sin (2 * x)) cg sg K.
Proof.
  replace (2 * (x + 2 * INR k * PI)) with (2 * x + 2 * INR (2 * k) * PI) by (rewrite mult_INR; simpl; ring).
  rewrite cos_period, sin_period. reflexivity.
Qed.

Lemma mielens_mirror_y_gen (I0 I2 K : cR) cp sp cg sg :
  mielens_assemble RO I0 I2 cp (- sp) cg (- sg) K = cmir_y RO (mielens_assemble RO I0 I2 cp sp cg sg K).
Proof. destruct I0 as [i0r i0i], I2 as [i2r i2i], K as [kr ki]. red5. tup; ring. Qed.
Lemma mielens_mirror_x_gen (I0 I2 K : cR) cp sp cg sg :
  mielens_assemble RO I0 I2 (- cp) sp (- cg) sg K = cmir_x RO (mielens_assemble RO I0 I2 cp sp cg sg K).
Proof. destruct I0 as [i0r i0i], I2 as [i2r i2i], K as [kr ki]. red5. tup; ring. Qed.
Lemma mielens_pol_odd (I0 I2 K : cR) cp sp cg sg :
  mielens_assemble RO I0 I2 cp sp (- cg) (- sg) K = cvneg RO (mielens_assemble RO I0 I2 cp sp cg sg K).
Proof. destruct I0 as [i0r i0i], I2 as [i2r i2i], K as [kr ki]. red5. tup; ring. Qed.

(** polarisation along x: (cg, sg) = (g, 0); along y: (0, g) (g = +-1, but any g works) *)
Lemma mielens_mirror_axes (I0 I2 K : cR) cp sp g :
  mielens_assemble RO I0 I2 cp (- sp) g 0 K = cmir_y RO (mielens_assemble RO I0 I2 cp sp g 0 K) /\
  mielens_assemble RO I0 I2 cp (- sp) 0 g K = cvneg RO (cmir_y RO (mielens_assemble RO I0 I2 cp sp 0 g K)) /\
  mielens_assemble RO I0 I2 (- cp) sp g 0 K = cvneg RO (cmir_x RO (mielens_assemble RO I0 I2 cp sp g 0 K)) /\
  mielens_assemble RO I0 I2 (- cp) sp 0 g K = cmir_x RO (mielens_assemble RO I0 I2 cp sp 0 g K).
Proof. destruct I0 as [i0r i0i], I2 as [i2r i2i], K as [kr ki]. red5. repeat split; tup; ring. Qed.

Lemma mielens_holo_mirror_sym alpha (ph I0 I2 K : cR) cp sp cg sg vx vy vz :
  (sg = 0 /\ vy = 0) \/ (cg = 0 /\ vx = 0) ->
  mielens_holo_px RO alpha ph I0 I2 cp (- sp) cg sg K (vx, vy, vz) =
  mielens_holo_px RO alpha ph I0 I2 cp sp cg sg K (vx, vy, vz) /\
  mielens_holo_px RO alpha ph I0 I2 (- cp) sp cg sg K (vx, vy, vz) =
  mielens_holo_px RO alpha ph I0 I2 cp sp cg sg K (vx, vy, vz).
Proof.
  unfold mielens_holo_px. intros [[-> ->]|[-> ->]].
  - destruct (mielens_mirror_axes I0 I2 K cp sp cg) as (A & _ & C & _). rewrite A, C.
    destruct (mielens_assemble RO I0 I2 cp sp cg 0 K) as [[ex ey] ez].
    unfold cvneg, cmir_x, cmir_y. split; apply holo_px_flip_y; try reflexivity. apply cneg_invol.
  - destruct (mielens_mirror_axes I0 I2 K cp sp sg) as (_ & B & _ & D). rewrite B, D.
    destruct (mielens_assemble RO I0 I2 cp sp 0 sg K) as [[ex ey] ez].
    unfold cvneg, cmir_x, cmir_y. split; apply holo_px_flip_x; try reflexivity. apply cneg_invol.
Qed.

(** * 5. Lens: the pupil sum *)
Lemma cadd_comm (a b : cR) : cadd RO a b = cadd RO b a.
Proof. destruct a, b. red5. tup; ring. Qed.
Lemma cadd_assoc (a b c : cR) : cadd RO a (cadd RO b c) = cadd RO (cadd RO a b) c.
Proof. destruct a, b, c. red5. tup; ring. Qed.
Lemma cadd_0_l (a : cR) : cadd RO (c0 RO) a = a.
Proof. destruct a. red5. tup; ring. Qed.
Lemma cadd_0_r (a : cR) : cadd RO a (c0 RO) = a.
Proof. rewrite cadd_comm. apply cadd_0_l. Qed.

Lemma csum_app (l1 l2 : list cR) : csum RO (l1 ++ l2) = cadd RO (csum RO l1) (csum RO l2).
Proof.
  induction l1 as [|a l IH]; cbn [app csum fold_right].
  - symmetry. apply cadd_0_l.
  - unfold csum in IH. rewrite IH. apply cadd_assoc.
Qed.
Lemma csum_perm (l1 l2 : list cR) : Permutation l1 l2 -> csum RO l1 = csum RO l2.
Proof.
  induction 1; cbn [csum fold_right] in *.
  - reflexivity.
  - unfold csum in IHPermutation. rewrite IHPermutation. reflexivity.
  - rewrite !cadd_assoc. f_equal. apply cadd_comm.
  - congruence.
Qed.

(** the pupil integral does not depend on the order in which the nodes are visited: any permutation,
    in particular the cyclic re-indexing j -> j - m of the azimuthal nodes *)
Lemma lens_integral_perm (n1 n2 : list (node R)) : Permutation n1 n2 ->
  lens_integral RO n1 = lens_integral RO n2.
Proof.
  intros H. unfold lens_integral. f_equal; apply csum_perm; apply Permutation_map; exact H.
Qed.
Definition rotl {A} (m : nat) (l : list A) : list A := skipn m l ++ firstn m l.
Lemma rotl_perm {A} m (l : list A) : Permutation (rotl m l) l.
Proof.
  unfold rotl. rewrite <- (firstn_skipn m l) at 3. apply Permutation_app_comm.
Qed.
Lemma lens_integral_cyclic m (nodes : list (node R)) : lens_integral RO (rotl m nodes) = lens_integral RO nodes.
Proof. apply lens_integral_perm. apply rotl_perm. Qed.

Lemma lr_to_xyz_rot (lr : cR * cR) cg sg ca sa (K : cR) :
  lr_to_xyz RO lr (cg * ca - sg * sa) (sg * ca + cg * sa) K = crotz RO ca sa (lr_to_xyz RO lr cg sg K).
Proof. destruct lr as [[l1 l2] [r1 r2]], K as [k1 k2]. red5. tup; ring. Qed.

Lemma cos_add_2PI x : cos (x + 2 * PI) = cos x.
Proof. rewrite cos_plus, cos_2PI, sin_2PI. ring. Qed.
Lemma sin_add_2PI x : sin (x + 2 * PI) = sin x.
Proof. rewrite sin_plus, cos_2PI, sin_2PI. ring. Qed.

(** real-angle instantiation of the nodes: n equally spaced azimuths psi_j = 2 pi j / n (pts_wts_for_phi_integrals),
    a list [ths] of polar nodes.  [Pf th c] is the prefactor as a function of the polar node and of
    cos(psi - phi_p); [Sf th psi] the (conjugated) scattering matrix of the wrapped theory. *)
Section LensGrid.
Variables (Th : Type) (Pf : Th -> R -> cR) (n : nat).
Hypothesis npos : (0 < n)%nat.
Definition psi (j : nat) : R := 2 * PI * INR j / INR n.
Definition node_at (Sf : Th -> R -> smat R) (phip gam : R) (th : Th) (j : nat) : node R :=
  (Pf th (cos (psi j - phip)), (cos (psi j - gam), sin (psi j - gam)), Sf th (psi j)).
Definition ring_nodes Sf phip gam th : list (node R) := map (node_at Sf phip gam th) (seq 0 n).
Definition pupil_nodes Sf phip gam (ths : list Th) : list (node R) := flat_map (ring_nodes Sf phip gam) ths.

Lemma INRn : INR n <> 0. Proof. apply not_0_INR. lia. Qed.
Lemma psi_add j m : psi (j + m) = psi j + psi m.
Proof. unfold psi. rewrite plus_INR. field. apply INRn. Qed.
Lemma psi_n : psi n = 2 * PI. Proof. unfold psi. field. apply INRn. Qed.

(** the scatterer turned by a = psi m has S'(th, psi) = S(th, psi - a); S is 2pi-periodic in psi *)
Variable Sf : Th -> R -> smat R.
Hypothesis Sf_periodic : forall th x, Sf th (x + 2 * PI) = Sf th x.
Definition Sf_rot (a : R) : Th -> R -> smat R := fun th x => Sf th (x - a).

Lemma node_rot_hi phip gam th m j :
  node_at (Sf_rot (psi m)) (phip + psi m) (gam + psi m) th (j + m) = node_at Sf phip gam th j.
Proof.
  unfold node_at, Sf_rot. rewrite psi_add.
  replace (psi j + psi m - (phip + psi m)) with (psi j - phip) by ring.
  replace (psi j + psi m - (gam + psi m)) with (psi j - gam) by ring.
  replace (psi j + psi m - psi m) with (psi j) by ring. reflexivity.
Qed.
Lemma node_rot_lo phip gam th m j : (m <= n)%nat ->
  node_at (Sf_rot (psi m)) (phip + psi m) (gam + psi m) th j = node_at Sf phip gam th (j + (n - m)).
Proof.
  intros Hm. unfold node_at, Sf_rot.
  assert (E : psi (j + (n - m)) = psi j - psi m + 2 * PI).
  { rewrite <- psi_n. unfold psi. rewrite plus_INR, minus_INR by exact Hm. field. apply INRn. }
  rewrite E.
  replace (psi j - psi m + 2 * PI - phip) with (psi j - (phip + psi m) + 2 * PI) by ring.
  replace (psi j - psi m + 2 * PI - gam) with (psi j - (gam + psi m) + 2 * PI) by ring.
  rewrite !cos_add_2PI, sin_add_2PI, Sf_periodic. reflexivity.
Qed.

Lemma map_seq_shift {A} (f : nat -> A) k m a : map (fun j => f (j + k)%nat) (seq a m) = map f (seq (a + k) m).
Proof. revert a. induction m as [|m IH]; intros a; cbn [seq map]; [reflexivity|]. f_equal. apply (IH (S a)). Qed.

Lemma ring_nodes_perm phip gam th m : (m <= n)%nat ->
  Permutation (ring_nodes (Sf_rot (psi m)) (phip + psi m) (gam + psi m) th) (ring_nodes Sf phip gam th).
Proof.
  intros Hm. unfold ring_nodes.
  assert (E1 : seq 0 n = seq 0 m ++ seq m (n - m)).
  { replace (seq 0 n) with (seq 0 (m + (n - m))) by (f_equal; lia). apply seq_app. }
  assert (E2 : seq 0 n = seq 0 (n - m) ++ seq (n - m) m).
  { replace (seq 0 n) with (seq 0 ((n - m) + m)) by (f_equal; lia). apply seq_app. }
  rewrite E1 at 1. rewrite E2. rewrite !map_app.
  set (f' := node_at (Sf_rot (psi m)) (phip + psi m) (gam + psi m) th). set (f := node_at Sf phip gam th).
  assert (A : map f' (seq 0 m) = map f (seq (n - m) m)).
  { rewrite <- (map_seq_shift f (n - m) m 0 : _ = map f (seq (n - m) m)). apply map_ext. intros j. apply node_rot_lo. exact Hm. }
  assert (B : map f' (seq m (n - m)) = map f (seq 0 (n - m))).
  { rewrite <- (map_seq_shift f' m (n - m) 0 : _ = map f' (seq m (n - m))). apply map_ext. intros j. apply node_rot_hi. }
  rewrite A, B. apply Permutation_app_comm.
Qed.

Lemma flat_map_perm {A B} (f g : A -> list B) l :
  (forall a, Permutation (f a) (g a)) -> Permutation (flat_map f l) (flat_map g l).
Proof. intros H. induction l as [|a l IH]; cbn [flat_map]; [constructor|]. apply Permutation_app; auto. Qed.

(** rotation of scatterer, detector azimuth and polarisation by one grid step multiple a = 2 pi m / n:
    the discrete pupil integrals are EXACTLY unchanged (cyclic re-indexing of the azimuthal nodes) ... *)
Lemma lens_grid_rot phip gam (ths : list Th) m : (m <= n)%nat ->
  lens_integral RO (pupil_nodes (Sf_rot (psi m)) (phip + psi m) (gam + psi m) ths) =
  lens_integral RO (pupil_nodes Sf phip gam ths).
Proof.
  intros Hm. apply lens_integral_perm. unfold pupil_nodes. apply flat_map_perm. intros th.
  apply ring_nodes_perm. exact Hm.
Qed.
(** ... and the field is the rotated field *)
Lemma lens_grid_rot_field phip gam (ths : list Th) m (K : cR) : (m <= n)%nat ->
  lens_assemble RO (pupil_nodes (Sf_rot (psi m)) (phip + psi m) (gam + psi m) ths)
                (cos (gam + psi m)) (sin (gam + psi m)) K =
  crotz RO (cos (psi m)) (sin (psi m)) (lens_assemble RO (pupil_nodes Sf phip gam ths) (cos gam) (sin gam) K).
Proof.
  intros Hm. unfold lens_assemble. rewrite (lens_grid_rot phip gam ths m Hm).
  rewrite cos_plus, sin_plus. apply lr_to_xyz_rot.
Qed.
End LensGrid.

(** for a sphere S does not depend on psi at all: the periodicity hypothesis is trivially met *)
Lemma lens_grid_rot_sphere (Th : Type) (Pf : Th -> R -> cR) (n : nat) (S0 : Th -> smat R) phip gam ths m K :
  (0 < n)%nat -> (m <= n)%nat ->
  lens_assemble RO (pupil_nodes Th Pf n (fun th _ => S0 th) (phip + psi n m) (gam + psi n m) ths)
                (cos (gam + psi n m)) (sin (gam + psi n m)) K =
  crotz RO (cos (psi n m)) (sin (psi n m))
        (lens_assemble RO (pupil_nodes Th Pf n (fun th _ => S0 th) phip gam ths) (cos gam) (sin gam) K).
Proof.
  intros Hn Hm.
  apply (lens_grid_rot_field Th Pf n Hn (fun th _ => S0 th) (fun _ _ => eq_refl) phip gam ths m K Hm).
Qed.

(** * 6. multisphere centring *)
Lemma vsum_cons (c : vR) cs :
  vsum RO (c :: cs) = let '(x, y, z) := c in let '(a, b, d) := vsum RO cs in (x + a, y + b, z + d).
Proof. reflexivity. Qed.
Definition Nof (cs : list vR) : R := IZR (Z.of_nat (length cs)).
Lemma Nof_cons c cs : Nof (c :: cs) = Nof cs + 1.
Proof. unfold Nof. cbn [length]. rewrite Nat2Z.inj_succ, succ_IZR. reflexivity. Qed.
Lemma Nof_nz cs : cs <> [] -> Nof cs <> 0.
Proof. intros H. unfold Nof. apply not_0_IZR. destruct cs; [congruence|]. cbn [length]. lia. Qed.

Lemma vsum_rot ca sa cs : vsum RO (map (rotz RO ca sa) cs) = rotz RO ca sa (vsum RO cs).
Proof.
  induction cs as [|[[x y] z] cs IH].
  - cbn. tup; ring.
  - cbn [map]. rewrite !vsum_cons, IH. destruct (vsum RO cs) as [[a b] d]. red5. tup; ring.
Qed.
Lemma vsum_mir cs : vsum RO (map (mir_y RO) cs) = mir_y RO (vsum RO cs) /\
                    vsum RO (map (mir_x RO) cs) = mir_x RO (vsum RO cs).
Proof.
  induction cs as [|[[x y] z] cs [IH1 IH2]].
  - cbn. split; tup; ring.
  - cbn [map]. rewrite !vsum_cons, IH1, IH2. destruct (vsum RO cs) as [[a b] d]. red5. split; tup; ring.
Qed.
Lemma vsum_shift dx dy dz cs :
  vsum RO (map (vshift RO (dx, dy, dz)) cs) =
  let '(a, b, d) := vsum RO cs in (a + Nof cs * dx, b + Nof cs * dy, d + Nof cs * dz).
Proof.
  induction cs as [|[[x y] z] cs IH].
  - unfold Nof. cbn. tup; ring.
  - cbn [map]. rewrite Nof_cons, !vsum_cons, IH. destruct (vsum RO cs) as [[a b] d]. red5. tup; ring.
Qed.
Lemma vsum_perm cs cs' : Permutation cs cs' -> vsum RO cs = vsum RO cs'.
Proof.
  induction 1.
  - reflexivity.
  - rewrite !vsum_cons, IHPermutation. reflexivity.
  - rewrite !vsum_cons. destruct x as [[x1 x2] x3], y as [[y1 y2] y3], (vsum RO l) as [[a b] d].
    red5. tup; ring.
  - congruence.
Qed.

Lemma nof_Nof cs : nof RO cs = Nof cs. Proof. reflexivity. Qed.

Lemma centroid_rot ca sa cs : centroid RO (map (rotz RO ca sa) cs) = rotz RO ca sa (centroid RO cs).
Proof.
  unfold centroid. rewrite vsum_rot. unfold nof. rewrite map_length.
  destruct (vsum RO cs) as [[a b] d]. red5. tup; ring.
Qed.
Lemma centroid_mir cs : centroid RO (map (mir_y RO) cs) = mir_y RO (centroid RO cs) /\
                        centroid RO (map (mir_x RO) cs) = mir_x RO (centroid RO cs).
Proof.
  unfold centroid. destruct (vsum_mir cs) as [E1 E2]. rewrite E1, E2. unfold nof. rewrite !map_length.
  destruct (vsum RO cs) as [[a b] d]. red5. split; tup; ring.
Qed.
Lemma centroid_shift d cs : cs <> [] -> centroid RO (map (vshift RO d) cs) = vshift RO d (centroid RO cs).
Proof.
  intros H. destruct d as [[dx dy] dz]. unfold centroid. rewrite vsum_shift. unfold nof. rewrite map_length.
  fold (Nof cs). pose proof (Nof_nz cs H) as Hn.
  destruct (vsum RO cs) as [[a b] d]. red5. fold (Nof cs). tup; field; exact Hn.
Qed.
Lemma centroid_perm cs cs' : Permutation cs cs' -> centroid RO cs = centroid RO cs'.
Proof.
  intros H. unfold centroid, nof. rewrite (vsum_perm cs cs' H), (Permutation_length H). reflexivity.
Qed.

Lemma scsmfo_centers_shift k d cs : cs <> [] -> scsmfo_centers RO k (map (vshift RO d) cs) = scsmfo_centers RO k cs.
Proof.
  intros H. unfold scsmfo_centers. rewrite (centroid_shift d cs H).
  destruct (centroid RO cs) as [[mx my] mz], d as [[dx dy] dz]. cbn [vshift]. rewrite map_map. apply map_ext.
  intros [[x y] z]. red5. tup; ring.
Qed.
Lemma scsmfo_centers_rot k ca sa cs :
  scsmfo_centers RO k (map (rotz RO ca sa) cs) = map (rotz RO ca sa) (scsmfo_centers RO k cs).
Proof.
  unfold scsmfo_centers. rewrite centroid_rot. destruct (centroid RO cs) as [[mx my] mz]. cbn [rotz].
  rewrite !map_map. apply map_ext. intros [[x y] z]. red5. tup; ring.
Qed.
Lemma scsmfo_centers_mir_y k cs : scsmfo_centers RO k (map (mir_y RO) cs) = map (mir_y RO) (scsmfo_centers RO k cs).
Proof.
  unfold scsmfo_centers. destruct (centroid_mir cs) as [E _]. rewrite E.
  destruct (centroid RO cs) as [[mx my] mz]. cbn [mir_y]. rewrite !map_map. apply map_ext.
  intros [[x y] z]. red5. tup; ring.
Qed.
Lemma scsmfo_centers_perm k cs cs' : Permutation cs cs' ->
  Permutation (scsmfo_centers RO k cs) (scsmfo_centers RO k cs').
Proof.
  intros H. unfold scsmfo_centers. rewrite <- (centroid_perm cs cs' H).
  destruct (centroid RO cs) as [[mx my] mz]. apply Permutation_map. exact H.
Qed.
(** the centred coordinates sum to zero (the cluster frame really is the centroid frame) *)
Lemma scsmfo_centers_sum0 k cs : cs <> [] -> vsum RO (scsmfo_centers RO k cs) = (0, 0, 0).
Proof.
  intros H. pose proof (Nof_nz cs H) as Hn. unfold scsmfo_centers, centroid. rewrite nof_Nof.
  assert (G : forall (m : vR) l, vsum RO (map (fun c : vR => let '(x, y, z) := c in
              let '(mx, my, mz) := m in ((x - mx) * k, (y - my) * k, - ((z - mz) * k))) l) =
            let '(a, b, d) := vsum RO l in let '(mx, my, mz) := m in
            ((a - Nof l * mx) * k, (b - Nof l * my) * k, - ((d - Nof l * mz) * k))).
  { intros [[mx my] mz] l. induction l as [|[[x y] z] l IH].
    - unfold Nof. cbn. tup; ring.
    - cbn [map]. rewrite Nof_cons, !vsum_cons, IH. destruct (vsum RO l) as [[a b] d]. red5. tup; ring. }
  destruct (vsum RO cs) as [[a b] d] eqn:E. red5.
  specialize (G (a * / Nof cs, b * / Nof cs, d * / Nof cs) cs). cbn beta iota in G.
  etransitivity; [|etransitivity; [exact G|]].
  - f_equal.
  - rewrite E. tup; field; exact Hn.
Qed.

(** * 7. non-trivial content checks used by Props (the rotation is a genuine rotation) *)
Lemma crotz_compose ca sa cb sb (E : cvR) :
  crotz RO ca sa (crotz RO cb sb E) = crotz RO (ca * cb - sa * sb) (sa * cb + ca * sb) E.
Proof. destruct E as [[[a b] [c d]] [e f]]. red5. tup; ring. Qed.

(** * 8. what vm_compute runs on Q is what the theorems are about *)
Definition cQ2R (a : cplx Q) : cR := (Q2R (fst a), Q2R (snd a)).
Definition cvQ2R (E : cvec3 Q) : cvR := let '(ex, ey, ez) := E in (cQ2R ex, cQ2R ey, cQ2R ez).
Definition sQ2R (S : smat Q) : smat R := let '(s1, s2, s3, s4) := S in (cQ2R s1, cQ2R s2, cQ2R s3, cQ2R s4).
Ltac redq :=
  unfold mie_assemble, mielens_assemble, mielens_core, rel_minus, dbl, half,
         lens_term, lr_to_xyz, fieldstocart, radial_to_cart, calc_scat_field, incfield, cneg, csub, c0,
         cv_add, cmul, cadd, cscale, cvQ2R, cQ2R, sQ2R;
  cbn [fst snd add mul sub opp inv zero one ofZ RO QO].

Lemma mie_assemble_Q_R (S : smat Q) (pref erad : cplx Q) (ct st cp sp : Q) (pol : Q * Q) :
  cvQ2R (mie_assemble QO S pref erad ct st cp sp pol) =
  mie_assemble RO (sQ2R S) (cQ2R pref) (cQ2R erad) (Q2R ct) (Q2R st) (Q2R cp) (Q2R sp) (Q2R (fst pol), Q2R (snd pol)).
Proof.
  destruct S as [[[[a1 b1] [a2 b2]] [a3 b3]] [a4 b4]], pref as [pr pi], erad as [er ei], pol as [px py].
  redq. repeat (rewrite ?Q2R_plus, ?Q2R_minus, ?Q2R_mult, ?Q2R_opp). reflexivity.
Qed.
Lemma half_Q_R : Q2R (/ (1 + 1)) = / (1 + 1).
Proof. rewrite Q2R_inv by (intro H; discriminate H). rewrite Q2R_plus. rewrite Q2R_1. reflexivity. Qed.
Lemma mielens_assemble_Q_R (I0 I2 K : cplx Q) (cp sp cg sg : Q) :
  cvQ2R (mielens_assemble QO I0 I2 cp sp cg sg K) =
  mielens_assemble RO (cQ2R I0) (cQ2R I2) (Q2R cp) (Q2R sp) (Q2R cg) (Q2R sg) (cQ2R K).
Proof.
  destruct I0 as [i0r i0i], I2 as [i2r i2i], K as [kr ki].
  redq. repeat (rewrite ?Q2R_plus, ?Q2R_minus, ?Q2R_mult, ?Q2R_opp, ?half_Q_R, ?Q2R_0, ?Q2R_1). reflexivity.
Qed.

(** the lens pupil sum is executed on [QOr] (fractions reduced after every operation: the plain [QO] sum of
    9-16 products multiplies denominators) *)
Lemma Q2R_Qred (x : Q) : Q2R (Qred x) = Q2R x.
Proof. apply Qeq_eqR. apply Qred_correct. Qed.
Definition nQ2R (nd : node Q) : node R := let '(P, (cg, sg), Sm) := nd in (cQ2R P, (Q2R cg, Q2R sg), sQ2R Sm).
Ltac redqr :=
  unfold lens_assemble, lens_integral, lens_term, lr_to_xyz, cneg, csub, c0, cmul, cadd, cscale, cvQ2R, cQ2R, sQ2R, nQ2R;
  cbn [fst snd add mul sub opp inv zero one ofZ RO QOr].
Ltac q2rr := repeat (rewrite ?Q2R_Qred, ?Q2R_plus, ?Q2R_minus, ?Q2R_mult, ?Q2R_opp, ?Q2R_0).

Lemma lens_term_Qr_R (nd : node Q) :
  (cQ2R (fst (lens_term QOr nd)), cQ2R (snd (lens_term QOr nd))) = lens_term RO (nQ2R nd).
Proof.
  destruct nd as [[[p1 p2] [cg sg]] [[[[a1 b1] [a2 b2]] [a3 b3]] [a4 b4]]].
  redqr. q2rr. reflexivity.
Qed.
Lemma csum_Qr_R (l : list (cplx Q)) : cQ2R (csum QOr l) = csum RO (map cQ2R l).
Proof.
  induction l as [|[a b] l IH]; cbn [csum fold_right map].
  - unfold cQ2R, c0. cbn. rewrite Q2R_0. reflexivity.
  - unfold csum in IH. rewrite <- IH. destruct (fold_right (cadd QOr) (c0 QOr) l) as [x y].
    unfold cQ2R, cadd. cbn [fst snd add QOr RO]. q2rr. reflexivity.
Qed.
Lemma lens_assemble_Qr_R (nodes : list (node Q)) (cg sg : Q) (K : cplx Q) :
  cvQ2R (lens_assemble QOr nodes cg sg K) = lens_assemble RO (map nQ2R nodes) (Q2R cg) (Q2R sg) (cQ2R K).
Proof.
  assert (Hl : cQ2R (csum QOr (map (fun nd => fst (lens_term QOr nd)) nodes)) =
               csum RO (map (fun nd => fst (lens_term RO nd)) (map nQ2R nodes))).
  { rewrite csum_Qr_R, !map_map. f_equal. apply map_ext. intros nd. rewrite <- (lens_term_Qr_R nd). reflexivity. }
  assert (Hr : cQ2R (csum QOr (map (fun nd => snd (lens_term QOr nd)) nodes)) =
               csum RO (map (fun nd => snd (lens_term RO nd)) (map nQ2R nodes))).
  { rewrite csum_Qr_R, !map_map. f_equal. apply map_ext. intros nd. rewrite <- (lens_term_Qr_R nd). reflexivity. }
  unfold lens_assemble, lens_integral. rewrite <- Hl, <- Hr.
  destruct (csum QOr (map (fun nd => fst (lens_term QOr nd)) nodes)) as [l1 l2].
  destruct (csum QOr (map (fun nd => snd (lens_term QOr nd)) nodes)) as [r1 r2].
  destruct K as [k1 k2].
  unfold lr_to_xyz, csub, cadd, cmul, cscale, c0, cvQ2R, cQ2R. cbn [fst snd add mul sub opp inv zero one QOr RO].
  q2rr. reflexivity.
Qed.

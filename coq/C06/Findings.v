(** C06 - models of defective variants (historical).
    MieLens.raw_fields used to rotate the azimuth the wrong way (phi += pol_angle, DESIGN section 7 no. 2, fixed in
    /repo).  With that variant the scattered field is not linear in the polarisation; the two polarisations along
    the axes (all that the upstream tests use) do not show it. *)
From Coq Require Import Reals Lra.
From HV Require Import Common.Generic C01.Model C06.Model.
Local Open Scope R_scope.

Theorem mielens_plus_refuted :
  exists (I0 I2 : cplx R) cp sp (K ph : cplx R) a b nrm,
    nrm <> 0 /\ nrm * nrm = a * a + b * b /\ cp * cp + sp * sp = 1 /\
    mielens_field_plus RO I0 I2 cp sp K ph a b nrm
    <> lincomb RO a b nrm (mielens_field_plus RO I0 I2 cp sp K ph 1 0 1) (mielens_field_plus RO I0 I2 cp sp K ph 0 1 1).
Proof.
  exists (0, 0), (1, 0), 1, 0, (1, 0), (1, 0), 3, 4, 5.
  split; [lra|]. split; [lra|]. split; [lra|].
  unfold mielens_field_plus, mielens_assemble_plus, lincomb, two, czero, cv_mul, cv_add, cv_scale, cadd, cmul, cscale, cneg; cbn.
  intro H. injection H. intros. lra.
Qed.

(** on the axes the defective variant and the repaired code agree (why 0 and 90 degrees hid it) *)
Theorem mielens_plus_agrees_on_axes : forall (I0 I2 : cplx R) cp sp (K : cplx R),
  mielens_assemble_plus RO I0 I2 cp sp 1 0 K = mielens_assemble RO I0 I2 cp sp 1 0 K /\
  mielens_assemble_plus RO I0 I2 cp sp 0 1 K = mielens_assemble RO I0 I2 cp sp 0 1 K.
Proof.
  intros [i0r i0i] [i2r i2i] cp sp [kr ki].
  unfold mielens_assemble_plus, mielens_assemble, two, czero, cadd, cmul, cscale, cneg; cbn.
  split; (apply f_equal2; [apply f_equal2|]; (apply f_equal2; ring)).
Qed.

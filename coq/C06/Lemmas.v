(** C06 - proofs.  Sections: 1 trees / get_component_list, 2 dispatch and superposition,
    3 selection by label, 4 channels, 5 polarisation linearity (Mie, MieLens), 6 Q instance = R instance. *)
From Coq Require Import ZArith List Bool String Reals QArith Qreals Lra Lia Permutation Nsatz.
From HV Require Import Common.Generic C01.Model C06.Model.
Import ListNotations.

(** * 0. generic list facts *)
Lemma flat_map_flat_map {A B C} (f : B -> list C) (g : A -> list B) (l : list A) :
  flat_map f (flat_map g l) = flat_map (fun x => flat_map f (g x)) l.
Proof. induction l as [|x t IH]; [reflexivity|]. cbn [flat_map]. rewrite flat_map_app, IH. reflexivity. Qed.
Lemma map_flat_map' {A B C} (f : B -> C) (g : A -> list B) (l : list A) :
  map f (flat_map g l) = flat_map (fun x => map f (g x)) l.
Proof. induction l as [|x t IH]; [reflexivity|]. cbn [flat_map]. rewrite map_app, IH. reflexivity. Qed.
Lemma flat_map_ext_Forall {A B} (f g : A -> list B) (l : list A) :
  Forall (fun x => f x = g x) l -> flat_map f l = flat_map g l.
Proof. induction 1 as [|x t H _ IH]; [reflexivity|]. cbn [flat_map]. rewrite H, IH. reflexivity. Qed.

(** * 1. Trees *)
Section TreeInd.
Context {S : Type} (P : tree S -> Prop).
Hypothesis HL : forall s, P (Leaf s).
Hypothesis HN : forall cls l, Forall P l -> P (Node cls l).
Fixpoint tree_ind' (t : tree S) : P t :=
  match t with
  | Leaf s => HL s
  | Node c l => HN c l ((fix go (l : list (tree S)) : Forall P l :=
                           match l with [] => Forall_nil _ | x :: r => Forall_cons _ (tree_ind' x) (go r) end) l)
  end.
End TreeInd.

Section TreeLemmas.
Context {S : Type} (isinst : Z -> Z -> bool).

(** the component list has exactly the primitives of the collection, in order, whatever the classes *)
Lemma component_list_keeps_leaves (t : tree S) :
  match t with Leaf _ => True | Node _ _ => flat_map leaves (component_list isinst t) = leaves t end.
Proof.
  induction t as [s|cls l IH] using tree_ind'; [exact I|].
  cbn [component_list leaves]. rewrite flat_map_flat_map. apply flat_map_ext_Forall.
  eapply Forall_impl; [|exact IH]. intros c Hc. destruct c as [s|c' l'].
  - cbn. rewrite ?app_nil_r. reflexivity.
  - destruct (isinst c' cls); [exact Hc|]. cbn [flat_map]. rewrite ?app_nil_r. reflexivity.
Qed.

Lemma component_list_leaves_node cls (l : list (tree S)) :
  flat_map leaves (component_list isinst (Node cls l)) = leaves (Node cls l).
Proof. exact (component_list_keeps_leaves (Node cls l)). Qed.

(** when every nested collection is an instance of its holder's class the list is completely flat *)
Lemma component_list_flat (t : tree S) : well_classed isinst t = true ->
  match t with Leaf _ => True | Node _ _ => component_list isinst t = map Leaf (leaves t) end.
Proof.
  induction t as [s|cls l IH] using tree_ind'; [intros; exact I|].
  intros Hw. cbn [well_classed] in Hw. rewrite forallb_forall in Hw.
  cbn [component_list leaves]. rewrite map_flat_map'. apply flat_map_ext_Forall.
  rewrite Forall_forall in IH |- *. intros c Hin. specialize (Hw c Hin). apply andb_true_iff in Hw.
  destruct Hw as [Hi Hc]. specialize (IH c Hin Hc). destruct c as [s|c' l'].
  - reflexivity.
  - rewrite Hi. exact IH.
Qed.
Lemma component_list_flat_node cls (l : list (tree S)) : well_classed isinst (Node cls l) = true ->
  component_list isinst (Node cls l) = map Leaf (leaves (Node cls l)).
Proof. intros H. exact (component_list_flat (Node cls l) H). Qed.

Lemma nonempty_leaves (t : tree S) : nonempty_nodes t = true -> leaves t <> [].
Proof.
  destruct t as [s|cls l]; [discriminate|]. cbn [nonempty_nodes leaves]. intros H.
  apply andb_true_iff in H. destruct H as [H _]. destruct (flat_map leaves l); [discriminate|discriminate].
Qed.
End TreeLemmas.

(** the library's own classes: a Spheres (1) holds only leaves, a Scatterers (0) holds anything *)
Lemma std_isinst_base c : std_isinst c 0 = true.
Proof. unfold std_isinst. rewrite Z.eqb_refl. rewrite orb_true_r. reflexivity. Qed.

(** * 2. Dispatch *)
Section DispatchLemmas.
Context {S F : Type} (isinst : Z -> Z -> bool) (can : tree S -> bool) (direct : tree S -> F) (fadd : F -> F -> F).
Local Notation sc := (single_color isinst can direct fadd).
Local Notation sc2' := (sc2 isinst can direct fadd).
Local Notation acc := (accumulate fadd).

Lemma sc2_snd (t : tree S) : snd (sc2' t) = map sc (component_list isinst t).
Proof.
  induction t as [s|cls l IH] using tree_ind'; [reflexivity|].
  cbn [sc2 snd component_list]. rewrite map_flat_map'. apply flat_map_ext_Forall.
  eapply Forall_impl; [|exact IH]. intros c Hc. destruct c as [s|c' l'].
  - reflexivity.
  - destruct (isinst c' cls); [exact Hc|reflexivity].
Qed.

(** the model function is literally the code: can_handle -> direct; composite -> accumulate over the component list; else error *)
Lemma single_color_as_coded (t : tree S) :
  sc t = if can t then Ok (direct t)
         else match t with
              | Leaf _ => Err ETheoryNotCompatible
              | Node _ _ => acc (map sc (component_list isinst t))
              end.
Proof.
  destruct t as [s|cls l]; [reflexivity|].
  unfold single_color at 1. cbn [sc2 fst]. destruct (can (Node cls l)); [reflexivity|].
  f_equal. change (snd (sc2' (Node cls l)) = map sc (component_list isinst (Node cls l))). apply sc2_snd.
Qed.

Lemma single_color_direct (t : tree S) : can t = true -> sc t = Ok (direct t).
Proof. intros H. rewrite single_color_as_coded, H. reflexivity. Qed.

(** ** superposition for a theory that handles the primitives only *)
Hypothesis fadd_assoc : forall a b c, fadd a (fadd b c) = fadd (fadd a b) c.
Hypothesis can_leaf : forall s, can (Leaf s) = true.
Hypothesis can_node : forall c l, can (Node c l) = false.
Let d (s : S) : F := direct (Leaf s).

Lemma fold_left_assoc (l : list F) : forall a g, fadd a (fold_left fadd l g) = fold_left fadd l (fadd a g).
Proof. induction l as [|x r IH]; intros a g; [reflexivity|]. cbn. rewrite IH, fadd_assoc. reflexivity. Qed.

Inductive Splits : list (res F) -> list F -> Prop :=
| Sp_nil : Splits [] []
| Sp_cons : forall Lj rs L, Lj <> [] -> Splits rs L -> Splits (sum_ne fadd Lj :: rs) (Lj ++ L).

Lemma Splits_app a La b Lb : Splits a La -> Splits b Lb -> Splits (a ++ b) (La ++ Lb).
Proof.
  induction 1 as [|Lj rs L Hne H IH]; intros Hb; [exact Hb|].
  cbn [app]. rewrite <- app_assoc. constructor; [exact Hne|apply IH, Hb].
Qed.

Lemma Splits_fold rs L : Splits rs L -> forall a,
  fold_left (fun (ac : res F) (r : res F) => bind ac (fun x => bind r (fun f => Ok (fadd x f)))) rs (Ok a)
  = Ok (fold_left fadd L a).
Proof.
  induction 1 as [|Lj rs L Hne H IH]; intros a; [reflexivity|].
  destruct Lj as [|g0 grest]; [congruence|].
  cbn [fold_left sum_ne bind]. rewrite IH. f_equal.
  rewrite fold_left_app. cbn [app fold_left]. rewrite fold_left_assoc. reflexivity.
Qed.

Lemma Splits_acc rs L : Splits rs L -> acc rs = sum_ne fadd L.
Proof.
  destruct 1 as [|Lj rs L Hne H]; [reflexivity|].
  destruct Lj as [|g0 grest]; [congruence|].
  cbn [accumulate sum_ne app]. rewrite (Splits_fold _ _ H). rewrite fold_left_app. reflexivity.
Qed.

Lemma Splits_one (L : list F) : L <> [] -> Splits [sum_ne fadd L] L.
Proof. intros H. rewrite <- (app_nil_r L) at 2. constructor; [exact H|constructor]. Qed.

Lemma superposition_inv (t : tree S) : nonempty_nodes t = true ->
  fst (sc2' t) = sum_ne fadd (map d (leaves t)) /\
  match t with Leaf _ => True | Node _ _ => Splits (snd (sc2' t)) (map d (leaves t)) end.
Proof.
  induction t as [s|cls l IH] using tree_ind'; intros Hne.
  - split; [|exact I]. cbn [sc2 fst leaves map sum_ne fold_left]. rewrite can_leaf. reflexivity.
  - cbn [nonempty_nodes] in Hne. apply andb_true_iff in Hne. destruct Hne as [_ Hall].
    assert (Hs : Splits (snd (sc2' (Node cls l))) (map d (leaves (Node cls l)))).
    { cbn [sc2 snd leaves]. clear -IH Hall can_leaf can_node fadd_assoc.
      induction l as [|c r IHr]; [constructor|].
      inversion IH as [|? ? Hc Hr]; subst. cbn [forallb] in Hall. apply andb_true_iff in Hall.
      destruct Hall as [Hcn Hrn]. cbn [flat_map]. rewrite map_app. apply Splits_app; [|apply IHr; assumption].
      destruct (Hc Hcn) as [Hf Hsnd].
      assert (Hone : Splits [fst (sc2' c)] (map d (leaves c))).
      { rewrite Hf. apply Splits_one. intro E. apply map_eq_nil in E. revert E. apply nonempty_leaves, Hcn. }
      destruct c as [s|c' l']; [exact Hone|]. destruct (isinst c' cls); [exact Hsnd|exact Hone]. }
    split; [|exact Hs]. cbn [sc2 fst]. rewrite can_node. apply Splits_acc. exact Hs.
Qed.

(** field(tree) = sum over the primitives of field(primitive): any nesting, any classes, any number *)
Lemma superposition (t : tree S) : nonempty_nodes t = true ->
  sc t = sum_ne fadd (map d (leaves t)).
Proof. intros H. exact (proj1 (superposition_inv t H)). Qed.

Lemma superposition_ok (t : tree S) : nonempty_nodes t = true ->
  exists s0 rest, leaves t = s0 :: rest /\ sc t = Ok (fold_left fadd (map d rest) (d s0)).
Proof.
  intros H. pose proof (nonempty_leaves t H) as Hl. rewrite (superposition t H).
  destruct (leaves t) as [|s0 rest]; [congruence|]. exists s0, rest. split; reflexivity.
Qed.
(** ** every tree, no side condition *)
(** the sum over the primitives, or the IndexError of an empty collection met on the way *)
Definition SumOrEmpty (r : res F) (L : list F) : Prop := r = sum_ne fadd L \/ r = Err EIndexError.
Inductive Covers : list (res F) -> list F -> Prop :=
| Cv_nil : Covers [] []
| Cv_cons : forall r Lj rs L, SumOrEmpty r Lj -> Covers rs L -> Covers (r :: rs) (Lj ++ L).

Lemma Covers_app a La b Lb : Covers a La -> Covers b Lb -> Covers (a ++ b) (La ++ Lb).
Proof.
  induction 1 as [|r Lj rs L Hr H IH]; intros Hb; [exact Hb|].
  cbn [app]. rewrite <- app_assoc. constructor; [exact Hr|apply IH, Hb].
Qed.

Let step := (fun (ac : res F) (r : res F) => bind ac (fun x => bind r (fun f => Ok (fadd x f)))).
Lemma fold_err rs e : fold_left step rs (Err e) = Err e.
Proof. induction rs as [|r t IH]; [reflexivity|]. cbn. exact IH. Qed.

Lemma Covers_fold rs L : Covers rs L -> forall a,
  fold_left step rs (Ok a) = Ok (fold_left fadd L a) \/ fold_left step rs (Ok a) = Err EIndexError.
Proof.
  induction 1 as [|r Lj rs L Hr H IH]; intros a; [left; reflexivity|].
  cbn [fold_left]. destruct Hr as [Hr|Hr]; subst r.
  - destruct Lj as [|g0 grest].
    + cbn. right. apply fold_err.
    + unfold step at 2. cbn [sum_ne bind]. destruct (IH (fadd a (fold_left fadd grest g0))) as [E|E]; [left|right; exact E].
      rewrite E. f_equal. rewrite fold_left_app. cbn [app fold_left]. rewrite fold_left_assoc. reflexivity.
  - cbn. right. apply fold_err.
Qed.

Lemma Covers_acc rs L : Covers rs L -> SumOrEmpty (acc rs) L.
Proof.
  destruct 1 as [|r Lj rs L Hr H]; [left; reflexivity|].
  cbn [accumulate]. destruct Hr as [Hr|Hr]; subst r.
  - destruct Lj as [|g0 grest].
    + right. cbn. apply fold_err.
    + unfold SumOrEmpty. cbn [sum_ne app]. fold step.
      destruct (Covers_fold _ _ H (fold_left fadd grest g0)) as [E|E]; [left|right; exact E].
      rewrite E. rewrite fold_left_app. reflexivity.
  - right. apply fold_err.
Qed.

Lemma Covers_one r (L : list F) : SumOrEmpty r L -> Covers [r] L.
Proof. intros H. rewrite <- (app_nil_r L). constructor; [exact H|constructor]. Qed.

Lemma superposition_general_inv (t : tree S) :
  SumOrEmpty (fst (sc2' t)) (map d (leaves t)) /\
  match t with Leaf _ => True | Node _ _ => Covers (snd (sc2' t)) (map d (leaves t)) end.
Proof.
  induction t as [s|cls l IH] using tree_ind'.
  - split; [|exact I]. left. cbn [sc2 fst leaves map sum_ne fold_left]. rewrite can_leaf. reflexivity.
  - assert (Hs : Covers (snd (sc2' (Node cls l))) (map d (leaves (Node cls l)))).
    { cbn [sc2 snd leaves]. clear -IH.
      induction l as [|c r IHr]; [constructor|].
      inversion IH as [|? ? Hc Hr]; subst. cbn [flat_map]. rewrite map_app. apply Covers_app; [|apply IHr; assumption].
      destruct Hc as [Hf Hsnd]. pose proof (Covers_one _ _ Hf) as Hone.
      destruct c as [s|c' l']; [exact Hone|]. destruct (isinst c' cls); [exact Hsnd|exact Hone]. }
    split; [|exact Hs]. cbn [sc2 fst]. rewrite can_node. apply Covers_acc. exact Hs.
Qed.

(** for EVERY tree: the result is the sum over the primitives, or IndexError (an empty collection) - never anything else *)
Lemma superposition_general (t : tree S) :
  sc t = sum_ne fadd (map d (leaves t)) \/ sc t = Err EIndexError.
Proof. exact (proj1 (superposition_general_inv t)). Qed.

Lemma superposition_partial (t : tree S) f : sc t = Ok f -> sum_ne fadd (map d (leaves t)) = Ok f.
Proof. intros H. destruct (superposition_general t) as [E|E]; rewrite H in E; [symmetry; exact E|discriminate]. Qed.
End DispatchLemmas.

(** complex 3-vectors over R under cv_add *)
Local Open Scope R_scope.
Lemma cv_add_assoc (a b c : cvec3 R) : cv_add RO a (cv_add RO b c) = cv_add RO (cv_add RO a b) c.
Proof.
  destruct a as [[[a1 a2] [a3 a4]] [a5 a6]], b as [[[b1 b2] [b3 b4]] [b5 b6]], c as [[[c1 c2] [c3 c4]] [c5 c6]].
  unfold cv_add, cadd; cbn. apply f_equal2; [apply f_equal2|]; (apply f_equal2; ring).
Qed.
Local Close Scope R_scope.

(** * 3. selection by label *)
Section SelectLemmas.
Context {V : Type}.

Lemma assoc_In (k : string) (v : V) (l : list (string * V)) :
  NoDup (map fst l) -> In (k, v) l -> assoc k l = Some v.
Proof.
  induction l as [|[k' v'] t IH]; intros Hnd Hin; [contradiction|].
  cbn [map fst] in Hnd. inversion Hnd as [|? ? Hnot Hnd']; subst. cbn [assoc].
  destruct Hin as [E|Hin].
  - inversion E; subst. rewrite String.eqb_refl. reflexivity.
  - destruct (String.eqb k' k) eqn:Ek.
    + apply String.eqb_eq in Ek. subst. exfalso. apply Hnot. apply (in_map fst) in Hin. exact Hin.
    + apply IH; assumption.
Qed.
Lemma assoc_Some_In (k : string) (v : V) (l : list (string * V)) : assoc k l = Some v -> In (k, v) l.
Proof.
  induction l as [|[k' v'] t IH]; intros H; [discriminate|]. cbn [assoc] in H.
  destruct (String.eqb k' k) eqn:Ek.
  - apply String.eqb_eq in Ek. inversion H; subst. left; reflexivity.
  - right. apply IH, H.
Qed.
Lemma assoc_None_notin (k : string) (l : list (string * V)) : assoc k l = None -> ~ In k (map fst l).
Proof.
  induction l as [|[k' v'] t IH]; intros H; [intros []|]. cbn [assoc] in H.
  destruct (String.eqb k' k) eqn:Ek; [discriminate|]. cbn [map fst]. intros [E|Hin].
  - subst. rewrite String.eqb_refl in Ek. discriminate.
  - exact (IH H Hin).
Qed.

(** lookup is by key: any re-ordering of the entries gives the same answer *)
Lemma assoc_perm (k : string) (l l' : list (string * V)) :
  Permutation l l' -> NoDup (map fst l) -> assoc k l = assoc k l'.
Proof.
  intros Hp Hnd. assert (Hnd' : NoDup (map fst l')).
  { eapply Permutation_NoDup; [apply Permutation_map, Hp|exact Hnd]. }
  destruct (assoc k l) as [v|] eqn:E.
  - symmetry. apply assoc_In; [exact Hnd'|]. eapply Permutation_in; [exact Hp|]. apply assoc_Some_In, E.
  - destruct (assoc k l') as [v'|] eqn:E'; [|reflexivity].
    exfalso. apply (assoc_None_notin _ _ E). apply assoc_Some_In in E'.
    apply (in_map fst) in E'. cbn in E'. eapply Permutation_in; [apply Permutation_sym, Permutation_map, Hp|exact E'].
Qed.

Lemma select_dict_by_key (illum : string) (v : V) (d : list (string * V)) :
  NoDup (map fst d) -> In (illum, v) d ->
  select_val illum (PDict d) = PScalar v /\ select_val illum (PArr d) = PScalar v.
Proof. intros Hnd Hin. cbn [select_val]. rewrite (assoc_In _ _ _ Hnd Hin). split; reflexivity. Qed.

Lemma select_scalar_unchanged (illum : string) (v : V) : select_val illum (PScalar v) = PScalar v.
Proof. reflexivity. Qed.

Lemma select_missing_unchanged (illum : string) (d : list (string * V)) : ~ In illum (map fst d) ->
  select_val illum (PDict d) = PDict d /\ select_val illum (PArr d) = PArr d.
Proof.
  intros H. cbn [select_val]. destruct (assoc illum d) as [v|] eqn:E; [|split; reflexivity].
  exfalso. apply H. apply assoc_Some_In in E. apply (in_map fst) in E. exact E.
Qed.

Lemma select_perm (illum : string) (d d' : list (string * V)) :
  Permutation d d' -> NoDup (map fst d) -> In illum (map fst d) ->
  select_val illum (PDict d) = select_val illum (PDict d') /\ select_val illum (PArr d) = select_val illum (PArr d').
Proof.
  intros Hp Hnd Hin. cbn [select_val]. rewrite <- (assoc_perm illum d d' Hp Hnd).
  destruct (assoc illum d) as [v|] eqn:E; [split; reflexivity|].
  exfalso. exact (assoc_None_notin _ _ E Hin).
Qed.

(** selection acts on every primitive of the tree and keeps its shape *)
Lemma select_scatterer_leaves (illum : string) (t : tree (leaf V)) :
  leaves (select_scatterer illum t) = map (fun s => (fst s, select_params illum (snd s))) (leaves t).
Proof.
  unfold select_scatterer. induction t as [s|cls l IH] using tree_ind'; [reflexivity|].
  cbn [tree_map leaves]. rewrite map_flat_map'. rewrite flat_map_concat_map, map_map, <- flat_map_concat_map.
  apply flat_map_ext_Forall. exact IH.
Qed.
End SelectLemmas.

(** * 4. channels *)
Lemma sequence_map_Forall2 {A B} (g : A -> res B) (l : list A) : forall out,
  sequence (map g l) = Ok out <-> Forall2 (fun x y => g x = Ok y) l out.
Proof.
  induction l as [|x t IH]; intros out; cbn [map sequence].
  - split; intros H; [inversion H; constructor|inversion H; reflexivity].
  - split.
    + intros H. destruct (g x) as [a|e] eqn:Eg; [|discriminate]. cbn [bind] in H.
      destruct (sequence (map g t)) as [ta|e] eqn:Es; [|discriminate]. cbn [bind] in H.
      inversion H; subst. constructor; [exact Eg|]. apply IH. reflexivity.
    + intros H. inversion H as [|? y ? out' Hxy Hrest]; subst. rewrite Hxy. cbn [bind].
      apply IH in Hrest. rewrite Hrest. reflexivity.
Qed.

Lemma Forall2_impl' {A B} (R R' : A -> B -> Prop) (l : list A) (l' : list B) :
  (forall a b, R a b -> R' a b) -> Forall2 R l l' -> Forall2 R' l l'.
Proof. intros H. induction 1; constructor; auto. Qed.

Lemma Forall2_len {A B} (R : A -> B -> Prop) (l : list A) (l' : list B) :
  Forall2 R l l' -> List.length l = List.length l'.
Proof. induction 1; cbn; congruence. Qed.

Lemma Forall2_nth_error {A B} (R : A -> B -> Prop) (l : list A) (l' : list B) :
  Forall2 R l l' -> forall c x, nth_error l c = Some x -> exists y, nth_error l' c = Some y /\ R x y.
Proof.
  induction 1 as [|a b l l' Hab H IH]; intros c x Hc; [destruct c; discriminate|].
  destruct c as [|c]; cbn in Hc |- *.
  - inversion Hc; subst. exists b. split; [reflexivity|exact Hab].
  - apply IH, Hc.
Qed.

Lemma sequence_perm {A} (l l' : list (res A)) : Permutation l l' ->
  forall out, sequence l = Ok out -> exists out', sequence l' = Ok out' /\ Permutation out out'.
Proof.
  induction 1 as [|x l l' Hp IH|x y l|l l' l'' H1 IH1 H2 IH2]; intros out Hs.
  - exists out. split; [exact Hs|apply Permutation_refl].
  - cbn [sequence] in Hs |- *. destruct x as [a|e]; [|discriminate]. cbn [bind] in Hs |- *.
    destruct (sequence l) as [ta|e] eqn:E; [|discriminate]. cbn [bind] in Hs. inversion Hs; subst.
    destruct (IH ta eq_refl) as (ta' & E' & P'). rewrite E'. cbn [bind]. exists (a :: ta'). split; [reflexivity|].
    apply perm_skip, P'.
  - cbn [sequence] in Hs |- *. destruct y as [b|e]; [|discriminate]. cbn [bind] in Hs.
    destruct x as [a|e]; [|discriminate]. cbn [bind] in Hs |- *.
    destruct (sequence l) as [ta|e]; [|discriminate]. cbn [bind] in Hs |- *. inversion Hs; subst.
    exists (a :: b :: ta). split; [reflexivity|apply perm_swap].
  - destruct (IH1 out Hs) as (o1 & E1 & P1). destruct (IH2 o1 E1) as (o2 & E2 & P2).
    exists o2. split; [exact E2|eapply Permutation_trans; eassumption].
Qed.

Section ChannelLemmas.
Context {W P V F : Type} (single : W -> P -> tree (leaf V) -> res F).

(** channel c of the multi-channel result = the single-channel result on (wavelength_c, polarisation_c, scatterer_c) *)
Lemma multi_color_spec (wt : list (string * W)) (pol : polspec P) (t : tree (leaf V)) (out : list (string * F)) :
  multi_color single wt pol t = Ok out <->
  Forall2 (fun lw lf => fst lf = fst lw /\
                        exists p, pol_for pol (fst lw) = Ok p /\
                                  single (snd lw) p (select_scatterer (fst lw) t) = Ok (snd lf)) wt out.
Proof.
  unfold multi_color. rewrite sequence_map_Forall2.
  split; intros H; (eapply Forall2_impl'; [|exact H]); intros [lab w] [lab' f]; cbn [fst snd].
  - intros E. destruct (pol_for pol lab) as [p|e] eqn:Ep; [|discriminate]. cbn [bind] in E.
    destruct (single w p (select_scatterer lab t)) as [f'|e] eqn:Es; [|discriminate]. cbn [rmap] in E.
    inversion E; subst. split; [reflexivity|]. exists p. split; [reflexivity|exact Es].
  - intros (El & p & Ep & Es). subst. rewrite Ep. cbn [bind]. rewrite Es. reflexivity.
Qed.

Lemma multi_color_nth (wt : list (string * W)) (pol : polspec P) (t : tree (leaf V)) (out : list (string * F)) :
  multi_color single wt pol t = Ok out ->
  List.length out = List.length wt /\
  forall c lab w, nth_error wt c = Some (lab, w) ->
    exists p f, pol_for pol lab = Ok p /\ single w p (select_scatterer lab t) = Ok f /\
                nth_error out c = Some (lab, f).
Proof.
  intros H. apply multi_color_spec in H. split.
  - symmetry. eapply Forall2_len, H.
  - intros c lab w Hc. destruct (Forall2_nth_error _ _ _ H c _ Hc) as ([lab' f] & Hn & El & p & Ep & Es).
    cbn [fst snd] in *. subst. exists p, f. repeat split; assumption.
Qed.

(** all channels succeed -> the multi-channel calculation succeeds *)
Lemma multi_color_total (wt : list (string * W)) (pol : polspec P) (t : tree (leaf V)) :
  (forall lab w, In (lab, w) wt -> exists p f, pol_for pol lab = Ok p /\ single w p (select_scatterer lab t) = Ok f) ->
  exists out, multi_color single wt pol t = Ok out.
Proof.
  induction wt as [|[lab w] r IH]; intros H.
  - exists []. reflexivity.
  - destruct (H lab w (or_introl eq_refl)) as (p & f & Ep & Es).
    destruct IH as [out' E']. { intros l' w' Hin. apply H. right. exact Hin. }
    exists ((lab, f) :: out'). unfold multi_color in *. cbn [map sequence fst snd]. rewrite Ep. cbn [bind].
    rewrite Es. cbn [rmap bind]. rewrite E'. reflexivity.
Qed.

(** re-ordering the channels re-orders the result and changes nothing else *)
Lemma multi_color_perm (wt wt' : list (string * W)) (pol : polspec P) (t : tree (leaf V)) (out : list (string * F)) :
  Permutation wt wt' -> multi_color single wt pol t = Ok out ->
  exists out', multi_color single wt' pol t = Ok out' /\ Permutation out out'.
Proof. intros Hp. unfold multi_color. apply sequence_perm. apply Permutation_map, Hp. Qed.

Lemma multi_color_labels (wt : list (string * W)) (pol : polspec P) (t : tree (leaf V)) (out : list (string * F)) :
  multi_color single wt pol t = Ok out -> map fst out = map fst wt.
Proof.
  intros H. apply multi_color_spec in H. induction H as [|lw lf wt' out' [E _] _ IH]; [reflexivity|].
  cbn [map]. rewrite E, IH. reflexivity.
Qed.

Lemma multi_color_by_label (wt wt' : list (string * W)) (pol : polspec P) (t : tree (leaf V)) out out' lab :
  Permutation wt wt' -> NoDup (map fst wt) ->
  multi_color single wt pol t = Ok out -> multi_color single wt' pol t = Ok out' ->
  assoc lab out = assoc lab out'.
Proof.
  intros Hp Hnd H H'. destruct (multi_color_perm wt wt' pol t out Hp H) as (o2 & E2 & P2).
  rewrite H' in E2. inversion E2; subst. apply assoc_perm; [exact P2|].
  rewrite (multi_color_labels _ _ _ _ H). exact Hnd.
Qed.

(** the polarisation of a channel is found by label, or is the one common vector *)
Lemma pol_for_perm (isd isd' : bool) (pa pa' : list (string * P)) lab :
  Permutation pa pa' -> NoDup (map fst pa) -> pol_for (PLab isd pa) lab = pol_for (PLab isd' pa') lab.
Proof. intros Hp Hnd. cbn [pol_for]. rewrite (assoc_perm lab pa pa' Hp Hnd). reflexivity. Qed.
Lemma pol_for_vec (p : P) lab : pol_for (PVec p) lab = Ok p.
Proof. reflexivity. Qed.
End ChannelLemmas.

(** prep_schema: broadcast rules *)
Section PrepLemmas.
Context {W P : Type}.
Lemma prep_labelled det isd (a : list (string * W)) (pol : polspec P) :
  dict_ok det isd a = true -> (match pol with PLab d pa => dict_ok det d pa | PVec _ => true end) = true ->
  prep_schema det (WLab isd a) pol = Ok (SMulti a pol).
Proof. intros H1 H2. unfold prep_schema. rewrite H1, H2. cbn. destruct pol; reflexivity. Qed.
Lemma prep_scalar_broadcast det (w : W) isd (pa : list (string * P)) : dict_ok det isd pa = true ->
  prep_schema det (WScalar w) (PLab isd pa) = Ok (SMulti (map (fun lp => (fst lp, w)) pa) (PLab isd pa)).
Proof. intros H. unfold prep_schema. rewrite H. reflexivity. Qed.
Lemma prep_single det (w : W) (p : P) : prep_schema det (WScalar w) (PVec p) = Ok (SSingle w p).
Proof. reflexivity. Qed.
Lemma prep_list_own_labels det (ws : list (string * W)) (p : P) :
  prep_schema det (WList ws) (PVec p) = Ok (SMulti ws (PVec p)).
Proof. reflexivity. Qed.
End PrepLemmas.

(** * 5. polarisation linearity *)
Local Open Scope R_scope.
Ltac cv_destruct E := let a := fresh E "xr" in let b := fresh E "xi" in let c := fresh E "yr" in
  let d := fresh E "yi" in let e := fresh E "zr" in let f := fresh E "zi" in destruct E as [[[a b] [c d]] [e f]].
Ltac cv_eq tac := apply f_equal2; [apply f_equal2|]; (apply f_equal2; tac).

(** the assembly is linear in the polarisation components, whatever the leaves are *)
Lemma mie_assemble_linear (A : asm R) pref erad ct st cp sp ex ey :
  mie_assemble RO A pref erad ct st cp sp ex ey
  = cv_add RO (cv_scale RO ex (mie_assemble RO A pref erad ct st cp sp 1 0))
              (cv_scale RO ey (mie_assemble RO A pref erad ct st cp sp 0 1)).
Proof.
  destruct A as [[[a11r a11i] [a12r a12i]] [[a21r a21i] [a22r a22i]]], pref as [pr pi], erad as [er ei].
  unfold mie_assemble, incfield, calc_scat_field, fieldstocart, radial_to_cart, cv_add, cv_scale,
    cadd, cmul, cscale, cneg; cbn. cv_eq ltac:(ring).
Qed.

Lemma pol_linear_mie (A : asm R) pref erad ct st cp sp ph a b nrm : nrm <> 0 ->
  mie_field RO A pref erad ct st cp sp ph a b nrm
  = lincomb RO a b nrm (mie_field RO A pref erad ct st cp sp ph 1 0 1) (mie_field RO A pref erad ct st cp sp ph 0 1 1).
Proof.
  intros Hn. unfold mie_field, lincomb. cbn [mul inv RO].
  replace (1 * / 1) with 1 by field. replace (0 * / 1) with 0 by field.
  rewrite (mie_assemble_linear A pref erad ct st cp sp (a * / nrm) (b * / nrm)).
  generalize (mie_assemble RO A pref erad ct st cp sp 1 0) (mie_assemble RO A pref erad ct st cp sp 0 1).
  intros E G. cv_destruct E. cv_destruct G. destruct ph as [pr pi].
  unfold cv_mul, cv_add, cv_scale, cadd, cmul, cscale; cbn. cv_eq ltac:(field; exact Hn).
Qed.

Lemma mielens_assemble_linear (I0 I2 : cplx R) cp sp cg sg K : cg * cg + sg * sg = 1 ->
  mielens_assemble RO I0 I2 cp sp cg sg K
  = cv_add RO (cv_scale RO cg (mielens_assemble RO I0 I2 cp sp 1 0 K))
              (cv_scale RO sg (mielens_assemble RO I0 I2 cp sp 0 1 K)).
Proof.
  intros H. destruct I0 as [i0r i0i], I2 as [i2r i2i], K as [kr ki].
  unfold mielens_assemble, two, czero, cv_add, cv_scale, cadd, cmul, cscale, cneg; cbn.
  cv_eq ltac:(try nsatz).
Qed.

Lemma unit_of_norm a b nrm : nrm <> 0 -> nrm * nrm = a * a + b * b ->
  (a * / nrm) * (a * / nrm) + (b * / nrm) * (b * / nrm) = 1.
Proof.
  intros Hn H. replace (a * / nrm * (a * / nrm) + b * / nrm * (b * / nrm)) with ((a * a + b * b) * / (nrm * nrm)) by (field; exact Hn).
  rewrite <- H. field. exact Hn.
Qed.

Lemma pol_linear_mielens (I0 I2 : cplx R) cp sp K ph a b nrm : nrm <> 0 -> nrm * nrm = a * a + b * b ->
  mielens_field RO I0 I2 cp sp K ph a b nrm
  = lincomb RO a b nrm (mielens_field RO I0 I2 cp sp K ph 1 0 1) (mielens_field RO I0 I2 cp sp K ph 0 1 1).
Proof.
  intros Hn H. unfold mielens_field, lincomb. cbn [mul inv RO].
  replace (1 * / 1) with 1 by field. replace (0 * / 1) with 0 by field.
  rewrite (mielens_assemble_linear I0 I2 cp sp (a * / nrm) (b * / nrm) K (unit_of_norm a b nrm Hn H)).
  generalize (mielens_assemble RO I0 I2 cp sp 1 0 K) (mielens_assemble RO I0 I2 cp sp 0 1 K).
  intros E G. cv_destruct E. cv_destruct G. destruct ph as [pr pi].
  unfold cv_mul, cv_add, cv_scale, cadd, cmul, cscale; cbn. cv_eq ltac:(field; exact Hn).
Qed.

(** the same statement with the angles the code computes: gamma = pol_angle, phi the detector azimuth *)
Lemma mielens_trig (I0 I2 : cplx R) phi gam K :
  mielens_assemble RO I0 I2 (cos phi) (sin phi) (cos gam) (sin gam) K
  = (cmul RO (cadd RO (cscale RO (cos gam) (cscale RO (/ 2) (cadd RO I0 (cscale RO (cos (2 * (phi - gam))) I2))))
                      (cneg RO (cscale RO (sin gam) (cscale RO (/ 2) (cscale RO (sin (2 * (phi - gam))) I2))))) K,
     cmul RO (cadd RO (cscale RO (sin gam) (cscale RO (/ 2) (cadd RO I0 (cscale RO (cos (2 * (phi - gam))) I2))))
                      (cscale RO (cos gam) (cscale RO (/ 2) (cscale RO (sin (2 * (phi - gam))) I2)))) K,
     cmul RO (czero RO) K).
Proof.
  unfold mielens_assemble, two. cbn [add mul sub inv ofZ RO].
  assert (Hc : cos phi * cos gam + sin phi * sin gam = cos (phi - gam)) by (rewrite cos_minus; ring).
  assert (Hs : sin phi * cos gam - cos phi * sin gam = sin (phi - gam)) by (rewrite sin_minus; ring).
  rewrite Hc, Hs. rewrite (cos_2a (phi - gam)), (sin_2a (phi - gam)).
  replace (2 * (sin (phi - gam) * cos (phi - gam))) with (2 * sin (phi - gam) * cos (phi - gam)) by ring.
  reflexivity.
Qed.
Local Close Scope R_scope.

(** * 6. the executed Q instance computes the same numbers as the R instance *)
Definition cQ2R (a : cplx Q) : cplx R := (Q2R (fst a), Q2R (snd a)).
Definition cvQ2R (E : cvec3 Q) : cvec3 R := let '(ex, ey, ez) := E in (cQ2R ex, cQ2R ey, cQ2R ez).
Definition asmQ2R (A : asm Q) : asm R :=
  let '((a, b), (c, d)) := A in ((cQ2R a, cQ2R b), (cQ2R c, cQ2R d)).

Lemma mie_assemble_Q_R (A : asm Q) pref erad ct st cp sp ex ey :
  cvQ2R (mie_assemble QO A pref erad ct st cp sp ex ey)
  = mie_assemble RO (asmQ2R A) (cQ2R pref) (cQ2R erad) (Q2R ct) (Q2R st) (Q2R cp) (Q2R sp) (Q2R ex) (Q2R ey).
Proof.
  destruct A as [[[a11r a11i] [a12r a12i]] [[a21r a21i] [a22r a22i]]], pref as [pr pi], erad as [er ei].
  unfold mie_assemble, incfield, calc_scat_field, fieldstocart, radial_to_cart, cv_add, cv_scale,
    cadd, cmul, cscale, cneg, cvQ2R, cQ2R, asmQ2R; cbn.
  cv_eq ltac:(autorewrite with q2r; reflexivity).
Qed.

Lemma Q2R_half : Q2R (/ inject_Z 2) = (/ 2)%R.
Proof. rewrite Q2R_inv; [rewrite Q2R_inject_Z; reflexivity|]. intro H. discriminate H. Qed.

Lemma Q2R_half' : Q2R (1 # 2) = (/ 2)%R.
Proof. unfold Q2R; simpl. lra. Qed.
Lemma Q2R_two' : Q2R (2 # 1) = 2%R.
Proof. unfold Q2R; simpl. lra. Qed.

Lemma mielens_assemble_Q_R (I0 I2 : cplx Q) cp sp cg sg K :
  cvQ2R (mielens_assemble QO I0 I2 cp sp cg sg K)
  = mielens_assemble RO (cQ2R I0) (cQ2R I2) (Q2R cp) (Q2R sp) (Q2R cg) (Q2R sg) (cQ2R K).
Proof.
  destruct I0 as [i0r i0i], I2 as [i2r i2i], K as [kr ki].
  unfold mielens_assemble, two, czero, cv_add, cv_scale, cadd, cmul, cscale, cneg, cvQ2R, cQ2R; cbn.
  cv_eq ltac:(autorewrite with q2r; rewrite ?Q2R_half, ?Q2R_half', ?Q2R_two'; reflexivity).
Qed.

Lemma wavevec_Q_R (twopi nm w : Q) : ~ nm == 0 -> ~ w == 0 ->
  Q2R (wavevec QO twopi nm w) = wavevec RO (Q2R twopi) (Q2R nm) (Q2R w).
Proof.
  intros Hn Hw. unfold wavevec. cbn [mul inv QO RO].
  rewrite Q2R_mult, Q2R_inv, Q2R_mult, Q2R_inv; [reflexivity|exact Hn|].
  intro H. apply Qmult_integral in H. destruct H as [H|H]; [exact (Hw H)|].
  apply (Qmult_inv_r nm) in Hn. rewrite H in Hn. rewrite Qmult_0_r in Hn. discriminate Hn.
Qed.

(** the reduced instance [QOr] (every result in lowest terms; what the correspondence runs, for speed) *)
Lemma Q2R_Qred (x : Q) : Q2R (Qred x) = Q2R x.
Proof. apply Qeq_eqR, Qred_correct. Qed.
Ltac q2r_red := repeat (first [rewrite Q2R_Qred | rewrite Q2R_plus | rewrite Q2R_mult | rewrite Q2R_minus
                              | rewrite Q2R_opp | rewrite Q2R_0 | rewrite Q2R_1 | rewrite Q2R_half
                              | rewrite Q2R_half' | rewrite Q2R_two' | rewrite Q2R_inject_Z]).

Lemma mie_assemble_Qr_R (A : asm Q) pref erad ct st cp sp ex ey :
  cvQ2R (mie_assemble QOr A pref erad ct st cp sp ex ey)
  = mie_assemble RO (asmQ2R A) (cQ2R pref) (cQ2R erad) (Q2R ct) (Q2R st) (Q2R cp) (Q2R sp) (Q2R ex) (Q2R ey).
Proof.
  destruct A as [[[a11r a11i] [a12r a12i]] [[a21r a21i] [a22r a22i]]], pref as [pr pi], erad as [er ei].
  unfold mie_assemble, incfield, calc_scat_field, fieldstocart, radial_to_cart, cv_add, cv_scale,
    cadd, cmul, cscale, cneg, cvQ2R, cQ2R, asmQ2R, QOr; cbn [fst snd add mul sub opp zero one RO].
  cv_eq ltac:(q2r_red; reflexivity).
Qed.

Lemma mielens_assemble_Qr_R (I0 I2 : cplx Q) cp sp cg sg K :
  cvQ2R (mielens_assemble QOr I0 I2 cp sp cg sg K)
  = mielens_assemble RO (cQ2R I0) (cQ2R I2) (Q2R cp) (Q2R sp) (Q2R cg) (Q2R sg) (cQ2R K).
Proof.
  destruct I0 as [i0r i0i], I2 as [i2r i2i], K as [kr ki].
  unfold mielens_assemble, two, czero, cv_add, cv_scale, cadd, cmul, cscale, cneg, cvQ2R, cQ2R, QOr;
    cbn [fst snd add mul sub opp zero one inv ofZ RO].
  cv_eq ltac:(q2r_red; reflexivity).
Qed.

Lemma cv_mul_Qr_R (ph : cplx Q) (E : cvec3 Q) : cvQ2R (cv_mul QOr ph E) = cv_mul RO (cQ2R ph) (cvQ2R E).
Proof.
  destruct ph as [pr pi]. destruct E as [[[a b] [c d]] [e f]].
  unfold cv_mul, cmul, cvQ2R, cQ2R, QOr; cbn [fst snd add mul sub opp RO]. cv_eq ltac:(q2r_red; reflexivity).
Qed.

(** mie_field as executed: a/nrm is Qred (a * Qred (/ nrm)) *)
Lemma mie_field_Qr_R (A : asm Q) pref erad ct st cp sp ph a b nrm : ~ nrm == 0 ->
  cvQ2R (mie_field QOr A pref erad ct st cp sp ph a b nrm)
  = mie_field RO (asmQ2R A) (cQ2R pref) (cQ2R erad) (Q2R ct) (Q2R st) (Q2R cp) (Q2R sp) (cQ2R ph) (Q2R a) (Q2R b) (Q2R nrm).
Proof.
  intros Hn. unfold mie_field. rewrite cv_mul_Qr_R, mie_assemble_Qr_R. f_equal.
  unfold QOr; cbn [mul inv RO]. f_equal; rewrite Q2R_Qred, Q2R_mult, Q2R_Qred, Q2R_inv by exact Hn; reflexivity.
Qed.

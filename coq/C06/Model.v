(** C06 - superposition over scatterer collections, linearity in the polarisation, per-channel
    (multi-colour) calculations.  Executable model (no proofs here).
    Anchors: scattering/imageformation.py (calculate_scattered_field, _calculate_single_color_scattered_field,
    _calculate_scattered_field_from_superposition, _calculate_multiple_color_scattered_field,
    select_scatterer_by_illumination, get_wavevec_from, _get_field_from), scattering/interface.py (prep_schema),
    core/metadata.py (dict_to_array, to_vector, update_metadata, clean_concat), scatterer/composite.py
    (get_component_list, _parameters / from_parameters), theory/mie.py + mie_f/mieangfuncs.f90 (mie_fields,
    calc_scat_field, incfield, fieldstocart, radial_vect_to_cart), theory/scatteringtheory.py (raw_fields),
    theory/mielens.py (raw_fields) + mielensfunctions.py (_calculate_small_krho_scattered_field).
    Oracles (arguments, never axioms): the scattering theory itself ([direct] / [th]: Fortran and numpy solvers),
    amplitude scattering matrix, prefactor i e^{ikr}/kr, radial term, cos/sin of the detector angles, the MieLens
    integrals I_0, I_2, the square root inside to_vector, cos/sin(arctan2(p_y,p_x)), 2 pi. *)
From Coq Require Import ZArith QArith List Bool String.
From HV Require Import Common.Generic C01.Model.
Import ListNotations.

(** * 0. Results: a value or the class of the exception that is raised *)
Inductive err :=
| ETheoryNotCompatible   (* TheoryNotCompatibleError *)
| EIndexError            (* scatterers[0] of an empty component list *)
| EKeyError              (* .sel(illumination=label): label absent *)
| EValueError            (* dict_to_array without matching coords; DataArray size conflict *)
| EMissingParameter      (* scatterer.center is None *)
| EOutsideModel.         (* one-channel "multi-channel" layouts: not modelled (the code refuses them with various errors) *)
Inductive res (A : Type) := Ok (a : A) | Err (e : err).
Arguments Ok {A}. Arguments Err {A}.
Definition bind {A B} (r : res A) (f : A -> res B) : res B := match r with Ok a => f a | Err e => Err e end.
Definition rmap {A B} (f : A -> B) (r : res A) : res B := match r with Ok a => Ok (f a) | Err e => Err e end.
(** a python loop that appends the results: the first exception (in list order) ends it *)
Fixpoint sequence {A} (l : list (res A)) : res (list A) :=
  match l with
  | [] => Ok []
  | r :: t => bind r (fun a => bind (sequence t) (fun ta => Ok (a :: ta)))
  end.

(** * 1. Scatterer trees and get_component_list *)
Section Tree.
Context {S : Type}.
(** a leaf is a non-composite scatterer; a node is a [Scatterers] instance of (sub)class [cls] *)
Inductive tree := Leaf (s : S) | Node (cls : Z) (l : list tree).

(** [isinst c d]: an object whose class is [c] passes [isinstance(obj, d)] *)
Variable isinst : Z -> Z -> bool.

(** Scatterers.get_component_list:
      for s in self.scatterers:
          if isinstance(s, self.__class__): components += s.get_component_list()
          else: components.append(s)                                   (a Leaf has no such method: []) *)
Fixpoint component_list (t : tree) : list tree :=
  match t with
  | Leaf _ => []
  | Node cls l =>
      flat_map (fun c => match c with
                         | Node c' _ => if isinst c' cls then component_list c else [c]
                         | Leaf _ => [c]
                         end) l
  end.

(** the primitive scatterers of a tree, left to right *)
Fixpoint leaves (t : tree) : list S :=
  match t with Leaf s => [s] | Node _ l => flat_map leaves l end.

(** every nested collection is an instance of the class of the collection that holds it
    (always true for the library's own classes: Scatterers holds anything, Spheres holds only leaves) *)
Fixpoint well_classed (t : tree) : bool :=
  match t with
  | Leaf _ => true
  | Node cls l => forallb (fun c => (match c with Node c' _ => isinst c' cls | Leaf _ => true end) && well_classed c) l
  end.
(** every collection in the tree holds at least one primitive scatterer somewhere below it *)
Fixpoint nonempty_nodes (t : tree) : bool :=
  match t with
  | Leaf _ => true
  | Node _ l => negb (match flat_map leaves l with [] => true | _ => false end) && forallb nonempty_nodes l
  end.
Fixpoint depth (t : tree) : nat :=
  match t with Leaf _ => O | Node _ l => Datatypes.S (fold_right Nat.max O (map depth l)) end.
End Tree.
Arguments tree S : clear implicits.

Fixpoint tree_map {A B} (f : A -> B) (t : tree A) : tree B :=
  match t with Leaf s => Leaf (f s) | Node c l => Node c (map (tree_map f) l) end.

(** the classes that occur: 0 Scatterers, 1 Spheres(Scatterers), 2 RigidCluster(Spheres),
    3 a user subclass of Scatterers (the harness's [TreeC]), 4 a subclass of 3 *)
Definition std_isinst (c d : Z) : bool :=
  (c =? d)%Z || (d =? 0)%Z || ((c =? 2)%Z && (d =? 1)%Z) || ((c =? 4)%Z && (d =? 3)%Z).

(** * 2. _calculate_single_color_scattered_field / _calculate_scattered_field_from_superposition *)
Section Dispatch.
Context {S F : Type}.
Variable isinst : Z -> Z -> bool.
Variable can : tree S -> bool.        (* theory.can_handle *)
Variable direct : tree S -> F.        (* _get_field_from: raw_fields x phase; an oracle *)
Variable fadd : F -> F -> F.          (* field += ... *)

(** field = f(scatterers[0]); for s in scatterers[1:]: field += f(s) *)
Definition accumulate (rs : list (res F)) : res F :=
  match rs with
  | [] => Err EIndexError
  | r0 :: rest => fold_left (fun (acc : res F) (r : res F) =>
                               bind acc (fun a => bind r (fun f => Ok (fadd a f)))) rest r0
  end.

(** both results at once so that the recursion is structural:
    fst = the field of [t];  snd = the fields of the members of [t.get_component_list()] *)
Fixpoint sc2 (t : tree S) : res F * list (res F) :=
  match t with
  | Leaf _ => (if can t then Ok (direct t) else Err ETheoryNotCompatible, [])
  | Node cls l =>
      let comps := flat_map (fun c => match c with
                                      | Node c' _ => if isinst c' cls then snd (sc2 c) else [fst (sc2 c)]
                                      | Leaf _ => [fst (sc2 c)]
                                      end) l in
      (if can (Node cls l) then Ok (direct (Node cls l)) else accumulate comps, comps)
  end.
Definition single_color (t : tree S) : res F := fst (sc2 t).

(** the sum the property speaks of: the fields of the primitives, added left to right *)
Definition sum_ne (fs : list F) : res F :=
  match fs with [] => Err EIndexError | f0 :: rest => Ok (fold_left fadd rest f0) end.
End Dispatch.

(** * 3. Per-channel parameters: select_scatterer_by_illumination *)
Fixpoint assoc {V} (k : string) (l : list (string * V)) : option V :=
  match l with
  | [] => None
  | (k', v) :: t => if String.eqb k' k then Some v else assoc k t
  end.

Section Select.
Context {V : Type}.
(** a parameter value: plain, dict keyed by illumination, or DataArray with an illumination dimension *)
Inductive pval := PScalar (v : V) | PDict (d : list (string * V)) | PArr (a : list (string * V)).
(** dict: "illum in val.keys()" -> val[illum];  DataArray: val.sel(illumination=illum).values, KeyError -> unchanged *)
Definition select_val (illum : string) (p : pval) : pval :=
  match p with
  | PScalar _ => p
  | PDict d => match assoc illum d with Some v => PScalar v | None => p end
  | PArr a => match assoc illum a with Some v => PScalar v | None => p end
  end.
Definition params : Type := list (string * pval).
Definition select_params (illum : string) (ps : params) : params :=
  map (fun kv => (fst kv, select_val illum (snd kv))) ps.
End Select.
Arguments pval V : clear implicits. Arguments params V : clear implicits.

(** a primitive scatterer: kind (0 Sphere, 1 anything else) and its parameters;
    scatterer.parameters flattens the tree into "i:j:key" entries and from_parameters rebuilds it: per leaf *)
Definition leaf (V : Type) : Type := (Z * params V)%type.
Definition select_scatterer {V} (illum : string) (t : tree (leaf V)) : tree (leaf V) :=
  tree_map (fun s => (fst s, select_params illum (snd s))) t.

(** * 4. prep_schema: the channel table;  _calculate_multiple_color_scattered_field *)
Fixpoint mem_str (k : string) (l : list string) : bool :=
  match l with [] => false | x :: t => String.eqb x k || mem_str k t end.
Fixpoint remove1 (k : string) (l : list string) : list string :=
  match l with [] => [] | x :: t => if String.eqb x k then t else x :: remove1 k t end.
(** sorted(keys) == sorted(coords) *)
Fixpoint same_labels (a b : list string) : bool :=
  match a with
  | [] => match b with [] => true | _ => false end
  | x :: t => mem_str x b && same_labels t (remove1 x b)
  end.

Section Channels.
Context {W P : Type}.
Inductive wlspec :=
| WScalar (w : W)
| WList (ws : list (string * W))             (* unlabelled sequence; fst = the label its own value would give *)
| WLab (isdict : bool) (a : list (string * W)).   (* dict (after dict_to_array) or DataArray over illumination *)
Inductive polspec :=
| PVec (p : P)
| PLab (isdict : bool) (a : list (string * P)).
Inductive schema := SSingle (w : W) (p : P) | SMulti (wt : list (string * W)) (pol : polspec).

(** dict_to_array: a dict needs a detector dimension whose sorted coords equal its sorted keys *)
Definition dict_ok {X} (det : option (list string)) (isdict : bool) (a : list (string * X)) : bool :=
  negb isdict || match det with Some ls => same_labels (map fst a) ls | None => false end.

Definition prep_schema (det : option (list string)) (wl : wlspec) (pol : polspec) : res schema :=
  let wl_ok := match wl with WLab d a => dict_ok det d a | _ => true end in
  let pol_ok := match pol with PLab d a => dict_ok det d a | _ => true end in
  if negb (wl_ok && pol_ok) then Err EValueError else
  match pol with
  | PLab _ pa =>
      match wl with
      | WLab _ a => Ok (SMulti a pol)
      | WScalar w => Ok (SMulti (map (fun lp => (fst lp, w)) pa) pol)
      | WList [(_, w)] => Ok (SMulti (map (fun lp => (fst lp, w)) pa) pol)     (* .repeat(len(pol.illumination)) *)
      | WList ws => if Nat.eqb (List.length ws) (List.length pa)
                    then Ok (SMulti (combine (map fst pa) (map snd ws)) pol)   (* labels taken from the polarisation, by position *)
                    else Err EValueError
      end
  | PVec p =>
      match wl with
      | WScalar w => Ok (SSingle w p)
      | WList ws => Ok (SMulti ws pol)          (* coords = {illumination: illum_wavelen}; polarisation broadcast *)
      | WLab _ a => Ok (SMulti a pol)
      end
  end.

Definition pol_for (pol : polspec) (lab : string) : res P :=
  match pol with
  | PVec p => Ok p
  | PLab _ a => match assoc lab a with Some p => Ok p | None => Err EKeyError end
  end.

Context {V F : Type}.
Variable single : W -> P -> tree (leaf V) -> res F.   (* the single-colour calculation *)
(** for illum in wl.illumination.values: field.append(single(wl.sel(illum), pol.sel(illum), select(scatterer, illum)));
    clean_concat(field, dim=wl.illumination) *)
Definition multi_color (wt : list (string * W)) (pol : polspec) (t : tree (leaf V)) : res (list (string * F)) :=
  sequence (map (fun lw => bind (pol_for pol (fst lw))
                                (fun p => rmap (pair (fst lw)) (single (snd lw) p (select_scatterer (fst lw) t)))) wt).

Inductive outcome := OSingle (f : F) | OMulti (l : list (string * F)).
(** calculate_scattered_field after prep_schema ([has_center]: scatterer.center is not None) *)
Definition calc_field_model (det : option (list string)) (wl : wlspec) (pol : polspec)
           (has_center : bool) (t : tree (leaf V)) : res outcome :=
  bind (prep_schema det wl pol) (fun s =>
  if negb has_center then Err EMissingParameter else
  match s with
  | SSingle w p => rmap OSingle (single w p t)
  | SMulti wt pl => if (List.length wt <=? 1)%nat then Err EOutsideModel else rmap OMulti (multi_color wt pl t)
  end).
End Channels.
Arguments wlspec W : clear implicits. Arguments polspec P : clear implicits.
Arguments schema W P : clear implicits. Arguments outcome F : clear implicits.

(** * 5. Numeric part, generic over the carrier *)
Section Gen.
Context {T : Type} (O : Ops T).
Declare Scope t_scope. Delimit Scope t_scope with t.
Local Notation "x + y" := (add O x y) : t_scope. Local Notation "x * y" := (mul O x y) : t_scope.
Local Notation "x - y" := (sub O x y) : t_scope. Local Notation "- x" := (opp O x) : t_scope.
Local Notation "x / y" := (mul O x (inv O y)) : t_scope.
Local Open Scope t_scope.

(** get_wavevec_from: 2*pi / (illum_wavelen / medium_index) *)
Definition wavevec (twopi nm w : T) : T := twopi / (w / nm).

(** real scalar times a complex vector *)
Definition cv_scale (s : T) (E : cvec3 T) : cvec3 T :=
  let '(ex, ey, ez) := E in (cscale O s ex, cscale O s ey, cscale O s ez).
Definition cneg (a : cplx T) : cplx T := (- fst a, - snd a).
Definition czero : cplx T := (zero O, zero O).

(** incfield: polarisation relative to the scattering plane *)
Definition incfield (ex ey cp sp : T) : T * T := (ex * cp + ey * sp, ex * sp - ey * cp).
(** amplitude scattering matrix as ((a11, a12), (a21, a22)) *)
Definition asm : Type := ((cplx T * cplx T) * (cplx T * cplx T))%type.
(** calc_scat_field: prefactor * matmul(ascatm, einc_sph) * (1, -1) *)
Definition calc_scat_field (A : asm) (pref : cplx T) (e : T * T) : cplx T * cplx T :=
  let '((a11, a12), (a21, a22)) := A in
  (cmul O pref (cadd O (cscale O (fst e) a11) (cscale O (snd e) a12)),
   cneg (cmul O pref (cadd O (cscale O (fst e) a21) (cscale O (snd e) a22)))).
(** fieldstocart *)
Definition fieldstocart (a : cplx T * cplx T) (ct st cp sp : T) : cvec3 T :=
  (cadd O (cscale O (ct * cp) (fst a)) (cneg (cscale O sp (snd a))),
   cadd O (cscale O (ct * sp) (fst a)) (cscale O cp (snd a)),
   cneg (cscale O st (fst a))).
(** radial_vect_to_cart *)
Definition radial_to_cart (ar : cplx T) (ct st cp sp : T) : cvec3 T :=
  (cscale O (st * cp) ar, cscale O (st * sp) ar, cscale O ct ar).
(** mie_fields at one point (ScatteringTheory.raw_fields is the same with erad = 0):
    leaves = scattering matrix, prefactor, radial amplitude, cos/sin(theta), cos/sin(phi) *)
Definition mie_assemble (A : asm) (pref erad : cplx T) (ct st cp sp : T) (ex ey : T) : cvec3 T :=
  let e := incfield ex ey cp sp in
  cv_add O (fieldstocart (calc_scat_field A pref e) ct st cp sp)
           (radial_to_cart (cscale O (fst e) erad) ct st cp sp).

(** MieLens.raw_fields at one point: phi' = phi - pol_angle; cos/sin 2phi' by angle addition from the four leaves
    cos/sin(phi), cos/sin(pol_angle); I0, I2 the lens integrals; K = exp(i k z)/incident_field_x *)
Definition two : T := ofZ O 2.
Definition mielens_assemble (I0 I2 : cplx T) (cp sp cg sg : T) (K : cplx T) : cvec3 T :=
  let c1 := cp * cg + sp * sg in
  let s1 := sp * cg - cp * sg in
  let c2 := c1 * c1 - s1 * s1 in
  let s2 := two * (s1 * c1) in
  let fpll := cscale O (inv O two) (cadd O I0 (cscale O c2 I2)) in
  let fprp := cscale O (inv O two) (cscale O s2 I2) in
  (cmul O (cadd O (cscale O cg fpll) (cneg (cscale O sg fprp))) K,
   cmul O (cadd O (cscale O sg fpll) (cscale O cg fprp)) K,
   cmul O czero K).
(** the historical variant (phi += pol_angle), see Findings.v *)
Definition mielens_assemble_plus (I0 I2 : cplx T) (cp sp cg sg : T) (K : cplx T) : cvec3 T :=
  let c1 := cp * cg - sp * sg in
  let s1 := sp * cg + cp * sg in
  let c2 := c1 * c1 - s1 * s1 in
  let s2 := two * (s1 * c1) in
  let fpll := cscale O (inv O two) (cadd O I0 (cscale O c2 I2)) in
  let fprp := cscale O (inv O two) (cscale O s2 I2) in
  (cmul O (cadd O (cscale O cg fpll) (cneg (cscale O sg fprp))) K,
   cmul O (cadd O (cscale O sg fpll) (cscale O cg fprp)) K,
   cmul O czero K).

(** calc_field for polarisation (a, b): to_vector divides by nrm = sqrt(a^2+b^2); _get_field_from multiplies by the phase *)
Definition mie_field (A : asm) (pref erad : cplx T) (ct st cp sp : T) (ph : cplx T) (a b nrm : T) : cvec3 T :=
  cv_mul O ph (mie_assemble A pref erad ct st cp sp (a / nrm) (b / nrm)).
(** MieLens: cos/sin(arctan2(p_y, p_x)) of the unit vector p = (a, b)/nrm are p_x, p_y *)
Definition mielens_field (I0 I2 : cplx T) (cp sp : T) (K ph : cplx T) (a b nrm : T) : cvec3 T :=
  cv_mul O ph (mielens_assemble I0 I2 cp sp (a / nrm) (b / nrm) K).
Definition mielens_field_plus (I0 I2 : cplx T) (cp sp : T) (K ph : cplx T) (a b nrm : T) : cvec3 T :=
  cv_mul O ph (mielens_assemble_plus I0 I2 cp sp (a / nrm) (b / nrm) K).
(** the right-hand side of the property: (a E_x + b E_y)/|(a,b)| *)
Definition lincomb (a b nrm : T) (Ex Ey : cvec3 T) : cvec3 T :=
  cv_scale (inv O nrm) (cv_add O (cv_scale a Ex) (cv_scale b Ey)).
End Gen.
Arguments asm T : clear implicits.

(** * 6. The pipeline as it is executed against the implementation (mock theory) *)
Section Pipeline.
Context {T : Type} (O : Ops T) {V Pl F : Type}.
Variable can : tree (leaf V) -> bool.
Variable th : T * T * Pl * tree (leaf V) -> F.   (* what the theory answers when called with (k, n_medium, polarisation, scatterer) *)
Variable fadd : F -> F -> F.
Definition single_call (twopi nm : T) (w : T) (p : Pl) (t : tree (leaf V)) : res F :=
  single_color std_isinst can (fun s => th (wavevec O twopi nm w, nm, p, s)) fadd t.
Definition pipeline (twopi nm : T) det (wl : wlspec T) (pol : polspec Pl) (has_center : bool) (t : tree (leaf V))
  : res (outcome F) := calc_field_model (single_call twopi nm) det wl pol has_center t.
End Pipeline.

(** can_handle of the theories used: Mie-like (spheres only) or Multisphere-like (also collections of class Spheres) *)
Definition can_std {V} (handles_spheres : bool) (t : tree (leaf V)) : bool :=
  match t with
  | Leaf s => (fst s =? 0)%Z
  | Node cls _ => handles_spheres && ((cls =? 1)%Z || (cls =? 2)%Z)
  end.

(** observation of one theory call by the mock theory: (k, n_medium, polarisation, is_collection, leaves' parameters) *)
Definition qv : Type := list Q.
Definition obs_call : Type := (Q * Q * list Q * bool * list (params qv))%type.
Definition observe (c : Q * Q * list Q * tree (leaf qv)) : list obs_call :=
  let '(k, nm, p, t) := c in
  [(k, nm, p, match t with Leaf _ => false | Node _ _ => true end, map snd (leaves t))].

(** comparison helpers for the generated correspondence files *)
Definition Qabs0 (x : Q) : Q := if Qle_bool 0 x then x else Qopp x.
Definition qnear (tol a b : Q) : bool :=
  Qle_bool (Qabs0 (a - b)) (tol * (if Qle_bool 1 (Qabs0 b) then Qabs0 b else 1)).
Fixpoint all2 {A B} (e : A -> B -> bool) (a : list A) (b : list B) : bool :=
  match a, b with [] , [] => true | x :: a', y :: b' => e x y && all2 e a' b' | _, _ => false end.
Definition kv_eqb {X} (e : X -> X -> bool) (a b : string * X) : bool := String.eqb (fst a) (fst b) && e (snd a) (snd b).
Definition pval_eqb (a b : pval qv) : bool :=
  match a, b with
  | PScalar x, PScalar y => all2 Qeq_bool x y
  | PDict x, PDict y => all2 (kv_eqb (all2 Qeq_bool)) x y
  | PArr x, PArr y => all2 (kv_eqb (all2 Qeq_bool)) x y
  | _, _ => false
  end.
Definition obs_eqb (tol : Q) (a b : obs_call) : bool :=
  let '(k, nm, p, isn, ps) := a in let '(k', nm', p', isn', ps') := b in
  qnear tol k k' && Qeq_bool nm nm' && all2 (qnear tol) p p' && Bool.eqb isn isn' && all2 (all2 (kv_eqb pval_eqb)) ps ps'.
Definition err_eqb (a b : err) : bool :=
  match a, b with
  | ETheoryNotCompatible, ETheoryNotCompatible | EIndexError, EIndexError | EKeyError, EKeyError
  | EValueError, EValueError | EMissingParameter, EMissingParameter | EOutsideModel, EOutsideModel => true
  | _, _ => false
  end.
(** what the harness decodes from one run: per channel label the list of theory calls, or the error class *)
Definition observed : Type := res (list (string * list obs_call)).
Definition outcome_eqb (tol : Q) (m : res (outcome (list obs_call))) (o : observed) : bool :=
  match m, o with
  | Err e, Err e' => err_eqb e e'
  | Ok (OSingle f), Ok [(l, g)] => String.eqb l "" && all2 (obs_eqb tol) f g
  | Ok (OMulti fs), Ok gs => all2 (kv_eqb (all2 (obs_eqb tol))) fs gs
  | _, _ => false
  end.
(** the model run that is compared with the mock theory's log: F = list of observed calls, += is append *)
Definition mock_run (handles_spheres : bool) (twopi nm : Q) det (wl : wlspec Q) (pol : polspec (list Q))
           (has_center : bool) (t : tree (leaf qv)) : res (outcome (list obs_call)) :=
  pipeline QO (can_std handles_spheres) observe (@app obs_call) twopi nm det wl pol has_center t.

(** the value the mock theory returns at every pixel encodes its arguments; summed over the components:
    numeric code of one call = (sum over leaves of n_code + i r_code, k + i n_medium, p_x + i p_y) *)
Definition num_of (p : pval qv) : Q := match p with PScalar (x :: _) => x | _ => (-1)%Q end.
Definition par_num (key : string) (ps : params qv) : Q := match assoc key ps with Some p => num_of p | None => (-2)%Q end.
Definition encode (c : Q * Q * list Q * tree (leaf qv)) : cvec3 Q :=
  let '(k, nm, p, t) := c in
  let ls := map snd (leaves t) in
  ((fold_right Qplus 0 (map (par_num "n") ls), fold_right Qplus 0 (map (par_num "r") ls)),
   (k, nm), (nth 0 p 0, nth 1 p 0)).
Definition mock_sum (handles_spheres : bool) (twopi nm : Q) det (wl : wlspec Q) (pol : polspec (list Q))
           (has_center : bool) (t : tree (leaf qv)) : res (outcome (cvec3 Q)) :=
  pipeline QOr (can_std handles_spheres) encode (cv_add QOr) twopi nm det wl pol has_center t.
Definition cv_near (tol : Q) (a b : cvec3 Q) : bool :=
  let '(ax, ay, az) := a in let '(bx, b_y, bz) := b in
  qnear tol (fst ax) (fst bx) && qnear tol (snd ax) (snd bx) && qnear tol (fst ay) (fst b_y) &&
  qnear tol (snd ay) (snd b_y) && qnear tol (fst az) (fst bz) && qnear tol (snd az) (snd bz).
Definition sum_eqb (tol : Q) (m : res (outcome (cvec3 Q))) (o : res (list (string * cvec3 Q))) : bool :=
  match m, o with
  | Err e, Err e' => err_eqb e e'
  | Ok (OSingle f), Ok [(l, g)] => cv_near tol f g
  | Ok (OMulti fs), Ok gs => all2 (kv_eqb (cv_near tol)) fs gs
  | _, _ => false
  end.

(** C06 property theorems: statements only; proofs are in Lemmas.v.
    Discrete parts (trees, dispatch, selection by label, channels) have no number carrier: the function that is
    proved about is the function that vm_compute runs against the implementation.  Numeric parts: RO is the object
    of the theorems, QO is executed, [*_agrees_on_Q] links them. *)
From Coq Require Import ZArith List Bool String Reals QArith Qreals Lra Permutation.
From HV Require Import Common.Generic C01.Model C06.Model C06.Lemmas C06.Findings.
Import ListNotations.

(** ** get_component_list *)
(* whatever the nesting and whatever the (sub)classes: the component list holds exactly the primitives of the
   collection, in order (nothing lost, nothing duplicated) *)
Theorem component_list_leaves : forall (S : Type) (isinst : Z -> Z -> bool) cls (l : list (tree S)),
  flat_map leaves (component_list isinst (Node cls l)) = leaves (Node cls l).
Proof. exact (@component_list_leaves_node). Qed.
Print Assumptions component_list_leaves.

(* and when every nested collection is an instance of its holder's class (the library's own classes) it is flat *)
Theorem component_list_flat : forall (S : Type) (isinst : Z -> Z -> bool) cls (l : list (tree S)),
  well_classed isinst (Node cls l) = true ->
  component_list isinst (Node cls l) = map Leaf (leaves (Node cls l)).
Proof. exact (@component_list_flat_node). Qed.
Print Assumptions component_list_flat.

(** ** single-colour dispatch *)
Theorem single_color_is_the_code : forall (S F : Type) isinst can (direct : tree S -> F) fadd t,
  single_color isinst can direct fadd t
  = if can t then Ok (direct t)
    else match t with
         | Leaf _ => Err ETheoryNotCompatible
         | Node _ _ => accumulate fadd (map (single_color isinst can direct fadd) (component_list isinst t))
         end.
Proof. exact (@single_color_as_coded). Qed.
Print Assumptions single_color_is_the_code.

(* field(tree) = sum over its primitives of field(primitive), for a theory that handles primitives only:
   any nesting depth, any class layout, any number of members; [fadd] any associative addition *)
Theorem superposition : forall (S F : Type) isinst (can : tree S -> bool) (direct : tree S -> F) fadd,
  (forall a b c, fadd a (fadd b c) = fadd (fadd a b) c) ->
  (forall s, can (Leaf s) = true) -> (forall c l, can (Node c l) = false) ->
  forall t, nonempty_nodes t = true ->
  single_color isinst can direct fadd t = sum_ne fadd (map (fun s => direct (Leaf s)) (leaves t)).
Proof. exact (@Lemmas.superposition). Qed.
Print Assumptions superposition.

(* for EVERY tree, without side condition: the result is that sum, or the IndexError raised by an empty
   collection that is met on the way - never another value, never another error *)
Theorem superposition_every_tree : forall (S F : Type) isinst (can : tree S -> bool) (direct : tree S -> F) fadd,
  (forall a b c, fadd a (fadd b c) = fadd (fadd a b) c) ->
  (forall s, can (Leaf s) = true) -> (forall c l, can (Node c l) = false) ->
  forall t, single_color isinst can direct fadd t = sum_ne fadd (map (fun s => direct (Leaf s)) (leaves t))
            \/ single_color isinst can direct fadd t = Err EIndexError.
Proof. exact (@superposition_general). Qed.
Print Assumptions superposition_every_tree.

Theorem superposition_whenever_a_field_is_returned : forall (S F : Type) isinst (can : tree S -> bool) (direct : tree S -> F) fadd,
  (forall a b c, fadd a (fadd b c) = fadd (fadd a b) c) ->
  (forall s, can (Leaf s) = true) -> (forall c l, can (Node c l) = false) ->
  forall t f, single_color isinst can direct fadd t = Ok f ->
              sum_ne fadd (map (fun s => direct (Leaf s)) (leaves t)) = Ok f.
Proof. exact (@superposition_partial). Qed.
Print Assumptions superposition_whenever_a_field_is_returned.

(* the instance the property speaks of: complex field vectors at a detector point, added component-wise *)
Theorem superposition_of_fields : forall (S : Type) isinst (can : tree S -> bool) (direct : tree S -> cvec3 R),
  (forall s, can (Leaf s) = true) -> (forall c l, can (Node c l) = false) ->
  forall t, nonempty_nodes t = true ->
  exists s0 rest, leaves t = s0 :: rest /\
    single_color isinst can direct (cv_add RO) t
    = Ok (fold_left (cv_add RO) (map (fun s => direct (Leaf s)) rest) (direct (Leaf s0))).
Proof. intros S isinst can direct. exact (superposition_ok isinst can direct (cv_add RO) cv_add_assoc). Qed.
Print Assumptions superposition_of_fields.

(* a theory that handles the collection as a whole (Multisphere) is called once with the whole collection *)
Theorem handled_collection_is_direct : forall (S F : Type) isinst can (direct : tree S -> F) fadd t,
  can t = true -> single_color isinst can direct fadd t = Ok (direct t).
Proof. exact (@single_color_direct). Qed.
Print Assumptions handled_collection_is_direct.

(** ** linearity in the polarisation: E(a,b) = (a E_x + b E_y)/|(a,b)| for all a, b and all leaf values *)
Local Open Scope R_scope.
Theorem pol_linear_mie : forall (A : asm R) pref erad ct st cp sp ph a b nrm, nrm <> 0 ->
  mie_field RO A pref erad ct st cp sp ph a b nrm
  = lincomb RO a b nrm (mie_field RO A pref erad ct st cp sp ph 1 0 1) (mie_field RO A pref erad ct st cp sp ph 0 1 1).
Proof. exact Lemmas.pol_linear_mie. Qed.
Print Assumptions pol_linear_mie.

Theorem pol_linear_mielens : forall (I0 I2 : cplx R) cp sp K ph a b nrm, nrm <> 0 -> nrm * nrm = a * a + b * b ->
  mielens_field RO I0 I2 cp sp K ph a b nrm
  = lincomb RO a b nrm (mielens_field RO I0 I2 cp sp K ph 1 0 1) (mielens_field RO I0 I2 cp sp K ph 0 1 1).
Proof. exact Lemmas.pol_linear_mielens. Qed.
Print Assumptions pol_linear_mielens.

(* the polynomial assembly is the trigonometric one of the code: cos/sin 2(phi - pol_angle) *)
Theorem mielens_assembly_is_trig : forall (I0 I2 : cplx R) phi gam K,
  mielens_assemble RO I0 I2 (cos phi) (sin phi) (cos gam) (sin gam) K
  = (cmul RO (cadd RO (cscale RO (cos gam) (cscale RO (/ 2) (cadd RO I0 (cscale RO (cos (2 * (phi - gam))) I2))))
                      (cneg RO (cscale RO (sin gam) (cscale RO (/ 2) (cscale RO (sin (2 * (phi - gam))) I2))))) K,
     cmul RO (cadd RO (cscale RO (sin gam) (cscale RO (/ 2) (cadd RO I0 (cscale RO (cos (2 * (phi - gam))) I2))))
                      (cscale RO (cos gam) (cscale RO (/ 2) (cscale RO (sin (2 * (phi - gam))) I2)))) K,
     cmul RO (czero RO) K).
Proof. exact mielens_trig. Qed.
Print Assumptions mielens_assembly_is_trig.
Local Close Scope R_scope.

(** ** channels *)
(* channel c of the multi-channel result = the single-channel result on (wavelength_c, polarisation_c,
   scatterer selected for label_c), for every channel list; and conversely *)
Theorem channels_pointwise : forall (W P V F : Type) (single : W -> P -> tree (leaf V) -> res F) wt pol t out,
  multi_color single wt pol t = Ok out <->
  Forall2 (fun lw lf => fst lf = fst lw /\
                        exists p, pol_for pol (fst lw) = Ok p /\
                                  single (snd lw) p (select_scatterer (fst lw) t) = Ok (snd lf)) wt out.
Proof. exact (@multi_color_spec). Qed.
Print Assumptions channels_pointwise.

Theorem channels_nth : forall (W P V F : Type) (single : W -> P -> tree (leaf V) -> res F) wt pol t out,
  multi_color single wt pol t = Ok out ->
  List.length out = List.length wt /\
  forall c lab w, nth_error wt c = Some (lab, w) ->
    exists p f, pol_for pol lab = Ok p /\ single w p (select_scatterer lab t) = Ok f /\
                nth_error out c = Some (lab, f).
Proof. exact (@multi_color_nth). Qed.
Print Assumptions channels_nth.

Theorem channels_total : forall (W P V F : Type) (single : W -> P -> tree (leaf V) -> res F) wt pol t,
  (forall lab w, In (lab, w) wt -> exists p f, pol_for pol lab = Ok p /\ single w p (select_scatterer lab t) = Ok f) ->
  exists out, multi_color single wt pol t = Ok out.
Proof. exact (@multi_color_total). Qed.
Print Assumptions channels_total.

(** ** selection is by label *)
(* the value a channel gets is the entry whose KEY is the channel's label, wherever it stands *)
Theorem select_by_label : forall (V : Type) illum (v : V) d, NoDup (map fst d) -> In (illum, v) d ->
  select_val illum (PDict d) = PScalar v /\ select_val illum (PArr d) = PScalar v.
Proof. exact (@select_dict_by_key). Qed.
Print Assumptions select_by_label.

Theorem select_reorder_invariant : forall (V : Type) illum (d d' : list (string * V)),
  Permutation d d' -> NoDup (map fst d) -> In illum (map fst d) ->
  select_val illum (PDict d) = select_val illum (PDict d') /\ select_val illum (PArr d) = select_val illum (PArr d').
Proof. exact (@select_perm). Qed.
Print Assumptions select_reorder_invariant.

Theorem select_leaves_other_values : forall (V : Type) illum (v : V) (d : list (string * V)),
  select_val illum (PScalar v) = PScalar v /\
  (~ In illum (map fst d) -> select_val illum (PDict d) = PDict d /\ select_val illum (PArr d) = PArr d).
Proof. intros V illum v d. split; [reflexivity|exact (select_missing_unchanged illum d)]. Qed.
Print Assumptions select_leaves_other_values.

Theorem select_acts_on_every_primitive : forall (V : Type) illum (t : tree (leaf V)),
  leaves (select_scatterer illum t) = map (fun s => (fst s, select_params illum (snd s))) (leaves t).
Proof. exact (@select_scatterer_leaves). Qed.
Print Assumptions select_acts_on_every_primitive.

Theorem polarisation_by_label : forall (P : Type) isd isd' (pa pa' : list (string * P)) (p : P) lab,
  pol_for (PVec p) lab = Ok p /\
  (Permutation pa pa' -> NoDup (map fst pa) -> pol_for (PLab isd pa) lab = pol_for (PLab isd' pa') lab).
Proof. intros P isd isd' pa pa' p lab. split; [reflexivity|exact (pol_for_perm isd isd' pa pa' lab)]. Qed.
Print Assumptions polarisation_by_label.

(* re-ordering the channels (dict order of the wavelengths) permutes the result and changes no channel *)
Theorem channels_reorder : forall (W P V F : Type) (single : W -> P -> tree (leaf V) -> res F) wt wt' pol t out,
  Permutation wt wt' -> multi_color single wt pol t = Ok out ->
  exists out', multi_color single wt' pol t = Ok out' /\ Permutation out out'.
Proof. exact (@multi_color_perm). Qed.
Print Assumptions channels_reorder.

Theorem channel_by_label_invariant : forall (W P V F : Type) (single : W -> P -> tree (leaf V) -> res F)
    wt wt' pol t out out' lab,
  Permutation wt wt' -> NoDup (map fst wt) ->
  multi_color single wt pol t = Ok out -> multi_color single wt' pol t = Ok out' ->
  assoc lab out = assoc lab out'.
Proof. exact (@multi_color_by_label). Qed.
Print Assumptions channel_by_label_invariant.

(** ** prep_schema: the channel table (broadcast rules as coded) *)
Theorem prep_schema_table : forall (W P : Type) det (w : W) (p : P) isd (a ws : list (string * W)) isd' (pa : list (string * P)) (pol : polspec P),
  prep_schema det (WScalar w) (PVec p) = Ok (SSingle w p) /\
  prep_schema det (WList ws) (PVec p) = Ok (SMulti ws (PVec p)) /\
  (dict_ok det isd' pa = true ->
   prep_schema det (WScalar w) (PLab isd' pa) = Ok (SMulti (map (fun lp => (fst lp, w)) pa) (PLab isd' pa))) /\
  (dict_ok det isd a = true -> (match pol with PLab d pa => dict_ok det d pa | PVec _ => true end) = true ->
   prep_schema det (WLab isd a) pol = Ok (SMulti a pol)).
Proof.
  intros W P det w p isd a ws isd' pa pol.
  exact (conj (prep_single det w p) (conj (prep_list_own_labels det ws p)
        (conj (prep_scalar_broadcast det w isd' pa) (prep_labelled det isd a pol)))).
Qed.
Print Assumptions prep_schema_table.

(** ** the executed Q instance equals the R instance *)
Theorem assemblies_agree_on_Q : forall (A : asm Q) pref erad ct st cp sp ex ey (I0 I2 : cplx Q) cg sg K,
  cvQ2R (mie_assemble QO A pref erad ct st cp sp ex ey)
  = mie_assemble RO (asmQ2R A) (cQ2R pref) (cQ2R erad) (Q2R ct) (Q2R st) (Q2R cp) (Q2R sp) (Q2R ex) (Q2R ey) /\
  cvQ2R (mielens_assemble QO I0 I2 cp sp cg sg K)
  = mielens_assemble RO (cQ2R I0) (cQ2R I2) (Q2R cp) (Q2R sp) (Q2R cg) (Q2R sg) (cQ2R K).
Proof.
  intros. exact (conj (mie_assemble_Q_R A pref erad ct st cp sp ex ey) (mielens_assemble_Q_R I0 I2 cp sp cg sg K)).
Qed.
Print Assumptions assemblies_agree_on_Q.

(* the reduced instance QOr (every intermediate result in lowest terms) is what the correspondence runs *)
Theorem assemblies_agree_on_Qr : forall (A : asm Q) pref erad ct st cp sp ph a b nrm (I0 I2 : cplx Q) cg sg K,
  (~ nrm == 0 ->
   cvQ2R (mie_field QOr A pref erad ct st cp sp ph a b nrm)
   = mie_field RO (asmQ2R A) (cQ2R pref) (cQ2R erad) (Q2R ct) (Q2R st) (Q2R cp) (Q2R sp) (cQ2R ph) (Q2R a) (Q2R b) (Q2R nrm)) /\
  cvQ2R (mielens_assemble QOr I0 I2 cp sp cg sg K)
  = mielens_assemble RO (cQ2R I0) (cQ2R I2) (Q2R cp) (Q2R sp) (Q2R cg) (Q2R sg) (cQ2R K).
Proof.
  intros. exact (conj (mie_field_Qr_R A pref erad ct st cp sp ph a b nrm) (mielens_assemble_Qr_R I0 I2 cp sp cg sg K)).
Qed.
Print Assumptions assemblies_agree_on_Qr.

Theorem wavevec_agrees_on_Q : forall twopi nm w : Q, ~ nm == 0 -> ~ w == 0 ->
  Q2R (wavevec QO twopi nm w) = wavevec RO (Q2R twopi) (Q2R nm) (Q2R w).
Proof. exact wavevec_Q_R. Qed.
Print Assumptions wavevec_agrees_on_Q.

(** ** non-vacuity: the hypotheses are satisfiable, and they are needed *)
Open Scope string_scope.
(* a three-level tree with a nested collection of a foreign class: not flat, yet every primitive is there *)
Definition ex_tree : tree Z := Node 3 [Leaf 1%Z; Node 0 [Leaf 2%Z; Node 0 [Leaf 3%Z]]; Node 3 [Leaf 4%Z]; Node 1 []].
Example ex_component_list :
  component_list std_isinst ex_tree = [Leaf 1%Z; Node 0 [Leaf 2%Z; Node 0 [Leaf 3%Z]]; Leaf 4%Z; Node 1 []]
  /\ well_classed std_isinst ex_tree = false
  /\ leaves ex_tree = [1; 2; 3; 4]%Z.
Proof. vm_compute. repeat split. Qed.
Example ex_well_classed : well_classed std_isinst (Node 0 [Leaf 1%Z; Node 1 [Leaf 2%Z]; Node 3 [Node 4 [Leaf 3%Z]]]) = true
  /\ nonempty_nodes (Node 0 [Leaf 1%Z; Node 1 [Leaf 2%Z]; Node 3 [Node 4 [Leaf 3%Z]]]) = true.
Proof. vm_compute. split; reflexivity. Qed.
(* superposition on a concrete tree: fields are integers here, the nested foreign collection is summed first *)
Example ex_superposition :
  single_color std_isinst (fun t => match t with Leaf _ => true | _ => false end)
               (fun t => match t with Leaf s => s | _ => 0%Z end) Z.add
               (Node 3 [Leaf 1%Z; Node 0 [Leaf 2%Z; Node 0 [Leaf 3%Z]]; Node 3 [Leaf 4%Z]]) = Ok 10%Z.
Proof. vm_compute. reflexivity. Qed.
(* an empty collection is an IndexError, a primitive the theory cannot handle a TheoryNotCompatibleError *)
Example ex_errors :
  single_color std_isinst (fun t => match t with Leaf s => (s =? 0)%Z | _ => false end) (fun _ => 0%Z) Z.add (Node 0 []) = Err EIndexError
  /\ single_color std_isinst (fun t => match t with Leaf s => (s =? 0)%Z | _ => false end) (fun _ => 0%Z) Z.add
       (Node 0 [Leaf 0%Z; Leaf 1%Z]) = Err ETheoryNotCompatible.
Proof. vm_compute. split; reflexivity. Qed.
(* selection by label, three channels, keys in another order than the channels *)
Example ex_select :
  select_params "green" [("n", PDict [("red", 1%Z); ("green", 2%Z)]); ("r", PScalar 5%Z); ("c", PArr [("blue", 7%Z)])]
  = [("n", PScalar 2%Z); ("r", PScalar 5%Z); ("c", PArr [("blue", 7%Z)])].
Proof. vm_compute. reflexivity. Qed.
Example ex_channels :
  multi_color (fun (w : Z) (p : Z) (t : tree (leaf Z)) => Ok (w, p, leaves t))
              [("b", 1%Z); ("a", 2%Z)] (PLab false [("a", 10%Z); ("b", 20%Z)])
              (Leaf (0%Z, [("n", PDict [("a", 3%Z); ("b", 4%Z)])]))
  = Ok [("b", (1%Z, 20%Z, [(0%Z, [("n", PScalar 4%Z)])])); ("a", (2%Z, 10%Z, [(0%Z, [("n", PScalar 3%Z)])]))].
Proof. vm_compute. reflexivity. Qed.
(* polarisation linearity hypotheses: (a, b, nrm) = (3, 4, 5) *)
Example ex_norm : (5 <> 0 /\ 5 * 5 = 3 * 3 + 4 * 4)%R.
Proof. split; lra. Qed.
(* the defective MieLens variant is refuted (Findings.v) *)
Example ex_findings_built := mielens_plus_refuted.

(** C19 - coordinate conversions and Euler rotations.  Model (no proofs here).
    Anchors: holopy/core/math.py (rotation_matrix, rotate_points, transform_*, _transformation_lut),
    scatterer/composite.py (Scatterers.rotated / translated), scatterer/scatterer.py (translated),
    scatterer/sphere.py (Sphere.rotated = copy), scatterer/spherecluster.py (Spheres.center,
    RigidCluster.scatterers).

    Two parts:
    * [Section Gen]: everything that is polynomial in its inputs (rotation matrix in the six
      leaf values cos/sin of the three angles, matrix-vector product, centroid, rotated /
      translated composites) is generic over [Ops T]: run on Q by vm_compute, theorems on R.
    * the conversions need sqrt / atan / cos / sin / PI: they are written directly over R
      (the object the theorems talk about) and are *evaluated inside Coq* by Coq-Interval on
      the exact dyadic inputs the implementation received (no second, unproved copy). *)
From Coq Require Import ZArith List Bool Reals String.
From HV Require Import Common.Generic.
Import ListNotations.

Section Gen.
Context {T : Type} (O : Ops T).
Declare Scope t_scope. Delimit Scope t_scope with t.
Local Notation "x + y" := (add O x y) : t_scope. Local Notation "x * y" := (mul O x y) : t_scope.
Local Notation "x - y" := (sub O x y) : t_scope. Local Notation "- x" := (opp O x) : t_scope.
Local Notation "x / y" := (mul O x (inv O y)) : t_scope.
Local Open Scope t_scope.

Definition vec : Type := (T * T * T)%type.
Definition mat : Type := (vec * vec * vec)%type.      (* three rows *)
Definition vzero : vec := (zero O, zero O, zero O).
Definition vadd (a b : vec) : vec := let '(a1,a2,a3) := a in let '(b1,b2,b3) := b in (a1+b1, a2+b2, a3+b3).
Definition vsub (a b : vec) : vec := let '(a1,a2,a3) := a in let '(b1,b2,b3) := b in (a1-b1, a2-b2, a3-b3).
Definition vdivs (a : vec) (n : T) : vec := let '(a1,a2,a3) := a in (a1 / n, a2 / n, a3 / n).
Definition dot (a b : vec) : T := let '(a1,a2,a3) := a in let '(b1,b2,b3) := b in a1*b1 + a2*b2 + a3*b3.
Definition dist2 (a b : vec) : T := dot (vsub a b) (vsub a b).

(** rotation_matrix: "np.array([ca*cb*cg - sa*sg, -sa*cb*cg - ca*sg, sb*cg, ca*cb*sg + sa*cg,
    -sa*cb*sg + ca*cg, sb*sg, -ca*sb, sa*sb, cb]).reshape((3,3))  # row major".
    The six leaves are cos/sin of alpha, beta, gamma (oracle values when run on Q). *)
Definition rotM (ca sa cb sb cg sg : T) : mat :=
  ((ca*cb*cg - sa*sg, (- sa)*cb*cg - ca*sg, sb*cg),
   (ca*cb*sg + sa*cg, (- sa)*cb*sg + ca*cg, sb*sg),
   ((- ca)*sb,        sa*sb,                cb)).

(** "if not radians: alpha *= pi/180." : [k] is the value of pi/180 *)
Definition to_radians (radians : bool) (k a : T) : T := if radians then a else a * k.

(** np.dot(rot, c) *)
Definition mvec (m : mat) (v : vec) : vec := let '(r1,r2,r3) := m in (dot r1 v, dot r2 v, dot r3 v).
(** rotate_points: one point (ndim == 1) or "[np.dot(rot, c) for c in points]" *)
Definition rotate_points (m : mat) (pts : list vec) : list vec := map (mvec m) pts.

(** matrix helpers used to state the documented z-y-z composition *)
Definition mcol (m : mat) : mat :=     (* transpose *)
  let '((a11,a12,a13),(a21,a22,a23),(a31,a32,a33)) := m in ((a11,a21,a31),(a12,a22,a32),(a13,a23,a33)).
Definition mmul (a b : mat) : mat :=
  let '(r1,r2,r3) := a in let '(c1,c2,c3) := mcol b in
  ((dot r1 c1, dot r1 c2, dot r1 c3), (dot r2 c1, dot r2 c2, dot r2 c3), (dot r3 c1, dot r3 c2, dot r3 c3)).
Definition mid : mat := ((one O, zero O, zero O), (zero O, one O, zero O), (zero O, zero O, one O)).
Definition Rz (c s : T) : mat := ((c, - s, zero O), (s, c, zero O), (zero O, zero O, one O)).
Definition Ry (c s : T) : mat := ((c, zero O, s), (zero O, one O, zero O), (- s, zero O, c)).
Definition det (m : mat) : T :=
  let '((a11,a12,a13),(a21,a22,a23),(a31,a32,a33)) := m in
  a11*(a22*a33 - a23*a32) - a12*(a21*a33 - a23*a31) + a13*(a21*a32 - a22*a31).

(** centers.mean(0): sequential sum over the members divided by their number *)
Definition vsum (l : list vec) : vec := fold_left vadd l vzero.
Definition vmean (l : list vec) : vec := vdivs (vsum l) (ofZ O (Z.of_nat (List.length l))).

(** Scatterer.translated: new.center = self.center + trans_coords;
    Scatterers.translated: every member translated by the same vector *)
Definition translated_flat (t : vec) (cs : list vec) : list vec := map (fun c => vadd c t) cs.

(** Scatterers.rotated on a composite whose members are spheres (Sphere.rotated = copy):
      com = centers.mean(0); new_centers = com + rotate_points(centers - com, a, b, g)
      member i -> member.translated(new_centers[i] - centers[i]).rotated(a, b, g)       *)
Definition new_centers (m : mat) (cs : list vec) : list vec :=
  let com := vmean cs in map (fun c => vadd com (mvec m (vsub c com))) cs.
Definition rotated_flat (m : mat) (cs : list vec) : list vec :=
  map (fun cn : vec * vec => vadd (fst cn) (vsub (snd cn) (fst cn))) (combine cs (new_centers m cs)).

(** RigidCluster.scatterers = spheres.rotated(rotation).translated(translation).scatterers *)
Definition rigid_cluster (m : mat) (t : vec) (cs : list vec) : list vec :=
  translated_flat t (rotated_flat m cs).

(** Nested composites: a Scatterers may hold Sphere members and Spheres members (whose
    .center is the mean of their members' centers, and whose rotated() is again
    Scatterers.rotated).  [Leaf c] = Sphere at c, [Node l] = Spheres / Scatterers of l. *)
Inductive scat := Leaf (c : vec) | Node (l : list scat).
Fixpoint center (s : scat) : vec :=
  match s with Leaf c => c | Node l => vmean (map center l) end.
Fixpoint translate (t : vec) (s : scat) : scat :=
  match s with Leaf c => Leaf (vadd c t) | Node l => Node (map (translate t) l) end.
Fixpoint depth (s : scat) : nat :=
  match s with Leaf _ => 0%nat | Node l => S (fold_right Nat.max 0%nat (map depth l)) end.
(** rotated(): the recursive call is on the *translated* member, so recursion is by fuel
    (fuel = depth + 1 suffices; translation keeps the depth). *)
Fixpoint rotated_fuel (fuel : nat) (m : mat) (s : scat) : scat :=
  match fuel with
  | 0%nat => s
  | S f =>
    match s with
    | Leaf c => Leaf c                                    (* Sphere.rotated: copy(self) *)
    | Node l =>
      let cs := map center l in
      let com := vmean cs in
      Node (map (fun x => let c := center x in
                          let n := vadd com (mvec m (vsub c com)) in
                          rotated_fuel f m (translate (vsub n c) x)) l)
    end
  end.
Definition rotated (m : mat) (s : scat) : scat := rotated_fuel (S (depth s)) m s.
Fixpoint leaves (s : scat) : list vec :=
  match s with Leaf c => [c] | Node l => flat_map leaves l end.
End Gen.

Arguments vec T : clear implicits. Arguments mat T : clear implicits. Arguments scat T : clear implicits.
Arguments Leaf {T}. Arguments Node {T}.

(** * The conversions, over R *)
Local Open Scope R_scope.

(** numpy.arctan2(y, x) on reals (arctan2(0,0) = 0, arctan2(0, x<0) = pi) *)
Definition atan2 (y x : R) : R :=
  if Rlt_dec 0 x then atan (y / x)
  else if Rlt_dec x 0 then (if Rle_dec 0 y then atan (y / x) + PI else atan (y / x) - PI)
  else if Rlt_dec 0 y then PI / 2 else if Rlt_dec y 0 then - (PI / 2) else 0.

(** "a % (2*np.pi)": a - floor(a / 2pi) * 2pi  (result in [0, 2pi) over the reals) *)
Definition mod2pi (a : R) : R := a - IZR (Int_part (a / (2 * PI))) * (2 * PI).

Definition vecR : Type := (R * R * R)%type.

Definition cart2sph (p : vecR) : vecR :=
  let '(x, y, z) := p in
  (sqrt (x*x + y*y + z*z), atan2 (sqrt (x*x + y*y)) z, mod2pi (atan2 y x)).
Definition sph2cart (p : vecR) : vecR :=
  let '(r, theta, phi) := p in
  (r * cos phi * sin theta, r * sin phi * sin theta, r * cos theta).
Definition cart2cyl (p : vecR) : vecR :=
  let '(x, y, z) := p in (sqrt (x*x + y*y), mod2pi (atan2 y x), z).
Definition cyl2cart (p : vecR) : vecR :=
  let '(rho, phi, z) := p in (rho * cos phi, rho * sin phi, z).
Definition cyl2sph (p : vecR) : vecR :=
  let '(rho, phi, z) := p in (sqrt (rho*rho + z*z), atan2 rho z, phi).
Definition sph2cyl (p : vecR) : vecR :=
  let '(r, theta, phi) := p in (r * sin theta, phi, r * cos theta).

(** _transformation_lut / find_transformation_function *)
Inductive csys := Cart | Sphr | Cyl.
Definition transform (a b : csys) : vecR -> vecR :=
  match a, b with
  | Cart, Sphr => cart2sph | Cart, Cyl => cart2cyl | Cart, Cart => fun p => p
  | Sphr, Cart => sph2cart | Sphr, Cyl => sph2cyl | Sphr, Sphr => fun p => p
  | Cyl, Cart => cyl2cart  | Cyl, Cyl => fun p => p | Cyl, Sphr => cyl2sph
  end.
Definition csys_of_name (s : string) : option csys :=
  if String.eqb s "cartesian" then Some Cart
  else if String.eqb s "spherical" then Some Sphr
  else if String.eqb s "cylindrical" then Some Cyl else None.
(** None = NotImplementedError *)
Definition find_transformation (a b : string) : option (vecR -> vecR) :=
  match csys_of_name a, csys_of_name b with
  | Some x, Some y => Some (transform x y) | _, _ => None end.
(** discrete skeleton of the table, executable: which function sits in which slot *)
Definition lut_slot (a b : string) : option (csys * csys) :=
  match csys_of_name a, csys_of_name b with
  | Some x, Some y => Some (x, y) | _, _ => None end.

(** rotation_matrix over R: leaves are the real cos / sin; degrees via pi/180 *)
Definition rotation_matrix (alpha beta gamma : R) (radians : bool) : mat R :=
  let a := to_radians RO radians (PI / 180) alpha in
  let b := to_radians RO radians (PI / 180) beta in
  let g := to_radians RO radians (PI / 180) gamma in
  rotM RO (cos a) (sin a) (cos b) (sin b) (cos g) (sin g).

(** flattening used by the generated evaluation goals *)
Definition mat_list {T} (m : mat T) : list T :=
  let '((a11,a12,a13),(a21,a22,a23),(a31,a32,a33)) := m in [a11;a12;a13;a21;a22;a23;a31;a32;a33].
Definition vec_list {T} (v : vec T) : list T := let '(a,b,c) := v in [a;b;c].
